(* CrcBurst.v -- the deterministic core of CRC-32C error detection.

   Crc32c.v models the checksum bit-serially: [crc_bit] is one step of the
   reflected LFSR with polynomial 0x82F63B78.  This file proves, for messages
   of ANY length and with no computation sweeps at all:

     - [crc_bit] is GF(2)-linear on all of N ([crc_bit_lxor]) and a bijection
       on [0, 2^32) ([crc_bit_inj]);
     - the raw register after a byte string is [crc_bits (8n) (r xor V)] where
       V is the string read as one little-endian number ([fold_crc_bits]),
       hence affine in (register, data) ([fold_crc_byte_affine]);
     - any alteration whose xor pattern has all its set bits inside 32
       consecutive bit positions (numbered in the order the CRC consumes them:
       bit j of byte i is position 8*i+j) changes [crc_value]
       ([crc_detects_burst]), in particular every single-bit flip, every
       single-byte overwrite and every overwrite of 1..4 consecutive bytes;
     - an alteration confined to the stored (masked) checksum is detected too;
     - the corresponding statements on the checks performed by the log reader
       ([parse_block]) and the table block reader ([read_block]). *)
From LCDB Require Import Base Crc32c BaseProofs Crc32cProofs LogFormat.
From Coq Require Import Lia ZifyBool ZifyNat ZifyN.
Local Open Scope N_scope.

Ltac Zify.zify_post_hook ::= Z.div_mod_to_equations.

#[local] Arguments N.mul : simpl never.
#[local] Arguments N.add : simpl never.
#[local] Arguments N.sub : simpl never.
#[local] Arguments N.div : simpl never.
#[local] Arguments N.modulo : simpl never.
#[local] Arguments N.ltb : simpl never.
#[local] Arguments N.eqb : simpl never.
#[local] Arguments N.pow : simpl never.
#[local] Arguments N.lxor : simpl never.
#[local] Arguments N.shiftl : simpl never.
#[local] Arguments N.shiftr : simpl never.
#[local] Arguments N.testbit : simpl never.
#[local] Arguments N.div2 : simpl never.
#[local] Arguments N.odd : simpl never.
#[local] Arguments N.of_nat : simpl never.
#[local] Arguments N.to_nat : simpl never.
#[local] Arguments crc_value : simpl never.
#[local] Arguments crc_extend : simpl never.
#[local] Arguments crc_mask : simpl never.
#[local] Arguments crc_unmask : simpl never.

(* Equalities in the boolean ring (N, lxor): compare bit by bit. *)
Ltac xor_solve :=
  apply N.bits_inj; intro;
  rewrite ?N.lxor_spec, ?N.bits_0;
  repeat match goal with
         | |- context [N.testbit ?x ?i] => destruct (N.testbit x i)
         end;
  reflexivity.

(* ------------------------------------------------------------------ *)
(* 1. Linearity of one LFSR step                                       *)
(* ------------------------------------------------------------------ *)

Lemma odd_lxor : forall a b, N.odd (N.lxor a b) = xorb (N.odd a) (N.odd b).
Proof. intros a b. rewrite <- !N.bit0_odd. apply N.lxor_spec. Qed.

Lemma div2_lxor : forall a b, N.div2 (N.lxor a b) = N.lxor (N.div2 a) (N.div2 b).
Proof. intros a b. rewrite !N.div2_spec. apply N.shiftr_lxor. Qed.

(* No range hypothesis is needed. *)
Theorem crc_bit_lxor : forall a b,
  crc_bit (N.lxor a b) = N.lxor (crc_bit a) (crc_bit b).
Proof.
  intros a b. unfold crc_bit. rewrite odd_lxor, div2_lxor.
  destruct (N.odd a), (N.odd b); cbn [xorb]; xor_solve.
Qed.

Lemma crc_bit_0 : crc_bit 0 = 0.
Proof. reflexivity. Qed.

(* [crc_bits n] = n LFSR steps. *)
Fixpoint crc_bits (n : nat) (c : N) : N :=
  match n with
  | O => c
  | S n' => crc_bits n' (crc_bit c)
  end.

Lemma crc_bits_add : forall a b c,
  crc_bits (a + b) c = crc_bits b (crc_bits a c).
Proof.
  induction a as [|a IH]; intros b c; cbn [Nat.add crc_bits].
  - reflexivity.
  - apply IH.
Qed.

Lemma crc_bits_lxor : forall n a b,
  crc_bits n (N.lxor a b) = N.lxor (crc_bits n a) (crc_bits n b).
Proof.
  induction n as [|n IH]; intros a b; cbn [crc_bits].
  - reflexivity.
  - rewrite crc_bit_lxor. apply IH.
Qed.

Lemma crc_bits_0 : forall n, crc_bits n 0 = 0.
Proof.
  induction n as [|n IH]; cbn [crc_bits]; [reflexivity|].
  rewrite crc_bit_0. exact IH.
Qed.

Lemma crc_byte_bits : forall r b, crc_byte r b = crc_bits 8 (N.lxor r b).
Proof. reflexivity. Qed.

Theorem crc_byte_lxor : forall r s b c,
  crc_byte (N.lxor r s) (N.lxor b c) = N.lxor (crc_byte r b) (crc_byte s c).
Proof.
  intros r s b c. rewrite !crc_byte_bits, <- crc_bits_lxor. f_equal. xor_solve.
Qed.

(* A step applied to an even number is a plain shift. *)
Lemma crc_bit_double : forall z, crc_bit (2 * z) = z.
Proof.
  intros z. unfold crc_bit.
  rewrite N.odd_mul. change (N.odd 2) with false. cbn [andb].
  apply N.div2_double.
Qed.

Lemma crc_bits_mul_pow2 : forall n z, crc_bits n (z * 2 ^ N.of_nat n) = z.
Proof.
  induction n as [|n IH]; intros z; cbn [crc_bits].
  - change (N.of_nat 0) with 0. rewrite N.pow_0_r. lia.
  - rewrite Nat2N.inj_succ, N.pow_succ_r'.
    replace (z * (2 * 2 ^ N.of_nat n)) with (2 * (z * 2 ^ N.of_nat n)) by lia.
    rewrite crc_bit_double. apply IH.
Qed.

(* ------------------------------------------------------------------ *)
(* 2. Each step is injective on 32-bit registers                       *)
(* ------------------------------------------------------------------ *)

(* POLY has bit 31 set while [N.div2 c] has not: the kernel is trivial. *)
Lemma crc_bit_eq0 : forall c, c < 4294967296 -> crc_bit c = 0 -> c = 0.
Proof.
  intros c Hc H. unfold crc_bit in H.
  pose proof (N.div2_odd c) as Hdo. rewrite N.div2_div in *.
  destruct (N.odd c); cbn [N.b2n] in Hdo.
  - apply N.lxor_eq in H. unfold POLY in H. lia.
  - lia.
Qed.

Theorem crc_bit_inj : forall a b,
  a < 4294967296 -> b < 4294967296 -> crc_bit a = crc_bit b -> a = b.
Proof.
  intros a b Ha Hb H. apply N.lxor_eq. apply crc_bit_eq0.
  - apply lxor_lt_32; assumption.
  - rewrite crc_bit_lxor, H. apply N.lxor_nilpotent.
Qed.

Lemma crc_bits_bound : forall n c, c < 4294967296 -> crc_bits n c < 4294967296.
Proof.
  induction n as [|n IH]; intros c Hc; cbn [crc_bits]; [exact Hc|].
  apply IH. apply crc_bit_bound. exact Hc.
Qed.

Lemma crc_bits_eq0 : forall n c, c < 4294967296 -> crc_bits n c = 0 -> c = 0.
Proof.
  induction n as [|n IH]; intros c Hc H; cbn [crc_bits] in H; [exact H|].
  apply crc_bit_eq0; [exact Hc|]. apply IH; [|exact H].
  apply crc_bit_bound. exact Hc.
Qed.

Theorem crc_bits_inj : forall n a b,
  a < 4294967296 -> b < 4294967296 -> crc_bits n a = crc_bits n b -> a = b.
Proof.
  intros n a b Ha Hb H. apply N.lxor_eq. apply (crc_bits_eq0 n).
  - apply lxor_lt_32; assumption.
  - rewrite crc_bits_lxor, H. apply N.lxor_nilpotent.
Qed.

(* No hypothesis on the data byte: only the register difference matters. *)
Theorem crc_byte_inj : forall r r' b,
  r < 4294967296 -> r' < 4294967296 -> crc_byte r b = crc_byte r' b -> r = r'.
Proof.
  intros r r' b Hr Hr' H. apply N.lxor_eq. apply (crc_bits_eq0 8).
  - apply lxor_lt_32; assumption.
  - replace (N.lxor r r') with (N.lxor (N.lxor r b) (N.lxor r' b)) by xor_solve.
    rewrite crc_bits_lxor, <- !crc_byte_bits, H. apply N.lxor_nilpotent.
Qed.

(* ------------------------------------------------------------------ *)
(* 3. The register as a function of the data read as one number        *)
(* ------------------------------------------------------------------ *)

(* The byte string as a little-endian number: bit j of byte i is bit 8*i+j,
   which is the order in which the reflected CRC consumes the bits. *)
Fixpoint le_val (d : bytes) : N :=
  match d with
  | [] => 0
  | b :: d' => N.lxor b (N.shiftl (le_val d') 8)
  end.

(* Pointwise xor (truncating to the shorter list). *)
Fixpoint xor_bytes (d e : bytes) : bytes :=
  match d, e with
  | x :: d', y :: e' => N.lxor x y :: xor_bytes d' e'
  | _, _ => []
  end.

Definition all_zero (e : bytes) : bool := forallb (N.eqb 0) e.

Theorem fold_crc_bits : forall d r,
  fold_left crc_byte d r = crc_bits (8 * length d) (N.lxor r (le_val d)).
Proof.
  induction d as [|b d IH]; intros r; cbn [fold_left le_val length].
  - change (8 * 0)%nat with 0%nat. cbn [crc_bits]. rewrite N.lxor_0_r. reflexivity.
  - rewrite IH.
    replace (8 * S (length d))%nat with (8 + 8 * length d)%nat by lia.
    rewrite crc_bits_add. f_equal.
    rewrite <- N.lxor_assoc, crc_bits_lxor, <- crc_byte_bits. f_equal.
    rewrite N.shiftl_mul_pow2. symmetry. apply (crc_bits_mul_pow2 8).
Qed.

Lemma xor_bytes_length : forall d e,
  length d = length e -> length (xor_bytes d e) = length d.
Proof.
  induction d as [|x d IH]; intros [|y e] H; cbn [xor_bytes length] in *;
    try reflexivity; try discriminate.
  f_equal. apply IH. lia.
Qed.

Lemma le_val_xor_bytes : forall d e, length d = length e ->
  le_val (xor_bytes d e) = N.lxor (le_val d) (le_val e).
Proof.
  induction d as [|x d IH]; intros [|y e] H; cbn [xor_bytes length le_val] in *;
    try discriminate.
  - reflexivity.
  - rewrite IH by lia. rewrite N.shiftl_lxor. xor_solve.
Qed.

(* The register is affine in (initial register, data). *)
Theorem fold_crc_byte_affine : forall d e r s, length d = length e ->
  fold_left crc_byte (xor_bytes d e) (N.lxor r s) =
  N.lxor (fold_left crc_byte d r) (fold_left crc_byte e s).
Proof.
  intros d e r s H.
  rewrite !fold_crc_bits, xor_bytes_length, <- H, <- crc_bits_lxor by exact H.
  f_equal. rewrite le_val_xor_bytes by exact H. xor_solve.
Qed.

Lemma le_val_repeat0 : forall n, le_val (repeat 0 n) = 0.
Proof.
  induction n as [|n IH]; cbn [repeat le_val]; [reflexivity|].
  rewrite IH, N.shiftl_0_l. reflexivity.
Qed.

(* The purely linear part: all-zero data. *)
Theorem fold_crc_byte_zeros : forall n r,
  fold_left crc_byte (repeat 0 n) r = crc_bits (8 * n) r.
Proof.
  intros n r. rewrite fold_crc_bits, repeat_length, le_val_repeat0, N.lxor_0_r.
  reflexivity.
Qed.

(* Zero data never maps a non-zero register difference to zero. *)
Theorem fold_zeros_eq0 : forall n d, d < 4294967296 ->
  fold_left crc_byte (repeat 0 n) d = 0 -> d = 0.
Proof.
  intros n d Hd H. rewrite fold_crc_byte_zeros in H.
  apply (crc_bits_eq0 _ _ Hd H).
Qed.

(* Difference of two runs over equal-length data. *)
Lemma fold_diff : forall d e r s, length d = length e ->
  N.lxor (fold_left crc_byte d r) (fold_left crc_byte e s) =
  crc_bits (8 * length d) (N.lxor (N.lxor r s) (le_val (xor_bytes d e))).
Proof.
  intros d e r s H. rewrite <- fold_crc_byte_affine by exact H.
  rewrite fold_crc_bits, xor_bytes_length by exact H. reflexivity.
Qed.

(* ------------------------------------------------------------------ *)
(* 4. Core detection theorem (no well-formedness hypotheses)           *)
(* ------------------------------------------------------------------ *)

Lemma crc_bits_burst_neq0 : forall n o m,
  (o <= n)%nat -> 0 < m -> m < 4294967296 ->
  crc_bits n (m * 2 ^ N.of_nat o) <> 0 /\ crc_bits n (m * 2 ^ N.of_nat o) < 4294967296.
Proof.
  intros n o m Ho Hm0 Hm.
  replace n with (o + (n - o))%nat by lia.
  rewrite crc_bits_add, crc_bits_mul_pow2. split.
  - intro H. apply crc_bits_eq0 in H; [lia|exact Hm].
  - apply crc_bits_bound. exact Hm.
Qed.

(* If the xor of the two slices, read as a number, is m * 2^o with a 32-bit
   non-zero m, the checksums of the two messages differ. *)
Theorem crc_detects_core : forall pre d1 d2 post m o,
  length d1 = length d2 ->
  le_val (xor_bytes d1 d2) = m * 2 ^ N.of_nat o ->
  (o <= 8 * length d1)%nat -> 0 < m -> m < 4294967296 ->
  crc_value (pre ++ d1 ++ post) <> crc_value (pre ++ d2 ++ post).
Proof.
  intros pre d1 d2 post m o Hlen HV Ho Hm0 Hm Heq.
  unfold crc_value, crc_extend in Heq.
  apply (f_equal (fun x => N.lxor x M32)) in Heq.
  rewrite !lxor_M32_involutive in Heq.
  rewrite !fold_left_app in Heq.
  set (r := fold_left crc_byte pre (N.lxor 0 M32)) in Heq.
  assert (Hd : N.lxor (fold_left crc_byte d1 r) (fold_left crc_byte d2 r) =
               crc_bits (8 * length d1) (m * 2 ^ N.of_nat o)).
  { rewrite fold_diff by exact Hlen. rewrite HV, N.lxor_nilpotent, N.lxor_0_l.
    reflexivity. }
  destruct (crc_bits_burst_neq0 (8 * length d1) o m Ho Hm0 Hm) as [Hne Hlt].
  rewrite <- Hd in Hne, Hlt.
  apply Hne.
  apply (crc_bits_eq0 (8 * length post)); [exact Hlt|].
  assert (Hx : xor_bytes post post = repeat 0 (length post)).
  { clear. induction post as [|x p IH]; cbn [xor_bytes length repeat]; [reflexivity|].
    rewrite N.lxor_nilpotent, IH. reflexivity. }
  pose proof (fold_diff post post (fold_left crc_byte d1 r) (fold_left crc_byte d2 r)
                eq_refl) as Hp.
  rewrite Hx, le_val_repeat0, N.lxor_0_r in Hp. rewrite <- Hp, Heq.
  apply N.lxor_nilpotent.
Qed.

(* ------------------------------------------------------------------ *)
(* 5. Bursts of at most 32 bits                                        *)
(* ------------------------------------------------------------------ *)

Lemma testbit_above : forall a n i, a < 2 ^ n -> n <= i -> N.testbit a i = false.
Proof.
  intros a n i Ha Hi. destruct (N.eq_dec a 0) as [->|Ha0]; [apply N.bits_0|].
  apply N.bits_above_log2.
  apply N.lt_le_trans with (m := n); [|exact Hi].
  apply N.log2_lt_pow2; [lia|exact Ha].
Qed.

Lemma lxor_byte_eq0 : forall b V, b < 256 -> N.lxor b (N.shiftl V 8) = 0 -> b = 0 /\ V = 0.
Proof.
  intros b V Hb H. apply N.lxor_eq in H. rewrite N.shiftl_mul_pow2 in H.
  change (2 ^ 8) with 256 in H. lia.
Qed.

Lemma le_val_eq0 : forall e, wf_bytes e = true -> le_val e = 0 -> all_zero e = true.
Proof.
  induction e as [|b e IH]; intros Hwf H; [reflexivity|].
  apply wf_bytes_cons in Hwf. destruct Hwf as [Hb Hwf].
  cbn [le_val] in H. apply lxor_byte_eq0 in H; [|exact Hb]. destruct H as [-> HV].
  unfold all_zero. cbn [forallb]. rewrite N.eqb_refl. cbn [andb].
  apply IH; assumption.
Qed.

Lemma le_val_bound : forall e, wf_bytes e = true -> le_val e < 2 ^ (8 * nlen e).
Proof.
  induction e as [|b e IH]; intros Hwf.
  - cbn [le_val]. unfold nlen. cbn [length]. change (N.of_nat 0) with 0.
    change (8 * 0) with 0. rewrite N.pow_0_r. lia.
  - apply wf_bytes_cons in Hwf. destruct Hwf as [Hb Hwf]. specialize (IH Hwf).
    cbn [le_val].
    assert (Hn : 8 * nlen (b :: e) = 8 + 8 * nlen e).
    { unfold nlen. cbn [length]. lia. }
    rewrite Hn. apply lxor_lt_pow2.
    + apply N.lt_le_trans with (m := 2 ^ 8); [exact Hb|].
      apply N.pow_le_mono_r; lia.
    + rewrite N.shiftl_mul_pow2, N.pow_add_r, N.mul_comm.
      apply N.mul_lt_mono_pos_l; [|exact IH].
      change (2 ^ 8) with 256. lia.
Qed.

(* The bit numbering of [le_val], for the record. *)
Lemma le_val_testbit : forall e i j, wf_bytes e = true -> j < 8 ->
  N.testbit (le_val e) (8 * N.of_nat i + j) = N.testbit (nth i e 0) j.
Proof.
  induction e as [|b e IH]; intros i j Hwf Hj.
  - cbn [le_val]. destruct i; cbn [nth]; rewrite !N.bits_0; reflexivity.
  - apply wf_bytes_cons in Hwf. destruct Hwf as [Hb Hwf].
    cbn [le_val]. rewrite N.lxor_spec. destruct i as [|i]; cbn [nth].
    + change (N.of_nat 0) with 0. replace (8 * 0 + j) with j by lia.
      rewrite N.shiftl_spec_low by exact Hj. apply xorb_false_r.
    + rewrite Nat2N.inj_succ.
      rewrite (testbit_above b 8) by (try exact Hb; lia).
      rewrite N.shiftl_spec_high' by lia.
      replace (8 * N.succ (N.of_nat i) + j - 8) with (8 * N.of_nat i + j) by lia.
      rewrite xorb_false_l. apply IH; assumption.
Qed.

(* All set bits of the pattern lie in 32 consecutive positions o .. o+31. *)
Definition burst_le_32 (e : bytes) : Prop :=
  exists o, forall i, N.testbit (le_val e) i = true -> o <= i < o + 32.

Lemma burst_decomp : forall V o,
  (forall i, N.testbit V i = true -> o <= i < o + 32) ->
  V = N.shiftr V o * 2 ^ o /\ N.shiftr V o < 4294967296.
Proof.
  intros V o H. split.
  - rewrite <- N.shiftl_mul_pow2. apply N.bits_inj. intro i.
    destruct (N.lt_ge_cases i o) as [Hlt|Hge].
    + rewrite N.shiftl_spec_low by exact Hlt.
      destruct (N.testbit V i) eqn:Hb; [|reflexivity].
      apply H in Hb. lia.
    + rewrite N.shiftl_spec_high' by exact Hge. rewrite N.shiftr_spec'.
      f_equal. lia.
  - destruct (N.eq_dec (N.shiftr V o) 0) as [->|Hne]; [lia|].
    change 4294967296 with (2 ^ 32). apply N.log2_lt_pow2; [lia|].
    pose proof (N.bit_log2 _ Hne) as Hb. rewrite N.shiftr_spec' in Hb.
    apply H in Hb. lia.
Qed.

(* Introduction rule in shift form (e.g. for concrete patterns). *)
Lemma burst_le_32_intro : forall e m o,
  le_val e = m * 2 ^ o -> m < 4294967296 -> burst_le_32 e.
Proof.
  intros e m o HV Hm. exists o. intros i Hi. rewrite HV in Hi.
  destruct (N.lt_ge_cases i o) as [Hlt|Hge].
  - rewrite N.mul_pow2_bits_low in Hi by exact Hlt. discriminate.
  - split; [exact Hge|].
    rewrite N.mul_pow2_bits_high in Hi by exact Hge.
    destruct (N.lt_ge_cases (i - o) 32) as [H32|H32]; [lia|].
    rewrite (testbit_above m 32 (i - o)) in Hi; [discriminate|exact Hm|exact H32].
Qed.

(* A 32-bit burst that is not byte aligned: bit 7 of the first byte up to
   bit 6 of the fifth. *)
Example burst_unaligned_example : burst_le_32 [128; 255; 255; 255; 127].
Proof. apply (burst_le_32_intro _ 4294967295 7); [reflexivity|lia]. Qed.

Lemma burst_shape : forall e,
  wf_bytes e = true -> all_zero e = false -> burst_le_32 e ->
  exists m o, le_val e = m * 2 ^ N.of_nat o /\ (o <= 8 * length e)%nat /\
              0 < m /\ m < 4294967296.
Proof.
  intros e Hwf Hnz [o Hb].
  destruct (burst_decomp _ _ Hb) as [HV Hm].
  set (m := N.shiftr (le_val e) o) in *.
  assert (Hne : le_val e <> 0).
  { intro H0. apply le_val_eq0 in H0; [congruence|exact Hwf]. }
  assert (Hm0 : 0 < m).
  { destruct (N.eq_dec m 0) as [E|E]; [|lia]. rewrite E in HV. lia. }
  pose proof (le_val_bound e Hwf) as HB.
  assert (Ho : o < 8 * nlen e).
  { apply (N.pow_lt_mono_r_iff 2); [lia|].
    apply N.le_lt_trans with (m := le_val e); [|exact HB].
    rewrite HV. pose proof (N.pow_nonzero 2 o). nia. }
  exists m, (N.to_nat o). rewrite N2Nat.id. repeat split; try assumption.
  unfold nlen in Ho. lia.
Qed.

(* Window injectivity: a non-zero burst pattern of any length (so also one
   not byte aligned, spread over five bytes) leaves a non-zero register. *)
Theorem burst_nonzero : forall e,
  wf_bytes e = true -> all_zero e = false -> burst_le_32 e ->
  fold_left crc_byte e 0 <> 0.
Proof.
  intros e Hwf Hnz Hb.
  destruct (burst_shape e Hwf Hnz Hb) as (m & o & HV & Ho & Hm0 & Hm).
  rewrite fold_crc_bits, N.lxor_0_l, HV.
  apply crc_bits_burst_neq0; assumption.
Qed.

(* Main theorem: a non-zero xor pattern [e] that is a burst of at most 32
   bits, applied to any slice [d] of a message of any length, changes the
   CRC.  Nothing is assumed about [pre], [d], [post]. *)
Theorem crc_detects_burst : forall pre d e post,
  length d = length e -> wf_bytes e = true -> all_zero e = false ->
  burst_le_32 e ->
  crc_value (pre ++ xor_bytes d e ++ post) <> crc_value (pre ++ d ++ post).
Proof.
  intros pre d e post Hlen Hwf Hnz Hb.
  destruct (burst_shape e Hwf Hnz Hb) as (m & o & HV & Ho & Hm0 & Hm).
  assert (Hxx : xor_bytes (xor_bytes d e) d = e).
  { clear - Hlen. revert e Hlen.
    induction d as [|x d IH]; intros [|y e] H; cbn [xor_bytes length] in *;
      try discriminate; [reflexivity|].
    rewrite IH by lia. f_equal. xor_solve. }
  apply (crc_detects_core pre (xor_bytes d e) d post m o).
  - apply xor_bytes_length. exact Hlen.
  - rewrite Hxx. exact HV.
  - rewrite xor_bytes_length by exact Hlen. rewrite Hlen. exact Ho.
  - exact Hm0.
  - exact Hm.
Qed.

Lemma xor_bytes_wf : forall a b, wf_bytes a = true -> wf_bytes b = true ->
  wf_bytes (xor_bytes a b) = true.
Proof.
  induction a as [|x a IH]; intros [|y b] Ha Hb'; cbn [xor_bytes]; try reflexivity.
  apply wf_bytes_cons in Ha. apply wf_bytes_cons in Hb'.
  apply wf_bytes_cons. split; [|apply IH; tauto].
  change 256 with (2 ^ 8). apply lxor_lt_pow2; tauto.
Qed.

Lemma xor_bytes_back : forall a b, length a = length b ->
  xor_bytes b (xor_bytes a b) = a.
Proof.
  induction a as [|x a IH]; intros [|y b] H; cbn [xor_bytes length] in *;
    try discriminate; [reflexivity|].
  rewrite IH by lia. f_equal. xor_solve.
Qed.

Lemma xor_bytes_all_zero : forall a b, length a = length b ->
  all_zero (xor_bytes a b) = true -> a = b.
Proof.
  induction a as [|x a IH]; intros [|y b] H Hz; cbn [xor_bytes length] in *;
    try discriminate; [reflexivity|].
  unfold all_zero in Hz. cbn [forallb] in Hz. apply andb_true_iff in Hz.
  destruct Hz as [Hx Hz]. apply N.eqb_eq in Hx. symmetry in Hx. apply N.lxor_eq in Hx.
  f_equal; [exact Hx|]. apply IH; [lia|exact Hz].
Qed.

(* Overwriting a slice by different well-formed contents of the same length
   whose difference is a burst of at most 32 bits. *)
Theorem crc_detects_burst_overwrite : forall pre d d' post,
  length d' = length d -> wf_bytes d = true -> wf_bytes d' = true -> d' <> d ->
  burst_le_32 (xor_bytes d' d) ->
  crc_value (pre ++ d' ++ post) <> crc_value (pre ++ d ++ post).
Proof.
  intros pre d d' post Hlen Hw Hw' Hne Hb.
  pose proof (crc_detects_burst pre d (xor_bytes d' d) post) as H.
  rewrite xor_bytes_back in H by exact Hlen.
  apply H.
  - rewrite xor_bytes_length; [symmetry|]; exact Hlen.
  - apply xor_bytes_wf; assumption.
  - destruct (all_zero (xor_bytes d' d)) eqn:E; [|reflexivity].
    exfalso. apply Hne. apply xor_bytes_all_zero; assumption.
  - exact Hb.
Qed.

(* The same, stated on two whole messages. *)
Theorem crc_detects_burst_diff : forall m1 m2,
  length m1 = length m2 -> wf_bytes m1 = true -> wf_bytes m2 = true ->
  m1 <> m2 -> burst_le_32 (xor_bytes m1 m2) ->
  crc_value m1 <> crc_value m2.
Proof.
  intros m1 m2 Hlen Hw1 Hw2 Hne Hb.
  pose proof (crc_detects_burst_overwrite [] m2 m1 [] Hlen Hw2 Hw1 Hne Hb) as H.
  rewrite !app_nil_r in H. exact H.
Qed.

(* ------------------------------------------------------------------ *)
(* 6. Byte-aligned windows of 1..4 bytes, bit flips, overwrites        *)
(* ------------------------------------------------------------------ *)

Lemma burst_le_32_short : forall e,
  wf_bytes e = true -> (length e <= 4)%nat -> burst_le_32 e.
Proof.
  intros e Hwf Hlen. exists 0. intros i Hi. split; [lia|].
  destruct (N.lt_ge_cases i 32) as [Hlt|Hge]; [lia|].
  rewrite (testbit_above (le_val e) 32 i) in Hi; [discriminate| |exact Hge].
  apply N.lt_le_trans with (m := 2 ^ (8 * nlen e)); [apply le_val_bound; exact Hwf|].
  apply N.pow_le_mono_r; [lia|]. unfold nlen. lia.
Qed.

(* Window injectivity in the form of the task statement: a non-zero pattern
   of at most four bytes leaves a non-zero register. *)
Theorem window_nonzero : forall e,
  (length e <= 4)%nat -> wf_bytes e = true -> all_zero e = false ->
  fold_left crc_byte e 0 <> 0.
Proof.
  intros e Hlen Hwf Hnz H. rewrite fold_crc_bits, N.lxor_0_l in H.
  assert (Hb : le_val e < 4294967296).
  { change 4294967296 with (2 ^ 32).
    apply N.lt_le_trans with (m := 2 ^ (8 * nlen e)); [apply le_val_bound; exact Hwf|].
    apply N.pow_le_mono_r; [lia|]. unfold nlen. lia. }
  apply crc_bits_eq0 in H; [|exact Hb].
  apply le_val_eq0 in H; [congruence|exact Hwf].
Qed.

Theorem crc_detects_window : forall pre d e post,
  (1 <= length e <= 4)%nat -> length d = length e ->
  wf_bytes e = true -> all_zero e = false ->
  crc_value (pre ++ xor_bytes d e ++ post) <> crc_value (pre ++ d ++ post).
Proof.
  intros pre d e post Hl Hlen Hwf Hnz.
  apply crc_detects_burst; try assumption.
  apply burst_le_32_short; [exact Hwf|lia].
Qed.

(* Overwriting 1..4 consecutive bytes by different contents. *)
Theorem crc_detects_overwrite : forall pre d d' post,
  length d' = length d -> (length d <= 4)%nat ->
  wf_bytes d = true -> wf_bytes d' = true -> d' <> d ->
  crc_value (pre ++ d' ++ post) <> crc_value (pre ++ d ++ post).
Proof.
  intros pre d d' post Hlen Hl Hw Hw' Hne.
  apply crc_detects_burst_overwrite; try assumption.
  apply burst_le_32_short; [apply xor_bytes_wf; assumption|].
  rewrite xor_bytes_length by exact Hlen. lia.
Qed.

(* One byte replaced by a different byte value. *)
Theorem crc_detects_byte_overwrite : forall pre b b' post,
  b < 256 -> b' < 256 -> b' <> b ->
  crc_value (pre ++ b' :: post) <> crc_value (pre ++ b :: post).
Proof.
  intros pre b b' post Hb Hb' Hne.
  apply (crc_detects_overwrite pre [b] [b'] post).
  - reflexivity.
  - cbn [length]. lia.
  - apply wf_bytes_cons. split; [exact Hb|reflexivity].
  - apply wf_bytes_cons. split; [exact Hb'|reflexivity].
  - congruence.
Qed.

(* Bit j (0..7) of one byte flipped; nothing is assumed about the byte. *)
Theorem crc_detects_bit_flip : forall pre b j post,
  j < 8 ->
  crc_value (pre ++ N.lxor b (2 ^ j) :: post) <> crc_value (pre ++ b :: post).
Proof.
  intros pre b j post Hj.
  assert (Hp : 2 ^ j < 256).
  { change 256 with (2 ^ 8). apply N.pow_lt_mono_r; lia. }
  assert (Hp0 : 2 ^ j <> 0) by (apply N.pow_nonzero; lia).
  apply (crc_detects_window pre [b] [2 ^ j] post).
  - cbn [length]. lia.
  - reflexivity.
  - apply wf_bytes_cons. split; [exact Hp|reflexivity].
  - unfold all_zero. cbn [forallb]. rewrite andb_true_r. apply N.eqb_neq. lia.
Qed.

(* The bound 32 is optimal: the generator polynomial itself (33 bits,
   1 + 2 * POLY, as the five bytes below) xored in at any byte position of any
   message leaves the CRC unchanged. *)
Theorem crc_burst_33_undetected : forall pre d post, length d = 5%nat ->
  crc_value (pre ++ xor_bytes d [241; 118; 236; 5; 1] ++ post) =
  crc_value (pre ++ d ++ post).
Proof.
  intros pre d post Hlen. unfold crc_value, crc_extend. f_equal.
  rewrite !fold_left_app. f_equal.
  set (r := fold_left crc_byte pre (N.lxor 0 M32)).
  rewrite <- (N.lxor_0_r r) at 1.
  rewrite fold_crc_byte_affine by exact Hlen.
  replace (fold_left crc_byte [241; 118; 236; 5; 1] 0) with 0 by (vm_compute; reflexivity).
  apply N.lxor_0_r.
Qed.

(* ------------------------------------------------------------------ *)
(* 7. The stored (masked) checksum field                               *)
(* ------------------------------------------------------------------ *)

Lemma le32_sum : forall x c0 c1 c2 c3, x < 4294967296 ->
  le32 x = [c0; c1; c2; c3] ->
  c0 + 256 * c1 + 65536 * c2 + 16777216 * c3 = x.
Proof.
  intros x c0 c1 c2 c3 Hx H. pose proof (de32_le32 x [] Hx) as Hd.
  rewrite app_nil_r, H in Hd. cbn [de32] in Hd. injection Hd as Hd. exact Hd.
Qed.

(* Reading back the stored field of an unaltered record gives the CRC. *)
Lemma stored_crc_unmask : forall v c0 c1 c2 c3, v < 4294967296 ->
  le32 (crc_mask v) = [c0; c1; c2; c3] ->
  crc_unmask (c0 + 256 * c1 + 65536 * c2 + 16777216 * c3) = v.
Proof.
  intros v c0 c1 c2 c3 Hv H.
  rewrite (le32_sum _ _ _ _ _ (crc_mask_bound v) H). apply crc_unmask_mask. exact Hv.
Qed.

(* Any other four well-formed bytes in the checksum field unmask to a
   different value: mask/unmask and le32/de32 are bijections. *)
Lemma stored_crc_altered : forall v c0 c1 c2 c3 c0' c1' c2' c3',
  le32 (crc_mask v) = [c0; c1; c2; c3] ->
  c0' < 256 -> c1' < 256 -> c2' < 256 -> c3' < 256 ->
  [c0'; c1'; c2'; c3'] <> [c0; c1; c2; c3] ->
  crc_unmask (c0' + 256 * c1' + 65536 * c2' + 16777216 * c3') <> v.
Proof.
  intros v c0 c1 c2 c3 c0' c1' c2' c3' H H0 H1 H2 H3 Hne Heq.
  apply Hne. rewrite <- H, <- Heq.
  rewrite crc_mask_unmask by lia.
  symmetry. apply le32_de32; try assumption. reflexivity.
Qed.

(* ------------------------------------------------------------------ *)
(* 8. Log records (LogFormat.v)                                        *)
(* ------------------------------------------------------------------ *)

(* The comparison made by read_physical_record / [parse_block] on a header
   c0 c1 c2 c3 _ _ ty followed by [payload]. *)
Definition log_crc_ok (c0 c1 c2 c3 ty : N) (payload : bytes) : bool :=
  crc_value (ty :: payload) =? crc_unmask (c0 + 256 * c1 + 65536 * c2 + 16777216 * c3).

Lemma phys_record_shape : forall ty payload,
  phys_record ty payload =
  le32 (crc_mask (crc_value (ty :: payload))) ++
  [nlen payload mod 256; nlen payload / 256; ty] ++ payload.
Proof. intros. unfold phys_record. rewrite crc_value_cons_gen. reflexivity. Qed.

Lemma log_crc_ok_iff : forall ty payload c0 c1 c2 c3 ty' payload',
  wf_bytes (ty :: payload) = true ->
  le32 (crc_mask (crc_value (ty :: payload))) = [c0; c1; c2; c3] ->
  log_crc_ok c0 c1 c2 c3 ty' payload' = true <->
  crc_value (ty' :: payload') = crc_value (ty :: payload).
Proof.
  intros ty payload c0 c1 c2 c3 ty' payload' Hwf Hc. unfold log_crc_ok.
  rewrite (stored_crc_unmask _ _ _ _ _ (crc_value_bound _ Hwf) Hc).
  apply N.eqb_eq.
Qed.

(* Altering the checksummed part [ty :: payload] of a written record by a
   burst of at most 32 bits (lengths unchanged) makes the reader's check fail. *)
Theorem log_record_alteration_detected : forall ty payload ty' payload' c0 c1 c2 c3,
  wf_bytes (ty :: payload) = true -> wf_bytes (ty' :: payload') = true ->
  length payload' = length payload ->
  ty' :: payload' <> ty :: payload ->
  burst_le_32 (xor_bytes (ty' :: payload') (ty :: payload)) ->
  le32 (crc_mask (crc_extend (crc_value [ty]) payload)) = [c0; c1; c2; c3] ->
  log_crc_ok c0 c1 c2 c3 ty' payload' = false.
Proof.
  intros ty payload ty' payload' c0 c1 c2 c3 Hwf Hwf' Hlen Hne Hb Hc.
  rewrite crc_value_cons_gen in Hc.
  destruct (log_crc_ok c0 c1 c2 c3 ty' payload') eqn:E; [|reflexivity].
  exfalso. apply (log_crc_ok_iff ty payload) in E; [|exact Hwf|exact Hc].
  revert E. apply crc_detects_burst_diff; try assumption.
  cbn [length]. f_equal. exact Hlen.
Qed.

(* One byte (the type byte or any payload byte) overwritten. *)
Theorem log_record_byte_overwrite_detected :
  forall ty payload pre b post b' ty' payload' c0 c1 c2 c3,
  wf_bytes (ty :: payload) = true ->
  ty :: payload = pre ++ b :: post -> ty' :: payload' = pre ++ b' :: post ->
  b' < 256 -> b' <> b ->
  le32 (crc_mask (crc_extend (crc_value [ty]) payload)) = [c0; c1; c2; c3] ->
  log_crc_ok c0 c1 c2 c3 ty' payload' = false.
Proof.
  intros ty payload pre b post b' ty' payload' c0 c1 c2 c3 Hwf E E' Hb' Hne Hc.
  rewrite crc_value_cons_gen in Hc.
  destruct (log_crc_ok c0 c1 c2 c3 ty' payload') eqn:Hok; [|reflexivity].
  exfalso. apply (log_crc_ok_iff ty payload) in Hok; [|exact Hwf|exact Hc].
  revert Hok. rewrite E, E'.
  rewrite E in Hwf. apply wf_bytes_app in Hwf. destruct Hwf as [_ Hwf].
  apply wf_bytes_cons in Hwf. destruct Hwf as [Hb _].
  apply crc_detects_byte_overwrite; assumption.
Qed.

(* One bit flipped. *)
Theorem log_record_bit_flip_detected :
  forall ty payload pre b post j ty' payload' c0 c1 c2 c3,
  wf_bytes (ty :: payload) = true ->
  ty :: payload = pre ++ b :: post ->
  ty' :: payload' = pre ++ N.lxor b (2 ^ j) :: post -> j < 8 ->
  le32 (crc_mask (crc_extend (crc_value [ty]) payload)) = [c0; c1; c2; c3] ->
  log_crc_ok c0 c1 c2 c3 ty' payload' = false.
Proof.
  intros ty payload pre b post j ty' payload' c0 c1 c2 c3 Hwf E E' Hj Hc.
  rewrite crc_value_cons_gen in Hc.
  destruct (log_crc_ok c0 c1 c2 c3 ty' payload') eqn:Hok; [|reflexivity].
  exfalso. apply (log_crc_ok_iff ty payload) in Hok; [|exact Hwf|exact Hc].
  revert Hok. rewrite E, E'. apply crc_detects_bit_flip. exact Hj.
Qed.

(* Only the four stored checksum bytes altered. *)
Theorem log_record_crc_field_alteration_detected :
  forall ty payload c0 c1 c2 c3 c0' c1' c2' c3',
  wf_bytes (ty :: payload) = true ->
  le32 (crc_mask (crc_extend (crc_value [ty]) payload)) = [c0; c1; c2; c3] ->
  c0' < 256 -> c1' < 256 -> c2' < 256 -> c3' < 256 ->
  [c0'; c1'; c2'; c3'] <> [c0; c1; c2; c3] ->
  log_crc_ok c0' c1' c2' c3' ty payload = false.
Proof.
  intros ty payload c0 c1 c2 c3 c0' c1' c2' c3' Hwf Hc H0 H1 H2 H3 Hne.
  rewrite crc_value_cons_gen in Hc. unfold log_crc_ok.
  apply N.eqb_neq. intro Heq. symmetry in Heq. revert Heq.
  apply (stored_crc_altered _ c0 c1 c2 c3); assumption.
Qed.

(* The reader: a buffer starting with a header whose check fails yields a
   bad-record event and no record for it. *)
Lemma take_n_nlen_app' : forall (s rest : bytes), take_n (nlen s) (s ++ rest) = s.
Proof.
  intros s rest. unfold take_n, nlen. rewrite Nat2N.id.
  rewrite firstn_app, Nat.sub_diag, firstn_all. cbn [firstn]. apply app_nil_r.
Qed.

Theorem parse_block_crc_mismatch : forall f eof c0 c1 c2 c3 a b ty payload tail,
  a + 256 * b = nlen payload ->
  log_crc_ok c0 c1 c2 c3 ty payload = false ->
  exists r,
    parse_block (S f) true eof (c0 :: c1 :: c2 :: c3 :: a :: b :: ty :: payload ++ tail)
    = PBad r :: (if eof then [PEof] else []).
Proof.
  intros f eof c0 c1 c2 c3 a b ty payload tail Hlen Hbad.
  set (buf := c0 :: c1 :: c2 :: c3 :: a :: b :: ty :: payload ++ tail).
  assert (Hsz : nlen buf = 7 + nlen payload + nlen tail).
  { unfold buf, nlen. cbn [length]. rewrite app_length. lia. }
  unfold buf at 1. cbn [parse_block]. fold buf.
  change HEADER with 7.
  replace (nlen buf <? 7) with false by lia.
  cbv zeta.
  replace (nlen buf <? 7 + (a + 256 * b)) with false by lia.
  destruct ((ty =? T_ZERO) && (a + 256 * b =? 0)).
  - eexists. reflexivity.
  - rewrite Hlen, take_n_nlen_app'.
    unfold log_crc_ok in Hbad. rewrite Hbad. cbn [negb andb].
    eexists. reflexivity.
Qed.

(* Put together: the bytes written by [phys_record ty payload], with the
   checksummed part altered by a burst of at most 32 bits, are rejected by
   the reader whatever follows in the block. *)
Theorem log_reader_rejects_altered_record :
  forall f eof ty payload ty' payload' c0 c1 c2 c3 a b tail,
  wf_bytes (ty :: payload) = true -> wf_bytes (ty' :: payload') = true ->
  length payload' = length payload ->
  ty' :: payload' <> ty :: payload ->
  burst_le_32 (xor_bytes (ty' :: payload') (ty :: payload)) ->
  nlen payload < 65536 ->
  phys_record ty payload = c0 :: c1 :: c2 :: c3 :: a :: b :: ty :: payload ->
  exists r,
    parse_block (S f) true eof (c0 :: c1 :: c2 :: c3 :: a :: b :: ty' :: payload' ++ tail)
    = PBad r :: (if eof then [PEof] else []).
Proof.
  intros f eof ty payload ty' payload' c0 c1 c2 c3 a b tail
         Hwf Hwf' Hlen Hne Hb Hsz Hrec.
  unfold phys_record, le32 in Hrec. cbn [app] in Hrec.
  injection Hrec as E0 E1 E2 E3 Ea Eb.
  apply parse_block_crc_mismatch.
  - subst a b. unfold nlen in *. rewrite Hlen. lia.
  - apply (log_record_alteration_detected ty payload); try assumption.
    unfold le32. subst c0 c1 c2 c3. reflexivity.
Qed.

(* ------------------------------------------------------------------ *)
(* 9. Table blocks: data ++ [type] ++ le32 (masked crc)                *)
(* ------------------------------------------------------------------ *)

(* The comparison made by ldb_read_block / [read_block] (TableFormat.v) when
   verification is on; [data_ty] is the block contents followed by the type
   byte. *)
Definition table_crc_ok (c0 c1 c2 c3 : N) (data_ty : bytes) : bool :=
  crc_unmask (c0 + 256 * c1 + 65536 * c2 + 16777216 * c3) =? crc_value data_ty.

Lemma table_crc_ok_iff : forall data ty c0 c1 c2 c3 data_ty',
  wf_bytes (data ++ [ty]) = true ->
  le32 (crc_mask (crc_extend (crc_value data) [ty])) = [c0; c1; c2; c3] ->
  table_crc_ok c0 c1 c2 c3 data_ty' = true <->
  crc_value data_ty' = crc_value (data ++ [ty]).
Proof.
  intros data ty c0 c1 c2 c3 data_ty' Hwf Hc. unfold table_crc_ok.
  rewrite crc_value_app in Hc.
  rewrite (stored_crc_unmask _ _ _ _ _ (crc_value_bound _ Hwf) Hc).
  rewrite N.eqb_eq. split; intro H; symmetry; exact H.
Qed.

Theorem table_block_alteration_detected : forall data ty data_ty' c0 c1 c2 c3,
  wf_bytes (data ++ [ty]) = true -> wf_bytes data_ty' = true ->
  length data_ty' = length (data ++ [ty]) ->
  data_ty' <> data ++ [ty] ->
  burst_le_32 (xor_bytes data_ty' (data ++ [ty])) ->
  le32 (crc_mask (crc_extend (crc_value data) [ty])) = [c0; c1; c2; c3] ->
  table_crc_ok c0 c1 c2 c3 data_ty' = false.
Proof.
  intros data ty data_ty' c0 c1 c2 c3 Hwf Hwf' Hlen Hne Hb Hc.
  destruct (table_crc_ok c0 c1 c2 c3 data_ty') eqn:E; [|reflexivity].
  exfalso. apply (table_crc_ok_iff data ty) in E; [|exact Hwf|exact Hc].
  revert E. apply crc_detects_burst_diff; assumption.
Qed.

Theorem table_block_byte_overwrite_detected :
  forall data ty pre b post b' c0 c1 c2 c3,
  wf_bytes (data ++ [ty]) = true ->
  data ++ [ty] = pre ++ b :: post -> b' < 256 -> b' <> b ->
  le32 (crc_mask (crc_extend (crc_value data) [ty])) = [c0; c1; c2; c3] ->
  table_crc_ok c0 c1 c2 c3 (pre ++ b' :: post) = false.
Proof.
  intros data ty pre b post b' c0 c1 c2 c3 Hwf E Hb' Hne Hc.
  destruct (table_crc_ok c0 c1 c2 c3 (pre ++ b' :: post)) eqn:Hok; [|reflexivity].
  exfalso. apply (table_crc_ok_iff data ty) in Hok; [|exact Hwf|exact Hc].
  revert Hok. rewrite E.
  rewrite E in Hwf. apply wf_bytes_app in Hwf. destruct Hwf as [_ Hwf].
  apply wf_bytes_cons in Hwf. destruct Hwf as [Hb _].
  apply crc_detects_byte_overwrite; assumption.
Qed.

Theorem table_block_bit_flip_detected :
  forall data ty pre b post j c0 c1 c2 c3,
  wf_bytes (data ++ [ty]) = true ->
  data ++ [ty] = pre ++ b :: post -> j < 8 ->
  le32 (crc_mask (crc_extend (crc_value data) [ty])) = [c0; c1; c2; c3] ->
  table_crc_ok c0 c1 c2 c3 (pre ++ N.lxor b (2 ^ j) :: post) = false.
Proof.
  intros data ty pre b post j c0 c1 c2 c3 Hwf E Hj Hc.
  destruct (table_crc_ok c0 c1 c2 c3 (pre ++ N.lxor b (2 ^ j) :: post)) eqn:Hok;
    [|reflexivity].
  exfalso. apply (table_crc_ok_iff data ty) in Hok; [|exact Hwf|exact Hc].
  revert Hok. rewrite E. apply crc_detects_bit_flip. exact Hj.
Qed.

Theorem table_block_crc_field_alteration_detected :
  forall data ty c0 c1 c2 c3 c0' c1' c2' c3',
  wf_bytes (data ++ [ty]) = true ->
  le32 (crc_mask (crc_extend (crc_value data) [ty])) = [c0; c1; c2; c3] ->
  c0' < 256 -> c1' < 256 -> c2' < 256 -> c3' < 256 ->
  [c0'; c1'; c2'; c3'] <> [c0; c1; c2; c3] ->
  table_crc_ok c0' c1' c2' c3' (data ++ [ty]) = false.
Proof.
  intros data ty c0 c1 c2 c3 c0' c1' c2' c3' Hwf Hc H0 H1 H2 H3 Hne.
  rewrite crc_value_app in Hc. unfold table_crc_ok.
  apply N.eqb_neq. apply (stored_crc_altered _ c0 c1 c2 c3); assumption.
Qed.

Print Assumptions crc_detects_burst.
Print Assumptions crc_detects_window.
Print Assumptions crc_detects_bit_flip.
Print Assumptions crc_detects_byte_overwrite.
Print Assumptions window_nonzero.
Print Assumptions burst_nonzero.
Print Assumptions crc_burst_33_undetected.
Print Assumptions log_reader_rejects_altered_record.
Print Assumptions log_record_crc_field_alteration_detected.
Print Assumptions table_block_alteration_detected.
Print Assumptions table_block_crc_field_alteration_detected.
