(* Properties_C18.v -- C18: decoders are total and memory-safe on arbitrary bytes.
   Every decoder of the model is a total Gallina function (termination is checked by Coq's
   guard condition; fuelled loops carry fuel-sufficiency lemmas), and the table-layer decoders
   perform every memory access of the C code as a CHECKED access returning the distinguished
   outcome OOB: "never OOB, for ALL byte strings" is the memory-safety theorem.  That the C code
   performs the same accesses is established by the differential runs under ASan/UBSan. *)
From LCDB Require Import Base Varint Crc32c LogFormat Batch Edit Block Trie Filter Snappy TableFormat.
From LCDB Require Import VarintProofs LogFormatProofs BlockProofs BlockIterProofs BlockSeekProofs FilterProofs FilterBlockProofs SnappyProofs TableProofs TableBuildProofs.
Local Open Scope N_scope.

Theorem C18_block_iterator_safe :
  forall (cmp : bytes -> bytes -> comparison) (is_internal : bool) (b : bytes) (ops : list iop),
  block_run cmp is_internal b ops <> OOB.
Proof. exact block_run_safe. Qed.
Print Assumptions C18_block_iterator_safe.

Theorem C18_filter_reader_safe :
  forall (fmatch : bytes -> bytes -> res bool), (forall f k, fmatch f k <> OOB) ->
  forall (blockbytes : bytes) (off : N) (key : bytes), filter_block_matches fmatch blockbytes off key <> OOB.
Proof. exact filter_block_matches_safe. Qed.
Print Assumptions C18_filter_reader_safe.

Theorem C18_bloom_match_safe :
  forall (hashf : bytes -> N) (filter key : bytes), bloom_match_with hashf filter key <> OOB.
Proof. exact bloom_match_safe. Qed.
Print Assumptions C18_bloom_match_safe.

Theorem C18_snappy_decode_safe : forall x : bytes, snappy_decode x <> OOB.
Proof. exact snappy_decode_safe. Qed.
Print Assumptions C18_snappy_decode_safe.

Theorem C18_footer_decode_safe : forall l : bytes, footer_decode l <> OOB.
Proof. exact footer_decode_safe. Qed.
Print Assumptions C18_footer_decode_safe.

Theorem C18_read_block_safe :
  forall (file : bytes) (verify : bool) (h : handle), read_block file (nlen file) verify h <> OOB.
Proof. exact read_block_safe. Qed.
Print Assumptions C18_read_block_safe.

Theorem C18_table_iterator_safe :
  forall (cmp : bytes -> bytes -> comparison) (is_internal has_filter paranoid verify : bool)
         (file : bytes) (ops : list iop),
  table_run cmp is_internal has_filter paranoid verify file ops <> OOB.
Proof. exact table_iterator_safe. Qed.
Print Assumptions C18_table_iterator_safe.

Theorem C18_table_get_safe :
  forall (cmp : bytes -> bytes -> comparison) (is_internal has_filter : bool)
         (fmatch : bytes -> bytes -> res bool), (forall f k, fmatch f k <> OOB) ->
  forall (paranoid verify : bool) (file k : bytes),
  table_lookup cmp is_internal has_filter fmatch paranoid verify file k <> OOB.
Proof. exact table_lookup_safe. Qed.
Print Assumptions C18_table_get_safe.

(* Varint readers consume at most 5 / 10 bytes of ANY input and return in-range values. *)
Theorem C18_varint32_read_bounded : forall l v rest,
  varint32_read l = Some (v, rest) ->
  v < 4294967296 /\ exists pre, l = pre ++ rest /\ (1 <= length pre <= 5)%nat.
Proof. exact varint32_read_spec_gen. Qed.
Print Assumptions C18_varint32_read_bounded.

Theorem C18_varint64_read_bounded : forall l v rest,
  varint64_read l = Some (v, rest) ->
  v < 18446744073709551616 /\ exists pre, l = pre ++ rest /\ (1 <= length pre <= 10)%nat.
Proof. exact varint64_read_spec_gen. Qed.
Print Assumptions C18_varint64_read_bounded.

(* The log reader never invents bytes whatever it is fed, and its fuel always suffices. *)
Theorem C18_log_reader_no_invention : forall f r, In (Rec r) (read_log f) ->
  exists frags, r = concat frags /\ Forall (fun p => In p (verified_payloads f)) frags.
Proof. exact read_log_no_invention_structural. Qed.
Print Assumptions C18_log_reader_no_invention.

Theorem C18_log_parse_fuel : forall f c e buf, (length buf < f)%nat ->
  parse_block f c e buf = parse_block (S (length buf)) c e buf.
Proof. exact parse_block_fuel_ok. Qed.
Print Assumptions C18_log_parse_fuel.
