(* LtsProofs.v -- invariants of the concurrency model Lts.v and the theorems behind C08 / C09 / C04(b).
   See the header of Lts.v for the atomicity assumptions (A1)-(A6) of the model. *)
From Coq Require Import List NArith Bool Arith Lia.
Require Import ZifyBool ZifyNat ZifyN.
Import ListNotations.
From LCDB Require Import Lts.

(* ================================================================ basics *)
Lemma upd_eq : forall A (f : nat -> A) t v, upd f t v t = v.
Proof. intros. unfold upd. rewrite Nat.eqb_refl. reflexivity. Qed.
Lemma upd_neq : forall A (f : nat -> A) t v x, x <> t -> upd f t v x = f x.
Proof. intros A f t v x Hne. unfold upd. destruct (Nat.eqb_spec x t) as [->|_]; [contradiction|reflexivity]. Qed.

Lemma in_queue_In : forall q t, in_queue q t = true <-> In t (map q_tid q).
Proof.
  induction q as [|e q IH]; intros t; cbn [in_queue existsb map In].
  - split; [discriminate|tauto].
  - unfold in_queue in IH. rewrite orb_true_iff, IH, Nat.eqb_eq. tauto.
Qed.
Lemma in_queue_false : forall q t, in_queue q t = false <-> ~ In t (map q_tid q).
Proof.
  intros q t. rewrite <- in_queue_In. destruct (in_queue q t); split; intro H; congruence.
Qed.
Lemma in_queue_app : forall q1 q2 t, in_queue (q1 ++ q2) t = in_queue q1 t || in_queue q2 t.
Proof. intros. unfold in_queue. apply existsb_app. Qed.
Lemma is_head_in_queue : forall q t, is_head q t = true -> in_queue q t = true.
Proof. intros [|e q] t H; cbn in *; [discriminate|]. rewrite H. reflexivity. Qed.
Lemma is_head_app : forall q e t, is_head (q ++ [e]) t = match q with [] => Nat.eqb (q_tid e) t | _ => is_head q t end.
Proof. intros [|x q] e t; reflexivity. Qed.
Lemma is_head_unique : forall q t t', is_head q t = true -> is_head q t' = true -> t = t'.
Proof. intros [|e q] t t' H1 H2; cbn in *; [discriminate|]. apply Nat.eqb_eq in H1, H2. congruence. Qed.

Lemma NoDup_app_l : forall A (l1 l2 : list A), NoDup (l1 ++ l2) -> NoDup l1.
Proof. induction l1 as [|a l1 IH]; intros l2 H; [constructor|]. inversion H as [|? ? Hn Hd]; subst. constructor; [|eauto]. intro Hi; apply Hn, in_or_app; auto. Qed.
Lemma NoDup_app_r : forall A (l1 l2 : list A), NoDup (l1 ++ l2) -> NoDup l2.
Proof. induction l1 as [|a l1 IH]; intros l2 H; [exact H|]. inversion H; subst; eauto. Qed.
Lemma NoDup_app_disj : forall A (l1 l2 : list A) x, NoDup (l1 ++ l2) -> In x l1 -> In x l2 -> False.
Proof.
  induction l1 as [|a l1 IH]; intros l2 x H H1 H2; [contradiction|].
  inversion H as [|? ? Hn Hd]; subst. destruct H1 as [->|H1]; [apply Hn, in_or_app; auto|eauto].
Qed.

Lemma map_firstn_skipn : forall A B (f : A -> B) n l, map f l = map f (firstn n l) ++ map f (skipn n l).
Proof. intros. rewrite <- map_app, firstn_skipn. reflexivity. Qed.

Lemma in_queue_split : forall q n t, in_queue q t = in_queue (firstn n q) t || in_queue (skipn n q) t.
Proof. intros. rewrite <- in_queue_app, firstn_skipn. reflexivity. Qed.

Lemma firstn_app_le : forall A (l x : list A) q, q <= length l -> firstn q (l ++ x) = firstn q l.
Proof. intros A l x q H. rewrite firstn_app. replace (q - length l) with 0 by lia. cbn. apply app_nil_r. Qed.

(* ================================================================ queue structure *)
Definition queued_pc (p : pc) : bool :=
  match p with PCheck | PWaitCv | PRoomWait | PLog _ | PLogged _ => true | _ => false end.
Definition head_only_pc (p : pc) : bool :=
  match p with PRoomWait | PLog _ | PLogged _ => true | _ => false end.

Record InvQ (s : lstate) : Prop := mkInvQ {
  q1 : forall t, in_queue (l_queue s) t = queued_pc (l_pc s t);
  q2 : NoDup (map q_tid (l_queue s));
  q3 : forall t, head_only_pc (l_pc s t) = true -> is_head (l_queue s) t = true;
  q4 : forall t n, l_pc s t = PLog n \/ l_pc s t = PLogged n -> group_ok (l_queue s) n = true;
  q5 : forall t, l_pc s t = PWaitCv -> is_head (l_queue s) t = false;
  q6 : forall t, is_thread s t = false -> l_pc s t = PIdle
}.

Lemma mark_group_out : forall g f l ok x, ~ In x (map q_tid g) -> mark_group f l ok g x = f x.
Proof.
  induction g as [|e g IH]; intros f l ok x Hn; cbn [mark_group]; [reflexivity|].
  cbn [map In] in Hn.
  destruct (Nat.eqb (q_tid e) l); [apply IH; tauto|].
  rewrite upd_neq by (intro; subst; tauto). apply IH; tauto.
Qed.
Lemma mark_group_leader : forall g f l ok, mark_group f l ok g l = f l.
Proof.
  induction g as [|e g IH]; intros f l ok; cbn [mark_group]; [reflexivity|].
  destruct (Nat.eqb_spec (q_tid e) l) as [He|He]; [apply IH|].
  rewrite upd_neq by congruence. apply IH.
Qed.
Lemma mark_group_in : forall g f l ok e, NoDup (map q_tid g) -> In e g -> q_tid e <> l ->
  mark_group f l ok g (q_tid e) = mark_done (is_flush e) ok (f (q_tid e)).
Proof.
  induction g as [|a g IH]; intros f l ok e Hnd Hin Hne; [contradiction|].
  cbn [map] in Hnd. inversion Hnd as [|? ? Hna Hnd']; subst.
  cbn [mark_group]. destruct Hin as [->|Hin].
  - destruct (Nat.eqb_spec (q_tid e) l) as [He|_]; [contradiction|].
    rewrite upd_eq. rewrite mark_group_out by exact Hna. reflexivity.
  - assert (q_tid e <> q_tid a) by (intro Heq; apply Hna; rewrite <- Heq; apply in_map; exact Hin).
    destruct (Nat.eqb (q_tid a) l); [apply IH; assumption|].
    rewrite upd_neq by assumption. apply IH; assumption.
Qed.

Lemma in_map_tid : forall q t, In t (map q_tid q) -> exists e, In e q /\ q_tid e = t.
Proof. intros q t H. apply in_map_iff in H. destruct H as [e [He Hi]]. eauto. Qed.

Lemma signal_head_other : forall f q x, is_head q x = false -> signal_head f q x = f x.
Proof.
  intros f [|e q] x H; cbn in *; [reflexivity|]. unfold signal_cv. apply upd_neq.
  intro; subst. rewrite Nat.eqb_refl in H. discriminate.
Qed.
Lemma signal_head_head : forall f q x, is_head q x = true -> signal_head f q x = wake_cv (f x).
Proof.
  intros f [|e q] x H; cbn in *; [discriminate|]. apply Nat.eqb_eq in H. subst. unfold signal_cv. apply upd_eq.
Qed.
Lemma signal_head_cases : forall f q x, signal_head f q x = f x \/ (is_head q x = true /\ f x = PWaitCv /\ signal_head f q x = PCheck).
Proof.
  intros f q x. destruct (is_head q x) eqn:E.
  - rewrite signal_head_head by exact E. unfold wake_cv. destruct (f x); cbn; auto.
  - left. apply signal_head_other. exact E.
Qed.

Lemma is_head_tail_false : forall e q t, NoDup (map q_tid (e :: q)) -> is_head (e :: q) t = true -> in_queue q t = false.
Proof.
  intros e q t Hnd H. cbn in H. apply Nat.eqb_eq in H. subst. apply in_queue_false.
  cbn in Hnd. inversion Hnd; assumption.
Qed.

Lemma group_ok_bounds : forall q n, group_ok q n = true -> 1 <= n /\ n <= length q.
Proof.
  intros [|h r] n H; cbn [group_ok] in H; [discriminate|].
  apply andb_true_iff in H as [H _]. apply andb_true_iff in H as [H _]. apply andb_true_iff in H as [H1 H2].
  apply Nat.leb_le in H1, H2. lia.
Qed.

(* ================================================================ step inversion, InvQ is preserved *)
Ltac sst :=
  cbn [l_threads l_pc l_queue l_last_seq l_mem l_imm l_tables l_committed l_full l_snaps l_bgs l_bgpc l_bge l_manual l_sd l_l0 l_trace
       emit set_trace set_queue set_pc set_bg set_manual set_snaps set_sd set_bge set_l0 set_store set_publish] in *.

Ltac bool_hyps :=
  repeat match goal with
  | H : _ && _ = true |- _ => apply andb_true_iff in H; destruct H
  | H : negb _ = true |- _ => apply negb_true_iff in H
  | H : Nat.eqb _ _ = true |- _ => apply Nat.eqb_eq in H
  end.

Ltac step_inv H :=
  repeat (match type of H with
          | match ?x with _ => _ end = Some _ => let E := fresh "E" in destruct x eqn:E
          end; try discriminate H).

(* bg_schedule touches only the two background fields *)
Lemma bgsch_cases : forall s e, bg_schedule s e = s \/ bg_schedule s e = set_bg s true BQueued.
Proof. intros. unfold bg_schedule. repeat match goal with |- context [if ?c then _ else _] => destruct c end; auto. Qed.
Lemma bgsch_pc : forall s e, l_pc (bg_schedule s e) = l_pc s.
Proof. intros. destruct (bgsch_cases s e) as [-> | ->]; reflexivity. Qed.
Lemma bgsch_queue : forall s e, l_queue (bg_schedule s e) = l_queue s.
Proof. intros. destruct (bgsch_cases s e) as [-> | ->]; reflexivity. Qed.
Lemma bgsch_threads : forall s e, l_threads (bg_schedule s e) = l_threads s.
Proof. intros. destruct (bgsch_cases s e) as [-> | ->]; reflexivity. Qed.

Definition pc_sim (p p' : pc) : Prop :=
  queued_pc p' = queued_pc p /\ (head_only_pc p' = true -> head_only_pc p = true) /\
  (forall n, p' = PLog n -> p = PLog n) /\ (forall n, p' = PLogged n -> p = PLogged n) /\
  (p' = PWaitCv -> p = PWaitCv).

Lemma pc_sim_refl : forall p, pc_sim p p.
Proof. intros p. unfold pc_sim. intuition. Qed.
Lemma pc_sim_wake_bg : forall p, pc_sim p (wake_bg p).
Proof. intros p. unfold pc_sim. destruct p; cbn; intuition congruence. Qed.
Lemma pc_sim_wake : forall p, pc_sim p (wake p).
Proof. intros p. unfold pc_sim. destruct p; cbn; intuition congruence. Qed.
Lemma pc_sim_mdone : forall d p, pc_sim p (set_mdone d p).
Proof. intros d p. unfold pc_sim. destruct p; cbn; intuition congruence. Qed.
Lemma pc_sim_trans : forall a b c, pc_sim a b -> pc_sim b c -> pc_sim a c.
Proof. unfold pc_sim. intros a b c H1 H2. intuition; try congruence; eauto. Qed.

Lemma is_thread_eq : forall s s', l_threads s' = l_threads s -> forall t, is_thread s' t = is_thread s t.
Proof. intros s s' H t. unfold is_thread. rewrite H. reflexivity. Qed.

Lemma InvQ_sim : forall s s', InvQ s -> l_queue s' = l_queue s -> l_threads s' = l_threads s ->
  (forall t, pc_sim (l_pc s t) (l_pc s' t)) -> (forall t, is_thread s t = false -> l_pc s' t = PIdle) -> InvQ s'.
Proof.
  intros s s' [Q1 Q2 Q3 Q4 Q5 Q6] Hq Ht Hs Hi.
  constructor; rewrite ?Hq.
  - intro t. destruct (Hs t) as [H _]. rewrite H. apply Q1.
  - exact Q2.
  - intros t H. destruct (Hs t) as (_ & H2 & _). auto.
  - intros t n H. destruct (Hs t) as (_ & _ & H3 & H4 & _). apply (Q4 t). destruct H; [left|right]; auto.
  - intros t H. destruct (Hs t) as (_ & _ & _ & _ & H5). auto.
  - intros t H. rewrite (is_thread_eq s s' Ht) in H. auto.
Qed.

Lemma pc_sim_upd : forall (f : nat -> pc) t p' x, pc_sim (f t) p' -> pc_sim (f x) (upd f t p' x).
Proof.
  intros f t p' x H. unfold upd. destruct (Nat.eqb_spec x t) as [Heqx|_]; [subst x; exact H|apply pc_sim_refl].
Qed.

Lemma pc_sim_nq : forall p p', queued_pc p = false -> queued_pc p' = false -> pc_sim p p'.
Proof.
  intros p p' H1 H2. unfold pc_sim. rewrite H1, H2.
  destruct p'; cbn in *; try discriminate; destruct p; cbn in *; try discriminate; intuition congruence.
Qed.

Lemma not_idle_thread : forall s t, InvQ s -> l_pc s t <> PIdle -> is_thread s t = true.
Proof. intros s t Q H. destruct (is_thread s t) eqn:E; [reflexivity|]. exfalso. apply H, (q6 s Q). exact E. Qed.

(* one thread changes its pc, queue unchanged *)
Lemma InvQ_upd : forall s s' t p', InvQ s -> l_queue s' = l_queue s -> l_threads s' = l_threads s ->
  l_pc s' = upd (l_pc s) t p' -> pc_sim (l_pc s t) p' -> (is_thread s t = true \/ p' = PIdle) -> InvQ s'.
Proof.
  intros s s' t p' Q Hq Ht Hp Hs Hi. apply (InvQ_sim s s' Q Hq Ht).
  - intro x. rewrite Hp. apply pc_sim_upd. exact Hs.
  - intros x Hx. rewrite Hp. unfold upd. destruct (Nat.eqb_spec x t) as [Heqx|_]; [subst x|apply (q6 s Q); exact Hx].
    destruct Hi as [Hi|Hi]; congruence.
Qed.

Lemma InvQ_map : forall s s' (g : pc -> pc), InvQ s -> l_queue s' = l_queue s -> l_threads s' = l_threads s ->
  (forall t, l_pc s' t = g (l_pc s t)) -> (forall p, pc_sim p (g p)) -> g PIdle = PIdle -> InvQ s'.
Proof.
  intros s s' g Q Hq Ht Hp Hs Hi. apply (InvQ_sim s s' Q Hq Ht).
  - intro x. rewrite Hp. apply Hs.
  - intros x Hx. rewrite Hp, (q6 s Q x Hx). exact Hi.
Qed.

Lemma NoDup_snoc : forall A (l : list A) a, NoDup l -> ~ In a l -> NoDup (l ++ [a]).
Proof.
  induction l as [|x l IH]; intros a Hnd Hn; cbn.
  - constructor; [intros []|constructor].
  - inversion Hnd as [|x' l' Hx Hl]; subst. constructor.
    + intro Hi. apply in_app_or in Hi. destruct Hi as [Hi|Hi]; [tauto|]. cbn in Hi. destruct Hi as [Hi|[]].
      subst. apply Hn. left; reflexivity.
    + apply IH; [assumption|]. intro Hi; apply Hn; right; assumption.
Qed.

Lemma group_ok_app : forall q x n, group_ok q n = true -> group_ok (q ++ x) n = true.
Proof.
  intros [|h r] x n H; cbn [group_ok app] in *; [discriminate|].
  apply andb_true_iff in H as [H Hb]. apply andb_true_iff in H as [H Hf]. apply andb_true_iff in H as [H1 H2].
  apply Nat.leb_le in H1, H2. cbn [length] in H2.
  rewrite Hb, andb_true_r. rewrite firstn_app_le by lia. rewrite Hf, andb_true_r.
  apply andb_true_iff. split; [apply Nat.leb_le; lia|apply Nat.leb_le; cbn [length]; rewrite app_length; lia].
Qed.

Lemma InvQ_enqueue : forall s s' e, InvQ s -> l_pc s (q_tid e) = PIdle -> is_thread s (q_tid e) = true ->
  l_queue s' = l_queue s ++ [e] -> l_threads s' = l_threads s -> l_pc s' = upd (l_pc s) (q_tid e) PCheck -> InvQ s'.
Proof.
  intros s s' e [Q1 Q2 Q3 Q4 Q5 Q6] Hidle Hth Hq Ht Hp.
  assert (Hnq : in_queue (l_queue s) (q_tid e) = false) by (rewrite Q1, Hidle; reflexivity).
  constructor; rewrite ?Hq, ?Hp.
  - intro x. rewrite in_queue_app. cbn [in_queue existsb]. unfold upd.
    destruct (Nat.eqb_spec x (q_tid e)) as [Heqx|Hne]; [subst x|].
    + rewrite Nat.eqb_refl. cbn. apply orb_true_r.
    + destruct (Nat.eqb_spec (q_tid e) x); [congruence|]. cbn. rewrite orb_false_r. apply Q1.
  - rewrite map_app. cbn [map]. apply NoDup_snoc; [exact Q2|]. apply in_queue_false. exact Hnq.
  - intros x H. unfold upd in H. destruct (Nat.eqb_spec x (q_tid e)) as [Heqx|Hne]; [subst x; discriminate|].
    specialize (Q3 x H). rewrite is_head_app. destruct (l_queue s); [discriminate|exact Q3].
  - intros x n H. unfold upd in H. destruct (Nat.eqb_spec x (q_tid e)) as [Heqx|Hne]; [subst x; destruct H; discriminate|].
    apply group_ok_app. eapply Q4; eassumption.
  - intros x H. unfold upd in H. destruct (Nat.eqb_spec x (q_tid e)) as [Heqx|Hne]; [subst x; discriminate|].
    specialize (Q5 x H). rewrite is_head_app. destruct (l_queue s); [|exact Q5].
    apply Nat.eqb_neq. congruence.
  - intros x H. rewrite (is_thread_eq s s' Ht) in H. unfold upd.
    destruct (Nat.eqb_spec x (q_tid e)) as [Heqx|Hne]; [subst x; congruence|auto].
Qed.

(* a queued thread moves to another queued state, queue unchanged *)
Lemma InvQ_upd_q : forall s s' t p', InvQ s -> l_queue s' = l_queue s -> l_threads s' = l_threads s ->
  l_pc s' = upd (l_pc s) t p' -> queued_pc (l_pc s t) = true -> queued_pc p' = true ->
  (head_only_pc p' = true -> is_head (l_queue s) t = true) ->
  (forall n, p' = PLog n \/ p' = PLogged n -> group_ok (l_queue s) n = true) ->
  (p' = PWaitCv -> is_head (l_queue s) t = false) -> InvQ s'.
Proof.
  intros s s' t p' Q Hq Ht Hp Hq0 Hq1 Hh Hg Hw.
  assert (Hth : is_thread s t = true).
  { apply not_idle_thread; [exact Q|]. intro E. rewrite E in Hq0. discriminate. }
  destruct Q as [Q1 Q2 Q3 Q4 Q5 Q6].
  constructor; rewrite ?Hq, ?Hp.
  - intro x. unfold upd. destruct (Nat.eqb_spec x t) as [Heqx|_]; [subst x; rewrite Q1, Hq0, Hq1; reflexivity|apply Q1].
  - exact Q2.
  - intros x H. unfold upd in H. destruct (Nat.eqb_spec x t) as [Heqx|_]; [subst x|]; auto.
  - intros x n H. unfold upd in H. destruct (Nat.eqb_spec x t) as [Heqx|_]; [subst x; auto|eapply Q4; eassumption].
  - intros x H. unfold upd in H. destruct (Nat.eqb_spec x t) as [Heqx|_]; [subst x|]; auto.
  - intros x H. rewrite (is_thread_eq s s' Ht) in H. unfold upd. destruct (Nat.eqb_spec x t) as [Heqx|_]; [subst x; congruence|auto].
Qed.

Lemma wake_cv_not_wait : forall p, wake_cv p <> PWaitCv.
Proof. intros p. unfold wake_cv. destruct p; cbn; congruence. Qed.

(* the head pops itself (error path, forced flush switch) and signals the new head *)
Lemma InvQ_pop1 : forall s s' e q' P, InvQ s -> l_queue s = e :: q' -> queued_pc P = false ->
  l_queue s' = q' -> l_threads s' = l_threads s -> l_pc s' = signal_head (upd (l_pc s) (q_tid e) P) q' -> InvQ s'.
Proof.
  intros s s' e q' P Q Hqs HP Hq Ht Hp.
  assert (Hth : is_thread s (q_tid e) = true).
  { apply not_idle_thread; [exact Q|]. intro E. pose proof (q1 s Q (q_tid e)) as H. rewrite E, Hqs in H. cbn in H.
    rewrite Nat.eqb_refl in H. discriminate. }
  destruct Q as [Q1 Q2 Q3 Q4 Q5 Q6]. rewrite Hqs in *.
  assert (Hnt : in_queue q' (q_tid e) = false).
  { apply in_queue_false. cbn in Q2. inversion Q2; assumption. }
  assert (Hhead : forall x, is_head (e :: q') x = true -> x = q_tid e).
  { intros x H. cbn in H. apply Nat.eqb_eq in H. congruence. }
  assert (Hcases : forall x, x <> q_tid e ->
            l_pc s' x = l_pc s x \/ (is_head q' x = true /\ l_pc s x = PWaitCv /\ l_pc s' x = PCheck)).
  { intros x Hne. rewrite Hp. destruct (signal_head_cases (upd (l_pc s) (q_tid e) P) q' x) as [H|(H1 & H2 & H3)].
    - left. rewrite H. apply upd_neq. exact Hne.
    - right. rewrite upd_neq in H2 by exact Hne. auto. }
  assert (Hself : l_pc s' (q_tid e) = P).
  { rewrite Hp, signal_head_other; [apply upd_eq|].
    destruct (is_head q' (q_tid e)) eqn:E; [|reflexivity]. apply is_head_in_queue in E. congruence. }
  constructor; rewrite ?Hq.
  - intro x. destruct (Nat.eq_dec x (q_tid e)) as [Heqx|Hne]; [subst x; rewrite Hself, HP; exact Hnt|].
    assert (Hx : in_queue q' x = queued_pc (l_pc s x)).
    { rewrite <- Q1. cbn [in_queue existsb]. destruct (Nat.eqb_spec (q_tid e) x); [congruence|reflexivity]. }
    destruct (Hcases x Hne) as [H|(H1 & H2 & H3)]; [rewrite H; exact Hx|rewrite Hx, H2, H3; reflexivity].
  - cbn in Q2. inversion Q2; assumption.
  - intros x H. exfalso. destruct (Nat.eq_dec x (q_tid e)) as [Heqx|Hne]; [subst x|].
    + rewrite Hself in H. destruct P; cbn in *; discriminate.
    + destruct (Hcases x Hne) as [Hx|(H1 & H2 & H3)]; [|rewrite H3 in H; discriminate].
      rewrite Hx in H. apply Hne, Hhead, Q3. exact H.
  - intros x n H. exfalso. destruct (Nat.eq_dec x (q_tid e)) as [Heqx|Hne]; [subst x|].
    + rewrite Hself in H. destruct H as [H|H]; rewrite H in HP; discriminate.
    + destruct (Hcases x Hne) as [Hx|(H1 & H2 & H3)]; [|rewrite H3 in H; destruct H; discriminate].
      rewrite Hx in H. apply Hne, Hhead, Q3. destruct H as [H|H]; rewrite H; reflexivity.
  - intros x H. destruct (is_head q' x) eqn:E; [|reflexivity]. exfalso.
    rewrite Hp, signal_head_head in H by exact E. exact (wake_cv_not_wait _ H).
  - intros x H. rewrite (is_thread_eq s s' Ht) in H. destruct (Nat.eq_dec x (q_tid e)) as [Heqx|Hne]; [subst x; congruence|].
    destruct (Hcases x Hne) as [Hx|(H1 & H2 & H3)]; [rewrite Hx; auto|]. rewrite (Q6 x H) in H2. discriminate.
Qed.

Lemma mark_done_nq : forall fl ok p, queued_pc p = true -> head_only_pc p = false -> mark_done fl ok p = PDone fl ok.
Proof. intros fl ok p H1 H2. destruct p; cbn in *; try discriminate; reflexivity. Qed.

(* the leader publishes its group: pops n entries, marks the followers done, signals the new head *)
Lemma InvQ_publish : forall s s' t n, InvQ s -> l_pc s t = PLogged n ->
  l_queue s' = skipn n (l_queue s) -> l_threads s' = l_threads s ->
  l_pc s' = signal_head (mark_group (upd (l_pc s) t PIdle) t true (firstn n (l_queue s))) (skipn n (l_queue s)) -> InvQ s'.
Proof.
  intros s s' t n Q Hpc Hq Ht Hp.
  assert (Hth : is_thread s t = true) by (apply not_idle_thread; [exact Q|congruence]).
  destruct Q as [Q1 Q2 Q3 Q4 Q5 Q6].
  set (q := l_queue s) in *. set (g := firstn n q) in *. set (q' := skipn n q) in *.
  assert (Hhd : is_head q t = true) by (apply Q3; rewrite Hpc; reflexivity).
  assert (Hgo : group_ok q n = true) by (apply (Q4 t); right; exact Hpc).
  destruct (group_ok_bounds q n Hgo) as [Hn1 Hn2].
  assert (Hsplit : map q_tid q = map q_tid g ++ map q_tid q') by apply map_firstn_skipn.
  assert (Hnd : NoDup (map q_tid g ++ map q_tid q')) by (rewrite <- Hsplit; exact Q2).
  assert (Htg : In t (map q_tid g)).
  { unfold g. destruct q as [|e r]; [discriminate|]. destruct n; [lia|]. cbn. left. cbn in Hhd. apply Nat.eqb_eq. exact Hhd. }
  assert (Hhead : forall x, is_head q x = true -> x = t) by (intros x H; symmetry; eapply is_head_unique; eassumption).
  set (f1 := mark_group (upd (l_pc s) t PIdle) t true g) in *.
  (* f1 by class *)
  assert (F_t : f1 t = PIdle) by (unfold f1; rewrite mark_group_leader; apply upd_eq).
  assert (F_g : forall x, In x (map q_tid g) -> x <> t -> exists fl, f1 x = PDone fl true).
  { intros x Hx Hne. apply in_map_tid in Hx. destruct Hx as (e & He & <-). exists (is_flush e).
    unfold f1. rewrite mark_group_in; [|eapply NoDup_app_l; exact Hnd|exact He|exact Hne].
    rewrite upd_neq by exact Hne. apply mark_done_nq.
    - rewrite <- Q1. apply in_queue_In. rewrite Hsplit. apply in_or_app. left. apply in_map. exact He.
    - destruct (head_only_pc (l_pc s (q_tid e))) eqn:E; [|reflexivity]. exfalso. apply Hne, Hhead, Q3, E. }
  assert (F_o : forall x, ~ In x (map q_tid g) -> f1 x = l_pc s x).
  { intros x Hx. unfold f1. rewrite mark_group_out by exact Hx. apply upd_neq. intro; subst; contradiction. }
  assert (Hcases : forall x, l_pc s' x = f1 x \/ (is_head q' x = true /\ f1 x = PWaitCv /\ l_pc s' x = PCheck)).
  { intro x. rewrite Hp. apply signal_head_cases. }
  assert (Hin_g : forall x, In x (map q_tid g) -> in_queue q' x = false).
  { intros x Hx. apply in_queue_false. intro Hx'. eapply NoDup_app_disj; eassumption. }
  assert (Hpc_g : forall x, In x (map q_tid g) -> l_pc s' x = f1 x).
  { intros x Hx. destruct (Hcases x) as [H|(H1 & _)]; [exact H|]. apply is_head_in_queue in H1. rewrite Hin_g in H1 by exact Hx. discriminate. }
  constructor; rewrite ?Hq; fold q q' g.
  - intro x. destruct (in_dec Nat.eq_dec x (map q_tid g)) as [Hx|Hx].
    + rewrite Hin_g, Hpc_g by exact Hx. destruct (Nat.eq_dec x t) as [Heqx|Hne]; [subst x; rewrite F_t; reflexivity|].
      destruct (F_g x Hx Hne) as [fl ->]. reflexivity.
    + assert (Hx' : in_queue q' x = queued_pc (l_pc s x)).
      { rewrite <- Q1. fold q. rewrite (in_queue_split q n). fold g q'.
        replace (in_queue g x) with false; [reflexivity|]. symmetry. apply in_queue_false. exact Hx. }
      destruct (Hcases x) as [H|(H1 & H2 & H3)].
      * rewrite H, F_o by exact Hx. exact Hx'.
      * rewrite H3, Hx'. rewrite F_o in H2 by exact Hx. rewrite H2. reflexivity.
  - eapply NoDup_app_r. exact Hnd.
  - intros x H. exfalso. destruct (Hcases x) as [Hx|(_ & _ & H3)]; [|rewrite H3 in H; discriminate].
    rewrite Hx in H. destruct (in_dec Nat.eq_dec x (map q_tid g)) as [Hg|Hg].
    + destruct (Nat.eq_dec x t) as [Heqx|Hne]; [subst x; rewrite F_t in H; discriminate|].
      destruct (F_g x Hg Hne) as [fl E]. rewrite E in H. discriminate.
    + rewrite F_o in H by exact Hg. apply Hg. rewrite (Hhead x (Q3 x H)). exact Htg.
  - intros x m H. exfalso. destruct (Hcases x) as [Hx|(_ & _ & H3)]; [|rewrite H3 in H; destruct H; discriminate].
    rewrite Hx in H. destruct (in_dec Nat.eq_dec x (map q_tid g)) as [Hg|Hg].
    + destruct (Nat.eq_dec x t) as [Heqx|Hne]; [subst x; rewrite F_t in H; destruct H; discriminate|].
      destruct (F_g x Hg Hne) as [fl E]. rewrite E in H. destruct H; discriminate.
    + rewrite F_o in H by exact Hg. apply Hg. rewrite (Hhead x); [exact Htg|]. apply Q3. destruct H as [H|H]; rewrite H; reflexivity.
  - intros x H. destruct (is_head q' x) eqn:E; [|reflexivity]. exfalso.
    rewrite Hp, signal_head_head in H by exact E. exact (wake_cv_not_wait _ H).
  - intros x H. rewrite (is_thread_eq s s' Ht) in H. specialize (Q6 x H).
    assert (Hg : ~ In x (map q_tid g)).
    { intro Hx. assert (Hiq : in_queue q x = true) by (apply in_queue_In; rewrite Hsplit; apply in_or_app; left; exact Hx).
      unfold q in Hiq. rewrite Q1, Q6 in Hiq. discriminate. }
    destruct (Hcases x) as [Hx|(_ & H2 & _)]; [rewrite Hx, F_o by exact Hg; exact Q6|].
    rewrite F_o, Q6 in H2 by exact Hg. discriminate.
Qed.

Lemma invocable_inv : forall s t, invocable s t = true -> is_thread s t = true /\ l_sd s = false /\ l_pc s t = PIdle.
Proof.
  intros s t H. unfold invocable in H. apply andb_true_iff in H as [H H3]. apply andb_true_iff in H as [H1 H2].
  apply negb_true_iff in H2. destruct (l_pc s t); try discriminate. auto.
Qed.

Lemma is_head_cons : forall e q t, Nat.eqb (q_tid e) t = true -> is_head (e :: q) t = true.
Proof. intros. exact H. Qed.

Lemma InvQ_init : forall th, InvQ (lts_init th).
Proof. intro th. constructor; cbn; intros; try reflexivity; try discriminate; try constructor. destruct H; discriminate. Qed.

Lemma InvQ_step : forall s l s', InvQ s -> lts_step s l = Some s' -> InvQ s'.
Proof.
  intros s l s' Q H. destruct l; cbn [lts_step] in H.
  - (* WEnqueue *) step_inv H. injection H as <-. destruct (invocable_inv _ _ E) as (H1 & H2 & H3).
    apply (InvQ_enqueue s _ (mkQ t (Some b) sync) Q H3 H1); reflexivity.
  - (* FEnqueue *) step_inv H. injection H as <-. destruct (invocable_inv _ _ E) as (H1 & H2 & H3).
    apply (InvQ_enqueue s _ (mkQ t None false) Q H3 H1); reflexivity.
  - (* WWaitFollower *) step_inv H. injection H as <-. apply negb_true_iff in E0.
    eapply (InvQ_upd_q s _ t PWaitCv Q); try reflexivity; try (rewrite E; reflexivity); try discriminate.
    + intros n [?|?]; discriminate.
    + intros _. exact E0.
  - (* WLeaderStart *) step_inv H. injection H as <-. bool_hyps.
    eapply (InvQ_upd_q s _ t (PLog n) Q); try reflexivity; try (rewrite E; reflexivity); try discriminate.
    + intros _. assumption.
    + intros m [Hm|Hm]; [injection Hm as <-; assumption|discriminate].
  - (* WLeaderErr *) step_inv H. injection H as <-.
    all: bool_hyps; eapply (InvQ_pop1 s _ q l PIdle Q E0); try reflexivity; sst; subst; reflexivity.
  - (* WRoomWait *) step_inv H. injection H as <-. bool_hyps.
    eapply (InvQ_upd_q s _ t PRoomWait Q); try reflexivity; try (rewrite E; reflexivity); try discriminate.
    + intros _. rewrite E0. cbn. apply Nat.eqb_eq. assumption.
    + intros m [?|?]; discriminate.
  - (* Switch *) step_inv H; injection H as <-; bool_hyps.
    + assert (Q1' : InvQ (bg_schedule (set_store s [] (Some (l_mem s)) (l_tables s) false) false)).
      { eapply (InvQ_sim s _ Q); rewrite ?bgsch_queue, ?bgsch_threads, ?bgsch_pc; try reflexivity;
          [intro x; apply pc_sim_refl|apply (q6 s Q)]. }
      eapply (InvQ_pop1 _ _ q l PFlushCheck Q1'); rewrite ?bgsch_queue, ?bgsch_threads, ?bgsch_pc; try reflexivity.
      * exact E0.
      * sst. rewrite bgsch_threads. reflexivity.
      * sst. subst t. reflexivity.
    + eapply (InvQ_sim s _ Q); rewrite ?bgsch_queue, ?bgsch_threads, ?bgsch_pc; try reflexivity;
        [intro x; apply pc_sim_refl|apply (q6 s Q)].
  - (* WLeaderLog *) step_inv H. injection H as <-.
    eapply (InvQ_upd_q s _ t (PLogged n) Q); try reflexivity; try (rewrite E; reflexivity); try discriminate.
    + intros _. apply (q3 s Q). rewrite E. reflexivity.
    + intros m [Hm|Hm]; [discriminate|injection Hm as <-]. apply (q4 s Q t). left. exact E.
  - (* WLeaderPublish *) step_inv H. injection H as <-.
    eapply (InvQ_publish s _ t n Q E); reflexivity.
  - (* WFollowerDone *) step_inv H; injection H as <-.
    all: eapply (InvQ_upd s _ t _ Q); try reflexivity; [apply pc_sim_nq; [rewrite E; reflexivity|reflexivity]|].
    all: left; apply not_idle_thread; [exact Q|congruence].
  - (* FlushCheck *) step_inv H; injection H as <-.
    all: eapply (InvQ_upd s _ t _ Q); try reflexivity; [apply pc_sim_nq; [rewrite E; reflexivity|reflexivity]|].
    all: left; apply not_idle_thread; [exact Q|congruence].
  - (* RCapture *) step_inv H; injection H as <-; destruct (invocable_inv _ _ E) as (H1 & H2 & H3).
    all: eapply (InvQ_upd s _ t _ Q); try reflexivity; [apply pc_sim_nq; [rewrite H3; reflexivity|reflexivity]|left; exact H1].
  - (* RRead *) step_inv H. injection H as <-.
    eapply (InvQ_upd s _ t PIdle Q); rewrite ?bgsch_queue, ?bgsch_threads, ?bgsch_pc; try reflexivity.
    + apply pc_sim_nq; [rewrite E; reflexivity|reflexivity].
    + right. reflexivity.
  - (* Snap *) step_inv H. injection H as <-.
    eapply (InvQ_sim s _ Q); try reflexivity; [intro x; apply pc_sim_refl|apply (q6 s Q)].
  - (* Release *) step_inv H. injection H as <-.
    eapply (InvQ_sim s _ Q); try reflexivity; [intro x; apply pc_sim_refl|apply (q6 s Q)].
  - (* BgStart *) step_inv H. injection H as <-.
    eapply (InvQ_sim s _ Q); try reflexivity; [intro x; apply pc_sim_refl|apply (q6 s Q)].
  - (* BgFlush *) step_inv H. injection H as <-.
    eapply (InvQ_sim s _ Q); try reflexivity; [intro x; apply pc_sim_refl|apply (q6 s Q)].
  - (* BgCompact *) step_inv H; injection H as <-.
    + eapply (InvQ_sim s _ Q); try reflexivity.
      * intro x. sst. apply pc_sim_upd. apply pc_sim_mdone.
      * intros x Hx. sst. unfold upd. destruct (Nat.eqb_spec x n) as [Heqx|_]; [subst x|]; rewrite (q6 s Q _ Hx); reflexivity.
    + eapply (InvQ_sim s _ Q); try reflexivity; [intro x; apply pc_sim_refl|apply (q6 s Q)].
  - (* BgFail *) step_inv H. destruct (l_manual s) as [m|] eqn:Em; [destruct (has_imm s) eqn:Ei|]; injection H as <-.
    + eapply (InvQ_map s _ wake_bg Q); try reflexivity. apply pc_sim_wake_bg.
    + eapply (InvQ_sim s _ Q); try reflexivity.
      * intro x. sst. unfold broadcast_bg. eapply pc_sim_trans; [|apply pc_sim_wake_bg]. apply pc_sim_upd. apply pc_sim_mdone.
      * intros x Hx. sst. unfold broadcast_bg, upd. destruct (Nat.eqb_spec x m) as [Heqx|_]; [subst x|]; rewrite (q6 s Q _ Hx); reflexivity.
    + eapply (InvQ_map s _ wake_bg Q); try reflexivity. apply pc_sim_wake_bg.
  - (* BgSkip *) step_inv H. injection H as <-.
    eapply (InvQ_sim s _ Q); try reflexivity; [intro x; apply pc_sim_refl|apply (q6 s Q)].
  - (* BgFinish *) step_inv H. injection H as <-.
    eapply (InvQ_map s _ wake_bg Q); sst; rewrite ?bgsch_queue, ?bgsch_threads, ?bgsch_pc; try reflexivity. apply pc_sim_wake_bg.
  - (* ManualStart *) step_inv H. injection H as <-. destruct (invocable_inv _ _ E) as (H1 & H2 & H3).
    eapply (InvQ_upd s _ t _ Q); try reflexivity; [apply pc_sim_nq; [rewrite H3; reflexivity|reflexivity]|left; exact H1].
  - (* ManualLoop *) step_inv H; injection H as <-.
    + eapply (InvQ_upd s _ t _ Q); try reflexivity; [apply pc_sim_nq; [rewrite E; reflexivity|reflexivity]|].
      left; apply not_idle_thread; [exact Q|congruence].
    + eapply (InvQ_sim s _ Q); rewrite ?bgsch_queue, ?bgsch_threads, ?bgsch_pc; try reflexivity; [intro x; apply pc_sim_refl|apply (q6 s Q)].
    + eapply (InvQ_upd s _ t _ Q); try reflexivity; [apply pc_sim_nq; [rewrite E; reflexivity|reflexivity]|].
      left; apply not_idle_thread; [exact Q|congruence].
  - (* Manual2 *) step_inv H; [injection H as <-|destruct (l_manual s) as [m|] eqn:Em; [destruct (Nat.eqb m t) eqn:Emt|]; injection H as <-].
    all: eapply (InvQ_upd s _ t _ Q); try reflexivity; [apply pc_sim_nq; [rewrite E; reflexivity|reflexivity]|].
    all: try (left; apply not_idle_thread; [exact Q|congruence]).
  - (* CloseStart *) step_inv H. injection H as <-. bool_hyps.
    eapply (InvQ_upd s _ t _ Q); try reflexivity; [|left; assumption].
    assert (Hi : l_pc s t = PIdle).
    { unfold all_idle in *. rewrite forallb_forall in H1. unfold is_thread in H. apply existsb_exists in H. destruct H as (x & Hx & Hxe).
      apply Nat.eqb_eq in Hxe. subst x. specialize (H1 t Hx). destruct (l_pc s t); try discriminate. reflexivity. }
    apply pc_sim_nq; [rewrite Hi; reflexivity|reflexivity].
  - (* CloseCheck *) step_inv H; injection H as <-.
    all: eapply (InvQ_upd s _ t _ Q); try reflexivity; [apply pc_sim_nq; [rewrite E; reflexivity|reflexivity]|].
    all: left; apply not_idle_thread; [exact Q|congruence].
  - (* Spurious *) step_inv H. injection H as <-.
    eapply (InvQ_upd s _ t _ Q); try reflexivity; [apply pc_sim_wake|].
    left. apply not_idle_thread; [exact Q|]. intro Hi. rewrite Hi in E. discriminate.
Qed.

(* ================================================================ liveness invariants *)
Definition care (s : lstate) : bool := l_bgs s || l_bge s || l_sd s.
Definition client_quiet (p : pc) : bool :=
  match p with PIdle | PCloseCheck | PCloseWait | PClosed => true | _ => false end.

Record InvD (s : lstate) : Prop := mkInvD {
  d0 : l_sd s = true -> forall t, client_quiet (l_pc s t) = true;
  d1 : l_bgs s = match l_bgpc s with BIdle => false | _ => true end;
  d2 : has_imm s = true -> care s = true;
  d3 : has_manual s = true -> care s = true;
  d4 : L0_COMPACTION_TRIGGER <= l_l0 s -> care s = true;
  d5 : forall t, waits_bg (l_pc s t) = true -> l_bgs s = true
}.

Lemma bgsch_imm : forall s e, l_imm (bg_schedule s e) = l_imm s.
Proof. intros. destruct (bgsch_cases s e) as [-> | ->]; reflexivity. Qed.
Lemma bgsch_manual : forall s e, l_manual (bg_schedule s e) = l_manual s.
Proof. intros. destruct (bgsch_cases s e) as [-> | ->]; reflexivity. Qed.
Lemma bgsch_l0 : forall s e, l_l0 (bg_schedule s e) = l_l0 s.
Proof. intros. destruct (bgsch_cases s e) as [-> | ->]; reflexivity. Qed.
Lemma bgsch_sd : forall s e, l_sd (bg_schedule s e) = l_sd s.
Proof. intros. destruct (bgsch_cases s e) as [-> | ->]; reflexivity. Qed.
Lemma bgsch_bge : forall s e, l_bge (bg_schedule s e) = l_bge s.
Proof. intros. destruct (bgsch_cases s e) as [-> | ->]; reflexivity. Qed.
Lemma bgsch_has_imm : forall s e, has_imm (bg_schedule s e) = has_imm s.
Proof. intros. unfold has_imm. rewrite bgsch_imm. reflexivity. Qed.
Lemma bgsch_has_manual : forall s e, has_manual (bg_schedule s e) = has_manual s.
Proof. intros. unfold has_manual. rewrite bgsch_manual. reflexivity. Qed.

Lemma bgsch_bgs_mono : forall s e, l_bgs s = true -> l_bgs (bg_schedule s e) = true.
Proof. intros s e H. unfold bg_schedule. rewrite H. exact H. Qed.
Lemma bgsch_care_mono : forall s e, care s = true -> care (bg_schedule s e) = true.
Proof.
  intros s e H. unfold care in *. rewrite bgsch_bge, bgsch_sd.
  destruct (l_bgs s) eqn:E; [rewrite bgsch_bgs_mono by exact E; reflexivity|].
  cbn in H. rewrite <- orb_assoc, H. apply orb_true_r.
Qed.
Lemma bgsch_care_work : forall s e,
  has_imm s = true \/ has_manual s = true \/ L0_COMPACTION_TRIGGER <= l_l0 s -> care (bg_schedule s e) = true.
Proof.
  intros s e H. unfold care. rewrite bgsch_bge, bgsch_sd. unfold bg_schedule.
  destruct (l_bgs s) eqn:E1; [rewrite E1; reflexivity|].
  destruct (l_sd s) eqn:E2; [apply orb_true_r|].
  destruct (l_bge s) eqn:E3; [rewrite orb_true_r; reflexivity|].
  assert (Hc : negb (has_imm s) && negb (has_manual s) && (l_l0 s <? L0_COMPACTION_TRIGGER) && negb e = false).
  { destruct H as [H|[H|H]].
    - rewrite H. reflexivity.
    - rewrite H. cbn. rewrite andb_false_r. reflexivity.
    - replace (l_l0 s <? L0_COMPACTION_TRIGGER) with false by (symmetry; apply Nat.ltb_ge; exact H).
      rewrite andb_false_r. reflexivity. }
  rewrite Hc. reflexivity.
Qed.
Lemma bgsch_d1 : forall s e, l_bgs s = match l_bgpc s with BIdle => false | _ => true end ->
  l_bgs (bg_schedule s e) = match l_bgpc (bg_schedule s e) with BIdle => false | _ => true end.
Proof. intros s e H. destruct (bgsch_cases s e) as [-> | ->]; [exact H|reflexivity]. Qed.

Lemma InvD_init : forall th, InvD (lts_init th).
Proof. intro th. constructor; cbn; intros; try reflexivity; try discriminate. unfold L0_COMPACTION_TRIGGER in *. lia. Qed.

(* a step that leaves the background fields alone *)
Lemma InvD_same_bg : forall s s', InvD s ->
  l_sd s' = l_sd s -> l_bgs s' = l_bgs s -> l_bgpc s' = l_bgpc s -> l_bge s' = l_bge s ->
  l_imm s' = l_imm s -> l_manual s' = l_manual s -> l_l0 s' = l_l0 s ->
  (l_sd s = true -> forall t, client_quiet (l_pc s' t) = true) ->
  (forall t, waits_bg (l_pc s' t) = true -> l_bgs s = true) -> InvD s'.
Proof.
  intros s s' [D0 D1 D2 D3 D4 D5] Hsd Hbgs Hpc Hbge Himm Hman Hl0 H0 H5.
  constructor; unfold care, has_imm, has_manual in *; rewrite ?Hsd, ?Hbgs, ?Hpc, ?Hbge, ?Himm, ?Hman, ?Hl0; auto.
Qed.

(* thread t (not quiet before, so not shutting down) moves to a state that does not wait for background work *)
Lemma quiet_upd : forall s t p', InvD s -> client_quiet (l_pc s t) = false ->
  l_sd s = true -> forall x, client_quiet (upd (l_pc s) t p' x) = true.
Proof. intros s t p' D Hq Hsd x. pose proof (d0 s D Hsd t) as H. congruence. Qed.

Lemma waits_upd : forall s t p', InvD s -> waits_bg p' = false ->
  forall x, waits_bg (upd (l_pc s) t p' x) = true -> l_bgs s = true.
Proof.
  intros s t p' D Hw x H. unfold upd in H. destruct (Nat.eqb_spec x t) as [Heqx|_]; [congruence|]. apply (d5 s D x H).
Qed.
Lemma waits_upd_bgs : forall s t p', InvD s -> l_bgs s = true ->
  forall x, waits_bg (upd (l_pc s) t p' x) = true -> l_bgs s = true.
Proof. auto. Qed.
Lemma not_sd : forall s t, InvD s -> client_quiet (l_pc s t) = false -> l_sd s = false.
Proof. intros s t D H. destruct (l_sd s) eqn:E; [|reflexivity]. pose proof (d0 s D E t). congruence. Qed.

Lemma InvD_bgsch : forall s e,
  (l_sd s = true -> forall t, client_quiet (l_pc s t) = true) ->
  l_bgs s = match l_bgpc s with BIdle => false | _ => true end ->
  (forall t, waits_bg (l_pc s t) = true -> l_bgs s = true) -> InvD (bg_schedule s e).
Proof.
  intros s e H0 H1 H5. constructor.
  - rewrite bgsch_sd, bgsch_pc. exact H0.
  - apply bgsch_d1. exact H1.
  - rewrite bgsch_has_imm. intro H. apply bgsch_care_work. auto.
  - rewrite bgsch_has_manual. intro H. apply bgsch_care_work. auto.
  - rewrite bgsch_l0. intro H. apply bgsch_care_work. auto.
  - rewrite bgsch_pc. intros t H. apply bgsch_bgs_mono. eauto.
Qed.

Lemma waits_mark_done : forall fl ok p, waits_bg (mark_done fl ok p) = true -> waits_bg p = true.
Proof. intros fl ok p. destruct p; cbn; congruence. Qed.
Lemma waits_mark_group : forall g f l ok x, waits_bg (mark_group f l ok g x) = true -> waits_bg (f x) = true.
Proof.
  induction g as [|e g IH]; intros f l ok x H; cbn [mark_group] in H; [exact H|].
  destruct (Nat.eqb (q_tid e) l); [eauto|].
  unfold upd in H. destruct (Nat.eqb_spec x (q_tid e)) as [Heqx|_]; [subst x; apply waits_mark_done in H|]; eauto.
Qed.
Lemma waits_signal_head : forall f q x, waits_bg (signal_head f q x) = true -> waits_bg (f x) = true.
Proof.
  intros f q x H. destruct (signal_head_cases f q x) as [E|(_ & _ & E)]; rewrite E in H; [exact H|discriminate].
Qed.
Lemma waits_wake_bg : forall p, waits_bg (wake_bg p) = false.
Proof. intros p. destruct p; reflexivity. Qed.
Lemma quiet_wake_bg : forall p, client_quiet p = true -> client_quiet (wake_bg p) = true.
Proof. intros p. destruct p; cbn; congruence. Qed.
Lemma quiet_mdone : forall d p, client_quiet (set_mdone d p) = client_quiet p.
Proof. intros d p. destruct p; reflexivity. Qed.
Lemma waits_mdone : forall d p, waits_bg (set_mdone d p) = waits_bg p.
Proof. intros d p. destruct p; reflexivity. Qed.

Ltac nq t := (* thread t is in a non-quiet state: not shutting down *)
  match goal with D : InvD ?s, E : l_pc ?s t = _ |- _ =>
    let Hsd := fresh "Hsd" in assert (Hsd : l_sd s = false) by (apply (not_sd s t D); rewrite E; reflexivity) end.

Lemma InvD_step : forall s l s', InvQ s -> InvD s -> lts_step s l = Some s' -> InvD s'.
Proof.
  intros s l s' Q D H. destruct l; cbn [lts_step] in H.
  - (* WEnqueue *) step_inv H. injection H as <-. destruct (invocable_inv _ _ E) as (H1 & H2 & H3).
    apply (InvD_same_bg s _ D); try reflexivity; sst; [congruence|apply (waits_upd s t _ D); reflexivity].
  - (* FEnqueue *) step_inv H. injection H as <-. destruct (invocable_inv _ _ E) as (H1 & H2 & H3).
    apply (InvD_same_bg s _ D); try reflexivity; sst; [congruence|apply (waits_upd s t _ D); reflexivity].
  - (* WWaitFollower *) step_inv H. injection H as <-. nq t.
    apply (InvD_same_bg s _ D); try reflexivity; sst; [congruence|apply (waits_upd s t _ D); reflexivity].
  - (* WLeaderStart *) step_inv H. injection H as <-. nq t.
    apply (InvD_same_bg s _ D); try reflexivity; sst; [congruence|apply (waits_upd s t _ D); reflexivity].
  - (* WLeaderErr *) step_inv H; injection H as <-; nq t.
    all: apply (InvD_same_bg s _ D); try reflexivity; sst; [congruence|].
    all: intros x Hx; apply waits_signal_head in Hx; apply (waits_upd s t PIdle D) in Hx; [exact Hx|reflexivity].
  - (* WRoomWait *) step_inv H. injection H as <-. nq t. bool_hyps.
    assert (Hb : l_bgs s = true).
    { assert (Hc : care s = true).
      { apply orb_true_iff in H0. destruct H0 as [H0|H0]; [apply (d2 s D H0)|].
        apply (d4 s D). apply Nat.leb_le in H0. unfold L0_STOP_WRITES_TRIGGER, L0_COMPACTION_TRIGGER in *. lia. }
      unfold care in Hc. rewrite Hsd, H2 in Hc. rewrite !orb_false_r in Hc. exact Hc. }
    apply (InvD_same_bg s _ D); try reflexivity; sst; [congruence|auto].
  - (* Switch *) step_inv H; injection H as <-; nq t; bool_hyps.
    + match goal with |- InvD (set_queue (set_pc ?s1 _) _) => assert (D1 : InvD s1) end.
      { apply InvD_bgsch; sst; [congruence|apply (d1 s D)|apply (d5 s D)]. }
      apply (InvD_same_bg _ _ D1); try reflexivity; sst; rewrite ?bgsch_sd, ?bgsch_pc; sst; [congruence|].
      intros x Hx. apply waits_signal_head in Hx. unfold upd in Hx.
      destruct (Nat.eqb_spec x t) as [Heqx|_]; [discriminate|]. apply bgsch_bgs_mono. apply (d5 s D x Hx).
    + apply InvD_bgsch; sst; [congruence|apply (d1 s D)|apply (d5 s D)].
  - (* WLeaderLog *) step_inv H. injection H as <-. nq t.
    apply (InvD_same_bg s _ D); try reflexivity; sst; [congruence|apply (waits_upd s t _ D); reflexivity].
  - (* WLeaderPublish *) step_inv H. injection H as <-. nq t.
    apply (InvD_same_bg s _ D); try reflexivity; sst; [congruence|].
    intros x Hx. apply waits_signal_head, waits_mark_group in Hx. apply (waits_upd s t PIdle D) in Hx; [exact Hx|reflexivity].
  - (* WFollowerDone *) step_inv H; injection H as <-; nq t.
    all: apply (InvD_same_bg s _ D); try reflexivity; sst; [congruence|apply (waits_upd s t _ D); reflexivity].
  - (* FlushCheck *) step_inv H; injection H as <-; nq t.
    + bool_hyps. assert (Hb : l_bgs s = true).
      { pose proof (d2 s D H) as Hc. unfold care in Hc. rewrite Hsd, H0 in Hc. rewrite !orb_false_r in Hc. exact Hc. }
      apply (InvD_same_bg s _ D); try reflexivity; sst; [congruence|auto].
    + apply (InvD_same_bg s _ D); try reflexivity; sst; [congruence|apply (waits_upd s t _ D); reflexivity].
  - (* RCapture *) step_inv H; injection H as <-; destruct (invocable_inv _ _ E) as (H1 & H2 & H3).
    all: apply (InvD_same_bg s _ D); try reflexivity; sst; [congruence|apply (waits_upd s t _ D); reflexivity].
  - (* RRead *) step_inv H. injection H as <-. nq t.
    apply InvD_bgsch; sst; [congruence|apply (d1 s D)|apply (waits_upd s t _ D); reflexivity].
  - (* Snap *) step_inv H. injection H as <-.
    apply (InvD_same_bg s _ D); try reflexivity; sst; [apply (d0 s D)|apply (d5 s D)].
  - (* Release *) step_inv H. injection H as <-.
    apply (InvD_same_bg s _ D); try reflexivity; sst; [apply (d0 s D)|apply (d5 s D)].
  - (* BgStart *) step_inv H. injection H as <-. destruct D as [D0 D1 D2 D3 D4 D5].
    constructor; unfold care, has_imm, has_manual in *; sst; auto. rewrite D1, E. reflexivity.
  - (* BgFlush *) step_inv H. injection H as <-. destruct D as [D0 D1 D2 D3 D4 D5].
    assert (Hb : l_bgs s = true) by (rewrite D1, E; reflexivity).
    constructor; unfold care, has_imm, has_manual in *; sst; auto; try discriminate; try (rewrite Hb; reflexivity).
  - (* BgCompact *) step_inv H; injection H as <-; destruct D as [D0 D1 D2 D3 D4 D5];
      assert (Hb : l_bgs s = true) by (rewrite D1, E; reflexivity).
    + constructor; unfold care, has_imm, has_manual in *; sst; auto; try discriminate; try (rewrite Hb; reflexivity).
      * intros Hsd x. unfold upd. destruct (Nat.eqb_spec x n) as [Heqx|_]; [subst x; rewrite quiet_mdone|]; auto.
    + constructor; unfold care, has_imm, has_manual in *; sst; auto; try (rewrite Hb; reflexivity).
  - (* BgFail *) step_inv H. destruct D as [D0 D1 D2 D3 D4 D5].
    assert (Hb : l_bgs s = true) by (rewrite D1, E; reflexivity).
    destruct (l_manual s) as [m|] eqn:Em; [destruct (has_imm s) eqn:Ei|]; injection H as <-.
    all: constructor; unfold care, has_imm, has_manual in *; sst; rewrite ?Hb; auto.
    all: try (intros Hsd x; unfold broadcast_bg; apply quiet_wake_bg; auto).
    all: try (intros x Hx; unfold broadcast_bg in Hx; rewrite waits_wake_bg in Hx; discriminate).
    unfold upd. destruct (Nat.eqb_spec x m) as [Heqx|_]; [subst x; rewrite quiet_mdone|]; auto.
  - (* BgSkip *) step_inv H. injection H as <-. destruct D as [D0 D1 D2 D3 D4 D5].
    constructor; unfold care, has_imm, has_manual in *; sst; auto. rewrite D1, E. reflexivity.
  - (* BgFinish *) step_inv H. injection H as <-.
    remember (bg_schedule (set_bg s false BIdle) extra) as s1 eqn:Hs1.
    assert (Hpc : l_pc s1 = l_pc s) by (rewrite Hs1, bgsch_pc; reflexivity).
    constructor.
    + change (l_sd s1 = true -> forall t0, client_quiet (broadcast_bg (l_pc s1) t0) = true).
      rewrite Hpc, Hs1, bgsch_sd. intros Hsd x. unfold broadcast_bg. apply quiet_wake_bg. apply (d0 s D Hsd).
    + change (l_bgs s1 = match l_bgpc s1 with BIdle => false | _ => true end). rewrite Hs1. apply bgsch_d1. reflexivity.
    + change (has_imm s1 = true -> care s1 = true). rewrite Hs1, bgsch_has_imm. intro Hi. apply bgsch_care_work. auto.
    + change (has_manual s1 = true -> care s1 = true). rewrite Hs1, bgsch_has_manual. intro Hi. apply bgsch_care_work. auto.
    + change (L0_COMPACTION_TRIGGER <= l_l0 s1 -> care s1 = true). rewrite Hs1, bgsch_l0. intro Hi. apply bgsch_care_work. auto.
    + intros x Hx. change (waits_bg (broadcast_bg (l_pc s1) x) = true) in Hx. unfold broadcast_bg in Hx.
      rewrite waits_wake_bg in Hx. discriminate.
  - (* ManualStart *) step_inv H. injection H as <-. destruct (invocable_inv _ _ E) as (H1 & H2 & H3).
    apply (InvD_same_bg s _ D); try reflexivity; sst; [congruence|apply (waits_upd s t _ D); reflexivity].
  - (* ManualLoop *) step_inv H; injection H as <-; nq t.
    + (* wait: someone's manual compaction is pending *) bool_hyps.
      assert (Hb : l_bgs s = true).
      { assert (Hm : has_manual s = true) by (unfold has_manual; rewrite E1; reflexivity).
        pose proof (d3 s D Hm) as Hc. unfold care in Hc. rewrite Hsd, H0 in Hc. rewrite !orb_false_r in Hc. exact Hc. }
      apply (InvD_same_bg s _ D); try reflexivity; sst; [congruence|auto].
    + apply InvD_bgsch; sst; [congruence|apply (d1 s D)|apply (d5 s D)].
    + apply (InvD_same_bg s _ D); try reflexivity; sst; [congruence|apply (waits_upd s t _ D); reflexivity].
  - (* Manual2 *) step_inv H; [injection H as <-|destruct (l_manual s) as [m|] eqn:Em; [destruct (Nat.eqb m t) eqn:Emt|]; injection H as <-]; nq t.
    + apply (InvD_same_bg s _ D); try reflexivity; sst; [congruence|auto].
    + destruct D as [D0 D1 D2 D3 D4 D5].
      constructor; unfold care, has_imm, has_manual in *; sst; auto; try discriminate; [congruence|].
      intros x Hx. unfold upd in Hx. destruct (Nat.eqb_spec x t); [discriminate|eauto].
    + apply (InvD_same_bg s _ D); try reflexivity; sst; [congruence|apply (waits_upd s t _ D); reflexivity].
    + apply (InvD_same_bg s _ D); try reflexivity; sst; [congruence|apply (waits_upd s t _ D); reflexivity].
  - (* CloseStart *) step_inv H. injection H as <-. bool_hyps.
    assert (Hidle : forall x, l_pc s x = PIdle).
    { intro x. destruct (is_thread s x) eqn:Ex; [|apply (q6 s Q); exact Ex].
      unfold all_idle in *. rewrite forallb_forall in H1. unfold is_thread in Ex. apply existsb_exists in Ex.
      destruct Ex as (y & Hy & Hxy). apply Nat.eqb_eq in Hxy. subst y. specialize (H1 x Hy). destruct (l_pc s x); try discriminate. reflexivity. }
    destruct D as [D0 D1 D2 D3 D4 D5].
    constructor; unfold care, has_imm, has_manual in *; sst; auto; try (intros; apply orb_true_r).
    + intros _ x. unfold upd. destruct (Nat.eqb x t); [reflexivity|rewrite Hidle; reflexivity].
    + intros x Hx. unfold upd in Hx. destruct (Nat.eqb x t); [discriminate|rewrite Hidle in Hx; discriminate].
  - (* CloseCheck *) step_inv H; injection H as <-.
    + apply (InvD_same_bg s _ D); try reflexivity; sst; [|auto].
      intros Hsd x. unfold upd. destruct (Nat.eqb x t); [reflexivity|apply (d0 s D Hsd)].
    + apply (InvD_same_bg s _ D); try reflexivity; sst; [|apply (waits_upd s t _ D); reflexivity].
      intros Hsd x. unfold upd. destruct (Nat.eqb x t); [reflexivity|apply (d0 s D Hsd)].
  - (* Spurious *) step_inv H. injection H as <-.
    apply (InvD_same_bg s _ D); try reflexivity; sst.
    + intros Hsd x. unfold upd. destruct (Nat.eqb_spec x t) as [Heqx|_]; [subst x|apply (d0 s D Hsd)].
      pose proof (d0 s D Hsd t) as Hq. destruct (l_pc s t); cbn in *; congruence.
    + apply (waits_upd s t _ D). destruct (l_pc s t); reflexivity.
Qed.

(* ================================================================ reachable states satisfy the invariants *)
Lemma reachable_InvQ : forall th s, reachable th s -> InvQ s.
Proof. induction 1; [apply InvQ_init|eapply InvQ_step; eassumption]. Qed.
Lemma reachable_InvD : forall th s, reachable th s -> InvD s.
Proof. induction 1; [apply InvD_init|eapply InvD_step; try eassumption]. eapply reachable_InvQ; eassumption. Qed.

(* ================================================================ C09: no deadlock *)
Definition busy (s : lstate) : Prop :=
  (exists t, l_pc s t <> PIdle /\ l_pc s t <> PClosed) \/ l_bgpc s <> BIdle.

Definition enabled (s : lstate) (l : label) : Prop := exists s', lts_step s l = Some s'.

Lemma head_step : forall s t, InvQ s -> InvD s -> l_bgs s = false -> l_pc s t = PCheck -> is_head (l_queue s) t = true ->
  exists l, progress_label l = true /\ enabled s l.
Proof.
  intros s t Q D Hb Hpc Hh. destruct (l_queue s) as [|e q'] eqn:Eq; [discriminate|]. cbn in Hh.
  destruct (l_bge s) eqn:Ebge.
  - exists (WLeaderErr t). split; [reflexivity|]. unfold enabled. cbn [lts_step]. rewrite Hpc, Eq, Hh, Ebge. cbn. eauto.
  - destruct (is_flush e || l_full s) eqn:Ef.
    + destruct (has_imm s || (L0_STOP_WRITES_TRIGGER <=? l_l0 s)) eqn:Ew.
      * exists (WRoomWait t). split; [reflexivity|]. unfold enabled. cbn [lts_step]. rewrite Hpc, Eq, Hh, Ebge, Ef, Ew. cbn. eauto.
      * apply orb_false_iff in Ew. destruct Ew as [Ei El]. apply Nat.leb_gt in El.
        exists (Switch t). split; [reflexivity|]. unfold enabled. cbn [lts_step]. rewrite Hpc, Eq, Hh, Ebge, Ef, Ei.
        replace (l_l0 s <? L0_STOP_WRITES_TRIGGER) with true by (symmetry; apply Nat.ltb_lt; exact El). cbn.
        destruct (is_flush e); eauto.
    + apply orb_false_iff in Ef. destruct Ef as [Efl Efu].
      exists (WLeaderStart t 1). split; [reflexivity|]. unfold enabled. cbn [lts_step]. rewrite Hpc, Eq. cbn [is_head]. rewrite Hh, Ebge, Efu.
      cbn [group_ok]. unfold is_flush in Efl. destruct (q_batch e); [|discriminate]. cbn. eauto.
Qed.

Theorem no_deadlock : forall th s, reachable th s -> busy s ->
  exists l, progress_label l = true /\ enabled s l.
Proof.
  intros th s R B. pose proof (reachable_InvQ th s R) as Q. pose proof (reachable_InvD th s R) as D.
  destruct (l_bgpc s) eqn:Ebg.
  2: { exists BgStart. split; [reflexivity|]. unfold enabled. cbn. rewrite Ebg. eauto. }
  2: { destruct (l_sd s || l_bge s) eqn:Es.
       - exists BgSkip. split; [reflexivity|]. unfold enabled. cbn. rewrite Ebg, Es. eauto.
       - apply orb_false_iff in Es. destruct Es as [Es Ee].
         destruct (l_imm s) eqn:Ei.
         + exists BgFlush. split; [reflexivity|]. unfold enabled. cbn. rewrite Ebg, Ei, Es, Ee. cbn. eauto.
         + exists (BgCompact 0 true). split; [reflexivity|]. unfold enabled. cbn. rewrite Ebg, Es, Ee. unfold has_imm. rewrite Ei. cbn.
           destruct (l_manual s); eauto. }
  2: { exists (BgFinish false). split; [reflexivity|]. unfold enabled. cbn. rewrite Ebg. eauto. }
  assert (Hb : l_bgs s = false) by (rewrite (d1 s D), Ebg; reflexivity).
  destruct B as [[t [Hn1 Hn2]]|B]; [|congruence].
  assert (Hnw : forall x, waits_bg (l_pc s x) = false).
  { intro x. destruct (waits_bg (l_pc s x)) eqn:E; [|reflexivity]. rewrite (d5 s D x E) in Hb. discriminate. }
  destruct (l_pc s t) eqn:Ept; try congruence.
  - (* PCheck *) destruct (is_head (l_queue s) t) eqn:Eh; [eapply head_step; eassumption|].
    exists (WWaitFollower t). split; [reflexivity|]. unfold enabled. cbn. rewrite Ept, Eh. cbn. eauto.
  - (* PWaitCv: the queue head is somebody else, who can move *)
    pose proof (q5 s Q t Ept) as Hnh.
    assert (Hin : in_queue (l_queue s) t = true) by (rewrite (q1 s Q), Ept; reflexivity).
    destruct (l_queue s) as [|e q'] eqn:Eq; [discriminate|].
    set (h := q_tid e).
    assert (Hh : is_head (l_queue s) h = true) by (rewrite Eq; cbn; apply Nat.eqb_refl).
    assert (Hqh : queued_pc (l_pc s h) = true) by (rewrite <- (q1 s Q); apply is_head_in_queue; exact Hh).
    destruct (l_pc s h) eqn:Eph; try discriminate.
    + eapply head_step; eassumption.
    + rewrite (q5 s Q h Eph) in Hh. discriminate.
    + specialize (Hnw h). rewrite Eph in Hnw. discriminate.
    + exists (WLeaderLog h false). split; [reflexivity|]. unfold enabled. cbn. rewrite Eph. eauto.
    + exists (WLeaderPublish h). split; [reflexivity|]. unfold enabled. cbn. rewrite Eph. eauto.
  - (* PDone *) exists (WFollowerDone t). split; [reflexivity|]. unfold enabled. cbn. rewrite Ept. destruct fl, ok; eauto.
  - specialize (Hnw t). rewrite Ept in Hnw. discriminate.
  - exists (WLeaderLog t false). split; [reflexivity|]. unfold enabled. cbn. rewrite Ept. eauto.
  - exists (WLeaderPublish t). split; [reflexivity|]. unfold enabled. cbn. rewrite Ept. eauto.
  - exists (FlushCheck t). split; [reflexivity|]. unfold enabled. cbn. rewrite Ept. destruct (has_imm s && negb (l_bge s)); eauto.
  - specialize (Hnw t). rewrite Ept in Hnw. discriminate.
  - exists (RRead t false). split; [reflexivity|]. unfold enabled. cbn. rewrite Ept. eauto.
  - exists (ManualLoop t). split; [reflexivity|]. unfold enabled. cbn. rewrite Ept.
    destruct (negb d && negb (l_sd s) && negb (l_bge s)); [destruct (l_manual s)|]; eauto.
  - specialize (Hnw t). rewrite Ept in Hnw. discriminate.
  - exists (Manual2 t). split; [reflexivity|]. unfold enabled. cbn. rewrite Ept, Hb. eauto.
  - specialize (Hnw t). rewrite Ept in Hnw. discriminate.
  - exists (CloseCheck t). split; [reflexivity|]. unfold enabled. cbn. rewrite Ept, Hb. eauto.
  - specialize (Hnw t). rewrite Ept in Hnw. discriminate.
Qed.

(* ================================================================ C09: every waiting thread has a pending waker *)
(* (1) a writer waits on its own condition variable only while it is queued, not the head and not done
       (a done writer is in state PDone, never PWaitCv);
   (2) a thread waits on background_work_finished only while a background call is scheduled or running;
   (3) the steps that end these conditions wake the waiters: see wakers below. *)
Definition waker_obligation (s : lstate) : Prop :=
  (forall t, l_pc s t = PWaitCv -> in_queue (l_queue s) t = true /\ is_head (l_queue s) t = false) /\
  (forall t, waits_bg (l_pc s t) = true -> l_bgs s = true /\ l_bgpc s <> BIdle).

Theorem waker_invariant : forall th s, reachable th s -> waker_obligation s.
Proof.
  intros th s R. pose proof (reachable_InvQ th s R) as Q. pose proof (reachable_InvD th s R) as D. split.
  - intros t H. split; [rewrite (q1 s Q), H; reflexivity|apply (q5 s Q t H)].
  - intros t H. pose proof (d5 s D t H) as Hb. split; [exact Hb|]. rewrite (d1 s D) in Hb. destruct (l_bgpc s); congruence.
Qed.

(* the wakers: (a) whoever makes a waiting writer the head or marks it done signals its cv: after every step no
   thread waits on its cv while being head (q5 above) and a thread popped by a leader is in PDone (not waiting);
   (b) every background call ends with a broadcast and so does setting bg_error: after BgFinish / BgFail nobody waits. *)
Theorem bg_call_ends_with_broadcast : forall s e s', lts_step s (BgFinish e) = Some s' -> forall t, waits_bg (l_pc s' t) = false.
Proof.
  intros s e s' H t. cbn [lts_step] in H. step_inv H. injection H as <-. sst. unfold broadcast_bg. apply waits_wake_bg.
Qed.
Theorem bg_error_is_broadcast : forall s s', lts_step s BgFail = Some s' -> forall t, waits_bg (l_pc s' t) = false.
Proof.
  intros s s' H t. cbn [lts_step] in H. step_inv H.
  destruct (l_manual s) as [m|] eqn:Em; [destruct (has_imm s) eqn:Ei|]; injection H as <-; sst; unfold broadcast_bg; apply waits_wake_bg.
Qed.
Theorem publish_wakes_group : forall th s t s', reachable th s -> lts_step s (WLeaderPublish t) = Some s' ->
  forall x, in_queue (l_queue s) x = true -> in_queue (l_queue s') x = false -> l_pc s' x <> PWaitCv /\ l_pc s' x <> PCheck.
Proof.
  intros th s t s' R H x Hin Hout.
  pose proof (reachable_InvQ th s' (reach_step th s _ s' R H)) as Q'.
  pose proof (q1 s' Q' x) as H1. rewrite Hout in H1. split; intro E; rewrite E in H1; discriminate.
Qed.

(* ================================================================ linearizability: definitions *)
(* the trace is kept newest first.  The HISTORY of a run is its EInv/ERet events, the LINEARIZATION is the
   sequence of its ELin events. *)
Definition ev_tid (e : levent) : nat := match e with EInv t _ | ELin t _ _ | ERet t _ => t end.

(* legality: replay the linearization on the sequential specification, from the empty map *)
Fixpoint run_lin (tr : list levent) : option (list lop) :=
  match tr with
  | [] => Some []
  | e :: r => match run_lin r with
              | None => None
              | Some log => match e with ELin _ o res => spec_step log o res | _ => Some log end
              end
  end.

Inductive phase := PhIdle | PhInv (o : sop) | PhLin (o : sop) (r : lres).

Fixpoint phase_of (tr : list levent) (t : nat) : phase :=
  match tr with
  | [] => PhIdle
  | e :: r => if Nat.eqb (ev_tid e) t then
                match e with EInv _ o => PhInv o | ELin _ o res => PhLin o res | ERet _ _ => PhIdle end
              else phase_of r t
  end.

(* well-formedness = real-time order: per thread the events cycle invoke -> linearization point -> return
   (with the result fixed at the linearization point), so each operation takes effect between its invocation and
   its response *)
Fixpoint wf_trace (tr : list levent) : Prop :=
  match tr with
  | [] => True
  | e :: r => wf_trace r /\
              match e with
              | EInv t o => phase_of r t = PhIdle
              | ELin t o res => phase_of r t = PhInv o
              | ERet t res => exists o, phase_of r t = PhLin o res
              end
  end.

Definition is_boundary (c : list (list lop)) (q : nat) : Prop := exists j, q = length (concat (firstn j c)).

Definition op_of_qent (e : qent) : sop := match q_batch e with Some b => SWrite b | None => SFlush end.

Definition pc_phase (c : list (list lop)) (st : list lop) (p : pc) (ph : phase) : Prop :=
  match p with
  | PIdle | PClosed => ph = PhIdle
  | PCheck | PWaitCv | PRoomWait | PLog _ | PLogged _ => True
  | PDone false ok => exists b, ph = PhLin (SWrite b) (if ok then ResOk else ResErr)
  | PDone true _ | PFlushCheck | PFlushWait => ph = PhInv SFlush
  | PRead q k => is_boundary c q /\ exists o, ph = PhLin o (ResVal (log_lookup k (firstn q st)))
  | PMan _ | PManWait _ | PMan2 | PMan2Wait => ph = PhInv SManual
  | PCloseCheck | PCloseWait => ph = PhInv SClose
  end.

Definition pending (s : lstate) : list lop :=
  match l_queue s with
  | e :: _ => match l_pc s (q_tid e) with
              | PLogged n => concat (group_batches (firstn n (l_queue s)))
              | _ => []
              end
  | [] => []
  end.

Record InvL (s : lstate) : Prop := mkInvL {
  l1 : wf_trace (l_trace s);
  l2 : run_lin (l_trace s) = Some (concat (l_committed s));
  l3 : forall e, In e (l_queue s) -> phase_of (l_trace s) (q_tid e) = PhInv (op_of_qent e);
  l4 : forall t, pc_phase (l_committed s) (l_store s) (l_pc s t) (phase_of (l_trace s) t);
  l5 : l_last_seq s = length (concat (l_committed s));
  l6 : l_store s = concat (l_committed s) ++ pending s;
  l7 : forall h, In h (l_snaps s) -> is_boundary (l_committed s) h
}.

(* ---------------------------------------------------------------- basic facts *)
Lemma boundary_le : forall c q, is_boundary c q -> q <= length (concat c).
Proof.
  intros c q [j ->]. rewrite <- (firstn_skipn j c) at 2. rewrite concat_app, app_length. lia.
Qed.
Lemma boundary_app : forall c x q, is_boundary c q -> is_boundary (c ++ x) q.
Proof.
  intros c x q [j ->]. destruct (Nat.le_gt_cases j (length c)) as [H|H].
  - exists j. rewrite firstn_app. replace (j - length c) with 0 by lia. cbn. rewrite app_nil_r. reflexivity.
  - exists (length c). rewrite firstn_app, Nat.sub_diag. cbn. rewrite app_nil_r, firstn_all.
    rewrite firstn_all2 by lia. reflexivity.
Qed.
Lemma boundary_total : forall c, is_boundary c (length (concat c)).
Proof. intro c. exists (length c). rewrite firstn_all. reflexivity. Qed.
Lemma boundary_zero : forall c, is_boundary c 0.
Proof. intro c. exists 0. reflexivity. Qed.

Lemma phase_other1 : forall e tr x, ev_tid e <> x -> phase_of (e :: tr) x = phase_of tr x.
Proof. intros e tr x H. cbn [phase_of]. destruct (Nat.eqb_spec (ev_tid e) x); [contradiction|reflexivity]. Qed.
Lemma phase_other : forall evs tr x, Forall (fun e => ev_tid e <> x) evs -> phase_of (evs ++ tr) x = phase_of tr x.
Proof.
  induction evs as [|e evs IH]; intros tr x H; [reflexivity|]. inversion H; subst. cbn [app].
  rewrite phase_other1 by assumption. auto.
Qed.

Lemma pc_phase_mono : forall c st x y p ph, pc_phase c st p ph -> length (concat c) <= length st -> pc_phase (c ++ x) (st ++ y) p ph.
Proof.
  intros c st x y p ph H Hl. destruct p; cbn in *; auto.
  destruct H as [Hb [o Ho]]. split; [apply boundary_app; exact Hb|]. exists o.
  rewrite firstn_app_le; [exact Ho|]. apply boundary_le in Hb. lia.
Qed.

Lemma store_len : forall s, InvL s -> length (concat (l_committed s)) <= length (l_store s).
Proof. intros s L. rewrite (l6 s L), app_length. lia. Qed.
Lemma committed_prefix : forall s, InvL s -> firstn (l_last_seq s) (l_store s) = concat (l_committed s).
Proof.
  intros s L. rewrite (l5 s L), (l6 s L). rewrite firstn_app, Nat.sub_diag, firstn_all. cbn. apply app_nil_r.
Qed.

Lemma InvL_init : forall th, InvL (lts_init th).
Proof.
  intro th. constructor; cbn; auto; try reflexivity; try tauto.
Qed.

(* ---------------------------------------------------------------- frame lemmas *)
Definition pc_rel (c : list (list lop)) (st : list lop) (p p' : pc) : Prop :=
  (forall ph, pc_phase c st p ph -> pc_phase c st p' ph) /\ (forall n, p' = PLogged n <-> p = PLogged n).

Lemma pc_rel_refl : forall c st p, pc_rel c st p p.
Proof. intros. split; [auto|tauto]. Qed.

Lemma pending_same : forall s s', l_queue s' = l_queue s ->
  (forall x n, l_pc s' x = PLogged n <-> l_pc s x = PLogged n) -> pending s' = pending s.
Proof.
  intros s s' Hq Hp. unfold pending. rewrite Hq. destruct (l_queue s) as [|e q]; [reflexivity|].
  specialize (Hp (q_tid e)).
  destruct (l_pc s (q_tid e)) eqn:E2;
    try (destruct (Hp n) as [_ H]; rewrite (H eq_refl); reflexivity);
    destruct (l_pc s' (q_tid e)) eqn:E1; try reflexivity;
    match goal with E : _ = PLogged ?m |- _ => destruct (Hp m) as [H _]; specialize (H eq_refl); discriminate end.
Qed.

Lemma InvL_frame : forall s s', InvL s ->
  l_trace s' = l_trace s -> l_queue s' = l_queue s -> l_committed s' = l_committed s -> l_last_seq s' = l_last_seq s ->
  l_store s' = l_store s -> (forall h, In h (l_snaps s') -> In h (l_snaps s)) ->
  (forall x, pc_rel (l_committed s) (l_store s) (l_pc s x) (l_pc s' x)) -> InvL s'.
Proof.
  intros s s' [L1 L2 L3 L4 L5 L6 L7] Ht Hq Hc Hls Hst Hsn Hp.
  constructor; rewrite ?Ht, ?Hq, ?Hc, ?Hls, ?Hst; auto.
  - intro x. apply (proj1 (Hp x)). apply L4.
  - rewrite (pending_same s s' Hq); [exact L6|]. intros x n. apply (proj2 (Hp x)).
Qed.

Lemma not_queued_notin : forall s t e, InvQ s -> queued_pc (l_pc s t) = false -> In e (l_queue s) -> q_tid e <> t.
Proof.
  intros s t e Q H Hin Heq. pose proof (q1 s Q t) as H1. rewrite H in H1.
  apply in_queue_false in H1. apply H1. rewrite <- Heq. apply in_map. exact Hin.
Qed.

Lemma Forall_tid_other : forall evs t x, Forall (fun e => ev_tid e = t) evs -> x <> t -> Forall (fun e => ev_tid e <> x) evs.
Proof. intros evs t x H Hne. eapply Forall_impl; [|exact H]. cbn. intros a Ha. congruence. Qed.

(* thread t (not queued before or after) emits events and changes its pc; nothing else moves *)
Lemma InvL_emit : forall s s' t p' evs, InvL s -> InvQ s ->
  l_queue s' = l_queue s -> l_committed s' = l_committed s -> l_last_seq s' = l_last_seq s -> l_store s' = l_store s ->
  (forall x, l_pc s' x = upd (l_pc s) t p' x) -> queued_pc (l_pc s t) = false -> queued_pc p' = false ->
  l_trace s' = evs ++ l_trace s -> Forall (fun e => ev_tid e = t) evs ->
  wf_trace (evs ++ l_trace s) -> run_lin (evs ++ l_trace s) = run_lin (l_trace s) ->
  pc_phase (l_committed s) (l_store s) p' (phase_of (evs ++ l_trace s) t) ->
  (forall h, In h (l_snaps s') -> is_boundary (l_committed s) h) -> InvL s'.
Proof.
  intros s s' t p' evs L Q Hq Hc Hls Hst Hp Hnq Hnq' Ht Hev Hwf Hrun Hph Hsn.
  pose proof L as [L1 L2 L3 L4 L5 L6 L7].
  constructor; rewrite ?Ht, ?Hq, ?Hc, ?Hls, ?Hst; auto.
  - rewrite Hrun. exact L2.
  - intros e He. rewrite phase_other; [apply L3; exact He|].
    eapply Forall_tid_other; [exact Hev|]. eapply not_queued_notin; eassumption.
  - intro x. rewrite (Hp x). unfold upd. destruct (Nat.eqb_spec x t) as [Heqx|Hne]; [subst x; exact Hph|].
    rewrite phase_other; [apply L4|]. eapply Forall_tid_other; eassumption.
  - rewrite (pending_same s s' Hq); [exact L6|]. intros x n. rewrite (Hp x). unfold upd.
    destruct (Nat.eqb_spec x t) as [Heqx|Hne]; [subst x|tauto].
    split; intro H; [rewrite H in Hnq'|rewrite H in Hnq]; discriminate.
Qed.

Lemma run_lin_nolin : forall e tr, (forall t o r, e <> ELin t o r) -> run_lin (e :: tr) = run_lin tr.
Proof. intros e tr H. cbn [run_lin]. destruct (run_lin tr); [|reflexivity]. destruct e; try reflexivity. exfalso. eapply H. reflexivity. Qed.

Lemma idle_phase : forall s t, InvL s -> l_pc s t = PIdle -> phase_of (l_trace s) t = PhIdle.
Proof. intros s t L H. pose proof (l4 s L t) as H4. rewrite H in H4. exact H4. Qed.

Lemma InvL_enqueue : forall s s' e, InvL s -> InvQ s -> l_pc s (q_tid e) = PIdle ->
  l_queue s' = l_queue s ++ [e] -> l_pc s' = upd (l_pc s) (q_tid e) PCheck ->
  l_trace s' = EInv (q_tid e) (op_of_qent e) :: l_trace s ->
  l_committed s' = l_committed s -> l_last_seq s' = l_last_seq s -> l_store s' = l_store s -> l_snaps s' = l_snaps s -> InvL s'.
Proof.
  intros s s' e L Q Hidle Hq Hp Ht Hc Hls Hst Hsn.
  pose proof L as [L1 L2 L3 L4 L5 L6 L7].
  assert (Hnq : queued_pc (l_pc s (q_tid e)) = false) by (rewrite Hidle; reflexivity).
  constructor; rewrite ?Ht, ?Hc, ?Hls, ?Hst, ?Hsn; auto.
  - cbn [wf_trace]. split; [exact L1|]. apply idle_phase; assumption.
  - rewrite run_lin_nolin by (intros; discriminate). exact L2.
  - rewrite Hq. intros e' He'. apply in_app_or in He'. destruct He' as [He'|[<-|[]]].
    + rewrite phase_other1; [apply L3; exact He'|]. cbn. intro Heq. eapply not_queued_notin; eauto.
    + cbn [phase_of ev_tid]. rewrite Nat.eqb_refl. reflexivity.
  - intro x. rewrite Hp. unfold upd. destruct (Nat.eqb_spec x (q_tid e)) as [Heqx|Hne]; [exact I|].
    rewrite phase_other1 by (cbn; congruence). apply L4.
  - rewrite L6. f_equal. unfold pending. rewrite Hq, Hp.
    destruct (l_queue s) as [|e0 r] eqn:Eq; cbn [app].
    + rewrite upd_eq. reflexivity.
    + assert (Hne : q_tid e0 <> q_tid e) by (eapply not_queued_notin; [exact Q|exact Hnq|rewrite Eq; left; reflexivity]).
      rewrite upd_neq by exact Hne. destruct (l_pc s (q_tid e0)) eqn:E0; try reflexivity.
      assert (Hg : group_ok (l_queue s) n = true) by (apply (q4 s Q (q_tid e0)); right; exact E0).
      apply group_ok_bounds in Hg. rewrite Eq in Hg.
      change (e0 :: r ++ [e]) with ((e0 :: r) ++ [e]). rewrite firstn_app_le by lia. reflexivity.
Qed.

Lemma store_append_mem : forall s x full, l_store (set_store s (l_mem s ++ x) (l_imm s) (l_tables s) full) = l_store s ++ concat x.
Proof. intros. unfold l_store, imm_batches. sst. rewrite concat_app, !app_assoc. reflexivity. Qed.

Lemma InvL_log : forall s t n full, InvL s -> InvQ s -> l_pc s t = PLog n ->
  InvL (set_pc (set_store s (l_mem s ++ group_batches (firstn n (l_queue s))) (l_imm s) (l_tables s) full) (upd (l_pc s) t (PLogged n))).
Proof.
  intros s t n full L Q Hpc. pose proof L as [L1 L2 L3 L4 L5 L6 L7].
  assert (Hh : is_head (l_queue s) t = true) by (apply (q3 s Q); rewrite Hpc; reflexivity).
  assert (Hpend : pending s = []).
  { unfold pending. destruct (l_queue s) as [|e q]; [reflexivity|]. cbn in Hh. apply Nat.eqb_eq in Hh. rewrite Hh, Hpc. reflexivity. }
  set (gb := group_batches (firstn n (l_queue s))).
  assert (Hst : l_store (set_pc (set_store s (l_mem s ++ gb) (l_imm s) (l_tables s) full) (upd (l_pc s) t (PLogged n))) = l_store s ++ concat gb).
  { rewrite <- store_append_mem with (full := full). reflexivity. }
  constructor; rewrite ?Hst; sst; auto.
  - intro x. unfold upd. destruct (Nat.eqb_spec x t) as [Heqx|Hne]; [exact I|].
    rewrite <- (app_nil_r (l_committed s)). apply pc_phase_mono; [apply L4|apply store_len; exact L].
  - rewrite L6, Hpend, app_nil_r. f_equal. unfold pending. sst.
    destruct (l_queue s) as [|e q] eqn:Eq; [discriminate|]. cbn in Hh. apply Nat.eqb_eq in Hh. rewrite Hh, upd_eq. reflexivity.
Qed.

(* the head (in PCheck) pops itself, emits events of its own, and signals the new head *)
Lemma InvL_pop1 : forall s s' e q' P evs, InvL s -> InvQ s -> l_queue s = e :: q' -> l_pc s (q_tid e) = PCheck ->
  queued_pc P = false ->
  l_queue s' = q' -> l_pc s' = signal_head (upd (l_pc s) (q_tid e) P) q' ->
  l_trace s' = evs ++ l_trace s -> Forall (fun x => ev_tid x = q_tid e) evs ->
  wf_trace (evs ++ l_trace s) -> run_lin (evs ++ l_trace s) = run_lin (l_trace s) ->
  pc_phase (l_committed s) (l_store s) P (phase_of (evs ++ l_trace s) (q_tid e)) ->
  l_committed s' = l_committed s -> l_last_seq s' = l_last_seq s -> l_store s' = l_store s ->
  (forall h, In h (l_snaps s') -> In h (l_snaps s)) -> InvL s'.
Proof.
  intros s s' e q' P evs L Q Hqs Hpc HP Hq Hp Ht Hev Hwf Hrun Hph Hc Hls Hst Hsn.
  pose proof L as [L1 L2 L3 L4 L5 L6 L7].
  assert (Hnd : ~ In (q_tid e) (map q_tid q')).
  { pose proof (q2 s Q) as H. rewrite Hqs in H. cbn in H. inversion H; assumption. }
  assert (Hcases : forall x, x <> q_tid e ->
            l_pc s' x = l_pc s x \/ (l_pc s x = PWaitCv /\ l_pc s' x = PCheck)).
  { intros x Hne. rewrite Hp. destruct (signal_head_cases (upd (l_pc s) (q_tid e) P) q' x) as [H|(H1 & H2 & H3)].
    - left. rewrite H. apply upd_neq. exact Hne.
    - right. rewrite upd_neq in H2 by exact Hne. auto. }
  assert (Hself : l_pc s' (q_tid e) = P).
  { rewrite Hp, signal_head_other; [apply upd_eq|].
    destruct (is_head q' (q_tid e)) eqn:E; [|reflexivity]. apply is_head_in_queue, in_queue_In in E. contradiction. }
  assert (Hpend : pending s = []) by (unfold pending; rewrite Hqs, Hpc; reflexivity).
  constructor; rewrite ?Ht, ?Hc, ?Hls, ?Hst; auto.
  - rewrite Hrun. exact L2.
  - rewrite Hq. intros e' He'. rewrite phase_other.
    + apply L3. rewrite Hqs. right. exact He'.
    + eapply Forall_tid_other; [exact Hev|]. intro Heq. apply Hnd. rewrite <- Heq. apply in_map. exact He'.
  - intro x. destruct (Nat.eq_dec x (q_tid e)) as [Heqx|Hne]; [subst x; rewrite Hself; exact Hph|].
    rewrite phase_other by (eapply Forall_tid_other; eassumption).
    destruct (Hcases x Hne) as [H|[H1 H2]]; [rewrite H; apply L4|rewrite H2; exact I].
  - rewrite L6, Hpend. f_equal. unfold pending. rewrite Hq. destruct q' as [|e1 r]; [reflexivity|].
    assert (Hne : q_tid e1 <> q_tid e) by (intro Heq; apply Hnd; rewrite <- Heq; left; reflexivity).
    destruct (Hcases (q_tid e1) Hne) as [H|[H1 H2]]; [|rewrite H2; reflexivity].
    rewrite H. destruct (l_pc s (q_tid e1)) eqn:E1; try reflexivity. exfalso.
    assert (Hh : is_head (l_queue s) (q_tid e1) = true) by (apply (q3 s Q); rewrite E1; reflexivity).
    rewrite Hqs in Hh. cbn in Hh. apply Nat.eqb_eq in Hh. congruence.
Qed.

(* ---------------------------------------------------------------- the group commit *)
Definition lin1 (e : qent) : list levent :=
  match q_batch e with Some b => [ELin (q_tid e) (SWrite b) ResOk] | None => [] end.
Definition phase_after_lin (e : qent) : phase :=
  match q_batch e with Some b => PhLin (SWrite b) ResOk | None => PhInv SFlush end.

Lemma group_lin_cons : forall e g, group_lin (e :: g) = lin1 e ++ group_lin g.
Proof. reflexivity. Qed.
Lemma rev_lin1 : forall e, rev (lin1 e) = lin1 e.
Proof. intro e. unfold lin1. destruct (q_batch e); reflexivity. Qed.
Lemma group_batches_cons : forall e g, group_batches (e :: g) = match q_batch e with Some b => [b] | None => [] end ++ group_batches g.
Proof. reflexivity. Qed.

Lemma lin1_tid : forall e, Forall (fun x => ev_tid x = q_tid e) (lin1 e).
Proof. intro e. unfold lin1. destruct (q_batch e); repeat constructor. Qed.

Lemma group_lin_props : forall g tr log,
  NoDup (map q_tid g) -> (forall e, In e g -> phase_of tr (q_tid e) = PhInv (op_of_qent e)) ->
  wf_trace tr -> run_lin tr = Some log ->
  wf_trace (rev (group_lin g) ++ tr) /\
  run_lin (rev (group_lin g) ++ tr) = Some (log ++ concat (group_batches g)) /\
  (forall x, ~ In x (map q_tid g) -> phase_of (rev (group_lin g) ++ tr) x = phase_of tr x) /\
  (forall e, In e g -> phase_of (rev (group_lin g) ++ tr) (q_tid e) = phase_after_lin e).
Proof.
  induction g as [|e g IH]; intros tr log Hnd Hph Hwf Hrun.
  - cbn. rewrite app_nil_r. repeat split; auto. intros e [].
  - cbn [map] in Hnd. inversion Hnd as [|? ? Hne Hnd']; subst.
    rewrite group_lin_cons, rev_app_distr, rev_lin1, <- app_assoc.
    set (tr1 := lin1 e ++ tr).
    assert (Hother : forall x, x <> q_tid e -> phase_of tr1 x = phase_of tr x).
    { intros x Hx. unfold tr1. apply phase_other. eapply Forall_tid_other; [apply lin1_tid|exact Hx]. }
    assert (Hwf1 : wf_trace tr1).
    { unfold tr1, lin1. destruct (q_batch e) eqn:Eb; [|exact Hwf]. cbn. split; [exact Hwf|].
      rewrite (Hph e (or_introl eq_refl)). unfold op_of_qent. rewrite Eb. reflexivity. }
    assert (Hrun1 : run_lin tr1 = Some (log ++ concat (match q_batch e with Some b => [b] | None => [] end))).
    { unfold tr1, lin1. destruct (q_batch e) eqn:Eb; cbn; rewrite ?Hrun; cbn; rewrite ?app_nil_r; reflexivity. }
    assert (Hself : phase_of tr1 (q_tid e) = phase_after_lin e).
    { unfold tr1, lin1, phase_after_lin. destruct (q_batch e) eqn:Eb.
      - cbn. rewrite Nat.eqb_refl. reflexivity.
      - cbn. rewrite (Hph e (or_introl eq_refl)). unfold op_of_qent. rewrite Eb. reflexivity. }
    destruct (IH tr1 (log ++ concat (match q_batch e with Some b => [b] | None => [] end)) Hnd') as (I1 & I2 & I3 & I4); [|exact Hwf1|exact Hrun1|].
    { intros e' He'. rewrite Hother; [apply Hph; right; exact He'|]. intro Heq. apply Hne. rewrite <- Heq. apply in_map. exact He'. }
    split; [exact I1|]. split; [|split].
    + rewrite I2, group_batches_cons, concat_app, app_assoc. reflexivity.
    + intros x Hx. cbn [map In] in Hx. rewrite I3 by tauto. apply Hother. intro; subst; tauto.
    + intros e' [<-|He']; [rewrite I3 by exact Hne; exact Hself|apply I4; exact He'].
Qed.

(* who is who after a publish *)
Lemma publish_pcs : forall s t n, InvQ s -> l_pc s t = PLogged n ->
  let g := firstn n (l_queue s) in let q' := skipn n (l_queue s) in
  let f := signal_head (mark_group (upd (l_pc s) t PIdle) t true g) q' in
  In t (map q_tid g) /\ NoDup (map q_tid g) /\
  f t = PIdle /\
  (forall e, In e g -> q_tid e <> t -> f (q_tid e) = PDone (is_flush e) true) /\
  (forall x, ~ In x (map q_tid g) -> (f x = l_pc s x \/ (l_pc s x = PWaitCv /\ f x = PCheck)) /\ forall m, l_pc s x <> PLogged m) /\
  (forall e, In e q' -> ~ In (q_tid e) (map q_tid g)).
Proof.
  intros s t n Q Hpc g q' f.
  pose proof Q as [Q1 Q2 Q3 Q4 Q5 Q6]. set (q := l_queue s) in *.
  assert (Hhd : is_head q t = true) by (apply Q3; rewrite Hpc; reflexivity).
  assert (Hgo : group_ok q n = true) by (apply (Q4 t); right; exact Hpc).
  destruct (group_ok_bounds q n Hgo) as [Hn1 Hn2].
  assert (Hsplit : map q_tid q = map q_tid g ++ map q_tid q') by apply map_firstn_skipn.
  assert (Hnd : NoDup (map q_tid g ++ map q_tid q')) by (rewrite <- Hsplit; exact Q2).
  assert (Htg : In t (map q_tid g)).
  { unfold g. destruct q as [|e r]; [discriminate|]. destruct n; [lia|]. cbn. left. cbn in Hhd. apply Nat.eqb_eq. exact Hhd. }
  assert (Hhead : forall x, is_head q x = true -> x = t) by (intros x H; symmetry; eapply is_head_unique; eassumption).
  set (f1 := mark_group (upd (l_pc s) t PIdle) t true g) in *.
  assert (Hin_g : forall x, In x (map q_tid g) -> is_head q' x = false).
  { intros x Hx. destruct (is_head q' x) eqn:E; [|reflexivity]. exfalso.
    apply is_head_in_queue, in_queue_In in E. eapply NoDup_app_disj; eassumption. }
  split; [exact Htg|]. split; [eapply NoDup_app_l; exact Hnd|]. split; [|split; [|split]].
  - unfold f. rewrite signal_head_other by (apply Hin_g; exact Htg). unfold f1. rewrite mark_group_leader. apply upd_eq.
  - intros e He Hne. unfold f. rewrite signal_head_other by (apply Hin_g, in_map; exact He).
    unfold f1. rewrite mark_group_in; [|eapply NoDup_app_l; exact Hnd|exact He|exact Hne].
    rewrite upd_neq by exact Hne. apply mark_done_nq.
    + rewrite <- Q1. apply in_queue_In. fold q. rewrite Hsplit. apply in_or_app. left. apply in_map. exact He.
    + destruct (head_only_pc (l_pc s (q_tid e))) eqn:E; [|reflexivity]. exfalso. apply Hne, Hhead, Q3, E.
  - intros x Hx. assert (F_o : f1 x = l_pc s x).
    { unfold f1. rewrite mark_group_out by exact Hx. apply upd_neq. intro; subst; contradiction. }
    split.
    + unfold f. destruct (signal_head_cases f1 q' x) as [H|(_ & H2 & H3)]; [left; congruence|right; split; congruence].
    + intros m Hm. apply Hx. rewrite (Hhead x); [exact Htg|]. apply Q3. rewrite Hm. reflexivity.
  - intros e He Hin. eapply NoDup_app_disj; [exact Hnd|exact Hin|apply in_map; exact He].
Qed.

Lemma In_firstn : forall A (l : list A) n x, In x (firstn n l) -> In x l.
Proof. intros A l n x H. rewrite <- (firstn_skipn n l). apply in_or_app. left. exact H. Qed.
Lemma In_skipn : forall A (l : list A) n x, In x (skipn n l) -> In x l.
Proof. intros A l n x H. rewrite <- (firstn_skipn n l). apply in_or_app. right. exact H. Qed.

Lemma InvL_publish : forall s t n, InvL s -> InvQ s -> l_pc s t = PLogged n ->
  InvL (emit (set_queue (set_pc (set_publish s (length (l_store s)) (l_committed s ++ group_batches (firstn n (l_queue s))))
                                (signal_head (mark_group (upd (l_pc s) t PIdle) t true (firstn n (l_queue s))) (skipn n (l_queue s))))
                        (skipn n (l_queue s)))
             (ERet t ResOk :: rev (group_lin (firstn n (l_queue s))))).
Proof.
  intros s t n L Q Hpc. pose proof L as [L1 L2 L3 L4 L5 L6 L7].
  destruct (publish_pcs s t n Q Hpc) as (Htg & Hndg & Ft & Fg & Fo & Hq').
  set (g := firstn n (l_queue s)) in *. set (q' := skipn n (l_queue s)) in *.
  set (f := signal_head (mark_group (upd (l_pc s) t PIdle) t true g) q') in *.
  assert (Hh : is_head (l_queue s) t = true) by (apply (q3 s Q); rewrite Hpc; reflexivity).
  assert (Hpend : pending s = concat (group_batches g)).
  { unfold pending. destruct (l_queue s) as [|e q] eqn:Eq; [discriminate|]. cbn in Hh. apply Nat.eqb_eq in Hh. rewrite Hh, Hpc. reflexivity. }
  destruct (group_lin_props g (l_trace s) (concat (l_committed s)) Hndg) as (G1 & G2 & G3 & G4); [|exact L1|exact L2|].
  { intros e He. apply L3. eapply In_firstn. exact He. }
  (* the leader's own entry *)
  apply in_map_tid in Htg. destruct Htg as (et & Het & Hett).
  assert (Hgo : group_ok (l_queue s) n = true) by (apply (q4 s Q t); right; exact Hpc).
  assert (Hbt : exists b, q_batch et = Some b).
  { destruct (l_queue s) as [|e0 r] eqn:Eq; [discriminate|]. cbn in Hh. apply Nat.eqb_eq in Hh.
    assert (et = e0).
    { unfold g in Het. destruct n; [apply group_ok_bounds in Hgo; lia|]. cbn in Het. destruct Het as [<-|Het]; [reflexivity|].
      exfalso. pose proof (q2 s Q) as Hnd. rewrite Eq in Hnd. cbn in Hnd. apply NoDup_cons_iff in Hnd. destruct Hnd as [Hn _]. apply Hn.
      rewrite Hh, <- Hett. apply in_map. eapply In_firstn. exact Het. }
    subst et. cbn [group_ok] in Hgo. destruct (q_batch e0); [eauto|]. rewrite andb_false_r in Hgo. discriminate. }
  destruct Hbt as [bt Hbt].
  assert (Hpt : phase_of (rev (group_lin g) ++ l_trace s) t = PhLin (SWrite bt) ResOk).
  { rewrite <- Hett, (G4 et Het). unfold phase_after_lin. rewrite Hbt. reflexivity. }
  match goal with |- InvL ?s' => assert (Hst : l_store s' = l_store s) by reflexivity end.
  constructor; rewrite ?Hst; sst; cbn [app].
  - cbn [wf_trace]. split; [exact G1|]. eauto.
  - rewrite run_lin_nolin by (intros; discriminate). rewrite G2, concat_app. reflexivity.
  - intros e He. assert (Hng : ~ In (q_tid e) (map q_tid g)) by (apply Hq'; exact He).
    rewrite phase_other1.
    + rewrite G3 by exact Hng. apply L3. eapply In_skipn. exact He.
    + cbn. intro Heq. apply Hng. rewrite <- Heq, <- Hett. apply in_map. exact Het.
  - intro x. destruct (Nat.eq_dec x t) as [Heqx|Hne].
    { subst x. fold f. rewrite Ft. cbn [phase_of ev_tid]. rewrite Nat.eqb_refl. reflexivity. }
    rewrite phase_other1 by (cbn; congruence). fold f.
    destruct (in_dec Nat.eq_dec x (map q_tid g)) as [Hg|Hg].
    + apply in_map_tid in Hg. destruct Hg as (e & He & Hex). subst x.
      rewrite (Fg e He Hne), (G4 e He). unfold phase_after_lin, is_flush. destruct (q_batch e); cbn; eauto.
    + rewrite G3 by exact Hg. destruct (Fo x Hg) as [[Hf|[Hf1 Hf2]] _].
      * rewrite Hf. rewrite <- (app_nil_r (l_store s)). apply pc_phase_mono; [apply L4|apply store_len; exact L].
      * rewrite Hf2. exact I.
  - rewrite L6, Hpend, concat_app, !app_length. reflexivity.
  - rewrite L6 at 1. rewrite Hpend, concat_app. rewrite <- app_assoc. f_equal. rewrite <- (app_nil_r (concat (group_batches g))) at 1. f_equal.
    unfold pending. sst. destruct q' as [|e1 r] eqn:Eq1; [reflexivity|].
    assert (Hng : ~ In (q_tid e1) (map q_tid g)) by (apply Hq'; left; reflexivity).
    destruct (Fo (q_tid e1) Hng) as [[Hf|[Hf1 Hf2]] Hnl]; [|rewrite Hf2; reflexivity].
    rewrite Hf. destruct (l_pc s (q_tid e1)) eqn:E1; try reflexivity. exfalso. eapply Hnl. reflexivity.
  - intros h Hin. apply boundary_app. apply L7. exact Hin.
Qed.

(* ---------------------------------------------------------------- InvL is preserved *)
Lemma optN_eqb_refl : forall v, optN_eqb v v = true.
Proof. intros [x|]; cbn; [apply N.eqb_refl|reflexivity]. Qed.

Lemma pc_rel_upd : forall c st (f : nat -> pc) t p', pc_rel c st (f t) p' -> forall x, pc_rel c st (f x) (upd f t p' x).
Proof. intros c st f t p' H x. unfold upd. destruct (Nat.eqb_spec x t) as [Heqx|_]; [subst x; exact H|apply pc_rel_refl]. Qed.
Lemma pc_rel_wake_bg : forall c st p, pc_rel c st p (wake_bg p).
Proof. intros c st p. split; [intro ph|intro n]; destruct p; cbn; auto; split; congruence. Qed.
Lemma pc_rel_wake : forall c st p, pc_rel c st p (wake p).
Proof. intros c st p. split; [intro ph|intro n]; destruct p; cbn; auto; split; congruence. Qed.
Lemma pc_rel_mdone : forall c st d p, pc_rel c st p (set_mdone d p).
Proof. intros c st d p. split; [intro ph|intro n]; destruct p; cbn; auto; split; congruence. Qed.
Lemma pc_rel_trans : forall c st a b d, pc_rel c st a b -> pc_rel c st b d -> pc_rel c st a d.
Proof. intros c st a b d [H1 H2] [H3 H4]. split; [auto|]. intro n. rewrite H4. apply H2. Qed.
Lemma pc_rel_true : forall c st p p', (forall ph, pc_phase c st p' ph) -> (forall n, p <> PLogged n) -> (forall n, p' <> PLogged n) -> pc_rel c st p p'.
Proof. intros c st p p' H1 H2 H3. split; [auto|]. intro n. split; intro H; exfalso; [eapply H3|eapply H2]; exact H. Qed.

Lemma InvL_bgsch : forall s e, InvL s -> InvL (bg_schedule s e).
Proof.
  intros s e L. destruct (bgsch_cases s e) as [-> | ->]; [exact L|].
  apply (InvL_frame s _ L); try reflexivity; auto. intro x. apply pc_rel_refl.
Qed.

Lemma store_switch : forall s full, l_imm s = None -> l_store (set_store s [] (Some (l_mem s)) (l_tables s) full) = l_store s.
Proof. intros s full H. unfold l_store, imm_batches. sst. rewrite H. cbn. rewrite app_nil_r. reflexivity. Qed.
Lemma store_flush : forall s im full, l_imm s = Some im -> l_store (set_store s (l_mem s) None (l_tables s ++ im) full) = l_store s.
Proof. intros s im full H. unfold l_store, imm_batches. sst. rewrite H. cbn. rewrite concat_app, app_assoc. reflexivity. Qed.

Ltac phase_known L t E H4 := pose proof (l4 _ L t) as H4; rewrite E in H4; cbn [pc_phase] in H4.

Ltac emit_fin L :=
  first
  [ solve [repeat constructor]
  | solve [apply (l7 _ L)]
  | solve [cbn [app wf_trace phase_of ev_tid]; rewrite ?Nat.eqb_refl; repeat split; try apply (l1 _ L); eauto]
  | solve [cbn [app run_lin]; rewrite (l2 _ L); reflexivity]
  | solve [cbn [app run_lin]; match goal with |- context [run_lin ?tr] => destruct (run_lin tr) end; reflexivity]
  | solve [cbn [app phase_of ev_tid pc_phase]; rewrite ?Nat.eqb_refl; eauto]
  | idtac ].

Lemma InvL_step : forall s l s', InvQ s -> InvL s -> lts_step s l = Some s' -> InvL s'.
Proof.
  intros s l s' Q L H. destruct l; cbn [lts_step] in H.
  - (* WEnqueue *) step_inv H. injection H as <-. destruct (invocable_inv _ _ E) as (H1 & H2 & H3).
    apply (InvL_enqueue s _ (mkQ t (Some b) sync) L Q H3); reflexivity.
  - (* FEnqueue *) step_inv H. injection H as <-. destruct (invocable_inv _ _ E) as (H1 & H2 & H3).
    apply (InvL_enqueue s _ (mkQ t None false) L Q H3); reflexivity.
  - (* WWaitFollower *) step_inv H. injection H as <-.
    apply (InvL_frame s _ L); try reflexivity; auto. sst. apply pc_rel_upd. rewrite E.
    apply pc_rel_true; [intro; exact I|congruence|congruence].
  - (* WLeaderStart *) step_inv H. injection H as <-.
    apply (InvL_frame s _ L); try reflexivity; auto. sst. apply pc_rel_upd. rewrite E.
    apply pc_rel_true; [intro; exact I|congruence|congruence].
  - (* WLeaderErr *) step_inv H. destruct (q_batch q) eqn:E2; injection H as <-; bool_hyps; subst t.
    all: pose proof (l3 s L q) as H3; rewrite E0 in H3; specialize (H3 (or_introl eq_refl)); unfold op_of_qent in H3; rewrite E2 in H3.
    + eapply (InvL_pop1 s _ q l PIdle [ERet (q_tid q) ResErr; ELin (q_tid q) (SWrite l0) ResErr] L Q E0 E); try reflexivity; auto.
      all: emit_fin L.
    + eapply (InvL_pop1 s _ q l PIdle [ERet (q_tid q) ResErr; ELin (q_tid q) SFlush ResErr] L Q E0 E); try reflexivity; auto.
      all: emit_fin L.
  - (* WRoomWait *) step_inv H. injection H as <-.
    apply (InvL_frame s _ L); try reflexivity; auto. sst. apply pc_rel_upd. rewrite E.
    apply pc_rel_true; [intro; exact I|congruence|congruence].
  - (* Switch *) step_inv H; injection H as <-; bool_hyps.
    + assert (Hi : l_imm s = None) by (unfold has_imm in *; destruct (l_imm s); [discriminate|reflexivity]).
      assert (L1 : InvL (bg_schedule (set_store s [] (Some (l_mem s)) (l_tables s) false) false)).
      { apply InvL_bgsch. apply (InvL_frame s _ L); try reflexivity; auto; [apply store_switch; exact Hi|intro x; apply pc_rel_refl]. }
      assert (Q1 : InvQ (bg_schedule (set_store s [] (Some (l_mem s)) (l_tables s) false) false)).
      { eapply (InvQ_sim s _ Q); rewrite ?bgsch_queue, ?bgsch_threads, ?bgsch_pc; try reflexivity; [intro x; apply pc_sim_refl|apply (q6 s Q)]. }
      subst t.
      eapply (InvL_pop1 _ _ q l PFlushCheck [] L1 Q1); rewrite ?bgsch_queue, ?bgsch_pc; sst; try reflexivity; auto.
      * cbn [app]. apply (l1 _ L1).
      * cbn [app pc_phase]. pose proof (l3 _ L1 q) as H4. rewrite bgsch_queue in H4. sst. rewrite E0 in H4.
        specialize (H4 (or_introl eq_refl)). unfold op_of_qent, is_flush in *. destruct (q_batch q); [discriminate|exact H4].
    + assert (Hi : l_imm s = None) by (unfold has_imm in *; destruct (l_imm s); [discriminate|reflexivity]).
      apply InvL_bgsch. apply (InvL_frame s _ L); try reflexivity; auto; [apply store_switch; exact Hi|intro x; apply pc_rel_refl].
  - (* WLeaderLog *) step_inv H. injection H as <-. apply InvL_log; assumption.
  - (* WLeaderPublish *) step_inv H. injection H as <-. apply InvL_publish; assumption.
  - (* WFollowerDone *) step_inv H; injection H as <-; phase_known L t E H4.
    + eapply (InvL_emit s _ t PFlushCheck [] L Q); try reflexivity; auto; try (rewrite E; reflexivity). all: emit_fin L.
    + eapply (InvL_emit s _ t PIdle [ERet t ResErr; ELin t SFlush ResErr] L Q); try reflexivity; auto; try (rewrite E; reflexivity). all: emit_fin L.
    + destruct H4 as [b Hb].
      eapply (InvL_emit s _ t PIdle [ERet t (if ok then ResOk else ResErr)] L Q); try reflexivity; auto; try (rewrite E; reflexivity). all: emit_fin L.
  - (* FlushCheck *) step_inv H; injection H as <-; phase_known L t E H4.
    + eapply (InvL_emit s _ t PFlushWait [] L Q); try reflexivity; auto; try (rewrite E; reflexivity). all: emit_fin L.
    + eapply (InvL_emit s _ t PIdle [ERet t _; ELin t SFlush _] L Q); try reflexivity; auto; try (rewrite E; reflexivity). all: emit_fin L.
      all: cbn [app run_lin]; rewrite (l2 s L); destruct (has_imm s); reflexivity.
  - (* RCapture *) step_inv H; injection H as <-; destruct (invocable_inv _ _ E) as (H1 & H2 & H3); pose proof (idle_phase s t L H3) as Hid.
    + (* at a snapshot *)
      assert (Hb : is_boundary (l_committed s) n).
      { apply (l7 s L). match goal with Hx : existsb _ _ = true |- _ => apply existsb_exists in Hx; destruct Hx as (y & Hy & Hyn) end.
        apply Nat.eqb_eq in Hyn. subst y. exact Hy. }
      assert (Hv : firstn n (l_store s) = firstn n (concat (l_committed s))).
      { rewrite (l6 s L). apply firstn_app_le. apply boundary_le. exact Hb. }
      eapply (InvL_emit s _ t (PRead n k) [ELin t (SGetAt n k) _; EInv t (SGetAt n k)] L Q); try reflexivity; auto; try (rewrite H3; reflexivity).
      all: emit_fin L.
      cbn [app run_lin]. rewrite (l2 s L). cbn [spec_step]. rewrite Hv, optN_eqb_refl.
      replace (n <=? length (concat (l_committed s))) with true by (symmetry; apply Nat.leb_le, boundary_le; exact Hb). reflexivity.
    + (* at the latest sequence *)
      assert (Hb : is_boundary (l_committed s) (l_last_seq s)) by (rewrite (l5 s L); apply boundary_total).
      eapply (InvL_emit s _ t (PRead (l_last_seq s) k) [ELin t (SGet k) _; EInv t (SGet k)] L Q); try reflexivity; auto; try (rewrite H3; reflexivity).
      all: emit_fin L.
      cbn [app run_lin]. rewrite (l2 s L). cbn [spec_step]. rewrite (committed_prefix s L), optN_eqb_refl. reflexivity.
  - (* RRead *) step_inv H. injection H as <-. phase_known L t E H4. destruct H4 as [Hb [o Ho]].
    apply InvL_bgsch.
    eapply (InvL_emit s _ t PIdle [ERet t _] L Q); try reflexivity; auto; try (rewrite E; reflexivity). all: emit_fin L.
  - (* Snap *) step_inv H. injection H as <-. destruct (invocable_inv _ _ E) as (H1 & H2 & H3). pose proof (idle_phase s t L H3) as Hid.
    eapply (InvL_emit s _ t PIdle [ERet t _; ELin t SSnap _; EInv t SSnap] L Q); try reflexivity; auto; try (rewrite H3; reflexivity).
    all: emit_fin L.
    + intro x. sst. unfold upd. destruct (Nat.eqb_spec x t) as [Heqx|_]; [subst x; exact H3|reflexivity].
    + cbn [app run_lin]. rewrite (l2 s L). cbn [spec_step]. rewrite (l5 s L), Nat.eqb_refl. reflexivity.
    + sst. intros h Hh. apply in_app_or in Hh. destruct Hh as [Hh|[<-|[]]]; [apply (l7 s L); exact Hh|].
      rewrite (l5 s L). apply boundary_total.
  - (* Release *) step_inv H. injection H as <-. bool_hyps. destruct (invocable_inv _ _ H) as (H1 & H2 & H3). pose proof (idle_phase s t L H3) as Hid.
    eapply (InvL_emit s _ t PIdle [ERet t _; ELin t (SRelease h) _; EInv t (SRelease h)] L Q); try reflexivity; auto; try (rewrite H3; reflexivity).
    all: emit_fin L.
    + intro x. sst. unfold upd. destruct (Nat.eqb_spec x t) as [Heqx|_]; [subst x; exact H3|reflexivity].
    + sst. intros h' Hh. apply (l7 s L). clear - Hh. induction (l_snaps s) as [|a r IH]; cbn in *; [contradiction|].
      destruct (Nat.eqb a h); [right; exact Hh|]. destruct Hh as [Hh|Hh]; [left; exact Hh|right; auto].
  - (* BgStart *) step_inv H. injection H as <-. apply (InvL_frame s _ L); try reflexivity; auto. intro x. apply pc_rel_refl.
  - (* BgFlush *) step_inv H. injection H as <-.
    apply (InvL_frame s _ L); try reflexivity; auto; [apply (store_flush s l); exact E0|intro x; apply pc_rel_refl].
  - (* BgCompact *) step_inv H; injection H as <-.
    + apply (InvL_frame s _ L); try reflexivity; auto. intro x. sst. apply pc_rel_upd. apply pc_rel_mdone.
    + apply (InvL_frame s _ L); try reflexivity; auto. intro x. apply pc_rel_refl.
  - (* BgFail *) step_inv H. destruct (l_manual s) as [m|] eqn:Em; [destruct (has_imm s) eqn:Ei|]; injection H as <-.
    + apply (InvL_frame s _ L); try reflexivity; auto. intro x. sst. unfold broadcast_bg. apply pc_rel_wake_bg.
    + apply (InvL_frame s _ L); try reflexivity; auto. intro x. sst. unfold broadcast_bg.
      eapply pc_rel_trans; [|apply pc_rel_wake_bg]. apply pc_rel_upd. apply pc_rel_mdone.
    + apply (InvL_frame s _ L); try reflexivity; auto. intro x. sst. unfold broadcast_bg. apply pc_rel_wake_bg.
  - (* BgSkip *) step_inv H. injection H as <-. apply (InvL_frame s _ L); try reflexivity; auto. intro x. apply pc_rel_refl.
  - (* BgFinish *) step_inv H. injection H as <-.
    assert (L1 : InvL (bg_schedule (set_bg s false BIdle) extra)).
    { apply InvL_bgsch. apply (InvL_frame s _ L); try reflexivity; auto. intro x. apply pc_rel_refl. }
    apply (InvL_frame _ _ L1); try reflexivity; auto. intro x. sst. unfold broadcast_bg. apply pc_rel_wake_bg.
  - (* ManualStart *) step_inv H. injection H as <-. destruct (invocable_inv _ _ E) as (H1 & H2 & H3). pose proof (idle_phase s t L H3) as Hid.
    eapply (InvL_emit s _ t (PMan false) [EInv t SManual] L Q); try reflexivity; auto; try (rewrite H3; reflexivity). all: emit_fin L.
  - (* ManualLoop *) step_inv H; injection H as <-; phase_known L t E H4.
    + eapply (InvL_emit s _ t (PManWait d) [] L Q); try reflexivity; auto; try (rewrite E; reflexivity). all: emit_fin L.
    + apply InvL_bgsch. apply (InvL_frame s _ L); try reflexivity; auto. intro x. apply pc_rel_refl.
    + eapply (InvL_emit s _ t PMan2 [] L Q); try reflexivity; auto; try (rewrite E; reflexivity). all: emit_fin L.
  - (* Manual2 *) step_inv H; [injection H as <-|destruct (l_manual s) as [m|] eqn:Em; [destruct (Nat.eqb m t) eqn:Emt|]; injection H as <-];
      phase_known L t E H4.
    + eapply (InvL_emit s _ t PMan2Wait [] L Q); try reflexivity; auto; try (rewrite E; reflexivity). all: emit_fin L.
    + eapply (InvL_emit s _ t PIdle [ERet t ResOk; ELin t SManual ResOk] L Q); try reflexivity; auto; try (rewrite E; reflexivity). all: emit_fin L.
    + eapply (InvL_emit s _ t PIdle [ERet t ResOk; ELin t SManual ResOk] L Q); try reflexivity; auto; try (rewrite E; reflexivity). all: emit_fin L.
    + eapply (InvL_emit s _ t PIdle [ERet t ResOk; ELin t SManual ResOk] L Q); try reflexivity; auto; try (rewrite E; reflexivity). all: emit_fin L.
  - (* CloseStart *) step_inv H. injection H as <-. bool_hyps.
    assert (H3 : l_pc s t = PIdle).
    { unfold all_idle in *. rewrite forallb_forall in H1. unfold is_thread in H. apply existsb_exists in H. destruct H as (x & Hx & Hxe).
      apply Nat.eqb_eq in Hxe. subst x. specialize (H1 t Hx). destruct (l_pc s t); try discriminate. reflexivity. }
    pose proof (idle_phase s t L H3) as Hid.
    eapply (InvL_emit s _ t PCloseCheck [EInv t SClose] L Q); try reflexivity; auto; try (rewrite H3; reflexivity). all: emit_fin L.
  - (* CloseCheck *) step_inv H; injection H as <-; phase_known L t E H4.
    + eapply (InvL_emit s _ t PCloseWait [] L Q); try reflexivity; auto; try (rewrite E; reflexivity). all: emit_fin L.
    + eapply (InvL_emit s _ t PClosed [ERet t ResOk; ELin t SClose ResOk] L Q); try reflexivity; auto; try (rewrite E; reflexivity). all: emit_fin L.
  - (* Spurious *) step_inv H. injection H as <-.
    apply (InvL_frame s _ L); try reflexivity; auto. sst. apply pc_rel_upd. apply pc_rel_wake.
Qed.

Lemma reachable_InvL : forall th s, reachable th s -> InvL s.
Proof. induction 1; [apply InvL_init|eapply InvL_step; try eassumption]. eapply reachable_InvQ; eassumption. Qed.

(* ================================================================ C08 *)
(* Every reachable state carries a trace in which each operation has a linearization point between its
   invocation and its response (wf_trace), and the sequence of linearization points -- writes at their publish step in
   group order, reads at their capture step, snapshots at creation -- is a legal run of the sorted-map specification
   ending in the published prefix of the store. *)
Theorem publish_order_linearizable : forall th s, reachable th s ->
  wf_trace (l_trace s) /\ run_lin (l_trace s) = Some (firstn (l_last_seq s) (l_store s)).
Proof.
  intros th s R. pose proof (reachable_InvL th s R) as L. split; [apply (l1 s L)|].
  rewrite (l2 s L), (committed_prefix s L). reflexivity.
Qed.

(* real time: a linearization point lies inside its call, and a call returns what was decided at that point *)
Lemma lin_inside_call : forall a t o r b, wf_trace (a ++ ELin t o r :: b) -> phase_of b t = PhInv o.
Proof. induction a as [|e a IH]; intros t o r b H; cbn in H; [tauto|]. apply (IH t o r b). tauto. Qed.
Lemma ret_after_lin : forall a t r b, wf_trace (a ++ ERet t r :: b) -> exists o, phase_of b t = PhLin o r.
Proof. induction a as [|e a IH]; intros t r b H; cbn in H; [tauto|]. apply (IH t r b). tauto. Qed.
Lemma inv_when_idle : forall a t o b, wf_trace (a ++ EInv t o :: b) -> phase_of b t = PhIdle.
Proof. induction a as [|e a IH]; intros t o b H; cbn in H; [tauto|]. apply (IH t o b). tauto. Qed.

Theorem lin_respects_real_time : forall th s, reachable th s ->
  (forall a t o r b, l_trace s = a ++ ELin t o r :: b -> phase_of b t = PhInv o) /\
  (forall a t r b, l_trace s = a ++ ERet t r :: b -> exists o, phase_of b t = PhLin o r) /\
  (forall a t o b, l_trace s = a ++ EInv t o :: b -> phase_of b t = PhIdle).
Proof.
  intros th s R. destruct (publish_order_linearizable th s R) as [W _]. repeat split; intros.
  - eapply lin_inside_call. rewrite <- H. exact W.
  - eapply ret_after_lin. rewrite <- H. exact W.
  - eapply inv_when_idle. rewrite <- H. exact W.
Qed.

(* monotonicity of the published state along every step *)
Lemma bgsch_ls : forall s e, l_last_seq (bg_schedule s e) = l_last_seq s.
Proof. intros. destruct (bgsch_cases s e) as [-> | ->]; reflexivity. Qed.
Lemma bgsch_store : forall s e, l_store (bg_schedule s e) = l_store s.
Proof. intros. destruct (bgsch_cases s e) as [-> | ->]; reflexivity. Qed.
Lemma bgsch_committed : forall s e, l_committed (bg_schedule s e) = l_committed s.
Proof. intros. destruct (bgsch_cases s e) as [-> | ->]; reflexivity. Qed.

Definition grows (s s' : lstate) : Prop :=
  l_last_seq s <= l_last_seq s' /\ (exists x, l_store s' = l_store s ++ x) /\ (exists y, l_committed s' = l_committed s ++ y).

Lemma grows_same : forall s s', l_last_seq s' = l_last_seq s -> l_store s' = l_store s -> l_committed s' = l_committed s -> grows s s'.
Proof. intros s s' H1 H2 H3. unfold grows. rewrite H1, H2, H3. split; [lia|]. split; exists []; rewrite app_nil_r; reflexivity. Qed.

Lemma step_grows : forall s l s', InvL s -> lts_step s l = Some s' -> grows s s'.
Proof.
  intros s l s' L H. destruct l; cbn [lts_step] in H.
  all: try (step_inv H; try (destruct (l_manual s) as [m|] eqn:Em; [first [destruct (has_imm s) eqn:Ei | destruct (Nat.eqb m t) eqn:Emt]|]);
            injection H as <-; apply grows_same; rewrite ?bgsch_ls, ?bgsch_store, ?bgsch_committed; reflexivity).
  - (* Switch *) step_inv H; injection H as <-; bool_hyps;
      assert (Hi : l_imm s = None) by (unfold has_imm in *; destruct (l_imm s); [discriminate|reflexivity]).
    + apply grows_same; sst; rewrite ?bgsch_ls, ?bgsch_committed; try reflexivity.
      change (l_store (bg_schedule (set_store s [] (Some (l_mem s)) (l_tables s) false) false) = l_store s).
      rewrite bgsch_store. apply store_switch. exact Hi.
    + apply grows_same; rewrite ?bgsch_ls, ?bgsch_store, ?bgsch_committed; try reflexivity. apply store_switch. exact Hi.
  - (* WLeaderLog *) step_inv H. injection H as <-. split; [reflexivity|]. split; [|exists []; rewrite app_nil_r; reflexivity].
    exists (concat (group_batches (firstn n (l_queue s)))).
    change (l_store (set_store s (l_mem s ++ group_batches (firstn n (l_queue s))) (l_imm s) (l_tables s) full) = l_store s ++ concat (group_batches (firstn n (l_queue s)))).
    apply store_append_mem.
  - (* WLeaderPublish *) step_inv H. injection H as <-. split; [|split].
    + sst. rewrite (l5 s L). pose proof (store_len s L). lia.
    + exists []. rewrite app_nil_r. reflexivity.
    + eexists. reflexivity.
  - (* BgFlush *) step_inv H. injection H as <-. apply grows_same; try reflexivity. apply (store_flush s l). assumption.
  - (* BgFinish *) step_inv H. injection H as <-. apply grows_same.
    + change (l_last_seq (bg_schedule (set_bg s false BIdle) extra) = l_last_seq s). rewrite bgsch_ls. reflexivity.
    + change (l_store (bg_schedule (set_bg s false BIdle) extra) = l_store s). rewrite bgsch_store. reflexivity.
    + change (l_committed (bg_schedule (set_bg s false BIdle) extra) = l_committed s). rewrite bgsch_committed. reflexivity.
  - (* Manual2 *) step_inv H; [injection H as <-|destruct (l_manual s) as [m|] eqn:Em; [destruct (Nat.eqb m t) eqn:Emt|]; injection H as <-];
      apply grows_same; reflexivity.
Qed.

(* reads never go backwards: what an earlier capture saw is a prefix of what any later capture sees *)
Theorem monotone_reads : forall th s l s', reachable th s -> lts_step s l = Some s' ->
  l_last_seq s <= l_last_seq s' /\ firstn (l_last_seq s) (l_store s') = firstn (l_last_seq s) (l_store s).
Proof.
  intros th s l s' R H. pose proof (reachable_InvL th s R) as L.
  destruct (step_grows s l s' L H) as (H1 & [x Hx] & _). split; [exact H1|].
  rewrite Hx. apply firstn_app_le. rewrite (l5 s L). apply store_len. exact L.
Qed.

(* a snapshot (and the sequence captured by a reader) is a single point of the publish order: it stands on a batch
   boundary and the view below it never changes again *)
Theorem snapshot_single_point : forall th s l s' h, reachable th s -> lts_step s l = Some s' ->
  (In h (l_snaps s) \/ exists t k, l_pc s t = PRead h k) ->
  is_boundary (l_committed s) h /\ firstn h (l_store s') = firstn h (l_store s).
Proof.
  intros th s l s' h R H Hh. pose proof (reachable_InvL th s R) as L.
  assert (Hb : is_boundary (l_committed s) h).
  { destruct Hh as [Hh|(t & k & Hh)]; [apply (l7 s L); exact Hh|]. pose proof (l4 s L t) as H4. rewrite Hh in H4. apply H4. }
  split; [exact Hb|]. destruct (step_grows s l s' L H) as (_ & [x Hx] & _).
  rewrite Hx. apply firstn_app_le. apply boundary_le in Hb. pose proof (store_len s L). lia.
Qed.

(* ================================================================ C04(b) *)
Lemma boundary_view : forall s q, InvL s -> is_boundary (l_committed s) q ->
  exists j, firstn q (l_store s) = concat (firstn j (l_committed s)).
Proof.
  intros s q L [j ->]. exists j. rewrite (l6 s L).
  rewrite <- (firstn_skipn j (l_committed s)) at 2. rewrite concat_app, <- app_assoc.
  rewrite firstn_app, Nat.sub_diag, firstn_all. cbn. apply app_nil_r.
Qed.

Theorem published_on_batch_boundary : forall th s, reachable th s ->
  (* last_sequence is the end of a whole batch of the committed list, and the published state is exactly these batches *)
  l_last_seq s = length (concat (l_committed s)) /\ firstn (l_last_seq s) (l_store s) = concat (l_committed s) /\
  (* what a reader captured (latest sequence or snapshot) is a prefix of the committed BATCHES: whole batches only *)
  (forall t q k, l_pc s t = PRead q k -> exists j, firstn q (l_store s) = concat (firstn j (l_committed s))) /\
  (forall h, In h (l_snaps s) -> exists j, firstn h (l_store s) = concat (firstn j (l_committed s))).
Proof.
  intros th s R. pose proof (reachable_InvL th s R) as L. split; [apply (l5 s L)|]. split; [apply committed_prefix; exact L|]. split.
  - intros t q k H. apply boundary_view; [exact L|]. pose proof (l4 s L t) as H4. rewrite H in H4. apply H4.
  - intros h H. apply boundary_view; [exact L|]. apply (l7 s L). exact H.
Qed.

(* a group commit publishes the batches of its members in queue order, as whole batches *)
Theorem group_commit_keeps_batches : forall s t s' n, l_pc s t = PLogged n -> lts_step s (WLeaderPublish t) = Some s' ->
  l_committed s' = l_committed s ++ group_batches (firstn n (l_queue s)).
Proof. intros s t s' n Hpc H. cbn [lts_step] in H. rewrite Hpc in H. injection H as <-. reflexivity. Qed.

(* ================================================================ the trace checker's state invariant holds in the model *)
Theorem abs_inv_reachable : forall th s, reachable th s -> abs_inv (abs_of s) = true.
Proof.
  intros th s R. pose proof (reachable_InvD th s R) as D. unfold abs_inv, abs_of. cbn [a_queue a_imm a_bgs a_bge a_sd a_man a_l0].
  assert (Hq : forallb (fun e : aq => negb (aq_done e))
            (map (fun e : qent => mkAQ (N.of_nat (q_tid e)) false (q_sync e) match q_batch e with Some _ => true | None => false end) (l_queue s)) = true).
  { induction (l_queue s) as [|e q IH]; [reflexivity|]. cbn. exact IH. }
  rewrite Hq. cbn [andb].
  assert (H2 : implb (has_imm s) (l_bgs s || l_bge s || l_sd s) = true).
  { destruct (has_imm s) eqn:E; [|reflexivity]. cbn. apply (d2 s D E). }
  assert (H3 : implb (has_manual s) (l_bgs s || l_bge s || l_sd s) = true).
  { destruct (has_manual s) eqn:E; [|reflexivity]. cbn. apply (d3 s D E). }
  assert (H4 : implb (4 <=? N.of_nat (l_l0 s))%N (l_bgs s || l_bge s || l_sd s) = true).
  { destruct (4 <=? N.of_nat (l_l0 s))%N eqn:E; [|reflexivity]. cbn. apply (d4 s D). unfold L0_COMPACTION_TRIGGER.
    apply N.leb_le in E. lia. }
  rewrite H2, H3, H4. reflexivity.
Qed.
