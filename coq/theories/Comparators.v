(* Comparators.v -- a user comparator with a NON-TRIVIAL equivalence (ASCII case-insensitive
   bytewise order): different byte strings name the same key.  lcdb accepts any
   ldb_comparator_t that is a total order; the engine theorems are stated for every
   [total_order ucmp], and this instance makes the K2 tie exercise code paths where
   "same user key" must be decided by the comparator and not by byte equality. *)
From LCDB Require Import Base BaseProofs Engine EngineSpec EngineRead.
Local Open Scope N_scope.

Definition fold_byte (b : N) : N := if (65 <=? b) && (b <=? 90) then b + 32 else b.
Definition ci_compare (a b : bytes) : comparison := bytes_compare (map fold_byte a) (map fold_byte b).

Theorem ci_compare_total : total_order ci_compare.
Proof.
  destruct bytes_compare_total as [Hr He Ha Ht].
  constructor; unfold ci_compare.
  - intros a. apply Hr.
  - intros a b Hab c. apply (He _ _ Hab).
  - intros a b. apply Ha.
  - intros a b c. apply Ht.
Qed.
Print Assumptions ci_compare_total.

Example ci_equates_spellings : ci_compare [65; 108; 105] [97; 76; 73] = Eq /\ bytes_compare [65; 108; 105] [97; 76; 73] = Lt.
Proof. split; reflexivity. Qed.
