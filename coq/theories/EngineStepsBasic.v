(* EngineStepsBasic.v -- the steps OWrite, OSwitch, OSnapshot, ORelease:
   invariant, views, history agreement; the auxiliary invariants hist_bounded / seqs_pos. *)
From LCDB Require Import Base Engine EngineSpec EngineStepsBase EngineStepsInv.
From Coq Require Import Sorting.Sorted Permutation.
Require Import Lia ZifyBool ZifyNat ZifyN.
Local Open Scope N_scope.

(* every ghost-history entry is at most last_seq; every stored entry has a sequence >= 1 *)
Definition hist_bounded (s : state) : Prop := forall e, In e (hist s) -> es e <= last_seq s.
Definition seqs_pos (s : state) : Prop := forall e, In e (all_entries s) -> 0 < es e.

Section Basic.
Variable ucmp : bytes -> bytes -> comparison.
Context {TO : total_order ucmp}.

Notation ueq := (Engine.ueq ucmp).
Notation ilt := (Engine.ilt ucmp).
Notation Srt := (EngineStepsBase.Srt ucmp).
Notation NO := (EngineStepsBase.NO ucmp).
Notation Cmp := (EngineStepsBase.Cmp ucmp).
Notation KD := (EngineStepsBase.KD ucmp).
Notation SInv := (EngineStepsInv.SInv ucmp).
Notation Rec := (EngineStepsInv.Rec ucmp).
Notation FOK := (EngineStepsInv.FOK ucmp).
Notation FB := (EngineStepsInv.FB ucmp).
Notation FC := (EngineStepsInv.FC ucmp).
Notation view := (EngineSpec.view ucmp).
Notation best := (Engine.best ucmp).

(* ------------------------------------------------------------ more on best *)
Lemma best_sub l l' k q :
  KD l' -> (forall e, In e l -> In e l') ->
  (forall e, In e l' -> matches ucmp k q e = true -> In e l) ->
  best l' k q = best l k q.
Proof.
  intros HK Hsub Hm.
  destruct (best l k q) as [b|] eqn:Eb.
  - apply best_Some in Eb. destruct Eb as (H1 & H2 & H3).
    apply (best_unique ucmp); auto.
  - rewrite best_None in *. intros e He.
    destruct (matches ucmp k q e) eqn:E; auto.
    rewrite <- (Eb e); auto.
Qed.

Definition combine (oa ob : option entry) : option entry :=
  match oa, ob with
  | None, _ => ob
  | Some x, None => Some x
  | Some x, Some y => if es y <? es x then Some x else Some y
  end.

Lemma best_app a b k q : best (a ++ b) k q = combine (best a k q) (best b k q).
Proof.
  induction a as [|e a IH]; cbn [app].
  - reflexivity.
  - rewrite !best_cons. destruct (matches ucmp k q e); auto. rewrite IH.
    destruct (best a k q) as [x|], (best b k q) as [y|]; cbn [combine newer]; auto.
    + destruct (es y <? es x) eqn:E1; destruct (es x <? es e) eqn:E2; cbn [combine newer];
        rewrite ?E1, ?E2; try reflexivity;
        destruct (es y <? es e) eqn:E3; try reflexivity; exfalso; lia.
    + destruct (es x <? es e); reflexivity.
Qed.

Lemma view_ext s s' k q :
  SInv s -> (forall e, In e (all_entries s') <-> In e (all_entries s)) ->
  view s' k q = view s k q.
Proof.
  intros HI H. unfold EngineSpec.view. f_equal. f_equal.
  apply (best_ext ucmp); auto. apply (SInv_KD ucmp); auto.
Qed.

Lemma seq_neq_Cmp a b : es a <> es b -> Cmp a b.
Proof.
  intros H. unfold EngineStepsBase.Cmp. rewrite !ilt_iff, (ucmp_opp ucmp (ek b) (ek a)).
  destruct (ucmp (ek a) (ek b)); cbn [CompOpp]; auto.
  destruct (N.lt_trichotomy (es a) (es b)) as [H1|[H1|H1]]; auto; try contradiction.
Qed.

(* ------------------------------------------------------------ batches *)
Lemma nlen_cons {A} (x : A) r : nlen (x :: r) = 1 + nlen r.
Proof. unfold nlen. cbn [length]. lia. Qed.

Lemma batch_entries_seq seq b e : In e (batch_entries seq b) -> seq <= es e < seq + nlen b.
Proof.
  revert seq. induction b as [|w r IH]; intros seq H; [destruct H|].
  rewrite nlen_cons.
  destruct w; cbn [batch_entries] in H; destruct H as [H|H]; subst; cbn [es]; try lia;
    apply IH in H; lia.
Qed.

Lemma batch_entries_FOP seq b : ForallOrdPairs (fun x y => es x < es y) (batch_entries seq b).
Proof.
  revert seq. induction b as [|w r IH]; intros seq; cbn [batch_entries]. constructor.
  destruct w; constructor; auto; apply Forall_forall; intros x Hx; apply batch_entries_seq in Hx;
    cbn [es]; lia.
Qed.

Lemma batch_entries_Cmp seq b : ForallOrdPairs Cmp (batch_entries seq b).
Proof.
  eapply FOP_impl; [|apply batch_entries_FOP]. intros x y _ _ H. cbn beta in H. apply seq_neq_Cmp. lia.
Qed.

Lemma batch_entries_KD seq b : KD (batch_entries seq b).
Proof.
  intros x y Hx Hy _ Hs.
  destruct (ForallOrdPairs_In (batch_entries_FOP seq b) x y Hx Hy) as [H|[H|H]]; auto; lia.
Qed.

(* ------------------------------------------------------------ OWrite *)
Lemma write_all_entries s b e :
  In e (all_entries (do_write ucmp s b)) <->
  In e (batch_entries (last_seq s + 1) b) \/ In e (all_entries s).
Proof.
  unfold do_write, all_entries, imm_run. cbn [mem imm levels].
  rewrite !in_app_iff, fold_left_insert_In. tauto.
Qed.

Lemma write_SInv s b : SInv s -> SInv (do_write ucmp s b).
Proof.
  intros HI.
  set (new := batch_entries (last_seq s + 1) b).
  assert (Hnew: forall e, In e new -> last_seq s < es e <= last_seq s + nlen b).
  { intros e He. apply batch_entries_seq in He. lia. }
  assert (Hold: forall p e, p <> PMem -> at_place (do_write ucmp s b) p e -> at_place s p e).
  { intros p e Hp H. destruct p; try congruence; exact H. }
  assert (Hmem: forall e, at_place (do_write ucmp s b) PMem e -> In e new \/ In e (mem s)).
  { intros e H. cbn in H. rewrite fold_left_insert_In in H. exact H. }
  constructor; try exact (si_len _ _ HI); try exact (si_imm _ _ HI); try exact (si_fok _ _ HI);
    try exact (si_lsort _ _ HI); try exact (si_num _ _ HI); try exact (si_nd _ _ HI);
    try exact (si_snsort _ _ HI).
  - unfold do_write. cbn [mem]. apply (fold_left_insert_Srt ucmp).
    + apply HI.
    + apply batch_entries_Cmp.
    + intros x y Hx Hy. apply seq_neq_Cmp. apply Hnew in Hx.
      assert (es y <= last_seq s).
      { apply (si_seq _ _ HI). apply all_entries_In. auto. }
      lia.
  - intros p p' o m Hlt Ho Hm Hk.
    assert (Hp': p' <> PMem). { destruct p, p'; cbn in Hlt; congruence. }
    apply Hold in Hm; auto.
    destruct p.
    + apply Hmem in Ho. destruct Ho as [Ho|Ho].
      * apply Hnew in Ho.
        assert (es m <= last_seq s).
        { apply (si_seq _ _ HI). apply all_entries_place. eauto. }
        lia.
      * apply (si_rec _ _ HI PMem p' o m); auto.
    + apply Hold in Ho; [|congruence]. eapply (si_rec _ _ HI); eauto.
    + apply Hold in Ho; [|congruence]. eapply (si_rec _ _ HI); eauto.
    + apply Hold in Ho; [|congruence]. eapply (si_rec _ _ HI); eauto.
  - intros e He. apply write_all_entries in He. unfold do_write; cbn [last_seq].
    destruct He as [He|He]. apply Hnew in He. lia.
    pose proof (si_seq _ _ HI e He). lia.
  - intros q Hq. unfold do_write in *; cbn [last_seq snaps] in *.
    pose proof (si_snap _ _ HI q Hq). lia.
Qed.

Lemma write_old_views s b k q :
  SInv s -> q <= last_seq s -> view (do_write ucmp s b) k q = view s k q.
Proof.
  intros HI Hq. unfold EngineSpec.view. f_equal. f_equal. apply best_sub.
  - apply (SInv_KD ucmp). apply write_SInv; auto.
  - intros e He. apply write_all_entries. auto.
  - intros e He Hm. apply write_all_entries in He. destruct He as [He|He]; auto.
    apply batch_entries_seq in He. apply matches_iff in Hm. lia.
Qed.

Lemma write_hist_bounded s b : hist_bounded s -> hist_bounded (do_write ucmp s b).
Proof.
  intros H e He. unfold do_write in *. cbn [hist last_seq] in *.
  apply in_app_or in He. destruct He as [He|He].
  - apply in_rev in He. apply batch_entries_seq in He. lia.
  - specialize (H e He). lia.
Qed.

Lemma write_seqs_pos s b : seqs_pos s -> seqs_pos (do_write ucmp s b).
Proof.
  intros H e He. apply write_all_entries in He. destruct He as [He|He]; auto.
  apply batch_entries_seq in He. lia.
Qed.

Lemma write_readable s b q : SInv s -> readable (do_write ucmp s b) q -> readable s q.
Proof.
  unfold readable, smallest_snapshot, do_write. cbn [snaps last_seq].
  destruct (snaps s); auto. lia.
Qed.

Lemma combine_newer x ob :
  (forall y, ob = Some y -> es y < es x) -> combine (Some x) ob = Some x.
Proof.
  intros H. destruct ob as [y|]; cbn [combine]; auto.
  specialize (H y eq_refl). replace (es y <? es x) with true by lia. reflexivity.
Qed.

Lemma write_hist_ok s b :
  SInv s -> hist_bounded s -> hist_ok ucmp s -> hist_ok ucmp (do_write ucmp s b).
Proof.
  intros HI HB HO k q Hq.
  apply write_readable in Hq; auto. specialize (HO k q Hq).
  unfold EngineSpec.view, spec_get in *.
  set (new := batch_entries (last_seq s + 1) b).
  assert (Hnew: forall e, In e new -> last_seq s < es e).
  { intros e He. apply batch_entries_seq in He. lia. }
  assert (E1: best (all_entries (do_write ucmp s b)) k q = best (new ++ all_entries s) k q).
  { apply (best_ext ucmp).
    - pose proof (SInv_KD ucmp _ (write_SInv s b HI)) as HK.
      intros x y Hx Hy. apply HK; apply write_all_entries; apply in_app_or; auto.
    - intros e. rewrite write_all_entries, in_app_iff. tauto. }
  assert (E2: best (rev new) k q = best new k q).
  { apply (best_ext ucmp). apply batch_entries_KD. intros e. symmetry. apply in_rev. }
  rewrite E1. unfold do_write. cbn [hist]. fold new. rewrite !best_app, E2.
  destruct (best new k q) as [x|] eqn:Ex.
  - apply best_Some in Ex. destruct Ex as (Hx & _ & _). apply Hnew in Hx.
    rewrite !combine_newer; auto.
    + intros y Hy. apply best_Some in Hy. destruct Hy as (Hy & _). specialize (HB y Hy). lia.
    + intros y Hy. apply best_Some in Hy. destruct Hy as (Hy & _).
      pose proof (si_seq _ _ HI y Hy). lia.
  - cbn [combine]. exact HO.
Qed.

(* ------------------------------------------------------------ OSwitch *)
Lemma switch_all_entries s s' e :
  do_switch s = Some s' -> (In e (all_entries s') <-> In e (all_entries s)).
Proof.
  unfold do_switch. destruct (imm s) eqn:E; [discriminate|]. intros H; injection H as <-.
  unfold all_entries, imm_run. cbn [mem imm levels]. rewrite E.
  rewrite !in_app_iff. cbn [In]. tauto.
Qed.

Lemma switch_SInv s s' : SInv s -> do_switch s = Some s' -> SInv s'.
Proof.
  intros HI. unfold do_switch. destruct (imm s) eqn:E; [discriminate|]. intros H; injection H as <-.
  assert (Him: imm_run s = []). { unfold imm_run. rewrite E. reflexivity. }
  constructor; try exact (si_len _ _ HI); try exact (si_fok _ _ HI);
    try exact (si_lsort _ _ HI); try exact (si_num _ _ HI); try exact (si_nd _ _ HI);
    try exact (si_snsort _ _ HI); try exact (si_snap _ _ HI).
  - apply Srt_nil.
  - exact (si_mem _ _ HI).
  - intros p p' o m Hlt Ho Hm Hk.
    destruct p as [| |n|i].
    + destruct Ho.
    + destruct p' as [| |n'|i']; cbn in Hlt; try contradiction.
      * apply (si_rec _ _ HI PMem (PF0 n') o m); auto; try exact I.
      * apply (si_rec _ _ HI PMem (PLv i') o m); auto; try exact I.
    + destruct p' as [| |n'|i']; cbn in Hlt; try contradiction.
      * apply (si_rec _ _ HI (PF0 n) (PF0 n') o m); auto.
      * apply (si_rec _ _ HI (PF0 n) (PLv i') o m); auto.
    + destruct p' as [| |n'|i']; cbn in Hlt; try contradiction.
      apply (si_rec _ _ HI (PLv i) (PLv i') o m); auto.
  - intros e He. apply (si_seq _ _ HI).
    apply (switch_all_entries s _ e) in He; auto. unfold do_switch. rewrite E. reflexivity.
Qed.

(* ------------------------------------------------------------ OSnapshot *)
Lemma sorted_le_snoc l x : sorted_le l = true -> (forall q, In q l -> q <= x) -> sorted_le (l ++ [x]) = true.
Proof.
  induction l as [|a r IH]; intros H1 H2; auto.
  cbn [sorted_le app] in *. apply andb_true_iff in H1. destruct H1 as [H1 H1'].
  apply andb_true_iff. split.
  - destruct r as [|b r']; cbn [app].
    + specialize (H2 a (or_introl eq_refl)). lia.
    + exact H1.
  - apply IH; auto. intros q Hq. apply H2. right; auto.
Qed.

Lemma snapshot_SInv s : SInv s -> SInv (do_snapshot s).
Proof.
  intros HI.
  constructor; try exact (si_len _ _ HI); try exact (si_fok _ _ HI); try exact (si_mem _ _ HI);
    try exact (si_imm _ _ HI); try exact (si_rec _ _ HI); try exact (si_seq _ _ HI);
    try exact (si_lsort _ _ HI); try exact (si_num _ _ HI); try exact (si_nd _ _ HI).
  - intros q Hq. unfold do_snapshot in *. cbn [snaps last_seq] in *.
    apply in_app_or in Hq. destruct Hq as [Hq|[Hq|[]]]. apply (si_snap _ _ HI); auto. lia.
  - unfold do_snapshot. cbn [snaps]. apply sorted_le_snoc. apply HI. apply (si_snap _ _ HI).
Qed.

Lemma snapshot_readable s q : SInv s -> readable (do_snapshot s) q -> readable s q.
Proof.
  intros HI. unfold readable, smallest_snapshot, do_snapshot. cbn [snaps last_seq].
  destruct (snaps s); auto.
Qed.

(* ------------------------------------------------------------ ORelease *)
Lemma remove_first_In q l l' x : remove_first q l = Some l' -> In x l' -> In x l.
Proof.
  revert l'. induction l as [|a r IH]; intros l' H Hx; cbn [remove_first] in H. discriminate.
  destruct (a =? q). injection H as <-. right; auto.
  destruct (remove_first q r) as [r'|]; [|discriminate]. injection H as <-.
  destruct Hx as [Hx|Hx]; [left|right]; auto. eapply IH; eauto.
Qed.

Lemma sorted_le_cons_inv a r : sorted_le (a :: r) = true -> sorted_le r = true /\ forall x, In x r -> a <= x.
Proof.
  revert a. induction r as [|b r IH]; intros a H.
  - split; auto. intros x [].
  - cbn [sorted_le] in H. apply andb_true_iff in H. destruct H as [H1 H2].
    split; auto. intros x [Hx|Hx]; subst. lia.
    destruct (IH b H2) as [_ H3]. specialize (H3 x Hx). lia.
Qed.

Lemma sorted_le_cons a r : sorted_le r = true -> (forall x, In x r -> a <= x) -> sorted_le (a :: r) = true.
Proof.
  intros H1 H2. cbn [sorted_le]. apply andb_true_iff. split; auto.
  destruct r as [|b r']; auto. specialize (H2 b (or_introl eq_refl)). lia.
Qed.

Lemma remove_first_sorted q l l' : remove_first q l = Some l' -> sorted_le l = true -> sorted_le l' = true.
Proof.
  revert l'. induction l as [|a r IH]; intros l' H HS; cbn [remove_first] in H. discriminate.
  apply sorted_le_cons_inv in HS. destruct HS as [HS Ha].
  destruct (a =? q). injection H as <-. auto.
  destruct (remove_first q r) as [r'|] eqn:E; [|discriminate]. injection H as <-.
  apply sorted_le_cons; auto. intros x Hx. apply Ha. eapply remove_first_In; eauto.
Qed.

Lemma release_SInv s q s' : SInv s -> do_release s q = Some s' -> SInv s'.
Proof.
  intros HI. unfold do_release. destruct (remove_first q (snaps s)) as [sn|] eqn:E; [|discriminate].
  intros H; injection H as <-.
  constructor; try exact (si_len _ _ HI); try exact (si_fok _ _ HI); try exact (si_mem _ _ HI);
    try exact (si_imm _ _ HI); try exact (si_rec _ _ HI); try exact (si_seq _ _ HI);
    try exact (si_lsort _ _ HI); try exact (si_num _ _ HI); try exact (si_nd _ _ HI).
  - intros x Hx. cbn [snaps last_seq] in *. apply (si_snap _ _ HI). eapply remove_first_In; eauto.
  - cbn [snaps]. eapply remove_first_sorted; eauto. apply HI.
Qed.

Lemma release_readable s q s' x : SInv s -> do_release s q = Some s' -> readable s' x -> readable s x.
Proof.
  intros HI. unfold do_release. destruct (remove_first q (snaps s)) as [sn|] eqn:E; [|discriminate].
  intros H; injection H as <-.
  unfold readable, smallest_snapshot. cbn [snaps last_seq].
  pose proof (si_snsort _ _ HI) as HS. pose proof (si_snap _ _ HI) as HB.
  destruct (snaps s) as [|a r]; cbn [remove_first] in E. discriminate.
  apply sorted_le_cons_inv in HS. destruct HS as [HS Ha].
  destruct (a =? q).
  - injection E as <-. destruct r as [|b r'].
    + specialize (HB a (or_introl eq_refl)). lia.
    + specialize (Ha b (or_introl eq_refl)). lia.
  - destruct (remove_first q r); [|discriminate]. injection E as <-. auto.
Qed.

End Basic.
