(* Block.v -- model of src/table/block_builder.c (prefix-compressed blocks with
   restart points) and src/table/block.c (block reader and block iterator).
   Definitions only; proofs are in BlockProofs.v.

   Memory accesses of the C decoder are CHECKED accesses here: whenever the C
   code dereferences block memory the model tests the offset against the real
   length of the byte string and returns the distinguished outcome [OOB] if the
   access would fall outside.  "The model never returns OOB" (BlockProofs) is
   therefore a memory-safety statement about the decoder logic.

   Modelling assumptions (not reachable in lcdb: blocks are < 4 GiB):
   uint32 offsets inside a block are not wrapped. *)
From LCDB Require Export Base Varint.
Local Open Scope N_scope.

(* ------------------------------------------------------------------ *)
(* Outcome of a checked computation                                    *)
(* ------------------------------------------------------------------ *)
Inductive res (A : Type) : Type :=
| Ok (a : A)
| OOB.
Arguments Ok {A} a.
Arguments OOB {A}.

Definition rbind {A B} (r : res A) (f : A -> res B) : res B :=
  match r with Ok a => f a | OOB => OOB end.
Notation "x <~ e ;; k" := (rbind e (fun x => k))
  (at level 61, e at next level, right associativity).
Notation "' p <~ e ;; k" := (rbind e (fun p => k))
  (at level 61, p pattern, e at next level, right associativity).

(* status codes of util/status.h as far as the table layer produces them.
   SIoerr stands for the whole class "the read failed" (LDB_IOERR, EINVAL from
   the mmap bounds check, ENOMEM): which member is returned depends on the
   environment (mmap or pread). *)
Inductive status := SOk | SCorruption | SIoerr.

Definition status_eqb (a b : status) : bool :=
  match a, b with
  | SOk, SOk | SCorruption, SCorruption | SIoerr, SIoerr => true
  | _, _ => false
  end.

Definition entry := (bytes * bytes)%type.

(* checked reads: [size] is the cached length of [data] *)
Definition read32 (data : bytes) (size off : N) : res N :=
  if size <? off + 4 then OOB
  else match de32 (drop_n off data) with Some v => Ok v | None => OOB end.

Definition slice (data : bytes) (size off len : N) : res bytes :=
  if size <? off + len then OOB
  else let s := take_n len (drop_n off data) in
       if nlen s =? len then Ok s else OOB.

(* internal-key comparison used when the table is an lcdb table file:
   user key (all but the last 8 bytes) bytewise ascending, then the trailing
   little-endian 64-bit tag DESCENDING (ldb_ikc_compare, dbformat.c).
   The C code requires both sizes >= 8 (guaranteed by the block iterator). *)
Definition tbl_user_key (k : bytes) : bytes := take_n (nlen k - 8) k.
Definition tbl_tag (k : bytes) : N :=
  match de64 (drop_n (nlen k - 8) k) with Some v => v | None => 0 end.
Definition tbl_ikey_compare (a b : bytes) : comparison :=
  match bytes_compare (tbl_user_key a) (tbl_user_key b) with
  | Eq => N.compare (tbl_tag b) (tbl_tag a)
  | c => c
  end.

(* ------------------------------------------------------------------ *)
(* Block builder (block_builder.c)                                     *)
(* ------------------------------------------------------------------ *)

(* length of the common prefix (the while loop of ldb_blockgen_add) *)
Fixpoint shared_len (a b : bytes) : N :=
  match a, b with
  | x :: a', y :: b' => if x =? y then N.succ (shared_len a' b') else 0
  | _, _ => 0
  end.

(* "<shared><non_shared><value_size>" key_delta value *)
Definition encode_entry (shared : N) (k v : bytes) : bytes :=
  varint32_write (shared mod two32)
  ++ varint32_write ((nlen k - shared) mod two32)
  ++ varint32_write (nlen v mod two32)
  ++ drop_n shared k ++ v.

Record bbuilder := mk_bb {
  bb_chunks : list bytes;   (* buffer, most recent chunk first *)
  bb_size : N;              (* buffer.size *)
  bb_restarts : list N;     (* restart points, most recent first *)
  bb_nrestarts : N;         (* restarts.length *)
  bb_counter : N;
  bb_last : bytes           (* last_key *)
}.

(* ldb_blockgen_init / ldb_blockgen_reset *)
Definition bb_empty : bbuilder := mk_bb [] 0 [0] 1 0 [].

(* ldb_blockgen_empty *)
Definition bb_is_empty (b : bbuilder) : bool := bb_size b =? 0.

(* ldb_blockgen_add *)
Definition bb_add (interval : N) (b : bbuilder) (k v : bytes) : bbuilder :=
  let restart := negb (bb_counter b <? interval) in
  let shared := if restart then 0 else shared_len (bb_last b) k in
  let e := encode_entry shared k v in
  mk_bb (e :: bb_chunks b)
        (bb_size b + nlen e)
        (if restart then bb_size b :: bb_restarts b else bb_restarts b)
        (if restart then bb_nrestarts b + 1 else bb_nrestarts b)
        ((if restart then 0 else bb_counter b) + 1)
        k.

Definition bb_buffer (b : bbuilder) : bytes := concat (rev (bb_chunks b)).

(* ldb_blockgen_finish *)
Definition bb_finish (b : bbuilder) : bytes :=
  bb_buffer b ++ flat_map le32 (rev (bb_restarts b)) ++ le32 (bb_nrestarts b).

(* ldb_blockgen_size_estimate *)
Definition bb_estimate (b : bbuilder) : N := bb_size b + bb_nrestarts b * 4 + 4.

Definition bb_add_all (interval : N) (b : bbuilder) (es : list entry) : bbuilder :=
  fold_left (fun b e => bb_add interval b (fst e) (snd e)) es b.

Definition block_build (interval : N) (es : list entry) : bytes :=
  bb_finish (bb_add_all interval bb_empty es).

(* ------------------------------------------------------------------ *)
(* Block reader (block.c)                                              *)
(* ------------------------------------------------------------------ *)

Record block := mk_block {
  blk_data : bytes;
  blk_len : N;       (* real length of blk_data (for the checked accesses) *)
  blk_size : N;      (* block->size: 0 is the error marker *)
  blk_restarts : N   (* block->restart_offset *)
}.

(* ldb_block_init *)
Definition block_init (b : bytes) : res block :=
  let size := nlen b in
  if size <? 4 then Ok (mk_block b size 0 0)
  else
    n <~ read32 b size (size - 4) ;;
    if (size - 4) / 4 <? n then Ok (mk_block b size 0 0)
    else Ok (mk_block b size size (size - (1 + n) * 4)).

(* decode_entry(shared, non_shared, value_length, xp, limit) where [sub] is the
   block from xp on (every read of the C function is a pattern match on [sub]:
   OOB if the block ends before the byte that is read) and xn = limit - xp.
   Result: None = NULL; Some (shared, non_shared, value_length, header length,
   the block from the key delta on). *)
Definition decode_entry (sub : bytes) (p limit : N)
  : res (option (N * N * N * N * bytes)) :=
  if limit <? p then Ok None
  else
    let xn := limit - p in
    if xn <? 3 then Ok None
    else
      match sub with
      | a :: b :: c :: rest =>
          if (a <? 128) && (b <? 128) && (c <? 128) then
            (* fast path: all three values are encoded in one byte each *)
            if xn - 3 <? b + c then Ok None else Ok (Some (a, b, c, 3, rest))
          else
            (* three varint32 reads bounded by xn: they never look further
               than 15 bytes ahead *)
            let wlen := N.min xn 15 in
            let w := take_n wlen sub in
            if negb (nlen w =? wlen) then OOB
            else
              match varint32_read w with
              | None => Ok None
              | Some (shared, w1) =>
                match varint32_read w1 with
                | None => Ok None
                | Some (non_shared, w2) =>
                  match varint32_read w2 with
                  | None => Ok None
                  | Some (value_length, w3) =>
                      let used := wlen - nlen w3 in
                      if xn - used <? non_shared + value_length then Ok None
                      else Ok (Some (shared, non_shared, value_length, used, drop_n used sub))
                  end
                end
              end
      | _ => OOB
      end.

(* checked memcpy source: the first [len] bytes of [sub] *)
Definition take_exact (sub : bytes) (len : N) : res bytes :=
  let s := take_n len sub in
  if nlen s =? len then Ok s else OOB.

(* ---- block iterator ---- *)
(* Besides the fields of ldb_blockiter_t the state caches three suffixes of the
   block so that sequential decoding does not re-walk the list:
     bi_rarr  = the block from the restart array on   (data + restarts)
     bi_vrest = the block from the current value on   (value.data)
     bi_next  = the block from the end of the value on (value.data + value.size)
   (invariants proved in BlockProofs). *)
Record biter := mk_biter {
  bi_data : bytes;
  bi_empty : bool;    (* ldb_emptyiter: every operation is a no-op *)
  bi_restarts : N;    (* offset of restart array *)
  bi_num : N;         (* num_restarts *)
  bi_rarr : bytes;
  bi_cur : N;         (* current *)
  bi_ridx : N;        (* restart_index *)
  bi_key : bytes;
  bi_voff : N;        (* value.data - data *)
  bi_vlen : N;        (* value.size *)
  bi_vrest : bytes;
  bi_next : bytes;
  bi_status : status
}.

Definition biter_empty (st : status) : biter :=
  mk_biter [] true 0 0 [] 0 0 [] 0 0 [] [] st.

(* ldb_blockiter_create *)
Definition biter_create (blk : block) : res biter :=
  if blk_size blk <? 4 then Ok (biter_empty SCorruption)
  else
    n <~ read32 (blk_data blk) (blk_len blk) (blk_size blk - 4) ;;
    if n =? 0 then Ok (biter_empty SOk)
    else Ok (mk_biter (blk_data blk) false (blk_restarts blk) n
                      (drop_n (blk_restarts blk) (blk_data blk))
                      (blk_restarts blk) n [] 0 0 (blk_data blk) (blk_data blk) SOk).

Definition biter_valid (it : biter) : bool :=
  negb (bi_empty it) && (bi_cur it <? bi_restarts it).
Definition biter_status (it : biter) : status := bi_status it.
Definition biter_key (it : biter) : bytes := bi_key it.
Definition biter_value (it : biter) : res bytes := take_exact (bi_vrest it) (bi_vlen it).

Definition set_pos (it : biter) (cur ridx : N) : biter :=
  mk_biter (bi_data it) (bi_empty it) (bi_restarts it) (bi_num it) (bi_rarr it)
           cur ridx (bi_key it) (bi_voff it) (bi_vlen it) (bi_vrest it) (bi_next it) (bi_status it).
Definition set_ridx (it : biter) (ridx : N) : biter := set_pos it (bi_cur it) ridx.

(* ldb_blockiter_corruption (the value slice is reset; it is never read before
   the next seek_to_restart_point) *)
Definition biter_corrupt (it : biter) : biter :=
  mk_biter (bi_data it) (bi_empty it) (bi_restarts it) (bi_num it) (bi_rarr it)
           (bi_restarts it) (bi_num it) [] 0 0 (bi_data it) (bi_data it) SCorruption.

(* get_restart_point: ldb_fixed32_decode(data + restarts + index * 4), clamped *)
Definition get_restart_point (it : biter) (index : N) : res N :=
  match de32 (drop_n (index * 4) (bi_rarr it)) with
  | None => OOB
  | Some off => Ok (if bi_restarts it <? off then bi_restarts it else off)
  end.

(* seek_to_restart_point *)
Definition seek_to_restart_point (it : biter) (index : N) : res biter :=
  off <~ get_restart_point it index ;;
  let sub := drop_n off (bi_data it) in
  Ok (mk_biter (bi_data it) (bi_empty it) (bi_restarts it) (bi_num it) (bi_rarr it)
               (bi_cur it) index [] off 0 sub sub (bi_status it)).

(* next_entry_offset *)
Definition next_entry_offset (it : biter) : N := bi_voff it + bi_vlen it.

Section WithComparator.
Variable cmp : bytes -> bytes -> comparison.
Variable is_internal : bool.     (* comparator->user_comparator != NULL *)

(* the while loop at the end of parse_next_key; [fuel] is any list at least as
   long as the number of restart points (the block itself is used) *)
Fixpoint advance_ridx (fuel : bytes) (it : biter) : res biter :=
  match fuel with
  | [] => Ok it
  | _ :: fuel' =>
      if bi_ridx it + 1 <? bi_num it then
        rp <~ get_restart_point it (bi_ridx it + 1) ;;
        if rp <? bi_cur it then advance_ridx fuel' (set_ridx it (bi_ridx it + 1))
        else Ok it
      else Ok it
  end.

(* parse_next_key: new state and the return value *)
Definition parse_next_key (it : biter) : res (biter * bool) :=
  let cur := next_entry_offset it in
  if bi_restarts it <=? cur then
    (* No more entries to return. Mark as invalid. *)
    Ok (set_pos it (bi_restarts it) (bi_num it), false)
  else
    d <~ decode_entry (bi_next it) cur (bi_restarts it) ;;
    match d with
    | None => Ok (biter_corrupt it, false)
    | Some (shared, non_shared, value_length, hdr, krest) =>
        if nlen (bi_key it) <? shared then Ok (biter_corrupt it, false)
        else if is_internal && (shared + non_shared <? 8) then Ok (biter_corrupt it, false)
        else
          delta <~ take_exact krest non_shared ;;
          let vrest := drop_n non_shared krest in
          let it1 := mk_biter (bi_data it) (bi_empty it) (bi_restarts it) (bi_num it) (bi_rarr it)
                              cur (bi_ridx it)
                              (take_n shared (bi_key it) ++ delta)
                              (cur + hdr + non_shared) value_length
                              vrest (drop_n value_length vrest) (bi_status it) in
          it2 <~ advance_ridx (bi_data it) it1 ;;
          Ok (it2, true)
    end.

(* ldb_blockiter_next (REQUIRES valid) *)
Definition biter_next (it : biter) : res biter :=
  if bi_empty it then Ok it
  else '(it', _) <~ parse_next_key it ;; Ok it'.

(* ldb_blockiter_first *)
Definition biter_first (it : biter) : res biter :=
  if bi_empty it then Ok it
  else it1 <~ seek_to_restart_point it 0 ;;
       '(it', _) <~ parse_next_key it1 ;; Ok it'.

(* while (parse_next_key(iter) && next_entry_offset(iter) < bound);
   each successful parse advances by at least 3 bytes *)
Fixpoint scan_until (fuel : bytes) (bound : N) (it : biter) : res biter :=
  '(it', ok) <~ parse_next_key it ;;
  if ok && (next_entry_offset it' <? bound) then
    match fuel with
    | [] => Ok it'
    | _ :: fuel' => scan_until fuel' bound it'
    end
  else Ok it'.

(* ldb_blockiter_last *)
Definition biter_last (it : biter) : res biter :=
  if bi_empty it then Ok it
  else it1 <~ seek_to_restart_point it (bi_num it - 1) ;;
       scan_until (bi_data it) (bi_restarts it) it1.

(* first loop of ldb_blockiter_prev: None = "No more entries" *)
Fixpoint prev_restart (fuel : bytes) (original : N) (it : biter) : res (option biter) :=
  rp <~ get_restart_point it (bi_ridx it) ;;
  if original <=? rp then
    if bi_ridx it =? 0 then Ok None
    else match fuel with
         | [] => Ok None
         | _ :: fuel' => prev_restart fuel' original (set_ridx it (bi_ridx it - 1))
         end
  else Ok (Some it).

(* ldb_blockiter_prev (REQUIRES valid) *)
Definition biter_prev (it : biter) : res biter :=
  if bi_empty it then Ok it
  else
    let original := bi_cur it in
    r <~ prev_restart (bi_data it) original it ;;
    match r with
    | None => Ok (set_pos it (bi_restarts it) (bi_num it))
    | Some it1 =>
        it2 <~ seek_to_restart_point it1 (bi_ridx it1) ;;
        scan_until (bi_data it) original it2
    end.

(* binary search of ldb_blockiter_seek: inl = corruption, inr = left *)
Fixpoint seek_bsearch (fuel : nat) (target : bytes) (it : biter) (lo hi : N)
  : res (unit + N) :=
  if lo <? hi then
    match fuel with
    | O => Ok (inr lo)
    | S fuel' =>
        let mid := (lo + hi + 1) / 2 in
        region_offset <~ get_restart_point it mid ;;
        d <~ decode_entry (drop_n region_offset (bi_data it)) region_offset (bi_restarts it) ;;
        match d with
        | None => Ok (inl tt)
        | Some (shared, non_shared, _, _, krest) =>
            if negb (shared =? 0) then Ok (inl tt)
            else if is_internal && (non_shared <? 8) then Ok (inl tt)
            else
              mid_key <~ take_exact krest non_shared ;;
              match cmp mid_key target with
              | Lt => seek_bsearch fuel' target it mid hi
              | _ => seek_bsearch fuel' target it lo (mid - 1)
              end
        end
    end
  else Ok (inr lo).

(* linear search for the first key >= target *)
Fixpoint seek_linear (fuel : bytes) (target : bytes) (it : biter) : res biter :=
  '(it', ok) <~ parse_next_key it ;;
  if negb ok then Ok it'
  else match cmp (bi_key it') target with
       | Lt => match fuel with
               | [] => Ok it'
               | _ :: fuel' => seek_linear fuel' target it'
               end
       | _ => Ok it'
       end.

(* ldb_blockiter_seek *)
Definition biter_seek (target : bytes) (it : biter) : res biter :=
  if bi_empty it then Ok it
  else if is_internal && (nlen target <? 8) then Ok (biter_corrupt it)
  else
    let ckc := if biter_valid it then cmp (bi_key it) target else Eq in
    if biter_valid it && match ckc with Eq => true | _ => false end then
      Ok it   (* We're seeking to the key we're already at. *)
    else
      let left0 := match ckc with Lt => bi_ridx it | _ => 0 end in
      let right0 := match ckc with Gt => bi_ridx it | _ => bi_num it - 1 end in
      r <~ seek_bsearch 64 target it left0 right0 ;;
      match r with
      | inl _ => Ok (biter_corrupt it)
      | inr lft =>
          let skip_seek := (lft =? bi_ridx it) && match ckc with Lt => true | _ => false end in
          it1 <~ (if skip_seek then Ok it else seek_to_restart_point it lft) ;;
          seek_linear (bi_data it) target it1
      end.

End WithComparator.

(* ------------------------------------------------------------------ *)
(* Linear decoder: all entries of a block in order (used by the table   *)
(* scan and by the round-trip theorem).  None = the block is rejected   *)
(* (bad size / restart count, or a bad entry).                          *)
(* ------------------------------------------------------------------ *)

(* decode the entry header at the head of [l] ([l] = the rest of the entry
   area, i.e. up to the restart array); as decode_entry with xn = length l *)
Definition decode_header (l : bytes) : option (N * N * N * bytes) :=
  match l with
  | a :: b :: c :: rest =>
      if (a <? 128) && (b <? 128) && (c <? 128) then
        if nlen rest <? b + c then None else Some (a, b, c, rest)
      else
        match varint32_read l with
        | None => None
        | Some (shared, w1) =>
          match varint32_read w1 with
          | None => None
          | Some (non_shared, w2) =>
            match varint32_read w2 with
            | None => None
            | Some (value_length, w3) =>
                if nlen w3 <? non_shared + value_length then None
                else Some (shared, non_shared, value_length, w3)
            end
          end
        end
  | _ => None
  end.

Fixpoint entries_loop (fuel : nat) (is_internal : bool) (key : bytes) (l : bytes)
  : option (list entry) :=
  match l with
  | [] => Some []
  | _ :: _ =>
      match fuel with
      | O => None
      | S fuel' =>
          match decode_header l with
          | None => None
          | Some (shared, non_shared, value_length, rest) =>
              if nlen key <? shared then None
              else if is_internal && (shared + non_shared <? 8) then None
              else
                let k := take_n shared key ++ take_n non_shared rest in
                let rest1 := drop_n non_shared rest in
                match entries_loop fuel' is_internal k (drop_n value_length rest1) with
                | None => None
                | Some es => Some ((k, take_n value_length rest1) :: es)
                end
          end
      end
  end.

Definition block_entries_gen (is_internal : bool) (b : bytes) : option (list entry) :=
  let size := nlen b in
  if size <? 4 then None
  else
    match de32 (drop_n (size - 4) b) with
    | None => None
    | Some n =>
        if (size - 4) / 4 <? n then None
        else if n =? 0 then Some []
        else
          let area := take_n (size - (1 + n) * 4) b in
          entries_loop (S (length area)) is_internal [] area
    end.

Definition block_entries (b : bytes) : option (list entry) := block_entries_gen false b.

(* ------------------------------------------------------------------ *)
(* Scripts: a sequence of iterator operations, as issued by the         *)
(* differential driver (next/prev are skipped when the iterator is not  *)
(* valid, because the C functions require validity).                    *)
(* ------------------------------------------------------------------ *)
Inductive iop := IFirst | ILast | ISeek (t : bytes) | INext | IPrev.

(* observation after a step: Some (key, value) or None (invalid) *)
Definition biter_observe (it : biter) : res (option entry) :=
  if biter_valid it then v <~ biter_value it ;; Ok (Some (bi_key it, v))
  else Ok None.

Section Scripts.
Variable cmp : bytes -> bytes -> comparison.
Variable is_internal : bool.

Definition biter_step (op : iop) (it : biter) : res biter :=
  match op with
  | IFirst => biter_first is_internal it
  | ILast => biter_last is_internal it
  | ISeek t => biter_seek cmp is_internal t it
  | INext => if biter_valid it then biter_next is_internal it else Ok it
  | IPrev => if biter_valid it then biter_prev is_internal it else Ok it
  end.

Fixpoint biter_run (ops : list iop) (it : biter) : res (list (option entry) * biter) :=
  match ops with
  | [] => Ok ([], it)
  | op :: ops' =>
      it1 <~ biter_step op it ;;
      o <~ biter_observe it1 ;;
      '(os, it2) <~ biter_run ops' it1 ;;
      Ok (o :: os, it2)
  end.

(* block_iter command: block_init, create, run the script *)
Definition block_run (b : bytes) (ops : list iop) : res (list (option entry) * status) :=
  blk <~ block_init b ;;
  it <~ biter_create blk ;;
  '(os, it') <~ biter_run ops it ;;
  Ok (os, biter_status it').

End Scripts.
