(* DbIterProofs.v -- the replica of db_iter.c over a cursor on a strictly sorted
   run of internal entries refines a cursor over the live view of that run, for
   every script (first / last / seek / seek_ge / gt / le / lt / next / prev, with
   all direction switches).

   Simulation relation (section 4):
     valid, FORWARD : the internal cursor sits on a live head (first entry with
                      sequence <= q of its user key, a value), which is what is shown;
     valid, REVERSE : (saved_key, saved_value) is a live head and the internal cursor
                      sits on the last entry with sequence <= q whose user key is
                      smaller than saved_key (or is invalid when there is none);
     invalid        : nothing. *)
From LCDB Require Import Base Cursor CursorProofs Engine EngineSpec EngineRead EngineStepsBase
                         Merger DbIter LiveViewProofs.
From Coq Require Import Sorting.Sorted.
Require Import Lia ZifyBool ZifyNat ZifyN.
Local Open Scope N_scope.

Section DbIterCursor.
Variable ucmp : bytes -> bytes -> comparison.
Context {TO : total_order ucmp}.
Variable q : N.
Variable l : list entry.
Hypothesis Hs : EngineStepsBase.Srt ucmp l.
Variable fuel : nat.
Hypothesis Hfuel : (length l + 2 <= fuel)%nat.

Notation ilt := (Engine.ilt ucmp).
Notation I := (cursor_ops (itge ucmp) (itcmp ucmp) l).
Notation V := (live_of_sorted ucmp q None l).
Notation lhead := (LiveViewProofs.lhead ucmp q l).
Notation vis := (LiveViewProofs.vis q).
Notation klt := (LiveViewProofs.klt ucmp).

Let ii := ilt_irrefl ucmp.
Let it := ilt_trans ucmp.
Let ki := klt_irrefl ucmp.
Let kt := klt_trans ucmp.
Let HsV : SrtBy klt V := live_view_sorted ucmp q l Hs.

(* ------------------------------------------------------------------ 1. the run *)
Lemma at_lt i j a b :
  (i < j)%nat -> nth_error l i = Some a -> nth_error l j = Some b -> ilt a b = true.
Proof. apply (SrtBy_nth ilt ii it l Hs). Qed.

Lemma at_key_le i j a b :
  (i <= j)%nat -> nth_error l i = Some a -> nth_error l j = Some b -> ucmp (ek a) (ek b) <> Gt.
Proof.
  intros Hij Ha Hb. assert (i = j \/ i < j)%nat as [->|L] by lia.
  - assert (a = b) by congruence. subst b. rewrite (ucmp_refl ucmp). discriminate.
  - apply (ilt_ukey ucmp). eapply at_lt; eauto.
Qed.

Lemma at_len i e : nth_error l i = Some e -> (i < length l)%nat.
Proof. intros H. apply nth_error_Some. congruence. Qed.

(* a <= b <= c and a == c *)
Lemma squeeze_r a b c :
  ucmp a b <> Gt -> ucmp b c <> Gt -> ucmp a c = Eq -> ucmp b c = Eq.
Proof. intros H1 H2 H3. apply (ukey_squeeze ucmp a b c H1 H2 H3). Qed.

Lemma le_lt_key a b c : ucmp a b <> Gt -> ucmp b c = Lt -> ucmp a c = Lt.
Proof.
  intros H1 H2. pose proof (ucmp_trans3 ucmp a b c) as H.
  destruct (ucmp a b) eqn:E1; try congruence; rewrite H2 in H; exact H.
Qed.

Lemma lt_le_key a b c : ucmp a b = Lt -> ucmp b c <> Gt -> ucmp a c = Lt.
Proof.
  intros H1 H2. pose proof (ucmp_trans3 ucmp a b c) as H. rewrite H1 in H.
  destruct (ucmp b c) eqn:E2; try congruence; exact H.
Qed.

Lemma not_lt_ge a b : ucmp a b <> Lt -> ucmp b a <> Gt.
Proof. intros H G. apply H. apply (ucmp_gt_lt ucmp). exact G. Qed.

Lemma lhead_at i e : lhead i e -> nth_error l i = Some e.
Proof. intros H. apply H. Qed.

Lemma lhead_inj i e e' : lhead i e -> lhead i e' -> e = e'.
Proof. intros H H'. apply lhead_at in H, H'. congruence. Qed.

Lemma lhead_key_lt i1 e1 i2 e2 :
  lhead i1 e1 -> lhead i2 e2 -> (i1 < i2)%nat -> ucmp (ek e1) (ek e2) = Lt.
Proof.
  intros (H1 & V1 & _) (H2 & _ & _ & Hb) L.
  pose proof (at_key_le i1 i2 e1 e2 (Nat.lt_le_incl _ _ L) H1 H2) as Hle.
  pose proof (Hb i1 e1 L H1 V1) as Hne.
  destruct (ucmp (ek e1) (ek e2)); congruence.
Qed.

(* an entry with sequence <= q before index i with the same user key: i is no head *)
Lemma not_lhead j ej i e :
  (j < i)%nat -> nth_error l j = Some ej -> vis ej = true -> ucmp (ek ej) (ek e) = Eq -> ~ lhead i e.
Proof. intros L Hj Vj E (_ & _ & _ & Hb). exact (Hb j ej L Hj Vj E). Qed.

(* ------------------------------------------------------------------ 2. the view through live heads *)
Lemma V_in x : In x V <-> exists i e, lhead i e /\ x = kv e.
Proof. apply (live_lhead ucmp q l Hs). Qed.

Lemma spec_seek_some (P : bytes * bytes -> bool) i e :
  lhead i e -> P (kv e) = true ->
  (forall i1 e1, lhead i1 e1 -> P (kv e1) = true -> (i <= i1)%nat) ->
  c_get V (c_seek P V) = Some (kv e).
Proof.
  intros Hh HP Hmin. apply (c_seek_min klt ki kt V P (kv e) HsV).
  - apply V_in. exists i, e. auto.
  - exact HP.
  - intros y Hy Py. apply V_in in Hy. destruct Hy as (i1 & e1 & Hh1 & ->).
    pose proof (Hmin i1 e1 Hh1 Py) as Hle.
    assert (i = i1 \/ i < i1)%nat as [<-|L] by lia.
    + rewrite (lhead_inj i e1 e Hh1 Hh). apply ki.
    + apply (CursorProofs.lt_asym klt ki kt). unfold LiveViewProofs.klt, kv. cbn [fst].
      apply (ult_iff ucmp). eapply lhead_key_lt; eauto.
Qed.

Lemma spec_seek_none (P : bytes * bytes -> bool) :
  (forall i1 e1, lhead i1 e1 -> P (kv e1) = false) -> c_seek P V = None.
Proof.
  intros H. apply c_seek_none. intros y Hy. apply V_in in Hy.
  destruct Hy as (i1 & e1 & Hh1 & ->). eapply H; eauto.
Qed.

Lemma spec_seek_last_some (P : bytes * bytes -> bool) i e :
  lhead i e -> P (kv e) = true ->
  (forall i1 e1, lhead i1 e1 -> P (kv e1) = true -> (i1 <= i)%nat) ->
  c_get V (c_seek_last P V) = Some (kv e).
Proof.
  intros Hh HP Hmax. apply (c_seek_last_max klt ki kt V P (kv e) HsV).
  - apply V_in. exists i, e. auto.
  - exact HP.
  - intros y Hy Py. apply V_in in Hy. destruct Hy as (i1 & e1 & Hh1 & ->).
    pose proof (Hmax i1 e1 Hh1 Py) as Hle.
    assert (i = i1 \/ i1 < i)%nat as [<-|L] by lia.
    + rewrite (lhead_inj i e1 e Hh1 Hh). apply ki.
    + apply (CursorProofs.lt_asym klt ki kt). unfold LiveViewProofs.klt, kv. cbn [fst].
      apply (ult_iff ucmp). eapply lhead_key_lt; eauto.
Qed.

Lemma spec_seek_last_none (P : bytes * bytes -> bool) :
  (forall i1 e1, lhead i1 e1 -> P (kv e1) = false) -> c_seek_last P V = None.
Proof.
  intros H. apply c_seek_last_none. intros y Hy. apply V_in in Hy.
  destruct Hy as (i1 & e1 & Hh1 & ->). eapply H; eauto.
Qed.

(* ------------------------------------------------------------------ 3. the loops *)
(* 3a. find_next_user_entry *)
Definition pos (c : cursor) : nat := match c with Some j => j | None => length l end.

Definition noheads (lo hi : nat) (sk : bool) (skip : bytes) : Prop :=
  forall i e, (lo <= i < hi)%nat -> lhead i e -> sk = true /\ ucmp (ek e) skip = Eq.

(* entries with sequence <= q from j on are not below skip *)
Definition PreN (j : nat) (sk : bool) (skip : bytes) : Prop :=
  sk = true -> forall i e, (j <= i)%nat -> nth_error l i = Some e -> vis e = true ->
               ucmp (ek e) skip <> Lt.

(* a user key seen (sequence <= q) before j and again from j on is the key being skipped *)
Definition CtxN (j : nat) (sk : bool) (skip : bytes) : Prop :=
  forall i' e' i e, (i' < j)%nat -> (j <= i)%nat -> nth_error l i' = Some e' -> nth_error l i = Some e ->
    vis e' = true -> vis e = true -> ucmp (ek e') (ek e) = Eq -> sk = true /\ ucmp (ek e) skip = Eq.

Definition PostN (j : nat) (sk : bool) (skip : bytes) (res : cursor * bool) : Prop :=
  if snd res then
    exists i e, fst res = Some i /\ (j <= i)%nat /\ lhead i e /\
                (sk = true -> ucmp (ek e) skip <> Eq) /\ noheads j i sk skip
  else noheads j (length l) sk skip.

Lemma find_next_loop_S n c sk skip :
  find_next_loop ucmp I q (S n) c sk skip =
  match c_get l c with
  | None => (c, false)
  | Some e =>
      if es e <=? q then
        if et e then
          if sk && ule ucmp (ek e) skip then find_next_loop ucmp I q n (c_next l c) sk skip
          else (c, true)
        else find_next_loop ucmp I q n (c_next l c) true (ek e)
      else find_next_loop ucmp I q n (c_next l c) sk skip
  end.
Proof. reflexivity. Qed.

Lemma pos_next j : (j < length l)%nat -> pos (c_next l (Some j)) = S j.
Proof.
  intros H. unfold c_next. destruct (S j <? length l)%nat eqn:E; cbn [pos]; lia.
Qed.

Lemma next_shape j : c_next l (Some j) = Some (S j) \/ (c_next l (Some j) = None /\ (length l <= S j)%nat).
Proof. unfold c_next. destruct (S j <? length l)%nat eqn:E; [left; reflexivity|right; split; [reflexivity|lia]]. Qed.

Lemma find_next_spec : forall n c sk skip,
  (length l <= n + pos c)%nat ->
  PreN (pos c) sk skip -> CtxN (pos c) sk skip ->
  PostN (pos c) sk skip (find_next_loop ucmp I q n c sk skip).
Proof.
  induction n as [|n IH]; intros c sk skip Hn Hpre Hctx.
  - (* no fuel: only at the end *)
    cbn [find_next_loop]. unfold PostN. cbn [snd]. intros i e Hi. lia.
  - rewrite find_next_loop_S. destruct (c_get l c) as [e|] eqn:G.
    2:{ unfold PostN. cbn [snd]. intros i e Hi Hh. exfalso.
        destruct c as [j|]; cbn [pos] in Hi; [|lia].
        cbn [c_get] in G. apply nth_error_None in G. lia. }
    destruct c as [j|]; [|discriminate]. cbn [c_get] in G. cbn [pos] in *.
    pose proof (at_len j e G) as Hj.
    (* the three ways to continue *)
    assert (Hcont : forall sk' skip',
              PreN (S j) sk' skip' -> CtxN (S j) sk' skip' ->
              PostN (S j) sk' skip' (find_next_loop ucmp I q n (c_next l (Some j)) sk' skip')).
    { intros sk' skip' Hp' Hc'. rewrite <- (pos_next j Hj) in Hp', Hc' |- *.
      apply IH; try assumption. rewrite (pos_next j Hj). lia. }
    assert (Hpre' : PreN (S j) sk skip).
    { intros Hsk i e' Hi. apply Hpre; [exact Hsk|lia]. }
    destruct (es e <=? q) eqn:Ve.
    + destruct (et e) eqn:Te.
      * destruct (sk && ule ucmp (ek e) skip) eqn:Hid.
        -- (* hidden value *)
           apply andb_prop in Hid. destruct Hid as [Hsk Hle].
           assert (Ek : ucmp (ek e) skip = Eq).
           { apply (ule_iff ucmp) in Hle. pose proof (Hpre Hsk j e (Nat.le_refl _) G Ve) as H1.
             destruct (ucmp (ek e) skip); congruence. }
           assert (Hctx' : CtxN (S j) sk skip).
           { intros i' e' i e2 Hi' Hi He' He2 V' V2 E.
             assert (i' = j \/ i' < j)%nat as [->|L] by lia.
             - assert (e' = e) by congruence. subst e'. split; [exact Hsk|].
               rewrite <- (ucmp_eq_l ucmp _ _ skip E). exact Ek.
             - apply (Hctx i' e' i e2); auto. lia. }
           pose proof (Hcont sk skip Hpre' Hctx') as HP. unfold PostN in HP |- *.
           destruct (snd (find_next_loop ucmp I q n (c_next l (Some j)) sk skip)).
           ++ destruct HP as (i & e2 & Hf & Hi & Hh & Hne & Hno).
              exists i, e2. split; [exact Hf|]. split; [lia|]. split; [exact Hh|]. split; [exact Hne|].
              intros i1 e1 Hi1 Hh1. assert (i1 = j \/ S j <= i1)%nat as [->|L] by lia.
              ** apply lhead_at in Hh1. assert (e1 = e) by congruence. subst e1. auto.
              ** apply (Hno i1 e1); [lia|exact Hh1].
           ++ intros i1 e1 Hi1 Hh1. assert (i1 = j \/ S j <= i1)%nat as [->|L] by lia.
              ** apply lhead_at in Hh1. assert (e1 = e) by congruence. subst e1. auto.
              ** apply (HP i1 e1); [lia|exact Hh1].
        -- (* acceptable entry: stop *)
           unfold PostN. cbn [snd fst]. exists j, e. split; [reflexivity|]. split; [lia|].
           assert (Hnh : sk = true -> ucmp (ek e) skip <> Eq).
           { intros Hsk E. rewrite Hsk in Hid. cbn [andb] in Hid.
             unfold ule in Hid. rewrite E in Hid. discriminate. }
           split; [|split; [exact Hnh|intros i1 e1 Hi1; lia]].
           split; [exact G|]. split; [exact Ve|]. split; [exact Te|].
           intros i' e' Hi' He' V' E.
           destruct (Hctx i' e' j e Hi' (Nat.le_refl _) He' G V' Ve E) as [Hsk Ek].
           exact (Hnh Hsk Ek).
      * (* deletion: skip its key *)
        assert (Hpre2 : PreN (S j) true (ek e)).
        { intros _ i e2 Hi He2 _ L2.
          apply (at_key_le j i e e2); [lia|exact G|exact He2|].
          apply (ucmp_gt_lt ucmp). exact L2. }
        assert (Hctx2 : CtxN (S j) true (ek e)).
        { intros i' e' i e2 Hi' Hi He' He2 V' V2 E. split; [reflexivity|].
          apply (ucmp_eq_sym ucmp).
          apply (squeeze_r (ek e') (ek e) (ek e2)); [|eapply (at_key_le j i); eauto; lia|exact E].
          eapply (at_key_le i' j); eauto. lia. }
        pose proof (Hcont true (ek e) Hpre2 Hctx2) as HP. unfold PostN in HP |- *.
        destruct (snd (find_next_loop ucmp I q n (c_next l (Some j)) true (ek e))).
        -- destruct HP as (i & e2 & Hf & Hi & Hh & Hne & Hno).
           exists i, e2. split; [exact Hf|]. split; [lia|]. split; [exact Hh|].
           assert (Hgt : ucmp (ek e) (ek e2) = Lt).
           { pose proof (at_key_le j i e e2 ltac:(lia) G (lhead_at _ _ Hh)) as H1.
             pose proof (Hne eq_refl) as H2.
             destruct (ucmp (ek e) (ek e2)) eqn:E; try congruence.
             exfalso. apply H2. apply (ucmp_eq_sym ucmp). exact E. }
           split.
           ++ intros Hsk E. pose proof (Hpre Hsk j e (Nat.le_refl _) G Ve) as H1.
              (* skip <= ek e < ek e2 == skip *)
              pose proof (le_lt_key skip (ek e) (ek e2) (not_lt_ge _ _ H1) Hgt) as H3.
              rewrite (ucmp_eq_sym ucmp _ _ E) in H3. discriminate.
           ++ intros i1 e1 Hi1 Hh1. exfalso.
              assert (i1 = j \/ S j <= i1)%nat as [->|L] by lia.
              ** apply lhead_at in Hh1 as Hat. assert (e1 = e) by congruence. subst e1.
                 destruct Hh1 as (_ & _ & Te1 & _). congruence.
              ** destruct (Hno i1 e1 ltac:(lia) Hh1) as [_ E].
                 apply (not_lhead j e i1 e1 ltac:(lia) G Ve (ucmp_eq_sym ucmp _ _ E) Hh1).
        -- intros i1 e1 Hi1 Hh1. exfalso.
           assert (i1 = j \/ S j <= i1)%nat as [->|L] by lia.
           ** apply lhead_at in Hh1 as Hat. assert (e1 = e) by congruence. subst e1.
              destruct Hh1 as (_ & _ & Te1 & _). congruence.
           ** destruct (HP i1 e1 ltac:(lia) Hh1) as [_ E].
              apply (not_lhead j e i1 e1 ltac:(lia) G Ve (ucmp_eq_sym ucmp _ _ E) Hh1).
    + (* sequence > q: ignored *)
      assert (Hctx' : CtxN (S j) sk skip).
      { intros i' e' i e2 Hi' Hi He' He2 V' V2 E.
        assert (i' = j \/ i' < j)%nat as [->|L] by lia.
        - assert (e' = e) by congruence. subst e'. unfold LiveViewProofs.vis in V'. congruence.
        - apply (Hctx i' e' i e2); auto. lia. }
      pose proof (Hcont sk skip Hpre' Hctx') as HP. unfold PostN in HP |- *.
      assert (Hnj : forall e1, ~ lhead j e1).
      { intros e1 Hh1. apply lhead_at in Hh1 as Hat. assert (e1 = e) by congruence. subst e1.
        destruct Hh1 as (_ & V1 & _). unfold LiveViewProofs.vis in V1. congruence. }
      destruct (snd (find_next_loop ucmp I q n (c_next l (Some j)) sk skip)).
      * destruct HP as (i & e2 & Hf & Hi & Hh & Hne & Hno).
        exists i, e2. split; [exact Hf|]. split; [lia|]. split; [exact Hh|]. split; [exact Hne|].
        intros i1 e1 Hi1 Hh1. assert (i1 = j \/ S j <= i1)%nat as [->|L] by lia.
        -- exfalso. exact (Hnj e1 Hh1).
        -- apply (Hno i1 e1); [lia|exact Hh1].
      * intros i1 e1 Hi1 Hh1. assert (i1 = j \/ S j <= i1)%nat as [->|L] by lia.
        -- exfalso. exact (Hnj e1 Hh1).
        -- apply (HP i1 e1); [lia|exact Hh1].
Qed.

(* 3b. the for(;;) of ldb_dbiter_prev *)
Definition PostB (m : nat) (k : bytes) (res : cursor * bool) : Prop :=
  if snd res then
    exists j ej, fst res = Some j /\ (j < m)%nat /\ nth_error l j = Some ej /\ ucmp (ek ej) k = Lt /\
      forall i1 e1, (j < i1 < m)%nat -> nth_error l i1 = Some e1 -> ucmp (ek e1) k <> Lt
  else forall i1 e1, (i1 < m)%nat -> nth_error l i1 = Some e1 -> ucmp (ek e1) k <> Lt.

Lemma back_loop_S n c k :
  back_loop ucmp I (S n) c k =
  match c_get l (c_prev l c) with
  | None => (c_prev l c, false)
  | Some e => if ult ucmp (ek e) k then (c_prev l c, true) else back_loop ucmp I n (c_prev l c) k
  end.
Proof. reflexivity. Qed.

Lemma back_loop_spec : forall n m k,
  (m < n)%nat -> (m < length l)%nat -> PostB m k (back_loop ucmp I n (Some m) k).
Proof.
  induction n as [|n IH]; intros m k Hn Hm; [lia|].
  rewrite back_loop_S. destruct m as [|m'].
  - cbn [c_prev c_get]. unfold PostB. cbn [snd]. intros i1 e1 Hi1. lia.
  - cbn [c_prev c_get]. destruct (nth_error l m') as [e|] eqn:G.
    2:{ apply nth_error_None in G. lia. }
    destruct (ult ucmp (ek e) k) eqn:U.
    + unfold PostB. cbn [snd fst]. exists m', e. split; [reflexivity|]. split; [lia|].
      split; [exact G|]. split; [apply (ult_iff ucmp); exact U|]. intros i1 e1 Hi1. lia.
    + assert (Hnl : ucmp (ek e) k <> Lt).
      { intros L. apply (ult_iff ucmp) in L. congruence. }
      pose proof (IH m' k ltac:(lia) ltac:(lia)) as HP. unfold PostB in HP |- *.
      destruct (snd (back_loop ucmp I n (Some m') k)).
      * destruct HP as (j & ej & Hf & Hj & Hat & Hlt & Hbetween).
        exists j, ej. split; [exact Hf|]. split; [lia|]. split; [exact Hat|]. split; [exact Hlt|].
        intros i1 e1 Hi1 He1. assert (i1 = m' \/ i1 < m')%nat as [->|L] by lia.
        -- assert (e1 = e) by congruence. subst e1. exact Hnl.
        -- apply (Hbetween i1 e1); [lia|exact He1].
      * intros i1 e1 Hi1 He1. assert (i1 = m' \/ i1 < m')%nat as [->|L] by lia.
        -- assert (e1 = e) by congruence. subst e1. exact Hnl.
        -- apply (HP i1 e1); [lia|exact He1].
Qed.

(* 3c. find_prev_user_entry *)
(* where the internal cursor rests in REVERSE direction: the last entry with
   sequence <= q whose user key is below k *)
Definition rpos (k : bytes) : cursor := c_seek_last (fun e => vis e && ult ucmp (ek e) k) l.

Lemma rpos_some k r :
  rpos k = Some r ->
  exists er, nth_error l r = Some er /\ vis er = true /\ ucmp (ek er) k = Lt /\
    forall i1 e1, (r < i1)%nat -> nth_error l i1 = Some e1 -> vis e1 = true -> ucmp (ek e1) k <> Lt.
Proof.
  unfold rpos, c_seek_last. intros F.
  destruct (find_last_index_some _ l r F) as (er & Hr & Pr & Hlast).
  apply andb_prop in Pr. destruct Pr as [Vr Ur]. exists er. split; [exact Hr|]. split; [exact Vr|].
  split; [apply (ult_iff ucmp); exact Ur|].
  intros i1 e1 Hi1 He1 V1 L. pose proof (Hlast i1 e1 Hi1 He1) as H.
  rewrite V1 in H. cbn [andb] in H. apply (ult_iff ucmp) in L. congruence.
Qed.

Lemma rpos_none k :
  rpos k = None ->
  forall i1 e1, nth_error l i1 = Some e1 -> vis e1 = true -> ucmp (ek e1) k <> Lt.
Proof.
  unfold rpos. intros F i1 e1 He1 V1 L.
  pose proof (proj1 (c_seek_last_none _ l) F e1 (nth_error_In _ _ He1)) as H. cbv beta in H.
  rewrite V1 in H. cbn [andb] in H. apply (ult_iff ucmp) in L. congruence.
Qed.

(* the cursor is at rpos k when it shows a qualifying entry and nothing qualifies after it *)
Lemma rpos_is k j e :
  nth_error l j = Some e -> vis e = true -> ucmp (ek e) k = Lt ->
  (forall i1 e1, (j < i1)%nat -> nth_error l i1 = Some e1 -> vis e1 = true -> ucmp (ek e1) k <> Lt) ->
  Some j = rpos k.
Proof.
  intros Hj Vj Lj Hafter.
  apply (cursor_eq ilt ii it l (Some j) (rpos k) Hs).
  - cbn. eapply at_len; eauto.
  - apply c_seek_last_wf.
  - cbn [c_get]. rewrite Hj. symmetry. unfold rpos.
    apply (c_seek_last_max ilt ii it l _ e Hs).
    + eapply nth_error_In; eauto.
    + rewrite Vj. cbn [andb]. apply (ult_iff ucmp). exact Lj.
    + intros y Hy Py. apply andb_prop in Py. destruct Py as [Vy Uy]. apply (ult_iff ucmp) in Uy.
      apply In_nth_error in Hy. destruct Hy as [iy Hiy].
      destruct (Nat.lt_trichotomy iy j) as [L|[->|L]].
      * apply (ilt_asym ucmp). eapply at_lt; eauto.
      * assert (y = e) by congruence. subst y. apply ii.
      * exfalso. exact (Hafter iy y L Hiy Vy Uy).
Qed.

Definition lo (c : cursor) : nat := match c with Some j => S j | None => O end.

(* state of the backward scan: [have] means value_type <> deletion; the region
   [lo c, hi) has been scanned *)
Definition PreP (c : cursor) (hi : nat) (have : bool) (skey sval : bytes) : Prop :=
  if have then
    exists i0 e0, (lo c <= i0 < hi)%nat /\ nth_error l i0 = Some e0 /\ vis e0 = true /\ et e0 = true /\
      skey = ek e0 /\ sval = ev e0 /\
      (forall i1 e1, (lo c <= i1 < i0)%nat -> nth_error l i1 = Some e1 -> vis e1 = false) /\
      (forall i1 e1, (i0 < i1 < hi)%nat -> ~ lhead i1 e1)
  else forall i1 e1, (lo c <= i1 < hi)%nat -> ~ lhead i1 e1.

Definition PostP (hi : nat) (res : cursor * bool * bytes * bytes) : Prop :=
  let '(c', have', skey', sval') := res in
  if have' then
    exists i0 e0, lhead i0 e0 /\ (i0 < hi)%nat /\ skey' = ek e0 /\ sval' = ev e0 /\ c' = rpos (ek e0) /\
      (forall i1 e1, (i0 < i1 < hi)%nat -> ~ lhead i1 e1)
  else forall i1 e1, (i1 < hi)%nat -> ~ lhead i1 e1.

Lemma find_prev_loop_S n c have skey sval :
  find_prev_loop ucmp I q (S n) c have skey sval =
  match c_get l c with
  | None => (c, have, skey, sval)
  | Some e =>
      if es e <=? q then
        if have && ult ucmp (ek e) skey then (c, have, skey, sval)
        else if et e then find_prev_loop ucmp I q n (c_prev l c) true (ek e) (ev e)
        else find_prev_loop ucmp I q n (c_prev l c) false [] []
      else find_prev_loop ucmp I q n (c_prev l c) have skey sval
  end.
Proof. reflexivity. Qed.

Lemma find_prev_loop_None n have skey sval :
  find_prev_loop ucmp I q n None have skey sval = (None, have, skey, sval).
Proof. destruct n; reflexivity. Qed.

Lemma lo_prev j : lo (c_prev l (Some j)) = j.
Proof. destruct j; reflexivity. Qed.

Lemma find_prev_spec : forall m c n hi have skey sval,
  lo c = m -> (m <= n)%nat -> (m <= hi)%nat -> (hi <= length l)%nat ->
  PreP c hi have skey sval ->
  PostP hi (find_prev_loop ucmp I q n c have skey sval).
Proof.
  induction m as [|m IH]; intros c n hi have skey sval Hlo Hn Hhi Hlen Hpre.
  - (* before the first entry *)
    destruct c as [j|]; [discriminate|]. rewrite find_prev_loop_None. unfold PostP.
    unfold PreP in Hpre. cbn [lo] in Hpre. destruct have.
    + destruct Hpre as (i0 & e0 & Hi0 & Hat & V0 & T0 & -> & -> & Hnov & Hno).
      exists i0, e0. split; [|split; [lia|split; [reflexivity|split; [reflexivity|split; [|exact Hno]]]]].
      * split; [exact Hat|]. split; [exact V0|]. split; [exact T0|].
        intros i' e' Hi' He' V'. rewrite (Hnov i' e' ltac:(lia) He') in V'. discriminate.
      * symmetry. unfold rpos. apply c_seek_last_none. intros y Hy.
        apply In_nth_error in Hy. destruct Hy as [iy Hiy].
        destruct (Nat.lt_ge_cases iy i0) as [L|L].
        -- rewrite (Hnov iy y ltac:(lia) Hiy). reflexivity.
        -- destruct (ult ucmp (ek y) (ek e0)) eqn:U; [|apply andb_false_r].
           exfalso. apply (ult_iff ucmp) in U.
           apply (at_key_le i0 iy e0 y L Hat Hiy). apply (ucmp_gt_lt ucmp). exact U.
    + intros i1 e1 Hi1. apply Hpre. lia.
  - destruct c as [j|]; [|discriminate]. cbn [lo] in Hlo. inversion Hlo; subst m. clear Hlo.
    destruct n as [|n]; [lia|]. rewrite find_prev_loop_S. cbn [c_get].
    destruct (nth_error l j) as [e|] eqn:G.
    2:{ apply nth_error_None in G. lia. }
    (* the scanned region holds no live head once a newer entry with sequence <= q of
       the candidate's key, or any entry when there is no candidate, is processed *)
    assert (Hclear : vis e = true -> have && ult ucmp (ek e) skey = false ->
                     forall i1 e1, (S j <= i1 < hi)%nat -> ~ lhead i1 e1).
    { intros Ve Hnb i1 e1 Hi1 Hh1. unfold PreP in Hpre. destruct have.
      - destruct Hpre as (i0 & e0 & Hi0 & Hat & V0 & T0 & -> & -> & Hnov & Hno).
        cbn [lo andb] in *.
        assert (Ek : ucmp (ek e) (ek e0) = Eq).
        { pose proof (at_key_le j i0 e e0 ltac:(lia) G Hat) as H1.
          destruct (ucmp (ek e) (ek e0)) eqn:E; try congruence.
          apply (ult_iff ucmp) in E. congruence. }
        destruct (Nat.lt_trichotomy i1 i0) as [L|[->|L]].
        + destruct Hh1 as (Hat1 & V1 & _). rewrite (Hnov i1 e1 ltac:(lia) Hat1) in V1. discriminate.
        + apply lhead_at in Hh1 as Hat1. assert (e1 = e0) by congruence. subst e1.
          exact (not_lhead j e i0 e0 ltac:(lia) G Ve Ek Hh1).
        + exact (Hno i1 e1 ltac:(lia) Hh1).
      - exact (Hpre i1 e1 ltac:(cbn [lo]; lia) Hh1). }
    destruct (es e <=? q) eqn:Ve.
    + destruct (have && ult ucmp (ek e) skey) eqn:Hb.
      * (* break: a value was found in the entries of the previous keys *)
        apply andb_prop in Hb. destruct Hb as [-> U]. unfold PostP. unfold PreP in Hpre.
        destruct Hpre as (i0 & e0 & Hi0 & Hat & V0 & T0 & -> & -> & Hnov & Hno). cbn [lo] in *.
        apply (ult_iff ucmp) in U.
        exists i0, e0. split; [|split; [lia|split; [reflexivity|split; [reflexivity|split; [|exact Hno]]]]].
        -- split; [exact Hat|]. split; [exact V0|]. split; [exact T0|].
           intros i' e' Hi' He' V' E.
           destruct (Nat.le_gt_cases i' j) as [L|L].
           ++ pose proof (le_lt_key (ek e') (ek e) (ek e0) (at_key_le i' j e' e L He' G) U) as H.
              congruence.
           ++ rewrite (Hnov i' e' ltac:(lia) He') in V'. discriminate.
        -- apply (rpos_is (ek e0) j e G Ve U).
           intros i1 e1 Hi1 He1 V1 L1.
           destruct (Nat.lt_ge_cases i1 i0) as [L|L].
           ++ rewrite (Hnov i1 e1 ltac:(lia) He1) in V1. discriminate.
           ++ apply (at_key_le i0 i1 e0 e1 L Hat He1). apply (ucmp_gt_lt ucmp). exact L1.
      * destruct (et e) eqn:Te.
        -- (* a value: the new candidate *)
           apply (IH (c_prev l (Some j)) n hi true (ek e) (ev e)); [apply lo_prev|lia|lia|exact Hlen|].
           unfold PreP. rewrite lo_prev. exists j, e.
           split; [lia|]. split; [exact G|]. split; [exact Ve|]. split; [exact Te|].
           split; [reflexivity|]. split; [reflexivity|]. split; [intros i1 e1 Hi1; lia|].
           intros i1 e1 Hi1. apply (Hclear Ve eq_refl). lia.
        -- (* a deletion hides the older entries of its key *)
           apply (IH (c_prev l (Some j)) n hi false [] []); [apply lo_prev|lia|lia|exact Hlen|].
           unfold PreP. rewrite lo_prev. intros i1 e1 Hi1 Hh1.
           assert (i1 = j \/ S j <= i1)%nat as [->|L] by lia.
           ++ apply lhead_at in Hh1 as Hat1. assert (e1 = e) by congruence. subst e1.
              destruct Hh1 as (_ & _ & T1 & _). congruence.
           ++ exact (Hclear Ve eq_refl i1 e1 ltac:(lia) Hh1).
    + (* sequence > q: ignored *)
      apply (IH (c_prev l (Some j)) n hi have skey sval); [apply lo_prev|lia|lia|exact Hlen|].
      assert (Hnj : forall e1, ~ lhead j e1).
      { intros e1 Hh1. apply lhead_at in Hh1 as Hat1. assert (e1 = e) by congruence. subst e1.
        destruct Hh1 as (_ & V1 & _). unfold LiveViewProofs.vis in V1. congruence. }
      unfold PreP in Hpre |- *. rewrite lo_prev. cbn [lo] in Hpre. destruct have.
      * destruct Hpre as (i0 & e0 & Hi0 & Hat & V0 & T0 & -> & -> & Hnov & Hno).
        exists i0, e0. split; [lia|]. split; [exact Hat|]. split; [exact V0|]. split; [exact T0|].
        split; [reflexivity|]. split; [reflexivity|]. split; [|exact Hno].
        intros i1 e1 Hi1 He1. assert (i1 = j \/ S j <= i1)%nat as [->|L] by lia.
        -- assert (e1 = e) by congruence. subst e1. exact Ve.
        -- apply (Hnov i1 e1); [lia|exact He1].
      * intros i1 e1 Hi1 Hh1. assert (i1 = j \/ S j <= i1)%nat as [->|L] by lia.
        -- exact (Hnj e1 Hh1).
        -- exact (Hpre i1 e1 ltac:(lia) Hh1).
Qed.

(* ------------------------------------------------------------------ 4. the simulation relation *)
Definition Inv (st : @dstate cursor) : Prop :=
  if d_valid st then
    match d_dir st with
    | Forward => exists i e, d_it st = Some i /\ lhead i e
    | Reverse => exists i0 e0, lhead i0 e0 /\ d_skey st = ek e0 /\ d_sval st = ev e0 /\
                               d_it st = rpos (ek e0)
    end
  else True.

Definition R (st : @dstate cursor) (p : cursor) : Prop :=
  c_wf V p /\ c_get V p = d_get I st /\ Inv st.

Lemma R_init : R (d_init None) None.
Proof. split; [exact Logic.I|]. split; reflexivity. Qed.

Lemma R_invalid c dir skey sval p :
  p = None -> R (mkD c dir false skey sval) p.
Proof. intros ->. split; [exact Logic.I|]. split; reflexivity. Qed.

(* what a valid state shows *)
Lemma R_valid st p :
  R st p -> d_get I st <> None ->
  (d_dir st = Forward /\ exists i e, d_it st = Some i /\ lhead i e /\ c_get V p = Some (kv e)) \/
  (d_dir st = Reverse /\ exists i0 e0, lhead i0 e0 /\ d_skey st = ek e0 /\ d_sval st = ev e0 /\
                          d_it st = rpos (ek e0) /\ c_get V p = Some (kv e0)).
Proof.
  intros (_ & Hg & Hinv) Hv. unfold d_get in Hg, Hv. unfold Inv in Hinv.
  destruct (d_valid st); [|congruence].
  destruct (d_dir st).
  - left. split; [reflexivity|]. destruct Hinv as (i & e & Hit & Hh). exists i, e.
    split; [exact Hit|]. split; [exact Hh|]. rewrite Hg, Hit. cbn [i_get cursor_ops c_get].
    rewrite (lhead_at i e Hh). reflexivity.
  - right. split; [reflexivity|]. destruct Hinv as (i0 & e0 & Hh & Hk & Hv' & Hit). exists i0, e0.
    split; [exact Hh|]. split; [exact Hk|]. split; [exact Hv'|]. split; [exact Hit|].
    rewrite Hg, Hk, Hv'. reflexivity.
Qed.

(* result of find_next_user_entry, against a seek of the view *)
Lemma fnue_R st1 j sk skip (P : bytes * bytes -> bool) :
  d_dir st1 = Forward -> PreN j sk skip -> CtxN j sk skip ->
  (forall i e, (j <= i)%nat -> lhead i e -> (sk = true -> ucmp (ek e) skip <> Eq) -> P (kv e) = true) ->
  (forall i1 e1, lhead i1 e1 -> P (kv e1) = true ->
                 (j <= i1)%nat /\ ~ (sk = true /\ ucmp (ek e1) skip = Eq)) ->
  R (find_next_user_entry ucmp I fuel q st1 (Some j) sk skip) (c_seek P V).
Proof.
  intros Hdir Hpre Hctx HP1 HP2.
  pose proof (find_next_spec fuel (Some j) sk skip ltac:(cbn [pos]; lia) Hpre Hctx) as H.
  unfold find_next_user_entry.
  destruct (find_next_loop ucmp I q fuel (Some j) sk skip) as [c' v].
  unfold PostN in H. cbn [fst snd pos] in H. destruct v.
  - destruct H as (i & e & -> & Hi & Hh & Hne & Hno).
    split; [apply c_seek_wf|]. split.
    + rewrite (spec_seek_some P i e Hh (HP1 i e Hi Hh Hne)).
      * unfold d_get. cbn [d_valid d_dir d_it]. rewrite Hdir. cbn [i_get cursor_ops c_get].
        rewrite (lhead_at i e Hh). reflexivity.
      * intros i1 e1 Hh1 P1. destruct (HP2 i1 e1 Hh1 P1) as [Hge Hns].
        destruct (Nat.le_gt_cases i i1) as [L|L]; [exact L|]. exfalso. apply Hns.
        apply (Hno i1 e1); [lia|exact Hh1].
    + unfold Inv. cbn [d_valid d_dir d_it]. rewrite Hdir. exists i, e. auto.
  - apply R_invalid. apply spec_seek_none. intros i1 e1 Hh1.
    destruct (P (kv e1)) eqn:P1; [|reflexivity]. exfalso.
    destruct (HP2 i1 e1 Hh1 P1) as [Hge Hns]. apply Hns.
    apply (H i1 e1); [|exact Hh1]. split; [exact Hge|]. apply (at_len i1 e1). apply lhead_at. exact Hh1.
Qed.

(* result of find_prev_user_entry, against a backward seek of the view *)
Lemma fpue_R c skey sval (P : bytes * bytes -> bool) :
  c_wf l c ->
  (forall i e, (i < lo c)%nat -> lhead i e -> P (kv e) = true) ->
  (forall i1 e1, lhead i1 e1 -> P (kv e1) = true -> (i1 < lo c)%nat) ->
  R (find_prev_user_entry ucmp I fuel q c skey sval) (c_seek_last P V).
Proof.
  intros Hwf HP1 HP2.
  assert (Hlen : (lo c <= length l)%nat).
  { destruct c as [j|]; cbn [lo c_wf] in *; lia. }
  assert (Hpre : PreP c (lo c) false skey sval).
  { unfold PreP. intros i1 e1 Hi1. lia. }
  pose proof (find_prev_spec (lo c) c fuel (lo c) false skey sval eq_refl ltac:(lia) (Nat.le_refl _) Hlen Hpre) as H.
  unfold find_prev_user_entry.
  destruct (find_prev_loop ucmp I q fuel c false skey sval) as [[[c' have'] skey'] sval'].
  unfold PostP in H. destruct have'.
  - destruct H as (i0 & e0 & Hh & Hi0 & -> & -> & -> & Hno).
    split; [apply c_seek_last_wf|]. split.
    + rewrite (spec_seek_last_some P i0 e0 Hh (HP1 i0 e0 Hi0 Hh)); [reflexivity|].
      intros i1 e1 Hh1 P1. pose proof (HP2 i1 e1 Hh1 P1) as Hlt.
      destruct (Nat.le_gt_cases i1 i0) as [L|L]; [exact L|]. exfalso.
      exact (Hno i1 e1 ltac:(lia) Hh1).
    + unfold Inv. cbn [d_valid d_dir d_it d_skey d_sval]. exists i0, e0. auto.
  - apply R_invalid. apply spec_seek_last_none. intros i1 e1 Hh1.
    destruct (P (kv e1)) eqn:P1; [|reflexivity]. exfalso.
    exact (H i1 e1 (HP2 i1 e1 Hh1 P1) Hh1).
Qed.

(* ------------------------------------------------------------------ 5. the operations *)
Lemma first_cases {A} (x : list A) :
  (c_first x = None /\ length x = O) \/ (c_first x = Some O /\ (0 < length x)%nat).
Proof. destruct x; cbn; [left; auto|right; split; [reflexivity|lia]]. Qed.

Lemma last_cases {A} (x : list A) :
  (c_last x = None /\ length x = O) \/ (c_last x = Some (length x - 1)%nat /\ (0 < length x)%nat).
Proof.
  unfold c_last. destruct (length x) eqn:E; [left; auto|right]. split; [f_equal; lia|lia].
Qed.

Lemma nth_some i : (i < length l)%nat -> exists e, nth_error l i = Some e.
Proof.
  intros H. destruct (nth_error l i) as [e|] eqn:G; [exists e; reflexivity|].
  apply nth_error_None in G. lia.
Qed.

Lemma next_shape' j :
  (c_next l (Some j) = Some (S j) /\ (S j < length l)%nat) \/
  (c_next l (Some j) = None /\ (length l <= S j)%nat).
Proof.
  unfold c_next. destruct (S j <? length l)%nat eqn:E; [left|right]; split; try reflexivity; lia.
Qed.

Lemma R_first st p : R st p -> R (d_first ucmp I fuel q st) (c_first V).
Proof.
  intros _. unfold d_first. cbn [i_first i_get cursor_ops]. rewrite (c_first_seek V).
  destruct (first_cases l) as [[Hc Hl]|[Hc Hl]]; rewrite Hc.
  - cbn [c_get]. apply R_invalid. apply spec_seek_none. intros i1 e1 Hh1.
    apply lhead_at, at_len in Hh1. lia.
  - destruct (nth_some O Hl) as [e0 He0]. cbn [c_get]. rewrite He0.
    apply fnue_R.
    + reflexivity.
    + intros Hsk. discriminate.
    + intros i' e' i e Hi'. lia.
    + intros i e _ _ _. reflexivity.
    + intros i1 e1 _ _. split; [lia|]. intros [Hsk _]. discriminate.
Qed.

Lemma ge_vis t e : vis e = true -> ge_target ucmp t q e = kvge ucmp t (kv e).
Proof.
  unfold ge_target, kvge, kv, LiveViewProofs.vis. cbn [fst]. intros Hv.
  destruct (ucmp (ek e) t); try reflexivity. exact Hv.
Qed.

Lemma R_seek t st p : R st p -> R (d_seek ucmp I fuel q t st) (c_seek (kvge ucmp t) V).
Proof.
  intros _. unfold d_seek. cbn [i_seek i_get cursor_ops].
  destruct (c_seek (itge ucmp (t, q)) l) as [j|] eqn:F.
  - unfold c_seek in F. destruct (find_index_some _ l j F) as (ej & Hej & Gej & Hbefore).
    unfold itge in Gej, Hbefore. cbn [fst snd] in Gej, Hbefore.
    cbn [c_get]. rewrite Hej.
    assert (Hge : forall i e, (j <= i)%nat -> nth_error l i = Some e -> ge_target ucmp t q e = true).
    { intros i e Hi He. assert (i = j \/ j < i)%nat as [->|L] by lia.
      - assert (e = ej) by congruence. subst e. exact Gej.
      - apply (ge_target_mono ucmp TO t q ej e); [|exact Gej]. eapply at_lt; eauto. }
    apply fnue_R.
    + reflexivity.
    + intros Hsk. discriminate.
    + intros i' e' i e Hi' Hi He' He V' V2 E. exfalso.
      pose proof (Hbefore i' e' Hi' He') as H1. rewrite (ge_vis t e' V') in H1.
      pose proof (Hge i e Hi He) as H2. rewrite (ge_vis t e V2) in H2.
      unfold kvge, kv in H1, H2. cbn [fst] in H1, H2.
      rewrite (ucmp_eq_l ucmp _ _ t E) in H1. congruence.
    + intros i e Hi Hh _. rewrite <- (ge_vis t e); [|apply Hh]. apply (Hge i e Hi). apply lhead_at. exact Hh.
    + intros i1 e1 Hh1 P1. split; [|intros [Hsk _]; discriminate].
      destruct (Nat.le_gt_cases j i1) as [L|L]; [exact L|]. exfalso.
      pose proof (Hbefore i1 e1 L (lhead_at _ _ Hh1)) as H1.
      rewrite (ge_vis t e1) in H1; [congruence|apply Hh1].
  - cbn [c_get]. apply R_invalid. apply spec_seek_none. intros i1 e1 Hh1.
    rewrite <- (ge_vis t e1); [|apply Hh1].
    apply (proj1 (c_seek_none _ l) F e1). eapply nth_error_In. apply lhead_at. exact Hh1.
Qed.

(* everything from a live head on is not below its key *)
Lemma klt_after i e i1 e1 :
  lhead i e -> lhead i1 e1 -> klt (kv e) (kv e1) = true -> (S i <= i1)%nat.
Proof.
  intros Hh Hh1 K. unfold LiveViewProofs.klt, kv in K. cbn [fst] in K. apply (ult_iff ucmp) in K.
  destruct (Nat.le_gt_cases (S i) i1) as [L|L]; [exact L|]. exfalso.
  apply (at_key_le i1 i e1 e ltac:(lia) (lhead_at _ _ Hh1) (lhead_at _ _ Hh)).
  apply (ucmp_gt_lt ucmp). exact K.
Qed.

Lemma R_next st p : R st p -> d_get I st <> None -> R (d_next ucmp I fuel q st) (c_next V p).
Proof.
  intros HR Hv. destruct (R_valid st p HR Hv) as [(Hdir & i & e & Hit & Hh & Hg)|(Hdir & i0 & e0 & Hh & Hk & Hsv & Hit & Hg)].
  - (* FORWARD: skip the rest of the current key *)
    rewrite (c_next_seek klt ki kt V p (kv e) HsV Hg).
    unfold d_next. rewrite Hdir, Hit. cbn [i_get i_next cursor_ops c_get].
    pose proof (lhead_at i e Hh) as Hat. rewrite Hat.
    destruct (next_shape' i) as [[Hn Hl]|[Hn Hl]]; rewrite Hn.
    + destruct (nth_some (S i) Hl) as [e' He']. cbn [c_get]. rewrite He'.
      apply fnue_R.
      * reflexivity.
      * intros _ i1 e1 Hi1 He1 _ L1.
        apply (at_key_le i i1 e e1 ltac:(lia) Hat He1). apply (ucmp_gt_lt ucmp). exact L1.
      * intros i' e2' i1 e1 Hi' Hi1 He2' He1 V' V1 E. split; [reflexivity|].
        apply (ucmp_eq_sym ucmp).
        apply (squeeze_r (ek e2') (ek e) (ek e1)); [|eapply (at_key_le i i1); eauto; lia|exact E].
        eapply (at_key_le i' i); eauto. lia.
      * intros i1 e1 Hi1 Hh1 Hne. unfold LiveViewProofs.klt, kv. cbn [fst]. apply (ult_iff ucmp).
        pose proof (at_key_le i i1 e e1 ltac:(lia) Hat (lhead_at _ _ Hh1)) as H1.
        pose proof (Hne eq_refl) as H2.
        destruct (ucmp (ek e) (ek e1)) eqn:E; try congruence.
        exfalso. apply H2. apply (ucmp_eq_sym ucmp). exact E.
      * intros i1 e1 Hh1 P1. split; [apply (klt_after i e i1 e1 Hh Hh1 P1)|].
        intros [_ E]. unfold LiveViewProofs.klt, kv in P1. cbn [fst] in P1. apply (ult_iff ucmp) in P1.
        rewrite (ucmp_eq_sym ucmp _ _ E) in P1. discriminate.
    + cbn [c_get]. apply R_invalid. apply spec_seek_none. intros i1 e1 Hh1.
      destruct (klt (kv e) (kv e1)) eqn:K; [|reflexivity]. exfalso.
      pose proof (klt_after i e i1 e1 Hh Hh1 K) as H1.
      pose proof (at_len i1 e1 (lhead_at _ _ Hh1)). lia.
  - (* REVERSE -> FORWARD: advance into the entries of saved_key, then skip them *)
    rewrite (c_next_seek klt ki kt V p (kv e0) HsV Hg).
    unfold d_next. rewrite Hdir, Hit, Hk. cbn [i_get i_next i_first cursor_ops].
    pose proof (lhead_at i0 e0 Hh) as Hat0. pose proof (at_len i0 e0 Hat0) as Hlen0.
    assert (Hgoal : forall j,
              (j <= i0)%nat ->
              (forall i1 e1, (j <= i1)%nat -> nth_error l i1 = Some e1 -> vis e1 = true ->
                             ucmp (ek e1) (ek e0) <> Lt) ->
              (forall i' e', (i' < j)%nat -> nth_error l i' = Some e' -> ucmp (ek e') (ek e0) = Lt) ->
              R (find_next_user_entry ucmp I fuel q
                   (mkD (Some j) Forward (d_valid st) (ek e0) (d_sval st)) (Some j) true (ek e0))
                (c_seek (fun y => klt (kv e0) y) V)).
    { intros j Hj Hafter Hbefore. apply fnue_R.
      - reflexivity.
      - intros _. exact Hafter.
      - intros i' e' i1 e1 Hi' Hi1 He' He1 V' V1 E. exfalso.
        apply (Hafter i1 e1 Hi1 He1 V1). rewrite <- (ucmp_eq_l ucmp _ _ (ek e0) E).
        exact (Hbefore i' e' Hi' He').
      - intros i1 e1 Hi1 Hh1 Hne. unfold LiveViewProofs.klt, kv. cbn [fst]. apply (ult_iff ucmp).
        pose proof (Hafter i1 e1 Hi1 (lhead_at _ _ Hh1) (proj1 (proj2 Hh1))) as H1.
        pose proof (Hne eq_refl) as H2.
        destruct (ucmp (ek e1) (ek e0)) eqn:E; try congruence.
        apply (ucmp_gt_lt ucmp). exact E.
      - intros i1 e1 Hh1 P1. unfold LiveViewProofs.klt, kv in P1. cbn [fst] in P1. apply (ult_iff ucmp) in P1.
        split.
        + destruct (Nat.le_gt_cases j i1) as [L|L]; [exact L|]. exfalso.
          pose proof (Hbefore i1 e1 L (lhead_at _ _ Hh1)) as H1.
          apply (ucmp_gt_lt ucmp) in H1. congruence.
        + intros [_ E]. rewrite (ucmp_eq_sym ucmp _ _ E) in P1. discriminate. }
    destruct (rpos (ek e0)) as [r|] eqn:Hr.
    + destruct (rpos_some (ek e0) r Hr) as (er & Her & Vr & Lr & Hafter).
      cbn [c_get]. rewrite Her.
      assert (Hri : (S r <= i0)%nat).
      { destruct (Nat.le_gt_cases (S r) i0) as [L|L]; [exact L|]. exfalso.
        apply (at_key_le i0 r e0 er ltac:(lia) Hat0 Her). apply (ucmp_gt_lt ucmp). exact Lr. }
      destruct (next_shape' r) as [[Hn Hl]|[Hn Hl]]; [|lia]. rewrite Hn.
      destruct (nth_some (S r) Hl) as [e' He']. cbn [c_get]. rewrite He'.
      apply Hgoal.
      * exact Hri.
      * intros i1 e1 Hi1. apply Hafter. lia.
      * intros i' e2 Hi' He2. apply (le_lt_key (ek e2) (ek er) (ek e0)); [|exact Lr].
        apply (at_key_le i' r e2 er ltac:(lia) He2 Her).
    + cbn [c_get]. destruct (first_cases l) as [[Hc Hl]|[Hc Hl]]; [lia|]. rewrite Hc.
      destruct (nth_some O Hl) as [e' He']. cbn [c_get]. rewrite He'.
      apply Hgoal.
      * lia.
      * intros i1 e1 _. apply (rpos_none (ek e0) Hr).
      * intros i' e2 Hi'. lia.
Qed.

Lemma klt_before i e i1 e1 :
  lhead i e -> lhead i1 e1 -> klt (kv e1) (kv e) = true -> (i1 < i)%nat.
Proof.
  intros Hh Hh1 K. unfold LiveViewProofs.klt, kv in K. cbn [fst] in K. apply (ult_iff ucmp) in K.
  destruct (Nat.le_gt_cases i i1) as [L|L]; [|exact L]. exfalso.
  apply (at_key_le i i1 e e1 L (lhead_at _ _ Hh) (lhead_at _ _ Hh1)).
  apply (ucmp_gt_lt ucmp). exact K.
Qed.

Lemma R_prev st p : R st p -> d_get I st <> None -> R (d_prev ucmp I fuel q st) (c_prev V p).
Proof.
  intros HR Hv. destruct (R_valid st p HR Hv) as [(Hdir & i & e & Hit & Hh & Hg)|(Hdir & i0 & e0 & Hh & Hk & Hsv & Hit & Hg)].
  - (* FORWARD -> REVERSE: scan backwards until the key changes *)
    rewrite (c_prev_seek klt ki kt V p (kv e) HsV Hg).
    unfold d_prev. rewrite Hdir, Hit. cbn [i_get cursor_ops c_get].
    pose proof (lhead_at i e Hh) as Hat. pose proof (at_len i e Hat) as Hlen. rewrite Hat.
    pose proof (back_loop_spec fuel i (ek e) ltac:(lia) Hlen) as HB.
    destruct (back_loop ucmp I fuel (Some i) (ek e)) as [c' found]. unfold PostB in HB.
    cbn [fst snd] in HB. destruct found.
    + destruct HB as (j & ej & -> & Hj & Hej & Lj & Hbetween).
      apply fpue_R.
      * cbn. eapply at_len; eauto.
      * intros i1 e1 Hi1 Hh1. cbn [lo] in Hi1. unfold LiveViewProofs.klt, kv. cbn [fst].
        apply (ult_iff ucmp). apply (le_lt_key (ek e1) (ek ej) (ek e)); [|exact Lj].
        apply (at_key_le i1 j e1 ej ltac:(lia) (lhead_at _ _ Hh1) Hej).
      * intros i1 e1 Hh1 P1. cbn [lo]. pose proof (klt_before i e i1 e1 Hh Hh1 P1) as H1.
        destruct (Nat.le_gt_cases i1 j) as [L|L]; [lia|]. exfalso.
        unfold LiveViewProofs.klt, kv in P1. cbn [fst] in P1. apply (ult_iff ucmp) in P1.
        exact (Hbetween i1 e1 ltac:(lia) (lhead_at _ _ Hh1) P1).
    + apply R_invalid. apply spec_seek_last_none. intros i1 e1 Hh1.
      destruct (klt (kv e1) (kv e)) eqn:K; [|reflexivity]. exfalso.
      pose proof (klt_before i e i1 e1 Hh Hh1 K) as H1.
      unfold LiveViewProofs.klt, kv in K. cbn [fst] in K. apply (ult_iff ucmp) in K.
      exact (HB i1 e1 H1 (lhead_at _ _ Hh1) K).
  - (* REVERSE *)
    rewrite (c_prev_seek klt ki kt V p (kv e0) HsV Hg).
    unfold d_prev. rewrite Hdir, Hit.
    apply fpue_R.
    + apply c_seek_last_wf.
    + intros i1 e1 Hi1 Hh1. unfold LiveViewProofs.klt, kv. cbn [fst]. apply (ult_iff ucmp).
      destruct (rpos (ek e0)) as [r|] eqn:Hr; cbn [lo] in Hi1; [|lia].
      destruct (rpos_some (ek e0) r Hr) as (er & Her & Vr & Lr & _).
      apply (le_lt_key (ek e1) (ek er) (ek e0)); [|exact Lr].
      apply (at_key_le i1 r e1 er ltac:(lia) (lhead_at _ _ Hh1) Her).
    + intros i1 e1 Hh1 P1. unfold LiveViewProofs.klt, kv in P1. cbn [fst] in P1. apply (ult_iff ucmp) in P1.
      destruct (rpos (ek e0)) as [r|] eqn:Hr; cbn [lo].
      * destruct (rpos_some (ek e0) r Hr) as (er & Her & Vr & Lr & Hafter).
        destruct (Nat.le_gt_cases i1 r) as [L|L]; [lia|]. exfalso.
        exact (Hafter i1 e1 L (lhead_at _ _ Hh1) (proj1 (proj2 Hh1)) P1).
      * exfalso. exact (rpos_none (ek e0) Hr i1 e1 (lhead_at _ _ Hh1) (proj1 (proj2 Hh1)) P1).
Qed.

Lemma R_last st p : R st p -> R (d_last ucmp I fuel q st) (c_last V).
Proof.
  intros _. unfold d_last. cbn [i_last cursor_ops]. rewrite (c_last_seek V).
  assert (Hlo : lo (c_last l) = length l).
  { destruct (last_cases l) as [[Hc Hl]|[Hc Hl]]; rewrite Hc; cbn [lo]; lia. }
  apply fpue_R.
  - apply c_last_wf.
  - intros i e _ _. reflexivity.
  - intros i1 e1 Hh1 _. rewrite Hlo. apply (at_len i1 e1). apply lhead_at. exact Hh1.
Qed.

(* ------------------------------------------------------------------ 6. the theorem *)
Lemma dbiter_bisim :
  bisim (dbiter_ops ucmp I fuel q) (view_cursor ucmp V) R.
Proof.
  constructor.
  - intros o t. reflexivity.
  - intros a b (_ & Hg & _). symmetry. exact Hg.
  - intros a b H. apply (R_first a b H).
  - intros a b H. apply (R_last a b H).
  - intros t a b H. apply (R_seek t a b H).
  - intros a b H Hv. apply (R_next a b H Hv).
  - intros a b H Hv. apply (R_prev a b H Hv).
Qed.

(* ------------------------------------------------------------------ 7. the fuel is enough *)
(* With at least as much fuel as entries left to step over, the loops never stop for
   lack of fuel: more fuel changes nothing. *)
Lemma find_next_fuel : forall n m c sk skip,
  (length l <= n + pos c)%nat -> (length l <= m + pos c)%nat ->
  find_next_loop ucmp I q n c sk skip = find_next_loop ucmp I q m c sk skip.
Proof.
  induction n as [|n IH]; intros m c sk skip Hn Hm.
  - assert (G : c_get l c = None).
    { destruct c as [j|]; [|reflexivity]. cbn [pos c_get] in *. apply nth_error_None. lia. }
    destruct m as [|m]; [reflexivity|]. rewrite find_next_loop_S, G. reflexivity.
  - rewrite find_next_loop_S. destruct (c_get l c) as [e|] eqn:G.
    2:{ destruct m as [|m]; [reflexivity|]. rewrite find_next_loop_S, G. reflexivity. }
    destruct c as [j|]; [|discriminate]. cbn [c_get pos] in *. pose proof (at_len j e G) as Hj.
    destruct m as [|m]; [lia|]. rewrite find_next_loop_S. cbn [c_get]. rewrite G.
    assert (Hp : pos (c_next l (Some j)) = S j) by (apply pos_next; exact Hj).
    destruct (es e <=? q); [|apply IH; rewrite Hp; lia].
    destruct (et e); [|apply IH; rewrite Hp; lia].
    destruct (sk && ule ucmp (ek e) skip); [apply IH; rewrite Hp; lia|reflexivity].
Qed.

Lemma find_prev_fuel : forall k c n m have skey sval,
  lo c = k -> (k <= n)%nat -> (k <= m)%nat -> c_wf l c ->
  find_prev_loop ucmp I q n c have skey sval = find_prev_loop ucmp I q m c have skey sval.
Proof.
  induction k as [|k IH]; intros c n m have skey sval Hlo Hn Hm Hwf.
  - destruct c as [j|]; [discriminate|]. rewrite !find_prev_loop_None. reflexivity.
  - destruct c as [j|]; [|discriminate]. cbn [lo] in Hlo. inversion Hlo; subst k.
    destruct n as [|n]; [lia|]. destruct m as [|m]; [lia|].
    rewrite !find_prev_loop_S. cbn [c_get]. destruct (nth_error l j) as [e|]; [|reflexivity].
    assert (Hw : c_wf l (c_prev l (Some j))) by (apply c_prev_wf; exact Hwf).
    destruct (es e <=? q); [|apply IH; [apply lo_prev|lia|lia|exact Hw]].
    destruct (have && ult ucmp (ek e) skey); [reflexivity|].
    destruct (et e); apply IH; try apply lo_prev; try lia; exact Hw.
Qed.

Lemma back_loop_fuel : forall n m j k,
  (j < n)%nat -> (j < m)%nat ->
  back_loop ucmp I n (Some j) k = back_loop ucmp I m (Some j) k.
Proof.
  induction n as [|n IH]; intros m j k Hn Hm; [lia|]. destruct m as [|m]; [lia|].
  rewrite !back_loop_S. destruct j as [|j']; cbn [c_prev c_get]; [reflexivity|].
  destruct (nth_error l j') as [e|]; [|reflexivity].
  destruct (ult ucmp (ek e) k); [reflexivity|]. apply IH; lia.
Qed.

End DbIterCursor.

(* db_iter.c over a cursor on a strictly sorted run shows exactly the live view of the
   run, for every script *)
Theorem dbiter_is_view_cursor :
  forall ucmp, total_order ucmp -> forall es q fuel,
  sorted_run ucmp es = true -> (length es + 2 <= fuel)%nat ->
  simulates (dbiter_ops ucmp (cursor_ops (itge ucmp) (itcmp ucmp) es) fuel q) (d_init None)
            (view_cursor ucmp (live_of_sorted ucmp q None es)) None.
Proof.
  intros ucmp TO es q fuel Hs Hf.
  apply (sorted_run_Srt ucmp) in Hs.
  apply (bisim_scripts _ _ _ (dbiter_bisim ucmp q es Hs fuel Hf)).
  apply R_init.
Qed.

Print Assumptions dbiter_is_view_cursor.
