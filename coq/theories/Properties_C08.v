(* Properties_C08.v -- C08 "concurrent operations are linearizable" and C04(b) "a reader sees every update of a
   batch or none; batches merged by group commit keep their atomicity and order", for the concurrency model Lts.v.

   Model-level statements: they hold for every state reachable in the labelled transition system of Lts.v under the
   atomicity assumptions (A1)-(A6) listed at the top of that file: regions under db->mutex are atomic; the unlocked
   memtable insert of an unpublished group is invisible because readers filter by the sequence they captured.
   The tie to the implementation is checks/c08.py (sampled schedules of the real pthread build). *)
From Coq Require Import List NArith Bool Arith.
Import ListNotations.
From LCDB Require Import Lts LtsProofs.

(* For every reachable state, the trace (history of invocations/responses together with the linearization points:
   writes at their publish step in group order, reads at their capture step) is well formed -- each point lies between
   the invocation and the response of its operation and fixes the result that is returned -- and the sequence of points
   is a legal run of the sorted-map specification whose final state is the published prefix of the store. *)
Theorem C08_publish_order_linearizable : forall th s, reachable th s ->
  wf_trace (l_trace s) /\ run_lin (l_trace s) = Some (firstn (l_last_seq s) (l_store s)).
Proof. exact publish_order_linearizable. Qed.
Print Assumptions C08_publish_order_linearizable.

(* The linearization respects real time: a linearization point occurs while its operation is invoked and not yet returned;
   a response returns exactly what was decided at the point; an operation is invoked only by an idle thread. *)
Theorem C08_linearization_respects_real_time : forall th s, reachable th s ->
  (forall a t o r b, l_trace s = a ++ ELin t o r :: b -> phase_of b t = PhInv o) /\
  (forall a t r b, l_trace s = a ++ ERet t r :: b -> exists o, phase_of b t = PhLin o r) /\
  (forall a t o b, l_trace s = a ++ EInv t o :: b -> phase_of b t = PhIdle).
Proof. exact lin_respects_real_time. Qed.
Print Assumptions C08_linearization_respects_real_time.

(* Corollary, monotone reads: the published sequence never decreases and the view at an earlier sequence is a prefix of
   every later store, so a later capture never observes an older state. *)
Theorem C08_monotone_reads : forall th s l s', reachable th s -> lts_step s l = Some s' ->
  l_last_seq s <= l_last_seq s' /\ firstn (l_last_seq s) (l_store s') = firstn (l_last_seq s) (l_store s).
Proof. exact monotone_reads. Qed.
Print Assumptions C08_monotone_reads.

(* Corollary, a snapshot (or the sequence captured by a reader) is a single point of the publish order: it stands on a
   batch boundary and the view below it is never changed by any later step. *)
Theorem C08_snapshot_single_point : forall th s l s' h, reachable th s -> lts_step s l = Some s' ->
  (In h (l_snaps s) \/ exists t k, l_pc s t = PRead h k) ->
  is_boundary (l_committed s) h /\ firstn h (l_store s') = firstn h (l_store s).
Proof. exact snapshot_single_point. Qed.
Print Assumptions C08_snapshot_single_point.

(* C04(b): in every reachable state last_sequence is the end of a whole batch of the committed list, the published state is
   exactly the committed batches, and what a reader captured (latest sequence or snapshot) is the concatenation of a
   prefix of the committed batches: whole batches only. *)
Theorem C04_published_on_batch_boundary : forall th s, reachable th s ->
  l_last_seq s = length (concat (l_committed s)) /\ firstn (l_last_seq s) (l_store s) = concat (l_committed s) /\
  (forall t q k, l_pc s t = PRead q k -> exists j, firstn q (l_store s) = concat (firstn j (l_committed s))) /\
  (forall h, In h (l_snaps s) -> exists j, firstn h (l_store s) = concat (firstn j (l_committed s))).
Proof. exact published_on_batch_boundary. Qed.
Print Assumptions C04_published_on_batch_boundary.

(* C04(b): a group commit publishes the batches of its members as whole batches in queue order. *)
Theorem C04_group_commit_keeps_batches : forall s t s' n, l_pc s t = PLogged n -> lts_step s (WLeaderPublish t) = Some s' ->
  l_committed s' = l_committed s ++ group_batches (firstn n (l_queue s)).
Proof. exact group_commit_keeps_batches. Qed.
Print Assumptions C04_group_commit_keeps_batches.

(* The state invariant that checks/c08.py evaluates on every observed abstract state of the implementation
   (extracted abs_inv) holds in every reachable state of the model. *)
Theorem C08_abs_inv_holds_in_model : forall th s, reachable th s -> abs_inv (abs_of s) = true.
Proof. exact abs_inv_reachable. Qed.
Print Assumptions C08_abs_inv_holds_in_model.
