(* Properties_C11.v -- C11 (log side): whatever the bytes, every record the reader returns is made
   of physical records whose stored CRC verified.  Table-side theorems are added from TableProofs. *)
From LCDB Require Import Base Crc32c LogFormat LogFormatProofs LogFormatClosed.
From LCDB Require Import Block TableFormat CrcBurst CrcBurstTable.
Theorem C11_log_no_invention : forall f r, In (Rec r) (read_log f) ->
  exists frags, r = concat frags /\ Forall (fun p => In p (verified_payloads f)) frags.
Proof. exact read_log_no_invention_structural. Qed.
Print Assumptions C11_log_no_invention.
Theorem C11_log_verified_means_crc : forall f ty p,
  In (PRec ty p) (phys_events true f) -> is_verified_substring f ty p.
Proof. exact phys_events_verified. Qed.
Print Assumptions C11_log_verified_means_crc.

(* ---- Deterministic core of CRC detection (CrcBurst.v / CrcBurstTable.v) ---- *)
Local Open Scope N_scope.

(* CRC-32C as modelled detects, for messages of any length, every alteration confined to 32
   consecutive bits (bit j of byte i = position 8*i+j). *)
Theorem C11_crc_detects_burst : forall pre d e post,
  length d = length e -> wf_bytes e = true -> all_zero e = false -> burst_le_32 e ->
  crc_value (pre ++ xor_bytes d e ++ post) <> crc_value (pre ++ d ++ post).
Proof. exact crc_detects_burst. Qed.
Print Assumptions C11_crc_detects_burst.

(* Table side: a stored block  data ++ [ty] ++ le32 (masked crc)  read with checksum
   verification on.  One bit of data ++ [ty] flipped: Corruption. *)
Theorem C11_bit_flip_in_block_detected :
  forall pre data ty data' ty' a b j z c0 c1 c2 c3 post file,
  wf_bytes (data ++ [ty]) = true ->
  data ++ [ty] = a ++ b :: z -> data' ++ [ty'] = a ++ N.lxor b (2 ^ j) :: z ->
  j < 8 ->
  le32 (crc_mask (crc_extend (crc_value data) [ty])) = [c0; c1; c2; c3] ->
  file = pre ++ (data' ++ [ty'; c0; c1; c2; c3]) ++ post ->
  nlen file < 18446744073709551616 ->
  read_block file (nlen file) true (nlen pre, nlen data') = Ok (RBerr SCorruption).
Proof. exact read_block_rejects_bit_flip. Qed.
Print Assumptions C11_bit_flip_in_block_detected.

(* One byte of data ++ [ty] overwritten by a different value: Corruption. *)
Theorem C11_byte_overwrite_in_block_detected :
  forall pre data ty data' ty' a b b' z c0 c1 c2 c3 post file,
  wf_bytes (data ++ [ty]) = true ->
  data ++ [ty] = a ++ b :: z -> data' ++ [ty'] = a ++ b' :: z ->
  b' < 256 -> b' <> b ->
  le32 (crc_mask (crc_extend (crc_value data) [ty])) = [c0; c1; c2; c3] ->
  file = pre ++ (data' ++ [ty'; c0; c1; c2; c3]) ++ post ->
  nlen file < 18446744073709551616 ->
  read_block file (nlen file) true (nlen pre, nlen data') = Ok (RBerr SCorruption).
Proof. exact read_block_rejects_byte_overwrite. Qed.
Print Assumptions C11_byte_overwrite_in_block_detected.

(* Any burst of at most 32 bits in data ++ [ty] (so any 1..4 consecutive bytes): Corruption. *)
Theorem C11_burst_in_block_detected :
  forall pre data ty data' ty' c0 c1 c2 c3 post file,
  wf_bytes (data ++ [ty]) = true -> wf_bytes (data' ++ [ty']) = true ->
  length data' = length data ->
  data' ++ [ty'] <> data ++ [ty] ->
  burst_le_32 (xor_bytes (data' ++ [ty']) (data ++ [ty])) ->
  le32 (crc_mask (crc_extend (crc_value data) [ty])) = [c0; c1; c2; c3] ->
  file = pre ++ (data' ++ [ty'; c0; c1; c2; c3]) ++ post ->
  nlen file < 18446744073709551616 ->
  read_block file (nlen file) true (nlen pre, nlen data') = Ok (RBerr SCorruption).
Proof. exact read_block_rejects_altered_block. Qed.
Print Assumptions C11_burst_in_block_detected.

(* Only the four stored checksum bytes altered: Corruption. *)
Theorem C11_crc_field_alteration_in_block_detected :
  forall pre data ty c0 c1 c2 c3 c0' c1' c2' c3' post file,
  wf_bytes (data ++ [ty]) = true ->
  le32 (crc_mask (crc_extend (crc_value data) [ty])) = [c0; c1; c2; c3] ->
  c0' < 256 -> c1' < 256 -> c2' < 256 -> c3' < 256 ->
  [c0'; c1'; c2'; c3'] <> [c0; c1; c2; c3] ->
  file = pre ++ (data ++ [ty; c0'; c1'; c2'; c3']) ++ post ->
  nlen file < 18446744073709551616 ->
  read_block file (nlen file) true (nlen pre, nlen data) = Ok (RBerr SCorruption).
Proof. exact read_block_rejects_altered_crc_field. Qed.
Print Assumptions C11_crc_field_alteration_in_block_detected.

(* Log side: a written physical record with one such burst in ty :: payload is answered
   with a bad-record event, never with a record. *)
Theorem C11_log_record_alteration_detected :
  forall f eof ty payload ty' payload' c0 c1 c2 c3 a b tail,
  wf_bytes (ty :: payload) = true -> wf_bytes (ty' :: payload') = true ->
  length payload' = length payload ->
  ty' :: payload' <> ty :: payload ->
  burst_le_32 (xor_bytes (ty' :: payload') (ty :: payload)) ->
  nlen payload < 65536 ->
  phys_record ty payload = c0 :: c1 :: c2 :: c3 :: a :: b :: ty :: payload ->
  exists r,
    parse_block (S f) true eof (c0 :: c1 :: c2 :: c3 :: a :: b :: ty' :: payload' ++ tail)
    = PBad r :: (if eof then [PEof] else []).
Proof. exact log_reader_rejects_altered_record. Qed.
Print Assumptions C11_log_record_alteration_detected.
