(* Properties_C11.v -- C11 (log side): whatever the bytes, every record the reader returns is made
   of physical records whose stored CRC verified.  Table-side theorems are added from TableProofs. *)
From LCDB Require Import Base Crc32c LogFormat LogFormatProofs LogFormatClosed.
Theorem C11_log_no_invention : forall f r, In (Rec r) (read_log f) ->
  exists frags, r = concat frags /\ Forall (fun p => In p (verified_payloads f)) frags.
Proof. exact read_log_no_invention_structural. Qed.
Print Assumptions C11_log_no_invention.
Theorem C11_log_verified_means_crc : forall f ty p,
  In (PRec ty p) (phys_events true f) -> is_verified_substring f ty p.
Proof. exact phys_events_verified. Qed.
Print Assumptions C11_log_verified_means_crc.
