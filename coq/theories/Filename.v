(* Filename.v -- model of src/filename.c (ldb_parse_filename and the name
   constructors) and the number codec of src/util/strutil.c (ldb_encode_int,
   ldb_decode_int, ldb_starts_with).  File names are byte strings of ASCII codes;
   a C string ends at the first NUL.  Definitions only. *)
From LCDB Require Export Base.
Local Open Scope N_scope.

(* ldb_filetype_t, in enum order *)
Inductive ftype :=
| FLog        (* LDB_FILE_LOG     = 0 *)
| FLock       (* LDB_FILE_LOCK    = 1 *)
| FTable      (* LDB_FILE_TABLE   = 2 *)
| FDesc       (* LDB_FILE_DESC    = 3 *)
| FCurrent    (* LDB_FILE_CURRENT = 4 *)
| FTemp       (* LDB_FILE_TEMP    = 5 *)
| FInfo.      (* LDB_FILE_INFO    = 6 *)

Definition ftype_code (t : ftype) : N :=
  match t with
  | FLog => 0 | FLock => 1 | FTable => 2 | FDesc => 3
  | FCurrent => 4 | FTemp => 5 | FInfo => 6
  end.

(* ASCII literals *)
Definition s_CURRENT : bytes := [67;85;82;82;69;78;84].
Definition s_LOCK : bytes := [76;79;67;75].
Definition s_LOG : bytes := [76;79;71].
Definition s_LOG_old : bytes := [76;79;71;46;111;108;100].
Definition s_MANIFEST_ : bytes := [77;65;78;73;70;69;83;84;45].
Definition s_dot_log : bytes := [46;108;111;103].
Definition s_dot_sst : bytes := [46;115;115;116].
Definition s_dot_ldb : bytes := [46;108;100;98].
Definition s_dot_dbtmp : bytes := [46;100;98;116;109;112].

(* the C string held in a buffer: up to the first NUL *)
Fixpoint cstr (l : bytes) : bytes :=
  match l with
  | [] => []
  | c :: r => if c =? 0 then [] else c :: cstr r
  end.

(* ldb_starts_with(xp, yp) on NUL-free strings *)
Fixpoint starts_with (x y : bytes) : bool :=
  match y with
  | [] => true
  | b :: y' =>
      match x with
      | [] => false
      | a :: x' => if a =? b then starts_with x' y' else false
      end
  end.

(* ---- ldb_size_int / ldb_encode_int ---- *)
(* do { n++; x /= 10; } while (x != 0); at most 20 digits for a uint64 *)
Fixpoint size_int_fuel (fuel : nat) (x : N) : nat :=
  match fuel with
  | O => 1%nat
  | S f => if x / 10 =? 0 then 1%nat else S (size_int_fuel f (x / 10))
  end.
Definition size_int (x : N) : nat := size_int_fuel 20 x.

(* for (i = n - 1; i >= 0; i--) { zp[i] = '0' + x % 10; x /= 10; } *)
Fixpoint encode_int_loop (n : nat) (x : N) (acc : bytes) : bytes :=
  match n with
  | O => acc
  | S n' => encode_int_loop n' (x / 10) ((48 + x mod 10) :: acc)
  end.

Definition encode_int (x : N) (pad : nat) : bytes :=
  encode_int_loop (Nat.max (size_int x) pad) x [].

(* ---- ldb_decode_int ---- *)
Definition DECODE_LIMIT : N := 1844674407370955161.    (* UINT64_MAX / 10 *)
Definition DECODE_LAST : N := 53.                      (* '0' + UINT64_MAX % 10 = '5' *)

(* The scanning loop: Some (x, rest) when it stops at a non-digit or the end,
   None on overflow.  x * 10 + digit cannot wrap thanks to the guard. *)
Fixpoint decode_int_loop (s : bytes) (x : N) : option (N * bytes) :=
  match s with
  | [] => Some (x, [])
  | ch :: r =>
      if (ch <? 48) || (57 <? ch) then Some (x, s)
      else if (DECODE_LIMIT <? x) || ((x =? DECODE_LIMIT) && (DECODE_LAST <? ch)) then None
      else decode_int_loop r (x * 10 + (ch - 48))
  end.

(* fails on overflow and when no digit was consumed (sp == *xp) *)
Definition decode_int (s : bytes) : option (N * bytes) :=
  match decode_int_loop s 0 with
  | None => None
  | Some (x, rest) =>
      if Nat.eqb (length rest) (length s) then None else Some (x, rest)
  end.

(* ---- ldb_parse_filename ---- *)
Definition parse_filename (raw : bytes) : option (ftype * N) :=
  let name := cstr raw in
  if bytes_eqb name s_CURRENT then Some (FCurrent, 0)
  else if bytes_eqb name s_LOCK then Some (FLock, 0)
  else if bytes_eqb name s_LOG || bytes_eqb name s_LOG_old then Some (FInfo, 0)
  else if starts_with name s_MANIFEST_ then
    match decode_int (skipn 9 name) with
    | None => None
    | Some (x, rest) =>
        match rest with
        | [] => Some (FDesc, x)
        | _ :: _ => None
        end
    end
  else
    match decode_int name with
    | None => None
    | Some (x, rest) =>
        if bytes_eqb rest s_dot_log then Some (FLog, x)
        else if bytes_eqb rest s_dot_sst || bytes_eqb rest s_dot_ldb then Some (FTable, x)
        else if bytes_eqb rest s_dot_dbtmp then Some (FTemp, x)
        else None
    end.

(* ---- name constructors (the part after "<dbname>/") ---- *)
Definition log_name (n : N) : bytes := encode_int n 6 ++ s_dot_log.
Definition table_name (n : N) : bytes := encode_int n 6 ++ s_dot_ldb.
Definition sstable_name (n : N) : bytes := encode_int n 6 ++ s_dot_sst.
Definition desc_name (n : N) : bytes := s_MANIFEST_ ++ encode_int n 6.
Definition temp_name (n : N) : bytes := encode_int n 6 ++ s_dot_dbtmp.
Definition current_name : bytes := s_CURRENT.
Definition lock_name : bytes := s_LOCK.
Definition info_name : bytes := s_LOG.
Definition oldinfo_name : bytes := s_LOG_old.

(* contents of CURRENT written by ldb_set_current_file: "MANIFEST-<n>\n" *)
Definition current_contents (n : N) : bytes := desc_name n ++ [10].

(* constructor by kind, as used by the k1 driver:
   0 log, 1 table (.ldb), 2 sstable (.sst), 3 descriptor, 4 temp,
   5 CURRENT, 6 LOCK, 7 LOG, 8 LOG.old *)
Definition make_name (kind : N) (n : N) : bytes :=
  if kind =? 0 then log_name n
  else if kind =? 1 then table_name n
  else if kind =? 2 then sstable_name n
  else if kind =? 3 then desc_name n
  else if kind =? 4 then temp_name n
  else if kind =? 5 then current_name
  else if kind =? 6 then lock_name
  else if kind =? 7 then info_name
  else oldinfo_name.
