(* Trie.v -- a minimal binary trie indexed by N, used by the table-layer model
   wherever the C code updates an array at computed indices (bloom filter bit
   array, Snappy hash table).  Missing cells read as 0.  Definitions only. *)
From LCDB Require Export Base.
Local Open Scope N_scope.

Inductive trie : Type :=
| TLeaf
| TNode (l : trie) (v : N) (r : trie).

Fixpoint tget_pos (p : positive) (t : trie) : N :=
  match t with
  | TLeaf => 0
  | TNode l v r =>
      match p with
      | xH => v
      | xO q => tget_pos q l
      | xI q => tget_pos q r
      end
  end.

Fixpoint tset_pos (p : positive) (x : N) (t : trie) : trie :=
  match p with
  | xH => match t with TLeaf => TNode TLeaf x TLeaf | TNode l _ r => TNode l x r end
  | xO q => match t with
            | TLeaf => TNode (tset_pos q x TLeaf) 0 TLeaf
            | TNode l v r => TNode (tset_pos q x l) v r
            end
  | xI q => match t with
            | TLeaf => TNode TLeaf 0 (tset_pos q x TLeaf)
            | TNode l v r => TNode l v (tset_pos q x r)
            end
  end.

Definition tget (i : N) (t : trie) : N := tget_pos (N.succ_pos i) t.
Definition tset (i : N) (x : N) (t : trie) : trie := tset_pos (N.succ_pos i) x t.

(* cells start, start+1, ..., start+n-1 *)
Fixpoint tcells (n : nat) (start : N) (t : trie) : list N :=
  match n with
  | O => []
  | S n' => tget start t :: tcells n' (N.succ start) t
  end.
