(* ManifestReplayProofs.v -- theorems about ManifestReplay.v (the replica of
   ldb_versions_recover): replaying the BYTES of a MANIFEST written from a
   sequence of edits = folding the edits over the abstract state.  Composes
   the log round trip (LogFormatClosed.v), the edit round trip (EditProofs.v)
   and the builder theorem (ManifestBuilderProofs.v).  Then: appended (reused)
   MANIFESTs and the snapshot record of ldb_versions_write_snapshot. *)
From LCDB Require Import Base LogFormat Edit IKey ManifestReplay ManifestBuilderProofs.
From LCDB Require Import BaseProofs VarintProofs LogFormatClosed EditProofs IKeyProofs EngineSpec.
From Coq Require Import Sorted.
Require Import Lia ZifyBool ZifyNat ZifyN.
Local Open Scope N_scope.

(* the comparator name recorded in an edit, if any, is the one the database is opened with *)
Definition cmp_matches (cmpname : bytes) (e : edit) : Prop :=
  match e_comparator e with Some c => c = cmpname | None => True end.

(* no file number is added twice to the same level (numbers come from
   vset->next_file_number; a file only ever moves to a deeper level), and none
   collides with a file of the base version *)
Definition fresh_adds (base : list (list filemeta)) (es : list edit) : Prop :=
  forall l, (l < NLEVELS)%nat ->
    NoDup (map f_number (nth l base []) ++ flat_map (nums_at l) es).

(* every level of a version is sorted by by_smallest_key (what builder_save_to produces) *)
Definition levels_sorted (kcmp : bytes -> bytes -> comparison) (base : list (list filemeta)) : Prop :=
  length base = NLEVELS /\
  forall l, (l < NLEVELS)%nat -> StronglySorted (flt kcmp) (nth l base []).

Section Replay.
Variable kcmp : bytes -> bytes -> comparison.
Hypothesis Hk : kcmp_ok kcmp.

(* the loop body on a decoded edit that passes the comparator check *)
Definition rstep (s : rstate) (e : edit) : rstate :=
  mkR RC_OK (builder_apply kcmp (r_builder s) e)
      (opt_or (e_log_number e) (r_log s)) (opt_or (e_prev_log_number e) (r_prev s))
      (opt_or (e_next_file_number e) (r_next s)) (opt_or (e_last_sequence e) (r_seq s)).

Lemma recover_loop_records : forall cmpname es s,
  r_rc s = RC_OK ->
  Forall (fun e => wf_edit e = true) es ->
  Forall (cmp_matches cmpname) es ->
  recover_loop kcmp cmpname (map Rec (map edit_export es)) s =
  fold_left rstep (map edit_canon es) s.
Proof.
  intros cmpname. induction es as [|e es IH]; intros s Hrc Hwf Hcm; cbn [map recover_loop fold_left].
  - reflexivity.
  - inversion Hwf as [|e' es' Hwe Hwf']; subst. inversion Hcm as [|e' es' Hce Hcm']; subst.
    rewrite Hrc. cbn [N.eqb RC_OK negb].
    unfold recover_record. rewrite (edit_import_export e Hwe).
    assert (Hbad : match e_comparator (edit_canon e) with
                   | Some c => negb (bytes_eqb c cmpname) | None => false end = false).
    { unfold cmp_matches in Hce. cbn [edit_canon e_comparator].
      destruct (e_comparator e) as [c|]; [|reflexivity]. subst c. rewrite bytes_eqb_refl. reflexivity. }
    rewrite Hbad. apply IH; [reflexivity|exact Hwf'|exact Hcm'].
Qed.

(* the components of the two folds evolve independently *)
Lemma folds_agree : forall es s v,
  r_rc s = RC_OK ->
  r_log s = vs_log v -> r_prev s = vs_prev v -> r_next s = vs_next v -> r_seq s = vs_seq v ->
  b_compact (r_builder s) = vs_compact v ->
  let s' := fold_left rstep es s in
  let v' := fold_left (apply_edit kcmp) es v in
  r_rc s' = RC_OK /\
  r_log s' = vs_log v' /\ r_prev s' = vs_prev v' /\ r_next s' = vs_next v' /\ r_seq s' = vs_seq v' /\
  b_compact (r_builder s') = vs_compact v' /\
  b_levels (r_builder s') = fold_left (apply_levels kcmp) es (b_levels (r_builder s)) /\
  vs_levels v' = fold_left (step_levels kcmp) es (vs_levels v).
Proof.
  induction es as [|e es IH]; intros s v Hrc Hl Hp Hn Hq Hc; cbn [fold_left].
  - cbv zeta. repeat split; assumption.
  - apply IH; unfold rstep, apply_edit;
      cbn [r_rc r_log r_prev r_next r_seq r_builder vs_log vs_prev vs_next vs_seq vs_compact
           builder_apply builder_init b_compact b_levels]; congruence.
Qed.

(* ---- replay over a base version ---- *)
Lemma recover_from_state : forall cmpname nf0 base compact file,
  recover_from kcmp cmpname nf0 base compact file =
  match recover_state kcmp cmpname base compact file with
  | inl rc => inl rc
  | inr v => finish_vstate nf0 v
  end.
Proof.
  intros. unfold recover_from, recover_state, recover_finish, finish_vstate.
  destruct (negb (r_rc _ =? RC_OK)); [reflexivity|].
  cbn [vs_next vs_log vs_seq vs_prev vs_levels vs_compact]. reflexivity.
Qed.

Theorem replay_state_fold_base : forall cmpname base compact es,
  levels_sorted kcmp base ->
  Forall (fun e => wf_edit e = true) es ->
  Forall (fun e => wf_bytes (edit_export e) = true) es ->
  Forall (cmp_matches cmpname) es ->
  fresh_adds base es ->
  recover_state kcmp cmpname base compact (write_log (map edit_export es)) =
  inr (fold_left (apply_edit kcmp) (map edit_canon es) (mkV base compact None None None None)).
Proof.
  intros cmpname base compact es (Hlen & Hsorted) Hwf Hwb Hcm Hfresh.
  unfold recover_state.
  rewrite read_write_roundtrip_events by (apply Forall_map; exact Hwb).
  rewrite recover_loop_records by (try reflexivity; assumption).
  pose proof (folds_agree (map edit_canon es) (rstate_init compact)
                (mkV base compact None None None None)
                eq_refl eq_refl eq_refl eq_refl eq_refl eq_refl) as HF.
  cbv zeta in HF. destruct HF as (Hrc & Hl & Hp & Hn & Hq & Hc & Hlev & Hvl).
  set (s' := fold_left rstep (map edit_canon es) (rstate_init compact)) in *.
  set (v' := fold_left (apply_edit kcmp) (map edit_canon es) (mkV base compact None None None None)) in *.
  assert (Hlevels : builder_save_to kcmp base (r_builder s') = vs_levels v').
  { unfold builder_save_to. rewrite Hlev, Hvl.
    cbn [rstate_init r_builder builder_init b_levels vs_levels].
    apply (builder_fold_levels kcmp Hk _ _ _ _ (fun l => map f_number (nth l base []))).
    - apply Rel_init; assumption.
    - intros l Hl0. specialize (Hfresh l Hl0).
      assert (Hfm : flat_map (nums_at l) (map edit_canon es) = flat_map (nums_at l) es).
      { clear. induction es as [|e es IH]; [reflexivity|]. cbn [map flat_map]. rewrite IH. reflexivity. }
      rewrite Hfm. exact Hfresh. }
  rewrite Hrc. cbn [N.eqb RC_OK negb].
  rewrite Hl, Hp, Hn, Hq, Hc, Hlevels. destruct v'; reflexivity.
Qed.

Theorem replay_fold_base : forall cmpname nf0 base compact es,
  levels_sorted kcmp base ->
  Forall (fun e => wf_edit e = true) es ->
  Forall (fun e => wf_bytes (edit_export e) = true) es ->
  Forall (cmp_matches cmpname) es ->
  fresh_adds base es ->
  recover_from kcmp cmpname nf0 base compact (write_log (map edit_export es)) =
  finish_vstate nf0
    (fold_left (apply_edit kcmp) (map edit_canon es) (mkV base compact None None None None)).
Proof.
  intros. rewrite recover_from_state, replay_state_fold_base by assumption. reflexivity.
Qed.

Lemma manifest_replay_with_state : forall cmpname file,
  manifest_replay_with kcmp cmpname file =
  match manifest_replay_state_with kcmp cmpname file with
  | inl rc => inl rc
  | inr v => finish_vstate 2 v
  end.
Proof. intros. apply recover_from_state. Qed.

(* ---- 1. replay of a MANIFEST = fold of the edits ---- *)
Lemma empty_levels_sorted : levels_sorted kcmp empty_levels.
Proof.
  split; [reflexivity|]. intros l _. unfold empty_levels. rewrite nth_repeat_any. constructor.
Qed.

Theorem replay_state_fold_with : forall cmpname es,
  Forall (fun e => wf_edit e = true) es ->
  Forall (fun e => wf_bytes (edit_export e) = true) es ->
  Forall (cmp_matches cmpname) es ->
  fresh_adds empty_levels es ->
  manifest_replay_state_with kcmp cmpname (write_log (map edit_export es)) =
  inr (fold_left (apply_edit kcmp) (map edit_canon es) vstate_init).
Proof.
  intros cmpname es Hwf Hwb Hcm Hfr. unfold manifest_replay_state_with, vstate_init.
  apply replay_state_fold_base; try assumption. apply empty_levels_sorted.
Qed.

Theorem replay_fold_with : forall cmpname es,
  Forall (fun e => wf_edit e = true) es ->
  Forall (fun e => wf_bytes (edit_export e) = true) es ->
  Forall (cmp_matches cmpname) es ->
  fresh_adds empty_levels es ->
  manifest_replay_with kcmp cmpname (write_log (map edit_export es)) =
  finish_vstate 2 (fold_left (apply_edit kcmp) (map edit_canon es) vstate_init).
Proof.
  intros cmpname es Hwf Hwb Hcm Hfr. unfold manifest_replay_with, vstate_init.
  apply replay_fold_base; try assumption. apply empty_levels_sorted.
Qed.

(* ---- 2. an appended (reused) MANIFEST ---- *)
Theorem replay_append_with : forall cmpname es1 es2,
  Forall (fun e => wf_edit e = true) (es1 ++ es2) ->
  Forall (fun e => wf_bytes (edit_export e) = true) (es1 ++ es2) ->
  Forall (cmp_matches cmpname) (es1 ++ es2) ->
  fresh_adds empty_levels (es1 ++ es2) ->
  manifest_replay_with kcmp cmpname
    (write_log (map edit_export es1) ++
     write_log_from (nlen (write_log (map edit_export es1))) (map edit_export es2)) =
  finish_vstate 2
    (fold_left (apply_edit kcmp) (map edit_canon es2)
       (fold_left (apply_edit kcmp) (map edit_canon es1) vstate_init)).
Proof.
  intros cmpname es1 es2 Hwf Hwb Hcm Hfr.
  rewrite <- write_log_app, <- map_app, replay_fold_with by assumption.
  rewrite map_app, fold_left_app. reflexivity.
Qed.


(* ------------------------------------------------------------------ *)
(* The exported bytes of an edit are bytes                             *)
(* ------------------------------------------------------------------ *)
Definition wfb_edit (e : edit) : Prop :=
  match e_comparator e with Some c => wf_bytes c = true | None => True end /\
  Forall (fun p : N * bytes => wf_bytes (snd p) = true) (e_compact_pointers e) /\
  Forall (fun f => wf_bytes (nf_smallest f) = true /\ wf_bytes (nf_largest f) = true) (e_new_files e).

Lemma wf_bytes_flat_map : forall {X} (f : X -> bytes) l,
  (forall x, In x l -> wf_bytes (f x) = true) -> wf_bytes (flat_map f l) = true.
Proof.
  intros X f. induction l as [|x l IH]; intros H; cbn [flat_map]; [reflexivity|].
  apply wf_bytes_app. split; [apply H; left; reflexivity|apply IH; intros y Hy; apply H; right; exact Hy].
Qed.

Lemma slice_write_wf : forall s, nlen s < 4294967296 -> wf_bytes s = true -> wf_bytes (slice_write s) = true.
Proof.
  intros s0 Hl Hs. unfold slice_write. apply wf_bytes_app. split; [apply varint32_write_wf; exact Hl|exact Hs].
Qed.

Lemma wf_key_len : forall k, wf_key k = true -> nlen k < 4294967296.
Proof. intros k H. unfold wf_key in H. lia. Qed.

Lemma wf_level_lt : forall l, wf_level l = true -> l < 4294967296.
Proof. intros l H. unfold wf_level, EDIT_NUM_LEVELS in H. lia. Qed.

Lemma edit_export_wf_bytes : forall e,
  wf_edit e = true -> wfb_edit e -> wf_bytes (edit_export e) = true.
Proof.
  intros [c lg pl nf ls cps del new] H (Hbc & Hbk & Hbn).
  unfold wf_edit in H.
  cbn [e_comparator e_log_number e_prev_log_number e_next_file_number e_last_sequence
       e_compact_pointers e_deleted_files e_new_files] in *.
  rewrite !andb_true_iff in H.
  destruct H as [[[[[[[Hc Hlg] Hpl] Hnf] Hls] Hcps] Hdel] Hnew].
  assert (Htag : forall t, t < 10 -> wf_bytes (varint32_write t) = true).
  { intros t Ht. apply varint32_write_wf. lia. }
  assert (Hsc : forall t v, t < 10 -> wf_bytes (export_scalar t v) = true).
  { intros t v Ht. destruct v as [n|]; cbn [export_scalar]; [|reflexivity].
    apply wf_bytes_app. split; [apply Htag; exact Ht|apply varint64_write_wf_gen]. }
  unfold edit_export.
  cbn [e_comparator e_log_number e_prev_log_number e_next_file_number e_last_sequence
       e_compact_pointers e_deleted_files e_new_files].
  repeat (apply wf_bytes_app; split).
  - destruct c as [c0|]; [|reflexivity]. apply wf_bytes_app. split; [apply Htag; reflexivity|].
    apply slice_write_wf; [unfold wf_str in Hc; lia|exact Hbc].
  - apply Hsc. reflexivity.
  - apply Hsc. reflexivity.
  - apply Hsc. reflexivity.
  - apply Hsc. reflexivity.
  - apply wf_bytes_flat_map. intros p Hp. rewrite forallb_forall in Hcps. specialize (Hcps p Hp).
    rewrite Forall_forall in Hbk. specialize (Hbk p Hp). apply andb_true_iff in Hcps. destruct Hcps as [Hl Hkey].
    unfold export_compact. apply wf_bytes_app. split; [apply Htag; reflexivity|].
    apply wf_bytes_app. split; [apply varint32_write_wf; apply wf_level_lt; exact Hl|].
    apply slice_write_wf; [apply wf_key_len; exact Hkey|exact Hbk].
  - apply wf_bytes_flat_map. intros p Hp.
    pose proof (canon_deleted_wf _ _ Hdel) as Hd. rewrite forallb_forall in Hd. specialize (Hd p Hp).
    apply andb_true_iff in Hd. destruct Hd as [Hl _].
    unfold export_deleted. apply wf_bytes_app. split; [apply Htag; reflexivity|].
    apply wf_bytes_app. split; [apply varint32_write_wf; apply wf_level_lt; exact Hl|].
    apply varint64_write_wf_gen.
  - apply wf_bytes_flat_map. intros f Hf. rewrite forallb_forall in Hnew. specialize (Hnew f Hf).
    rewrite Forall_forall in Hbn. destruct (Hbn f Hf) as [Hbs Hbl].
    unfold wf_newfile in Hnew. rewrite !andb_true_iff in Hnew.
    destruct Hnew as [[[[Hl _] _] Hks] Hkl].
    unfold export_newfile. apply wf_bytes_app. split; [apply Htag; reflexivity|].
    apply wf_bytes_app. split; [apply varint32_write_wf; apply wf_level_lt; exact Hl|].
    apply wf_bytes_app. split; [apply varint64_write_wf_gen|].
    apply wf_bytes_app. split; [apply varint64_write_wf_gen|].
    apply wf_bytes_app. split; [apply slice_write_wf; [apply wf_key_len; exact Hks|exact Hbs]|].
    apply slice_write_wf; [apply wf_key_len; exact Hkl|exact Hbl].
Qed.

(* ------------------------------------------------------------------ *)
(* 3. The snapshot record of ldb_versions_write_snapshot               *)
(* ------------------------------------------------------------------ *)
Definition wf_meta (f : filemeta) : Prop :=
  wf_u64 (f_number f) = true /\ wf_u64 (f_size f) = true /\
  wf_key (f_smallest f) = true /\ wf_key (f_largest f) = true /\
  wf_bytes (f_smallest f) = true /\ wf_bytes (f_largest f) = true.

(* a version as lcdb holds it in memory: 7 sorted levels of well-formed files,
   7 compaction pointers each empty (unset) or an internal key *)
Record wf_version (levels : list (list filemeta)) (compact : list bytes) : Prop := {
  wv_sorted : levels_sorted kcmp levels;
  wv_meta : Forall (Forall wf_meta) levels;
  wv_compact_len : length compact = NLEVELS;
  wv_compact : Forall (fun k => k = [] \/ (wf_key k = true /\ wf_bytes k = true)) compact
}.

Lemma filter_level_newfile_of : forall K l fs,
  filter (at_level nf_level l) (map (newfile_of K) fs) =
  if Nat.eqb (N.to_nat K) l then map (newfile_of K) fs else [].
Proof.
  intros K l. induction fs as [|f fs IH]; cbn [map filter].
  - destruct (Nat.eqb (N.to_nat K) l); reflexivity.
  - rewrite IH. unfold at_level at 1. cbn [newfile_of nf_level].
    destruct (Nat.eqb (N.to_nat K) l); reflexivity.
Qed.

Lemma map_meta_of_newfile_of : forall K fs, map meta_of (map (newfile_of K) fs) = fs.
Proof.
  intros K. induction fs as [|f fs IH]; [reflexivity|]. cbn [map]. rewrite IH.
  destruct f; reflexivity.
Qed.

Lemma adds_of_snapshot_files : forall levels k l,
  map meta_of (filter (at_level nf_level l) (snapshot_files (N.of_nat k) levels)) =
  if (k <=? l)%nat then nth (l - k) levels [] else [].
Proof.
  induction levels as [|fs levels IH]; intros k l; cbn [snapshot_files].
  - cbn [filter map]. destruct (k <=? l)%nat; [destruct (l - k)%nat|]; reflexivity.
  - rewrite filter_app, map_app, filter_level_newfile_of.
    replace (N.of_nat k + 1) with (N.of_nat (S k)) by lia. rewrite IH. rewrite Nat2N.id.
    destruct (Nat.eqb k l) eqn:Hkl.
    + apply Nat.eqb_eq in Hkl. subst l. rewrite map_meta_of_newfile_of.
      replace (S k <=? k)%nat with false by (symmetry; apply Nat.leb_gt; lia).
      rewrite Nat.leb_refl, Nat.sub_diag, app_nil_r. reflexivity.
    + apply Nat.eqb_neq in Hkl. cbn [map app].
      destruct (k <=? l)%nat eqn:Hle.
      * apply Nat.leb_le in Hle. replace (S k <=? l)%nat with true by (symmetry; apply Nat.leb_le; lia).
        replace (l - k)%nat with (S (l - S k)) by lia. reflexivity.
      * apply Nat.leb_gt in Hle. replace (S k <=? l)%nat with false by (symmetry; apply Nat.leb_gt; lia).
        reflexivity.
Qed.

Lemma adds_at_snapshot : forall cmpname compact levels l,
  adds_at l (snapshot_edit cmpname compact levels) = nth l levels [].
Proof.
  intros. unfold adds_at, snapshot_edit. cbn [e_new_files].
  pose proof (adds_of_snapshot_files levels 0 l) as H. cbn [Nat.leb] in H.
  rewrite Nat.sub_0_r in H. exact H.
Qed.

Lemma snapshot_files_wf : forall levels k,
  (k + length levels <= NLEVELS)%nat -> Forall (Forall wf_meta) levels ->
  forallb wf_newfile (snapshot_files (N.of_nat k) levels) = true /\
  Forall (fun f => wf_bytes (nf_smallest f) = true /\ wf_bytes (nf_largest f) = true)
         (snapshot_files (N.of_nat k) levels).
Proof.
  induction levels as [|fs levels IH]; intros k Hk0 Hm; cbn [snapshot_files].
  - split; [reflexivity|constructor].
  - inversion Hm as [|fs' l' Hfs Hm']; subst. cbn [length] in Hk0.
    replace (N.of_nat k + 1) with (N.of_nat (S k)) by lia.
    destruct (IH (S k) ltac:(lia) Hm') as [IH1 IH2].
    rewrite forallb_app, IH1, andb_true_r. split.
    + apply forallb_forall. intros nf Hnf. apply in_map_iff in Hnf. destruct Hnf as (f & <- & Hf).
      rewrite Forall_forall in Hfs. destruct (Hfs f Hf) as (H1 & H2 & H3 & H4 & _).
      unfold wf_newfile, newfile_of. cbn [nf_level nf_number nf_size nf_smallest nf_largest].
      rewrite H1, H2, H3, H4. unfold wf_level, EDIT_NUM_LEVELS. unfold NLEVELS in Hk0. lia.
    + apply Forall_app. split; [|exact IH2].
      apply Forall_forall. intros nf Hnf. apply in_map_iff in Hnf. destruct Hnf as (f & <- & Hf).
      rewrite Forall_forall in Hfs. destruct (Hfs f Hf) as (_ & _ & _ & _ & H5 & H6).
      cbn [newfile_of nf_smallest nf_largest]. split; assumption.
Qed.

Lemma snapshot_compacts_wf : forall compact k,
  (k + length compact <= NLEVELS)%nat ->
  Forall (fun key => key = [] \/ (wf_key key = true /\ wf_bytes key = true)) compact ->
  forallb (fun p : N * bytes => wf_level (fst p) && wf_key (snd p))
          (snapshot_compacts (N.of_nat k) compact) = true /\
  Forall (fun p : N * bytes => wf_bytes (snd p) = true) (snapshot_compacts (N.of_nat k) compact).
Proof.
  induction compact as [|key compact IH]; intros k Hk0 Hc; cbn [snapshot_compacts].
  - split; [reflexivity|constructor].
  - inversion Hc as [|key' l' Hkey Hc']; subst. cbn [length] in Hk0.
    replace (N.of_nat k + 1) with (N.of_nat (S k)) by lia.
    destruct (IH (S k) ltac:(lia) Hc') as [IH1 IH2].
    destruct (nlen key =? 0) eqn:Hz; cbn [app].
    + split; assumption.
    + destruct Hkey as [Hkey|[Hkey Hb]]; [subst key; discriminate Hz|].
      cbn [forallb fst snd]. rewrite IH1, Hkey. split.
      * unfold wf_level, EDIT_NUM_LEVELS. unfold NLEVELS in Hk0. lia.
      * constructor; [exact Hb|exact IH2].
Qed.

Lemma snapshot_edit_wf : forall cmpname compact levels,
  wf_str cmpname = true -> wf_bytes cmpname = true -> wf_version levels compact ->
  wf_edit (snapshot_edit cmpname compact levels) = true /\
  wf_bytes (edit_export (snapshot_edit cmpname compact levels)) = true.
Proof.
  intros cmpname compact levels Hn Hnb [[Hlen _] Hmeta Hclen Hcomp].
  assert (HL0 : (0 + length levels <= NLEVELS)%nat) by (unfold NLEVELS in *; lia).
  assert (HC0 : (0 + length compact <= NLEVELS)%nat) by (unfold NLEVELS in *; lia).
  destruct (snapshot_files_wf levels 0 HL0 Hmeta) as [F1 F2].
  destruct (snapshot_compacts_wf compact 0 HC0 Hcomp) as [C1 C2].
  assert (Hwf : wf_edit (snapshot_edit cmpname compact levels) = true).
  { unfold wf_edit, snapshot_edit.
    cbn [e_comparator e_log_number e_prev_log_number e_next_file_number e_last_sequence
         e_compact_pointers e_deleted_files e_new_files wf_opt_u64 forallb].
    change (N.of_nat 0) with 0 in C1, F1. rewrite Hn, C1, F1. reflexivity. }
  split; [exact Hwf|]. apply edit_export_wf_bytes; [exact Hwf|].
  unfold wfb_edit, snapshot_edit. cbn [e_comparator e_compact_pointers e_new_files].
  split; [exact Hnb|]. split; [exact C2|exact F2].
Qed.

(* one level of the snapshot edit applied to the empty version gives the level back *)
Lemma save_level_snapshot : forall X,
  StronglySorted (flt kcmp) X -> NoDup (map f_number X) ->
  save_level kcmp (del_all (map f_number X) (put_all [] [])) [] (ins_all kcmp X []) = X.
Proof.
  intros X SX Hnd. rewrite save_level_filter.
  apply (ssorted_unique (flt kcmp) (flt_irrefl kcmp Hk) (flt_trans kcmp Hk)).
  - apply ssorted_filter. apply (merge_files_sorted kcmp Hk); [constructor|apply (ins_all_sorted kcmp Hk); constructor|].
    intros b a [].
  - exact SX.
  - intros x. rewrite filter_In, merge_files_in. unfold keep. rewrite has_del_all.
    cbn [put_all fold_left dset_has existsb]. rewrite andb_false_r. cbn [negb].
    split.
    + intros [[[]|H] _]. apply ins_all_in in H. destruct H as [[]|H]. exact H.
    + intros H. split; [|reflexivity]. right. apply ins_all_new; [exact Hnd|intros f g _ []|exact H].
Qed.

Lemma compact_snapshot : forall compact,
  length compact = NLEVELS ->
  fold_left apply_compact (snapshot_compacts 0 compact) empty_compact = compact.
Proof.
  intros compact Hlen.
  destruct compact as [|c0 [|c1 [|c2 [|c3 [|c4 [|c5 [|c6 [|c7 r]]]]]]]]; try discriminate Hlen.
  destruct c0, c1, c2, c3, c4, c5, c6; reflexivity.
Qed.

Lemma apply_snapshot_edit : forall cmpname compact levels,
  wf_version levels compact ->
  (forall l, (l < NLEVELS)%nat -> NoDup (map f_number (nth l levels []))) ->
  apply_edit kcmp vstate_init (edit_canon (snapshot_edit cmpname compact levels)) =
  mkV levels compact None None None None.
Proof.
  intros cmpname compact levels [[Hlen Hs] _ Hclen _] Hnd.
  unfold apply_edit, vstate_init.
  cbn [vs_levels vs_compact vs_log vs_prev vs_next vs_seq edit_canon snapshot_edit
       e_log_number e_prev_log_number e_next_file_number e_last_sequence opt_or].
  f_equal.
  - change (step_levels kcmp empty_levels
              (edit_canon (snapshot_edit cmpname compact levels)) = levels).
    apply (nth_ext _ _ [] []).
    + unfold step_levels. rewrite length_save_levels, length_apply_levels, repeat_length. symmetry. exact Hlen.
    + intros l Hl. unfold step_levels in *.
      rewrite length_save_levels, length_apply_levels, repeat_length in Hl.
      rewrite nth_save_levels by (rewrite length_apply_levels, repeat_length; exact Hl).
      rewrite nth_apply_levels by (rewrite repeat_length; exact Hl).
      rewrite nth_repeat_any. unfold lvl_apply. cbn [ls_deleted ls_added ls_empty].
      change (adds_at l (edit_canon (snapshot_edit cmpname compact levels)))
        with (adds_at l (snapshot_edit cmpname compact levels)).
      rewrite adds_at_snapshot.
      change (dels_at l (edit_canon (snapshot_edit cmpname compact levels))) with (@nil N).
      unfold empty_levels. rewrite nth_repeat_any.
      apply save_level_snapshot; [apply Hs; exact Hl|apply Hnd; exact Hl].
  - cbn [builder_apply builder_init b_compact e_compact_pointers]. apply compact_snapshot. exact Hclen.
Qed.

(* A new MANIFEST = the snapshot record of the state (levels, compact) followed
   by the edits es: replaying it gives es applied to exactly that state.  With
   es = [] (the snapshot followed by nothing): exactly the file set and the
   compaction pointers of the state, and no counters (so ldb_versions_recover
   itself would answer Corruption: the record carrying the counters is the edit
   that ldb_versions_apply appends right after the snapshot). *)
Theorem replay_state_snapshot_with : forall cmpname levels compact es,
  wf_str cmpname = true -> wf_bytes cmpname = true ->
  wf_version levels compact ->
  Forall (fun e => wf_edit e = true) es ->
  Forall (fun e => wf_bytes (edit_export e) = true) es ->
  Forall (cmp_matches cmpname) es ->
  fresh_adds levels es ->
  manifest_replay_state_with kcmp cmpname
    (write_log (map edit_export (snapshot_edit cmpname compact levels :: es))) =
  inr (fold_left (apply_edit kcmp) (map edit_canon es) (mkV levels compact None None None None)).
Proof.
  intros cmpname levels compact es Hn Hnb Hv Hwf Hwb Hcm Hfr.
  destruct (snapshot_edit_wf cmpname compact levels Hn Hnb Hv) as [S1 S2].
  assert (Hnd : forall l, (l < NLEVELS)%nat -> NoDup (map f_number (nth l levels []))).
  { intros l Hl. specialize (Hfr l Hl). apply NoDup_app_parts in Hfr. apply Hfr. }
  rewrite replay_state_fold_with.
  - cbn [map fold_left]. rewrite apply_snapshot_edit by assumption. reflexivity.
  - constructor; assumption.
  - constructor; assumption.
  - constructor; [reflexivity|exact Hcm].
  - intros l Hl. unfold empty_levels. rewrite nth_repeat_any. cbn [map app flat_map].
    unfold nums_at at 1. rewrite adds_at_snapshot. apply Hfr. exact Hl.
Qed.

Corollary replay_state_snapshot_alone : forall cmpname levels compact,
  wf_str cmpname = true -> wf_bytes cmpname = true ->
  wf_version levels compact ->
  (forall l, (l < NLEVELS)%nat -> NoDup (map f_number (nth l levels []))) ->
  manifest_replay_state_with kcmp cmpname
    (write_log [edit_export (snapshot_edit cmpname compact levels)]) =
  inr (mkV levels compact None None None None).
Proof.
  intros cmpname levels compact Hn Hnb Hv Hnd.
  apply (replay_state_snapshot_with cmpname levels compact []); try assumption; try constructor.
  intros l Hl. cbn [flat_map]. rewrite app_nil_r. apply Hnd. exact Hl.
Qed.

Theorem replay_snapshot_with : forall cmpname levels compact es,
  wf_str cmpname = true -> wf_bytes cmpname = true ->
  wf_version levels compact ->
  Forall (fun e => wf_edit e = true) es ->
  Forall (fun e => wf_bytes (edit_export e) = true) es ->
  Forall (cmp_matches cmpname) es ->
  fresh_adds levels es ->
  manifest_replay_with kcmp cmpname
    (write_log (map edit_export (snapshot_edit cmpname compact levels :: es))) =
  finish_vstate 2
    (fold_left (apply_edit kcmp) (map edit_canon es) (mkV levels compact None None None None)).
Proof.
  intros cmpname levels compact es Hn Hnb Hv Hwf Hwb Hcm Hfr.
  rewrite manifest_replay_with_state.
  rewrite (replay_state_snapshot_with cmpname levels compact es Hn Hnb Hv Hwf Hwb Hcm Hfr).
  reflexivity.
Qed.

End Replay.

(* ------------------------------------------------------------------ *)
(* The theorems for the default (bytewise) comparator                  *)
(* ------------------------------------------------------------------ *)
Theorem replay_fold : forall cmpname es,
  Forall (fun e => wf_edit e = true) es ->
  Forall (fun e => wf_bytes (edit_export e) = true) es ->
  Forall (cmp_matches cmpname) es ->
  fresh_adds empty_levels es ->
  manifest_replay cmpname (write_log (map edit_export es)) =
  finish_vstate 2 (fold_left (apply_edit ikey_compare) (map edit_canon es) vstate_init).
Proof. exact (replay_fold_with ikey_compare ikey_compare_ok). Qed.

Theorem replay_state_fold : forall cmpname es,
  Forall (fun e => wf_edit e = true) es ->
  Forall (fun e => wf_bytes (edit_export e) = true) es ->
  Forall (cmp_matches cmpname) es ->
  fresh_adds empty_levels es ->
  manifest_replay_state cmpname (write_log (map edit_export es)) =
  inr (fold_left (apply_edit ikey_compare) (map edit_canon es) vstate_init).
Proof. exact (replay_state_fold_with ikey_compare ikey_compare_ok). Qed.

Theorem replay_append : forall cmpname es1 es2,
  Forall (fun e => wf_edit e = true) (es1 ++ es2) ->
  Forall (fun e => wf_bytes (edit_export e) = true) (es1 ++ es2) ->
  Forall (cmp_matches cmpname) (es1 ++ es2) ->
  fresh_adds empty_levels (es1 ++ es2) ->
  manifest_replay cmpname
    (write_log (map edit_export es1) ++
     write_log_from (nlen (write_log (map edit_export es1))) (map edit_export es2)) =
  finish_vstate 2
    (fold_left (apply_edit ikey_compare) (map edit_canon es2)
       (fold_left (apply_edit ikey_compare) (map edit_canon es1) vstate_init)).
Proof. exact (replay_append_with ikey_compare ikey_compare_ok). Qed.

Theorem replay_snapshot : forall cmpname levels compact es,
  wf_str cmpname = true -> wf_bytes cmpname = true ->
  wf_version ikey_compare levels compact ->
  Forall (fun e => wf_edit e = true) es ->
  Forall (fun e => wf_bytes (edit_export e) = true) es ->
  Forall (cmp_matches cmpname) es ->
  fresh_adds levels es ->
  manifest_replay cmpname
    (write_log (map edit_export (snapshot_edit cmpname compact levels :: es))) =
  finish_vstate 2
    (fold_left (apply_edit ikey_compare) (map edit_canon es)
       (mkV levels compact None None None None)).
Proof. exact (replay_snapshot_with ikey_compare ikey_compare_ok). Qed.

Theorem replay_state_snapshot_nothing : forall cmpname levels compact,
  wf_str cmpname = true -> wf_bytes cmpname = true ->
  wf_version ikey_compare levels compact ->
  (forall l, (l < NLEVELS)%nat -> NoDup (map f_number (nth l levels []))) ->
  manifest_replay_state cmpname (write_log [edit_export (snapshot_edit cmpname compact levels)]) =
  inr (mkV levels compact None None None None).
Proof. exact (replay_state_snapshot_alone ikey_compare ikey_compare_ok). Qed.

(* What the snapshot theorem says about an omitted level: the record written for
   (levels with level k emptied) replays to exactly that state, so a snapshot
   writer that skipped level k would make recovery lose precisely the files of
   level k -- the replayed file set is the recorded one, nothing is
   reconstructed from elsewhere. *)
Corollary replay_snapshot_omitted_level : forall cmpname levels compact k,
  wf_str cmpname = true -> wf_bytes cmpname = true ->
  wf_version ikey_compare (upd_nth k (fun _ => []) levels) compact ->
  (forall l, (l < NLEVELS)%nat ->
     NoDup (map f_number (nth l (upd_nth k (fun _ => []) levels) []))) ->
  (k < NLEVELS)%nat -> nth k levels [] <> [] ->
  exists v, manifest_replay_state cmpname
              (write_log [edit_export (snapshot_edit cmpname compact (upd_nth k (fun _ => []) levels))]) = inr v /\
            nth k (vs_levels v) [] = [] /\ vs_levels v <> levels.
Proof.
  intros cmpname levels compact k Hn Hnb Hv Hnd Hk Hne.
  exists (mkV (upd_nth k (fun _ => []) levels) compact None None None None).
  split; [apply replay_state_snapshot_nothing; assumption|].
  destruct Hv as [[Hlen _] _ _ _]. rewrite length_upd_nth in Hlen.
  cbn [vs_levels]. split.
  - rewrite nth_upd_nth by (rewrite Hlen; exact Hk). rewrite Nat.eqb_refl. reflexivity.
  - intros Heq. apply Hne. rewrite <- Heq at 1.
    rewrite nth_upd_nth by (rewrite Hlen; exact Hk). rewrite Nat.eqb_refl. reflexivity.
Qed.

(* ------------------------------------------------------------------ *)
(* The freshness hypothesis is needed: the builder of                  *)
(* ldb_versions_recover accumulates ALL edits before saving, so a file *)
(* number that is added, deleted and added again at the same level     *)
(* (with another smallest key) comes back TWICE on replay, while the    *)
(* version that was in memory held it once.  lcdb never reuses a file   *)
(* number, so this cannot be observed through the API.                  *)
(* ------------------------------------------------------------------ *)
Definition cx_key (c : N) : bytes := [c; 1; 1; 0; 0; 0; 0; 0; 0].
Definition cx_edits : list edit :=
  [ mkEdit None (Some 3) None (Some 9) (Some 7) [] [] [mkNewFile 1 5 10 (cx_key 97) (cx_key 97)];
    mkEdit None None None None None [] [(1, 5)] [];
    mkEdit None None None None None [] [] [mkNewFile 1 5 10 (cx_key 98) (cx_key 98)] ].

Definition level_numbers (r : N + recovered) : list (list N) :=
  match r with inl _ => [] | inr v => map (map f_number) (rv_levels v) end.

Example replay_fold_needs_fresh :
  level_numbers (manifest_replay [] (write_log (map edit_export cx_edits))) =
    [[]; [5; 5]; []; []; []; []; []] /\
  level_numbers (finish_vstate 2 (fold_left (apply_edit ikey_compare) (map edit_canon cx_edits) vstate_init)) =
    [[]; [5]; []; []; []; []; []].
Proof. split; vm_compute; reflexivity. Qed.

(* ------------------------------------------------------------------ *)
(* Any user comparator that is a total order (what lcdb requires of    *)
(* ldb_comparator_t; EngineSpec.total_order)                           *)
(* ------------------------------------------------------------------ *)
Lemma ikc_compare_ok : forall ucmp, total_order ucmp -> kcmp_ok (ikc_compare ucmp).
Proof.
  intros ucmp Ht. constructor.
  - intros a b. unfold ikc_compare. rewrite (to_antisym _ Ht (ikey_user a) (ikey_user b)).
    destruct (ucmp (ikey_user b) (ikey_user a)); cbn [CompOpp]; try reflexivity.
    apply N.compare_antisym.
  - intros a b c H1 H2. unfold ikc_compare in *.
    destruct (ucmp (ikey_user a) (ikey_user b)) eqn:Hab; try discriminate H1;
    destruct (ucmp (ikey_user b) (ikey_user c)) eqn:Hbc; try discriminate H2.
    + destruct (to_eq _ Ht _ _ Hab (ikey_user c)) as [E _]. rewrite E, Hbc.
      rewrite N.compare_lt_iff in H1, H2 |- *. lia.
    + destruct (to_eq _ Ht _ _ Hab (ikey_user c)) as [E _]. rewrite E, Hbc. reflexivity.
    + destruct (to_eq _ Ht _ _ Hbc (ikey_user a)) as [_ E]. rewrite <- E, Hab. reflexivity.
    + rewrite (to_trans _ Ht _ _ _ Hab Hbc). reflexivity.
  - intros a b Hab c. unfold ikc_compare in *.
    destruct (ucmp (ikey_user a) (ikey_user b)) eqn:Hu; try discriminate Hab.
    apply N.compare_eq_iff in Hab.
    destruct (to_eq _ Ht _ _ Hu (ikey_user c)) as [E _]. rewrite E, Hab. reflexivity.
Qed.

Theorem replay_fold_any_comparator : forall ucmp, total_order ucmp -> forall cmpname es,
  Forall (fun e => wf_edit e = true) es ->
  Forall (fun e => wf_bytes (edit_export e) = true) es ->
  Forall (cmp_matches cmpname) es ->
  fresh_adds empty_levels es ->
  manifest_replay_with (ikc_compare ucmp) cmpname (write_log (map edit_export es)) =
  finish_vstate 2 (fold_left (apply_edit (ikc_compare ucmp)) (map edit_canon es) vstate_init).
Proof. intros ucmp Ht. exact (replay_fold_with _ (ikc_compare_ok ucmp Ht)). Qed.

Print Assumptions replay_fold_any_comparator.
Print Assumptions replay_fold.
Print Assumptions replay_append.
Print Assumptions replay_snapshot.
Print Assumptions replay_state_snapshot_nothing.
