(* CacheInv2.v -- the shard invariant (CacheInv.v) is preserved by finish / erase / the eviction
   and prune loops / insert / lookup; the destroy loop frees everything. *)
From LCDB Require Import Base BaseProofs Cache CacheSpec CacheLemmas CacheInv.
From Coq Require Import Lia ZifyBool ZifyNat ZifyN Permutation.
Local Open Scope N_scope.

Ltac Zify.zify_post_hook ::= Z.div_mod_to_equations.

Lemma list_remove_length : forall id l, (length (list_remove id l) <= length l)%nat.
Proof.
  intros id l. unfold list_remove. induction l as [|a t IH]; [cbn; lia|].
  cbn [filter]. destruct (negb (a =? id)); cbn [length]; lia.
Qed.

(* ---- table_find ---- *)
Lemma table_find_some : forall s key e, table_find s key = Some e ->
  In e (sh_heap s) /\ ce_in_cache e = true /\ ce_key e = key.
Proof.
  unfold table_find. intros s key e H. apply find_some in H. destruct H as [H1 H2].
  apply andb_true_iff in H2. destruct H2 as [H2 H3]. apply bytes_eqb_eq in H3.
  repeat split; assumption.
Qed.

Lemma table_find_none : forall s key, table_find s key = None ->
  forall e, In e (sh_heap s) -> ce_in_cache e = true -> ce_key e <> key.
Proof.
  unfold table_find. intros s key H e He Hic Hk. pose proof (find_none _ _ H e He) as H1.
  cbv beta in H1. rewrite Hic, (proj2 (bytes_eqb_eq _ _) Hk) in H1. discriminate H1.
Qed.

Lemma table_find_amo : forall s e, amo (sh_heap s) -> In e (sh_heap s) -> ce_in_cache e = true ->
  table_find s (ce_key e) = Some e.
Proof.
  intros s e Ha He Hic. destruct (table_find s (ce_key e)) as [x|] eqn:E.
  - apply table_find_some in E. destruct E as [E1 [E2 E3]]. f_equal. apply Ha; assumption.
  - exfalso. exact (table_find_none _ _ E e He Hic eq_refl).
Qed.

(* ------------------------------------------------------------------ *)
(* clearing the in_cache flag (first half of lru_shard_finish)          *)
(* ------------------------------------------------------------------ *)
Lemma shard_flag_ok : forall B rc cap u lru h nxt e,
  sinv B rc (mkSh cap u lru h nxt) -> In e h -> ce_in_cache e = true ->
  sinv B (fun y => rc y + if y =? ce_id e then 1 else 0)
    (mkSh cap ((u + two64 - ce_charge e) mod two64) (list_remove (ce_id e) lru)
          (heap_set h (with_in_cache e false)) nxt) /\
  step_ok h (heap_set h (with_in_cache e false)) [].
Proof.
  intros B rc cap u lru h nxt e Hinv Hin Hic.
  pose proof (si_nodup _ _ _ Hinv) as Hnd. pose proof (si_lru_nodup _ _ _ Hinv) as Hlnd.
  destruct (si_refs _ _ _ Hinv e Hin) as [Hre Hre1]. cbn [sh_heap sh_lru] in *. rewrite Hic in Hre.
  assert (Hss : same_static e (with_in_cache e false)) by (repeat split).
  split.
  - apply (sinv_set B rc _ cap u _ lru _ h nxt e (with_in_cache e false) Hinv Hin Hss).
    + intros _. exact Hic.
    + apply list_remove_nodup; exact Hlnd.
    + intros id0. unfold elig. cbn [with_in_cache ce_in_cache andb]. rewrite in_list_remove. split.
      * intros [H1 H2]. right; split; assumption.
      * intros [[_ H]|[H1 H2]]; [discriminate H|split; assumption].
    + intros y Hy. rewrite (proj2 (N.eqb_neq _ _) Hy). lia.
    + cbn [with_in_cache ce_refs ce_in_cache]. rewrite N.eqb_refl. lia.
    + cbn [with_in_cache ce_refs]. exact Hre1.
    + intros HB D HD. unfold icc in *. cbn [with_in_cache ce_in_cache]. rewrite Hic in HD.
      rewrite N.add_0_l. apply usage_sub; [apply (si_charge _ _ _ Hinv HB e Hin)|exact HD].
  - apply (step_ok_set h e _ Hnd Hin Hss). intros H; discriminate H.
Qed.

(* ------------------------------------------------------------------ *)
(* lru_shard_finish on an in-cache entry                                *)
(* ------------------------------------------------------------------ *)
Lemma shard_finish_ok : forall B rc s e s' f, sinv B rc s -> In e (sh_heap s) -> ce_in_cache e = true ->
  shard_finish s (Some (ce_id e)) = (s', f) ->
  sinv B rc s' /\ step_ok (sh_heap s) (sh_heap s') f /\
  sh_cap s' = sh_cap s /\ sh_next s' = sh_next s /\
  sh_lru s' = list_remove (ce_id e) (sh_lru s) /\
  (forall x, In x (sh_heap s') -> ce_id x = ce_id e -> ce_in_cache x = false).
Proof.
  intros B rc [cap u lru h nxt] e s' f Hinv Hin Hic H. cbn [sh_heap sh_lru sh_cap sh_next] in *.
  pose proof (si_nodup _ _ _ Hinv) as Hnd. cbn [sh_heap] in Hnd.
  unfold shard_finish in H. cbn [sh_heap sh_lru sh_next sh_usage sh_cap] in H.
  rewrite (heap_get_in h e Hnd Hin) in H.
  destruct (shard_flag_ok B rc cap u lru h nxt e Hinv Hin Hic) as [Hinv1 Hstep1].
  assert (Hrc1 : 1 <= (fun y => rc y + (if y =? ce_id e then 1 else 0)) (ce_id e))
    by (cbv beta; rewrite N.eqb_refl; lia).
  destruct (shard_unref_ok B _ _ (ce_id e) s' f Hinv1 Hrc1 H) as [Hinv2 [Hstep2 [Hc [Hn Hl]]]].
  cbn [sh_heap sh_lru sh_cap sh_next] in *.
  assert (Hin' : In (with_in_cache e false) (heap_set h (with_in_cache e false))).
  { apply in_heap_set. left. split; [reflexivity|]. exists e. split; [exact Hin|reflexivity]. }
  split; [|split; [|split; [|split; [|split]]]].
  - apply (sinv_ext B _ rc s' ) in Hinv2; [exact Hinv2|].
    intros x. cbv beta. rewrite N.eqb_refl. destruct (N.eqb_spec x (ce_id e)) as [E|E]; [subst x|]; lia.
  - exact (step_ok_trans _ _ _ _ _ Hstep1 Hstep2).
  - exact Hc.
  - exact Hn.
  - exact (Hl _ Hin' eq_refl eq_refl).
  - intros x Hx Hid. destruct (so_sub _ _ _ Hstep2 x Hx) as [y [Hy [[Sid _] Icy]]].
    apply in_heap_set in Hy. destruct Hy as [[Hy _]|[_ Hne]].
    + subst y. destruct (ce_in_cache x); [discriminate (Icy eq_refl)|reflexivity].
    + exfalso. apply Hne. cbn [with_in_cache ce_id]. congruence.
Qed.

(* ------------------------------------------------------------------ *)
(* lru_shard_erase = one iteration of the evict / prune loops           *)
(* ------------------------------------------------------------------ *)
Lemma shard_erase_ok : forall B rc s key s' f, sinv B rc s ->
  shard_finish s (oid (table_find s key)) = (s', f) ->
  sinv B rc s' /\ step_ok (sh_heap s) (sh_heap s') f /\
  sh_cap s' = sh_cap s /\ sh_next s' = sh_next s /\
  (forall e, table_find s key = Some e -> sh_lru s' = list_remove (ce_id e) (sh_lru s)) /\
  (amo (sh_heap s) -> forall x, In x (sh_heap s') -> ce_in_cache x = true -> ce_key x <> key).
Proof.
  intros B rc s key s' f Hinv H. destruct (table_find s key) as [e|] eqn:Etf.
  - cbn [oid option_map] in H. destruct (table_find_some _ _ _ Etf) as [Hin [Hic Hk]].
    destruct (shard_finish_ok B rc s e s' f Hinv Hin Hic H) as [Hinv' [Hst [Hc [Hn [Hl Hko]]]]].
    split; [exact Hinv'|]. split; [exact Hst|]. split; [exact Hc|]. split; [exact Hn|]. split.
    + intros e0 E0. injection E0 as <-. exact Hl.
    + intros Ha x Hx Hicx Hkx.
      destruct (so_sub _ _ _ Hst x Hx) as [y [Hy [[Sid [Sk _]] Icy]]].
      assert (y = e) by (apply Ha; auto; congruence). subst y.
      rewrite (Hko x Hx (eq_sym Sid)) in Hicx. discriminate Hicx.
  - cbn [oid option_map shard_finish] in H. injection H as <- <-.
    split; [exact Hinv|]. split; [apply step_ok_refl|]. split; [reflexivity|]. split; [reflexivity|]. split.
    + intros e0 E0. discriminate E0.
    + intros _ x Hx Hicx. exact (table_find_none _ _ Etf x Hx Hicx).
Qed.

(* ------------------------------------------------------------------ *)
(* the eviction loop                                                    *)
(* ------------------------------------------------------------------ *)
Lemma evict_loop_ok : forall fuel B rc s s' f, sinv B rc s -> amo (sh_heap s) ->
  evict_loop fuel s = (s', f) ->
  sinv B rc s' /\ step_ok (sh_heap s) (sh_heap s') f /\
  sh_cap s' = sh_cap s /\ sh_next s' = sh_next s /\
  ((length (sh_lru s) <= fuel)%nat -> sh_usage s' <= sh_cap s' \/ sh_lru s' = []).
Proof.
  induction fuel as [|fuel IH]; intros B rc s s' f Hinv Hamo H.
  - cbn [evict_loop] in H. injection H as <- <-.
    split; [exact Hinv|]. split; [apply step_ok_refl|]. split; [reflexivity|]. split; [reflexivity|].
    intros Hl. right. destruct (sh_lru s); [reflexivity|cbn [length] in Hl; lia].
  - cbn [evict_loop] in H.
    destruct (sh_cap s <? sh_usage s) eqn:Ecmp.
    2:{ injection H as <- <-.
        split; [exact Hinv|]. split; [apply step_ok_refl|]. split; [reflexivity|]. split; [reflexivity|].
        intros _. left. apply N.ltb_ge. exact Ecmp. }
    destruct (sh_lru s) as [|oldid t] eqn:El.
    { injection H as <- <-.
      split; [exact Hinv|]. split; [apply step_ok_refl|]. split; [reflexivity|]. split; [reflexivity|].
      intros _. right. exact El. }
    assert (Hon : on_lru (sh_heap s) oldid).
    { apply (si_lru _ _ _ Hinv). rewrite El. left. reflexivity. }
    destruct (heap_get (sh_heap s) oldid) as [old|] eqn:Eg.
    2:{ exfalso. destruct Hon as [x [Hx [Hxid _]]]. exact (heap_get_none _ _ Eg x Hx Hxid). }
    destruct (shard_finish s (oid (table_find s (ce_key old)))) as [s1 f1] eqn:Ef.
    destruct (evict_loop fuel s1) as [s2 f2] eqn:El2.
    injection H as <- <-.
    destruct (shard_erase_ok B rc s _ s1 f1 Hinv Ef) as [Hinv1 [Hst1 [Hc1 [Hn1 [Hl1 _]]]]].
    assert (Hamo1 : amo (sh_heap s1)).
    { eapply amo_sub; [apply (si_nodup _ _ _ Hinv1)|apply (so_sub _ _ _ Hst1)|exact Hamo]. }
    destruct (IH B rc s1 s2 f2 Hinv1 Hamo1 El2) as [Hinv2 [Hst2 [Hc2 [Hn2 Hb2]]]].
    split; [exact Hinv2|]. split; [eapply step_ok_trans; eassumption|].
    split; [congruence|]. split; [congruence|].
    intros Hlen. apply Hb2.
    apply heap_get_some in Eg. destruct Eg as [Hold Hoid].
    assert (Hel : elig old = true).
    { apply (on_lru_self _ old (si_nodup _ _ _ Hinv) Hold). rewrite Hoid. exact Hon. }
    unfold elig in Hel. apply andb_true_iff in Hel. destruct Hel as [Hic _].
    rewrite (Hl1 old (table_find_amo s old Hamo Hold Hic)). rewrite Hoid, El.
    rewrite list_remove_head; [cbn [length] in Hlen; lia|].
    rewrite <- El. apply (si_lru_nodup _ _ _ Hinv).
Qed.

Lemma prune_loop_ok : forall fuel B rc s s' f, sinv B rc s ->
  prune_loop fuel s = (s', f) ->
  sinv B rc s' /\ step_ok (sh_heap s) (sh_heap s') f /\
  sh_cap s' = sh_cap s /\ sh_next s' = sh_next s.
Proof.
  induction fuel as [|fuel IH]; intros B rc s s' f Hinv H.
  - cbn [prune_loop] in H. injection H as <- <-.
    split; [exact Hinv|]. split; [apply step_ok_refl|]. split; reflexivity.
  - cbn [prune_loop] in H.
    destruct (sh_lru s) as [|oldid t] eqn:El.
    { injection H as <- <-.
      split; [exact Hinv|]. split; [apply step_ok_refl|]. split; reflexivity. }
    destruct (heap_get (sh_heap s) oldid) as [old|] eqn:Eg.
    2:{ injection H as <- <-.
        split; [exact Hinv|]. split; [apply step_ok_refl|]. split; reflexivity. }
    destruct (shard_finish s (oid (table_find s (ce_key old)))) as [s1 f1] eqn:Ef.
    destruct (prune_loop fuel s1) as [s2 f2] eqn:El2.
    injection H as <- <-.
    destruct (shard_erase_ok B rc s _ s1 f1 Hinv Ef) as [Hinv1 [Hst1 [Hc1 [Hn1 _]]]].
    destruct (IH B rc s1 s2 f2 Hinv1 El2) as [Hinv2 [Hst2 [Hc2 Hn2]]].
    split; [exact Hinv2|]. split; [eapply step_ok_trans; eassumption|].
    split; congruence.
Qed.

(* ------------------------------------------------------------------ *)
(* lru_shard_insert                                                     *)
(* ------------------------------------------------------------------ *)
Lemma sinv_snoc : forall (B : Prop) rc cap u lru h nxt key val charge (b : bool),
  sinv B rc (mkSh cap u lru h nxt) -> (B -> charge < two64) -> (b = true -> cap <> 0) ->
  sinv B (fun y => rc y + if y =? nxt then 1 else 0)
    (mkSh cap (if b then (u + charge) mod two64 else u) lru
          (h ++ [mkCE nxt key val charge (if b then 2 else 1) b]) (nxt + 1)).
Proof.
  intros B rc cap u lru h nxt key val charge b Hinv HBc Hb.
  destruct Hinv as [Hnd Hnext Hlnd Hlru Hrefs Hrc0 Hcap0 Hch Hus].
  cbn [sh_heap sh_lru sh_next sh_usage sh_cap] in *.
  set (e := mkCE nxt key val charge (if b then 2 else 1) b).
  assert (Hfresh : forall x, In x h -> ce_id x <> nxt).
  { intros x Hx. pose proof (Hnext x Hx). lia. }
  assert (Hrcn : rc nxt = 0) by (apply Hrc0; exact Hfresh).
  constructor; cbn [sh_heap sh_lru sh_next sh_usage sh_cap].
  - apply nodup_ids_snoc; [exact Hnd|exact Hfresh].
  - intros x Hx. apply in_app_or in Hx. destruct Hx as [Hx|[Hx|[]]].
    + pose proof (Hnext x Hx). lia.
    + subst x. cbn [e ce_id]. lia.
  - exact Hlnd.
  - intros id0. rewrite Hlru. split.
    + intros [x [Hx Hr]]. exists x. split; [apply in_or_app; left; exact Hx|exact Hr].
    + intros [x [Hx [Hxid Hel]]]. apply in_app_or in Hx. destruct Hx as [Hx|[Hx|[]]].
      * exists x. repeat split; assumption.
      * subst x. exfalso. unfold elig in Hel. cbn [e ce_in_cache ce_refs] in Hel.
        destruct b; cbn in Hel; discriminate Hel.
  - intros x Hx. apply in_app_or in Hx. destruct Hx as [Hx|[Hx|[]]].
    + rewrite (proj2 (N.eqb_neq _ _) (Hfresh x Hx)). rewrite N.add_0_r. apply Hrefs, Hx.
    + subst x. cbn [e ce_id ce_refs ce_in_cache]. rewrite N.eqb_refl, Hrcn. destruct b; lia.
  - intros id0 Hno.
    assert (Hne : id0 <> nxt).
    { intros E. apply (Hno e); [apply in_or_app; right; left; reflexivity|cbn [e ce_id]; congruence]. }
    rewrite (proj2 (N.eqb_neq _ _) Hne), N.add_0_r. apply Hrc0.
    intros x Hx. apply Hno. apply in_or_app. left. exact Hx.
  - intros Hc x Hx. apply in_app_or in Hx. destruct Hx as [Hx|[Hx|[]]].
    + apply Hcap0; assumption.
    + subst x. cbn [e ce_in_cache]. destruct b; [exfalso; exact (Hb eq_refl Hc)|reflexivity].
  - intros HB x Hx. apply in_app_or in Hx. destruct Hx as [Hx|[Hx|[]]].
    + apply Hch; assumption.
    + subst x. cbn [e ce_charge]. apply HBc, HB.
  - intros HB. rewrite icsum_app, icsum_cons, icsum_nil. unfold icc. cbn [e ce_in_cache ce_charge].
    destruct b.
    + rewrite N.add_0_r. apply usage_add. apply Hus, HB.
    + rewrite !N.add_0_r. apply Hus, HB.
Qed.

Lemma amo_insert : forall h h2 e key nxt, NoDup (map ce_id h2) -> heap_sub (h ++ [e]) h2 -> amo h ->
  ce_key e = key ->
  (forall x, In x h2 -> ce_in_cache x = true -> ce_key x = key -> ce_id x = nxt) -> amo h2.
Proof.
  intros h h2 e key nxt Hnd Hs Ha Hk Hnew x1 x2 H1 H2 I1 I2 K.
  destruct (bytes_eqb (ce_key x1) key) eqn:Ek.
  - apply bytes_eqb_eq in Ek. apply (nodup_id_inj h2); auto.
    rewrite (Hnew x1 H1 I1 Ek). symmetry. apply (Hnew x2 H2 I2). congruence.
  - apply bytes_eqb_neq in Ek.
    destruct (Hs x1 H1) as [y1 [Hy1 [[Sid1 [Sk1 _]] Ic1]]].
    destruct (Hs x2 H2) as [y2 [Hy2 [[Sid2 [Sk2 _]] Ic2]]].
    apply in_app_or in Hy1. apply in_app_or in Hy2.
    destruct Hy1 as [Hy1|[Hy1|[]]]; [|subst y1; exfalso; apply Ek; congruence].
    destruct Hy2 as [Hy2|[Hy2|[]]]; [|subst y2; exfalso; apply Ek; congruence].
    assert (y1 = y2) by (apply Ha; auto; congruence). subst y2.
    apply (nodup_id_inj h2); auto. congruence.
Qed.

(* the eviction at the end of lru_shard_insert *)
Lemma insert_tail : forall B rc1 s2 s3 f2 key nxt,
  sinv B rc1 s2 -> amo (sh_heap s2) ->
  (forall x, In x (sh_heap s2) -> ce_in_cache x = true -> ce_key x = key -> ce_id x = nxt) ->
  evict_loop (length (sh_lru s2)) s2 = (s3, f2) ->
  sinv B rc1 s3 /\ amo (sh_heap s3) /\ step_ok (sh_heap s2) (sh_heap s3) f2 /\
  sh_cap s3 = sh_cap s2 /\
  (forall x, In x (sh_heap s3) -> ce_in_cache x = true -> ce_key x = key -> ce_id x = nxt) /\
  (sh_usage s3 <= sh_cap s3 \/ sh_lru s3 = []).
Proof.
  intros B rc1 s2 s3 f2 key nxt Hinv Hamo Hnew H.
  destruct (evict_loop_ok _ B rc1 s2 s3 f2 Hinv Hamo H) as [Hinv3 [Hst [Hc [_ Hb]]]].
  split; [exact Hinv3|]. split.
  { eapply amo_sub; [apply (si_nodup _ _ _ Hinv3)|apply (so_sub _ _ _ Hst)|exact Hamo]. }
  split; [exact Hst|]. split; [exact Hc|]. split.
  - intros x Hx Hic Hk. destruct (so_sub _ _ _ Hst x Hx) as [y [Hy [[Sid [Sk _]] Icy]]].
    rewrite <- Sid. apply (Hnew y Hy (Icy Hic)). congruence.
  - apply Hb. lia.
Qed.

Lemma shard_insert_ok : forall B rc s key val charge s' id f,
  sinv B rc s -> amo (sh_heap s) -> (B -> charge < two64) ->
  shard_insert s key val charge = (s', id, f) ->
  id = sh_next s /\
  sinv B (fun y => rc y + if y =? id then 1 else 0) s' /\ amo (sh_heap s') /\
  (exists e0, ce_id e0 = id /\ ce_key e0 = key /\ ce_val e0 = val /\ ce_charge e0 = charge /\
      step_ok (sh_heap s ++ [e0]) (sh_heap s') f) /\
  sh_cap s' = sh_cap s /\
  (forall x, In x (sh_heap s') -> ce_in_cache x = true -> ce_key x = key -> ce_id x = id) /\
  (sh_usage s' <= sh_cap s' \/ sh_lru s' = []).
Proof.
  intros B rc [cap u lru h nxt] key val charge s' id f Hinv Hamo HBc H.
  unfold shard_insert in H. cbn [sh_heap sh_lru sh_next sh_usage sh_cap] in *.
  destruct (0 <? cap) eqn:Ecap.
  - (* capacity > 0 *)
    apply N.ltb_lt in Ecap.
    set (e := mkCE nxt key val charge 2 true) in *.
    set (s1 := mkSh cap ((u + charge) mod two64) lru (h ++ [e]) (nxt + 1)) in *.
    assert (Hinv1 : sinv B (fun y => rc y + if y =? nxt then 1 else 0) s1).
    { apply (sinv_snoc B rc cap u lru h nxt key val charge true Hinv HBc). intros _. lia. }
    set (s0 := mkSh cap u lru h nxt) in *.
    destruct (shard_finish s1 (oid (table_find s0 key))) as [s2 f1] eqn:Ef.
    destruct (evict_loop (length (sh_lru s2)) s2) as [s3 f2] eqn:Eev.
    injection H as <- <- <-.
    assert (Hmid : sinv B (fun y => rc y + if y =? nxt then 1 else 0) s2 /\
                   step_ok (h ++ [e]) (sh_heap s2) f1 /\ sh_cap s2 = cap /\
                   (forall x, In x (sh_heap s2) -> ce_in_cache x = true -> ce_key x = key -> ce_id x = nxt)).
    { destruct (table_find s0 key) as [eo|] eqn:Etf.
      - cbn [oid option_map] in Ef. destruct (table_find_some _ _ _ Etf) as [Hin [Hic Hk]].
        cbn [s0 sh_heap] in Hin.
        assert (Hin1 : In eo (sh_heap s1)) by (cbn [s1 sh_heap]; apply in_or_app; left; exact Hin).
        destruct (shard_finish_ok B _ s1 eo s2 f1 Hinv1 Hin1 Hic Ef) as [Hinv2 [Hst [Hc [_ [_ Hko]]]]].
        cbn [s1 sh_heap sh_cap] in Hst, Hc.
        split; [exact Hinv2|]. split; [exact Hst|]. split; [exact Hc|].
        intros x Hx Hicx Hkx. destruct (so_sub _ _ _ Hst x Hx) as [y [Hy [[Sid [Sk _]] Icy]]].
        apply in_app_or in Hy. destruct Hy as [Hy|[Hy|[]]].
        + exfalso. assert (y = eo) by (apply Hamo; auto; congruence). subst y.
          rewrite (Hko x Hx (eq_sym Sid)) in Hicx. discriminate Hicx.
        + subst y. rewrite <- Sid. reflexivity.
      - cbn [oid option_map shard_finish] in Ef. injection Ef as <- <-.
        split; [exact Hinv1|]. split; [cbn [s1 sh_heap]; apply step_ok_refl|]. split; [reflexivity|].
        cbn [s1 sh_heap]. intros x Hx Hicx Hkx. apply in_app_or in Hx. destruct Hx as [Hx|[Hx|[]]].
        + exfalso. exact (table_find_none _ _ Etf x Hx Hicx Hkx).
        + subst x. reflexivity. }
    destruct Hmid as [Hinv2 [Hst2 [Hc2 Hnew2]]].
    assert (Hamo2 : amo (sh_heap s2)).
    { apply (amo_insert h (sh_heap s2) e key nxt (si_nodup _ _ _ Hinv2) (so_sub _ _ _ Hst2) Hamo eq_refl Hnew2). }
    destruct (insert_tail B _ s2 s3 f2 key nxt Hinv2 Hamo2 Hnew2 Eev) as [Hinv3 [Hamo3 [Hst3 [Hc3 [Hnew3 Hb3]]]]].
    split; [reflexivity|]. split; [exact Hinv3|]. split; [exact Hamo3|]. split.
    { exists e. split; [reflexivity|]. split; [reflexivity|]. split; [reflexivity|]. split; [reflexivity|].
      exact (step_ok_trans _ _ _ _ _ Hst2 Hst3). }
    split; [congruence|]. split; [exact Hnew3|exact Hb3].
  - (* capacity 0: the entry is handed out but not cached *)
    apply N.ltb_ge in Ecap. assert (Hcap : cap = 0) by lia.
    set (e := mkCE nxt key val charge 1 false) in *.
    set (s1 := mkSh cap u lru (h ++ [e]) (nxt + 1)) in *.
    assert (Hinv1 : sinv B (fun y => rc y + if y =? nxt then 1 else 0) s1).
    { apply (sinv_snoc B rc cap u lru h nxt key val charge false Hinv HBc). intros E; discriminate E. }
    destruct (evict_loop (length lru) s1) as [s3 f2] eqn:Eev.
    injection H as <- <- <-.
    assert (Hnew1 : forall x, In x (sh_heap s1) -> ce_in_cache x = true -> ce_key x = key -> ce_id x = nxt).
    { intros x Hx Hicx _. rewrite (si_cap0 _ _ _ Hinv1 Hcap x Hx) in Hicx. discriminate Hicx. }
    assert (Hamo1 : amo (sh_heap s1)).
    { apply (amo_insert h (sh_heap s1) e key nxt (si_nodup _ _ _ Hinv1)); auto.
      cbn [s1 sh_heap]. apply heap_sub_refl. }
    destruct (insert_tail B _ s1 s3 f2 key nxt Hinv1 Hamo1 Hnew1 Eev) as [Hinv3 [Hamo3 [Hst3 [Hc3 [Hnew3 Hb3]]]]].
    split; [reflexivity|]. split; [exact Hinv3|]. split; [exact Hamo3|]. split.
    { exists e. split; [reflexivity|]. split; [reflexivity|]. split; [reflexivity|]. split; [reflexivity|].
      exact Hst3. }
    split; [exact Hc3|]. split; [exact Hnew3|exact Hb3].
Qed.

(* ------------------------------------------------------------------ *)
(* lru_shard_lookup                                                     *)
(* ------------------------------------------------------------------ *)
Lemma shard_lookup_ok : forall B rc s key s' r, sinv B rc s -> shard_lookup s key = (s', r) ->
  match r with
  | None => s' = s
  | Some (id, v) =>
      exists e, In e (sh_heap s) /\ ce_in_cache e = true /\ ce_key e = key /\
        id = ce_id e /\ v = ce_val e /\
        sinv B (fun y => rc y + if y =? id then 1 else 0) s' /\
        step_ok (sh_heap s) (sh_heap s') [] /\ sh_cap s' = sh_cap s
  end.
Proof.
  intros B rc s key s' r Hinv H. unfold shard_lookup in H.
  destruct (table_find s key) as [e|] eqn:Etf.
  - injection H as <- <-. destruct (table_find_some _ _ _ Etf) as [Hin [Hic Hk]].
    destruct (shard_ref_ok B rc s e Hinv Hin Hic) as [Hinv' [Hst [Hc _]]].
    exists e. split; [exact Hin|]. split; [exact Hic|]. split; [exact Hk|]. split; [reflexivity|].
    split; [reflexivity|]. split; [exact Hinv'|]. split; [exact Hst|exact Hc].
  - injection H as <- <-. reflexivity.
Qed.

(* ------------------------------------------------------------------ *)
(* lru_shard_clear when no handle is outstanding                        *)
(* ------------------------------------------------------------------ *)
Lemma heap_del_set : forall h e' id, ce_id e' = id -> heap_del (heap_set h e') id = heap_del h id.
Proof.
  intros h e' id Hid. unfold heap_del, heap_set. induction h as [|a t IH]; [reflexivity|].
  cbn [map filter]. destruct (N.eqb_spec (ce_id a) (ce_id e')) as [E|E].
  - rewrite Hid, N.eqb_refl. rewrite <- Hid, E, N.eqb_refl. cbn [negb]. rewrite <- Hid in IH. exact IH.
  - rewrite <- Hid. rewrite (proj2 (N.eqb_neq _ _) E). cbn [negb]. f_equal. rewrite <- Hid in IH. exact IH.
Qed.

Lemma clear_loop_ok : forall ids s s' f, NoDup (map ce_id (sh_heap s)) ->
  (forall e, In e (sh_heap s) -> ce_refs e = 1) ->
  clear_loop ids s = (s', f) ->
  Permutation (map kv f ++ map kv (sh_heap s')) (map kv (sh_heap s)) /\
  (forall x, In x (sh_heap s') -> In x (sh_heap s) /\ ~ In (ce_id x) ids).
Proof.
  induction ids as [|id r IH]; intros [cap u lru h nxt] s' f Hnd Hrefs H;
    cbn [sh_heap sh_lru sh_next sh_usage sh_cap] in *.
  - cbn [clear_loop] in H. injection H as <- <-. cbn [sh_heap map app]. split; [reflexivity|].
    intros x Hx. split; [exact Hx|intros []].
  - cbn [clear_loop] in H. cbn [sh_heap sh_lru sh_next sh_usage sh_cap] in H.
    destruct (heap_get h id) as [e|] eqn:Eg.
    + destruct (heap_get_some _ _ _ Eg) as [Hin Hid].
      set (e' := with_in_cache e false) in *.
      assert (Hin' : In e' (heap_set h e')).
      { apply in_heap_set. left. split; [reflexivity|]. exists e. split; [exact Hin|reflexivity]. }
      assert (Hg' : heap_get (heap_set h e') id = Some e').
      { rewrite <- Hid. change (ce_id e) with (ce_id e'). apply heap_get_in; [|exact Hin'].
        rewrite heap_set_ids. exact Hnd. }
      unfold shard_unref in H. cbn [sh_heap sh_lru sh_next sh_usage sh_cap] in H.
      rewrite Hg' in H. cbn [e' with_in_cache ce_refs] in H. rewrite (Hrefs e Hin) in H.
      change (1 - 1 =? 0) with true in H. cbv iota in H.
      fold e' in H.
      rewrite (heap_del_set h e' id Hid) in H.
      destruct (clear_loop r (mkSh cap u lru (heap_del h id) nxt)) as [s2 f2] eqn:Ecl.
      injection H as <- <-.
      destruct (IH (mkSh cap u lru (heap_del h id) nxt) s2 f2 (heap_del_nodup h id Hnd)
                  ltac:(cbn [sh_heap]; intros x Hx; apply in_heap_del in Hx; apply Hrefs, Hx) Ecl)
        as [Hp Hsub]. cbn [sh_heap] in Hp, Hsub.
      split.
      * cbn [map app]. eapply perm_trans; [apply perm_skip; exact Hp|].
        change (kv e') with (kv e). symmetry. apply kv_del_perm; assumption.
      * intros x Hx. destruct (Hsub x Hx) as [H1 H2]. apply in_heap_del in H1. destruct H1 as [H1 H3].
        split; [exact H1|]. intros [E|E]; [exact (H3 (eq_sym E))|exact (H2 E)].
    + destruct (IH (mkSh cap u lru h nxt) s' f Hnd Hrefs H) as [Hp Hsub]. cbn [sh_heap] in Hp, Hsub.
      split; [exact Hp|]. intros x Hx. destruct (Hsub x Hx) as [H1 H2]. split; [exact H1|].
      intros [E|E]; [exact (heap_get_none _ _ Eg x H1 (eq_sym E))|exact (H2 E)].
Qed.
