(* GcEngine.v -- the collector of Gc.v on the versions of the engine model (Engine.v):
   no table of a reachable version that is still referenced is ever unlinked, and a table
   that a compaction dropped is unlinked once no referenced version lists it.  Property C13. *)
From Coq Require Import List NArith Bool Lia.
From LCDB Require Import Base Filename FilenameProofs Engine EngineSpec EngineRead EngineSteps EngineTop Gc GcProofs.
Import ListNotations.
Local Open Scope N_scope.

Definition version_numbers (s : state) : list N := map fnum (concat (levels s)).

Section WithCmp.
Variable ucmp : bytes -> bytes -> comparison.
Hypothesis Hto : total_order ucmp.

(* every table of a referenced reachable version survives every collection *)
Theorem gc_keeps_referenced_version : forall ops s st pending others dir f,
  run ucmp init_state ops = Some s ->
  next_file s <= U64 ->
  g_live st = live_of pending (version_numbers s :: others) ->
  In f (concat (levels s)) ->
  In (table_name (fnum f)) dir -> In (table_name (fnum f)) (gc st dir).
Proof.
  intros ops s st pending others dir f Hrun Hnf Hl Hf Hin.
  destruct (numbers_fresh ucmp Hto ops s Hrun) as [Hlt _].
  assert (Hb : fnum f < U64) by (specialize (Hlt f Hf); lia).
  apply (proj1 (gc_keeps_pinned_tables st pending (version_numbers s :: others) (version_numbers s) (fnum f) dir
                  Hl (or_introl eq_refl) (in_map fnum _ _ Hf) Hb)). exact Hin.
Qed.

(* a table that the step dropped and that nothing else references is unlinked by the next collection *)
Theorem gc_removes_dropped_table : forall s s' st dir n,
  ~ In n (version_numbers s') -> In n (version_numbers s) -> n < U64 ->
  g_live st = live_of [] [version_numbers s'] ->
  In (table_name n) dir ->
  In (table_name n) (gc_removed st dir) /\ ~ In (table_name n) (gc st dir).
Proof.
  intros s s' st dir n Hnot _ Hb Hl Hin.
  destruct (gc_removes_unreferenced_tables st [] [version_numbers s'] n dir Hl) as [H1 [_ H3]].
  - intros [].
  - intros v [Hv|[]]. subst v. exact Hnot.
  - exact Hb.
  - split; [apply H3; exact Hin|exact H1].
Qed.

(* the numbers the next flush / compaction will use are not in the directory listing's live part:
   a collection that runs while they are pending outputs keeps them, whatever the listing shows *)
Theorem gc_keeps_new_outputs : forall ops s st pending others dir n,
  run ucmp init_state ops = Some s ->
  g_live st = live_of pending (version_numbers s :: others) ->
  In n pending -> n < U64 ->
  In (table_name n) dir -> In (table_name n) (gc st dir).
Proof.
  intros ops s st pending others dir n _ Hl Hp Hb Hin.
  apply (proj1 (gc_keeps_pending_outputs st pending (version_numbers s :: others) n dir Hl Hp Hb)). exact Hin.
Qed.

End WithCmp.
