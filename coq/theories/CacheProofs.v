(* CacheProofs.v -- proofs of the statements of CacheSpec.v about the LRU cache model Cache.v.

   Proved verbatim:  cache_transparent, cache_at_most_one, cache_freed_plus_live,
                     cache_exactly_once, cache_pinned.

   cache_usage_statement, cache_bounded_statement and cache_bounded_unpinned_statement are FALSE
   as written, because a script may insert an entry with a charge >= 2^64 (not a size_t) and
   lru_shard_finish computes (usage + 2^64 - charge) with a truncating subtraction; see
   [usage_counterexample] and [bounded_counterexample] below.  They are proved here for scripts
   whose charges are size_t values ([charges_ok], CacheInv3.v): cache_usage_wf, cache_bounded_wf,
   cache_bounded_unpinned_wf.

   Structure: CacheLemmas.v (lists, heaps, arithmetic, ldb_hash < 2^32), CacheInv.v / CacheInv2.v
   (shard invariant and its preservation by every shard operation), CacheInv3.v (the 16-shard
   invariant along a script). *)
From LCDB Require Import Base BaseProofs Cache CacheSpec CacheLemmas CacheInv CacheInv2 CacheInv3.
From Coq Require Import Lia ZifyBool ZifyNat ZifyN Permutation.
Local Open Scope N_scope.

Ltac Zify.zify_post_hook ::= Z.div_mod_to_equations.

(* ------------------------------------------------------------------ *)
(* (a) transparency                                                     *)
(* ------------------------------------------------------------------ *)
Theorem cache_transparent : cache_transparent_statement.
Proof.
  intros capacity ops st fr Hr k c' h v Hl.
  destruct (reached_inv _ _ _ _ Hr) as [Hinv _].
  unfold lru_lookup in Hl.
  destruct (cinv_get ops st (shard_index k) Hinv (shard_index_lt k)) as [_ Hsk].
  destruct (shard_lookup (get_shard (cs_cache st) (shard_index k)) k) as [s' r] eqn:El.
  pose proof (shard_lookup_ok _ _ _ k s' r (sk_inv _ _ _ _ Hsk) El) as Hlk.
  destruct r as [[id v']|]; cbv beta iota in Hl; [|discriminate Hl].
  injection Hl as _ _ <-.
  destruct Hlk as [e [Hin [Hic [Hk [_ [Hv _]]]]]]. subst k v'.
  apply (sk_latest _ _ _ _ Hsk); assumption.
Qed.
Print Assumptions cache_transparent.

(* ------------------------------------------------------------------ *)
(* (b) at most one in-cache entry per key                               *)
(* ------------------------------------------------------------------ *)
Theorem cache_at_most_one : cache_at_most_one_statement.
Proof.
  intros capacity ops st fr Hr i s Hs e1 e2 H1 H2 I1 I2 K.
  destruct (reached_inv _ _ _ _ Hr) as [Hinv _].
  exact (sk_amo _ _ _ _ (ci_shards _ _ Hinv i s Hs) e1 e2 H1 H2 I1 I2 K).
Qed.
Print Assumptions cache_at_most_one.

(* ------------------------------------------------------------------ *)
(* (e) pinned entries are never freed                                   *)
(* ------------------------------------------------------------------ *)
Theorem cache_pinned : cache_pinned_statement.
Proof.
  intros capacity ops st fr Hr.
  destruct (reached_inv _ _ _ _ Hr) as [Hinv _]. split.
  - intros i id Hin.
    destruct (cinv_get ops st i Hinv (ci_slots _ _ Hinv i id Hin)) as [_ Hsk].
    apply hcnt_pos_in in Hin.
    destruct (sinv_live _ _ _ id (sk_inv _ _ _ _ Hsk) ltac:(lia)) as [e [Hg [He _]]].
    exists e. split; [exact Hg|]. apply (si_refs _ _ _ (sk_inv _ _ _ _ Hsk) e He).
  - intros op st' obs f Hs. apply (step_inv ops st op st' obs f Hinv Hs).
Qed.
Print Assumptions cache_pinned.

(* ------------------------------------------------------------------ *)
(* (c1) usage, for size_t charges                                       *)
(* ------------------------------------------------------------------ *)
Definition cache_usage_wf_statement : Prop :=
  forall capacity ops st fr, charges_ok ops -> reached capacity ops st fr ->
  forall i s, is_shard st i s ->
  sh_usage s = sum_charges (in_cache_entries s) mod two64.

Theorem cache_usage_wf : cache_usage_wf_statement.
Proof.
  intros capacity ops st fr HB Hr i s Hs.
  destruct (reached_inv _ _ _ _ Hr) as [Hinv _].
  exact (si_usage _ _ _ (sk_inv _ _ _ _ (ci_shards _ _ Hinv i s Hs)) HB).
Qed.
Print Assumptions cache_usage_wf.

(* ------------------------------------------------------------------ *)
(* (c2) bounded, for size_t charges                                     *)
(* ------------------------------------------------------------------ *)
Lemma insert_facts : forall ops st k v ch st' obs f, cinv ops st ->
  cache_step st (CInsert k v ch) = (st', obs, f) ->
  forall s', is_shard st' (shard_index k) s' ->
  exists id, shard_insert (get_shard (cs_cache st) (shard_index k)) k v ch = (s', id, f) /\
             cs_slots st' = cs_slots st ++ [Some (shard_index k, id)].
Proof.
  intros ops st k v ch st' obs f Hinv H s' Hs'.
  cbn [cache_step] in H. unfold lru_insert in H.
  destruct (shard_insert (get_shard (cs_cache st) (shard_index k)) k v ch) as [[s1 id] f0] eqn:Ei.
  cbv beta iota zeta in H. injection H as <- <- <-.
  unfold is_shard in Hs'. cbn [cs_cache cs_slots] in *.
  rewrite put_shard_nth_eq in Hs'.
  - injection Hs' as <-. exists id. split; reflexivity.
  - rewrite (ci_len _ _ Hinv). apply shard_index_lt.
Qed.

Lemma pinned_is_all : forall B rc s, sinv B rc s -> sh_lru s = [] ->
  sum_charges (pinned_entries s) = icsum (sh_heap s).
Proof.
  intros B rc s Hinv Hl. unfold pinned_entries, icsum. f_equal. apply filter_ext_in.
  intros x Hx. destruct (ce_in_cache x) eqn:Hic; [|reflexivity]. cbn [andb].
  destruct (si_refs _ _ _ Hinv x Hx) as [_ H1].
  assert (ce_refs x <> 1).
  { intros E. assert (Hon : on_lru (sh_heap s) (ce_id x)).
    { exists x. split; [exact Hx|]. split; [reflexivity|]. unfold elig. rewrite Hic, E. reflexivity. }
    apply (si_lru _ _ _ Hinv) in Hon. rewrite Hl in Hon. destruct Hon. }
  apply N.leb_le. lia.
Qed.

Definition cache_bounded_wf_statement : Prop :=
  forall capacity ops st fr, charges_ok ops -> reached capacity ops st fr ->
  forall k v ch st' obs f, ch < two64 -> cache_step st (CInsert k v ch) = (st', obs, f) ->
  forall s', is_shard st' (shard_index k) s' ->
  sh_usage s' <= N.max (sh_cap s') (sum_charges (pinned_entries s')).

Theorem cache_bounded_wf : cache_bounded_wf_statement.
Proof.
  intros capacity ops st fr HB Hr k v ch st' obs f Hch Hs s' Hs'.
  destruct (reached_inv _ _ _ _ Hr) as [Hinv _].
  destruct (insert_facts ops st k v ch st' obs f Hinv Hs s' Hs') as [id [Hi _]].
  destruct (cinv_get ops st (shard_index k) Hinv (shard_index_lt k)) as [_ Hsk].
  destruct (shard_insert_ok _ _ _ k v ch s' id f (sk_inv _ _ _ _ Hsk) (sk_amo _ _ _ _ Hsk)
              (fun _ => Hch) Hi) as [_ [Hinv' [_ [_ [_ [_ Hb]]]]]].
  destruct Hb as [Hb|Hb].
  - eapply N.le_trans; [exact Hb|apply N.le_max_l].
  - eapply N.le_trans; [|apply N.le_max_r].
    rewrite (pinned_is_all _ _ _ Hinv' Hb). rewrite (si_usage _ _ _ Hinv' HB).
    apply N.mod_le. discriminate.
Qed.
Print Assumptions cache_bounded_wf.

Lemma filter_none : forall (P : centry -> bool) l, (forall x, In x l -> P x = false) -> filter P l = [].
Proof.
  intros P. induction l as [|a t IH]; intros H; [reflexivity|].
  cbn [filter]. rewrite (H a (or_introl eq_refl)). apply IH. intros x Hx. apply H. right. exact Hx.
Qed.

Lemma sum_filter_single : forall (P : centry -> bool) h n ch, NoDup (map ce_id h) ->
  (forall x, In x h -> P x = true -> ce_id x = n /\ ce_charge x = ch) ->
  sum_charges (filter P h) <= ch.
Proof.
  intros P. induction h as [|a t IH]; intros n ch Hnd H.
  - cbn. lia.
  - destruct (nodup_cons_ids _ _ Hnd) as [Hnd' Hnot]. cbn [filter]. destruct (P a) eqn:Ea.
    + rewrite (filter_none P t).
      * destruct (H a (or_introl eq_refl) Ea) as [_ E]. unfold sum_charges. cbn [fold_right]. lia.
      * intros x Hx. destruct (P x) eqn:Ex; [|reflexivity]. exfalso.
        destruct (H a (or_introl eq_refl) Ea) as [E1 _].
        destruct (H x (or_intror Hx) Ex) as [E2 _]. apply (Hnot x Hx). congruence.
    + apply (IH n ch Hnd'). intros x Hx. apply H. right. exact Hx.
Qed.

Definition cache_bounded_unpinned_wf_statement : Prop :=
  forall capacity ops st fr, charges_ok ops -> reached capacity ops st fr ->
  Forall (fun o => o = None) (cs_slots st) ->
  forall k v ch st' obs f, ch < two64 -> cache_step st (CInsert k v ch) = (st', obs, f) ->
  forall s', is_shard st' (shard_index k) s' ->
  sh_usage s' <= N.max (sh_cap s') ch.

Theorem cache_bounded_unpinned_wf : cache_bounded_unpinned_wf_statement.
Proof.
  intros capacity ops st fr HB Hr Hnone k v ch st' obs f Hch Hs s' Hs'.
  pose proof (cache_bounded_wf capacity ops st fr HB Hr k v ch st' obs f Hch Hs s' Hs') as Hbd.
  destruct (reached_inv _ _ _ _ Hr) as [Hinv _].
  destruct (insert_facts ops st k v ch st' obs f Hinv Hs s' Hs') as [id [Hi _]].
  destruct (cinv_get ops st (shard_index k) Hinv (shard_index_lt k)) as [_ Hsk].
  pose proof (sk_inv _ _ _ _ Hsk) as Hinv0.
  destruct (shard_insert_ok _ _ _ k v ch s' id f Hinv0 (sk_amo _ _ _ _ Hsk)
              (fun _ => Hch) Hi) as [Hid [Hinv' [_ [[e0 [E1 [E2 [E3 [E4 Hst]]]]] _]]]].
  assert (Hp : sum_charges (pinned_entries s') <= ch).
  { unfold pinned_entries. apply (sum_filter_single _ _ id ch (si_nodup _ _ _ Hinv')).
    intros x Hx Hpx. apply andb_true_iff in Hpx. destruct Hpx as [Hic Hr2]. apply N.leb_le in Hr2.
    destruct (si_refs _ _ _ Hinv' x Hx) as [Hre _]. rewrite Hic in Hre.
    rewrite (hcnt_all_none (cs_slots st)) in Hre; [|apply Forall_forall; exact Hnone].
    destruct (N.eqb_spec (ce_id x) id) as [E|E]; [|lia].
    split; [exact E|].
    destruct (insert_descends _ _ _ e0 _ x Hinv0 ltac:(congruence) (so_sub _ _ _ Hst) Hx) as [D1 _].
    destruct (D1 ltac:(congruence)) as [_ [_ [_ Sc]]]. congruence. }
  lia.
Qed.
Print Assumptions cache_bounded_unpinned_wf.

(* ------------------------------------------------------------------ *)
(* (d1) freed + live = inserted                                         *)
(* ------------------------------------------------------------------ *)
Theorem cache_freed_plus_live : cache_freed_plus_live_statement.
Proof.
  intros capacity ops st fr Hr. apply (reached_inv _ _ _ _ Hr).
Qed.
Print Assumptions cache_freed_plus_live.

(* ------------------------------------------------------------------ *)
(* (d2) the whole life                                                  *)
(* ------------------------------------------------------------------ *)
Lemma nth_set_nth_none : forall (l : list (option chandle)) n m,
  nth m (set_nth n None l) None = if Nat.eqb m n then None else nth m l None.
Proof.
  induction l as [|a t IH]; intros n m.
  - destruct n, m; cbn; try reflexivity; destruct (Nat.eqb m n); reflexivity.
  - destruct n as [|n], m as [|m]; cbn [set_nth nth Nat.eqb]; try reflexivity. apply IH.
Qed.

Lemma release_all_none : forall l st st' o f, cache_run st (map CRelease l) = (st', o, f) ->
  forall n, nth n (cs_slots st) None = None \/ In n l -> nth n (cs_slots st') None = None.
Proof.
  induction l as [|m l IH]; intros st st' o f H n Hn.
  - cbn [map cache_run] in H. injection H as <- _ _. destruct Hn as [Hn|[]]. exact Hn.
  - cbn [map cache_run] in H. destruct (cache_step st (CRelease m)) as [[st1 o1] f1] eqn:Es.
    destruct (cache_run st1 (map CRelease l)) as [[st2 o2] f2] eqn:Er. injection H as <- _ _.
    apply (IH st1 st2 o2 f2 Er n).
    assert (Hm : nth m (cs_slots st1) None = None /\
                 (nth n (cs_slots st) None = None -> nth n (cs_slots st1) None = None)).
    { cbn [cache_step] in Es. destruct (nth m (cs_slots st) None) as [h|] eqn:En.
      - destruct (lru_release (cs_cache st) h) as [c' f0]. injection Es as <- _ _.
        cbn [cs_slots]. rewrite !nth_set_nth_none. rewrite Nat.eqb_refl. split; [reflexivity|].
        intros E. destruct (Nat.eqb n m); [reflexivity|exact E].
      - injection Es as <- _ _. split; [exact En|intros E; exact E]. }
    destruct Hm as [Hm1 Hm2]. destruct Hn as [Hn|[Hn|Hn]].
    + left. apply Hm2, Hn.
    + subst m. left. exact Hm1.
    + right. exact Hn.
Qed.

Lemma release_all_slots : forall st st' o f, cache_run st (release_all_ops st) = (st', o, f) ->
  forall x, In x (cs_slots st') -> x = None.
Proof.
  intros st st' o f H x Hx. unfold release_all_ops in H.
  destruct (In_nth _ _ None Hx) as [n [Hn Hnx]]. rewrite <- Hnx.
  apply (release_all_none _ _ _ _ _ H n).
  destruct (Nat.lt_ge_cases n (length (cs_slots st))) as [L|L].
  - right. apply in_seq. lia.
  - left. apply nth_overflow. exact L.
Qed.

Lemma concat_heaps_nil : forall l, (forall s, In s l -> sh_heap s = []) -> concat (map sh_heap l) = [].
Proof.
  induction l as [|a t IH]; intros H; [reflexivity|].
  cbn [map concat]. rewrite (H a (or_introl eq_refl)). cbn [app]. apply IH.
  intros s Hs. apply H. right. exact Hs.
Qed.

Lemma destroy_ok : forall ops st c3 f3, cinv ops st -> (forall x, In x (cs_slots st) -> x = None) ->
  lru_destroy (cs_cache st) = (c3, f3) ->
  all_heap c3 = [] /\ Permutation (map kv f3) (map kv (all_heap (cs_cache st))).
Proof.
  intros ops st c3 f3 Hinv Hnone H. unfold lru_destroy in H.
  destruct (map_shards shard_clear (lc_shards (cs_cache st))) as [l' f0] eqn:Em.
  injection H as <- <-.
  destruct (map_shards_spec _ _ _ _ Em) as [M1 [M2 [_ M4]]].
  assert (Hone : forall i s s' fi, nth_error (lc_shards (cs_cache st)) i = Some s ->
            shard_clear s = (s', fi) ->
            sh_heap s' = [] /\ Permutation (map kv fi ++ map kv (sh_heap s')) (map kv (sh_heap s))).
  { intros i s s' fi Hn Hc. pose proof (sk_inv _ _ _ _ (ci_shards _ _ Hinv i s Hn)) as Hs.
    assert (Hall : forall e, In e (sh_heap s) -> ce_in_cache e = true /\ ce_refs e = 1).
    { intros e He. destruct (si_refs _ _ _ Hs e He) as [R1 R2].
      rewrite (hcnt_all_none _ Hnone) in R1. destruct (ce_in_cache e); [split; [reflexivity|lia]|lia]. }
    unfold shard_clear in Hc.
    destruct (clear_loop_ok (sh_lru s) s s' fi (si_nodup _ _ _ Hs) (fun e He => proj2 (Hall e He)) Hc)
      as [Hp Hsub].
    split; [|exact Hp].
    destruct (sh_heap s') as [|x t] eqn:Eh; [reflexivity|]. exfalso.
    destruct (Hsub x (or_introl eq_refl)) as [Hx Hnot]. apply Hnot.
    apply (si_lru _ _ _ Hs). exists x. split; [exact Hx|]. split; [reflexivity|].
    destruct (Hall x Hx) as [A1 A2]. unfold elig. rewrite A1, A2. reflexivity. }
  assert (Hnil : concat (map sh_heap l') = []).
  { apply concat_heaps_nil. intros s' Hs'. apply In_nth_error in Hs'. destruct Hs' as [i Hi].
    destruct (M2 i s' Hi) as [s [fi [A B]]]. apply (Hone i s s' fi A B). }
  unfold all_heap. cbn [lc_shards]. split; [exact Hnil|].
  assert (P := M4 (fun s s' fi Hs Hc =>
                match In_nth_error _ _ Hs with ex_intro _ i Hi => proj2 (Hone i s s' fi Hi Hc) end)).
  rewrite Hnil in P. cbn [map] in P. rewrite app_nil_r in P. exact P.
Qed.

Theorem cache_exactly_once : cache_exactly_once_statement.
Proof.
  intros capacity ops. unfold lifecycle.
  destruct (cache_run (cache_init capacity) ops) as [[st1 o1] f1] eqn:E1.
  destruct (cache_run st1 (release_all_ops st1)) as [[st2 o2] f2] eqn:E2.
  destruct (lru_destroy (cs_cache st2)) as [c3 f3] eqn:E3.
  cbn [fst snd].
  destruct (reached_inv capacity ops st1 f1 (ex_intro _ o1 E1)) as [Hinv1 P1].
  destruct (run_inv _ ops st1 st2 o2 f2 Hinv1 E2) as [Hinv2 P2].
  pose proof (release_all_slots _ _ _ _ E2) as Hnone.
  destruct (destroy_ok _ st2 c3 f3 Hinv2 Hnone E3) as [Hnil P3].
  split; [exact Hnil|].
  unfold release_all_ops in P2. rewrite inserted_kv_releases, app_nil_r in P2.
  rewrite !map_app.
  eapply perm_trans; [apply Permutation_app_head; apply Permutation_app_head; exact P3|].
  eapply perm_trans; [apply Permutation_app_head; exact P2|].
  exact P1.
Qed.
Print Assumptions cache_exactly_once.

(* ------------------------------------------------------------------ *)
(* Counterexamples to the unrestricted usage / bounded statements:      *)
(* capacity 1600 (100 per shard); keys [1], [10], [19] live in shard 4. *)
(* ------------------------------------------------------------------ *)
Definition cx_ops1 : list cop := [CInsert [1] 100 5; CInsert [10] 200 (2 * two64); CErase [10]].
Definition cx_ops2 : list cop := cx_ops1 ++ [CErase [1]; CRelease 0; CRelease 1].

Lemma usage_counterexample : ~ cache_usage_statement.
Proof.
  intros H.
  destruct (cache_run (cache_init 1600) cx_ops1) as [[st o] fr] eqn:E.
  assert (Hr : reached 1600 cx_ops1 st fr) by (exists o; exact E).
  destruct (nth_error (lc_shards (cs_cache st)) 4) as [s|] eqn:Es.
  - pose proof (H 1600 cx_ops1 st fr Hr 4%nat s Es) as Hu.
    revert Es Hu. vm_compute in E. injection E as <- _ _. vm_compute.
    intros Es. injection Es as <-. vm_compute. discriminate.
  - revert Es. vm_compute in E. injection E as <- _ _. vm_compute. discriminate.
Qed.

Lemma bounded_counterexample : ~ cache_bounded_unpinned_statement /\ ~ cache_bounded_statement.
Proof.
  destruct (cache_run (cache_init 1600) cx_ops2) as [[st o] fr] eqn:E.
  assert (Hr : reached 1600 cx_ops2 st fr) by (exists o; exact E).
  destruct (cache_step st (CInsert [19] 300 1)) as [[st' obs] f] eqn:Es.
  vm_compute in E. injection E as <- _ _.
  vm_compute in Es. injection Es as <- _ _.
  split; intros H.
  - refine (_ (H 1600 cx_ops2 _ _ Hr _ [19] 300 1 _ _ _ eq_refl _ eq_refl)).
    + vm_compute. intros C. apply C. reflexivity.
    + repeat constructor.
  - refine (_ (H 1600 cx_ops2 _ _ Hr [19] 300 1 _ _ _ eq_refl _ eq_refl)).
    vm_compute. intros C. apply C. reflexivity.
Qed.
Print Assumptions usage_counterexample.
Print Assumptions bounded_counterexample.
