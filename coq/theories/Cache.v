(* Cache.v -- sequential model of lcdb's sharded LRU cache (src/util/cache.c).

   ONE SHARD (lru_shard_t).  A cache entry (lru_handle_t) is a heap record with
   an identity [ce_id] (the C pointer; ids are allocated by a counter, never
   reused), key, value, charge, refs and the in_cache flag.  The shard keeps
     sh_heap  : every entry that has not been passed to its deleter yet
     sh_lru   : the ids on lru->list, OLDEST FIRST (lru->list.next is the head)
     sh_usage : lru->usage  (size_t: arithmetic mod 2^64)
     sh_cap   : lru->capacity
   The hash table (lru_table_t) is not a separate component: in cache.c an
   entry is in the table exactly while in_cache is set (both change together
   inside one critical section: insert+finish, remove+finish), so
   lru_table_lookup(key) is [table_find]: the entry with in_cache set whose key
   equals [key] (CacheProofs.at_most_one: there is at most one).  The in_use list
   carries no behaviour (its order is never read; it only feeds an assert in
   lru_shard_clear): an entry is on it iff in_cache && refs >= 2.
   Every operation returns the new state plus the entries handed to the deleter,
   in call order.

   [charge] is a size_t in C: the model is meaningful for charges < 2^64 only
   (CacheInv3.charges_ok; the usage theorems carry that hypothesis, and
   CacheProofs.usage_counterexample shows it is needed for the unbounded N of the model).
   Out of the model (excluded by the client discipline, undefined behaviour in
   C): releasing a handle that was already released; 2^32 simultaneous handles
   on one entry (uint32 refs overflow).  Threads: every shard operation runs
   under the shard mutex, so the sequential model is the linearisation.

   Definitions only; proofs are in CacheProofs.v. *)
From LCDB Require Export Base Varint Filter.
Local Open Scope N_scope.

Record centry := mkCE {
  ce_id : N; ce_key : bytes; ce_val : N; ce_charge : N; ce_refs : N; ce_in_cache : bool }.

Record lru_shard := mkSh {
  sh_cap : N; sh_usage : N; sh_lru : list N; sh_heap : list centry; sh_next : N }.

Definition shard_new (cap : N) : lru_shard := mkSh cap 0 [] [] 0.

(* ---- heap access ---- *)
Definition heap_get (h : list centry) (id : N) : option centry :=
  find (fun e => ce_id e =? id) h.
Definition heap_set (h : list centry) (e : centry) : list centry :=
  map (fun x => if ce_id x =? ce_id e then e else x) h.
Definition heap_del (h : list centry) (id : N) : list centry :=
  filter (fun x => negb (ce_id x =? id)) h.
Definition list_remove (id : N) (l : list N) : list N :=
  filter (fun x => negb (x =? id)) l.

Definition with_refs (e : centry) (r : N) : centry :=
  mkCE (ce_id e) (ce_key e) (ce_val e) (ce_charge e) r (ce_in_cache e).
Definition with_in_cache (e : centry) (b : bool) : centry :=
  mkCE (ce_id e) (ce_key e) (ce_val e) (ce_charge e) (ce_refs e) b.

(* lru_table_lookup / the entry lru_table_remove and lru_table_insert find *)
Definition table_find (s : lru_shard) (key : bytes) : option centry :=
  find (fun e => ce_in_cache e && bytes_eqb (ce_key e) key) (sh_heap s).

(* ---- lru_shard_ref / lru_shard_unref ---- *)
Definition shard_ref (s : lru_shard) (e : centry) : lru_shard :=
  let lru' := if (ce_refs e =? 1) && ce_in_cache e then list_remove (ce_id e) (sh_lru s) else sh_lru s in
  mkSh (sh_cap s) (sh_usage s) lru' (heap_set (sh_heap s) (with_refs e (ce_refs e + 1))) (sh_next s).

Definition shard_unref (s : lru_shard) (id : N) : lru_shard * list centry :=
  match heap_get (sh_heap s) id with
  | None => (s, [])         (* not a live entry: excluded by the client discipline *)
  | Some e =>
      let r := ce_refs e - 1 in
      if r =? 0 then
        (mkSh (sh_cap s) (sh_usage s) (sh_lru s) (heap_del (sh_heap s) id) (sh_next s), [e])
      else if ce_in_cache e && (r =? 1) then
        (mkSh (sh_cap s) (sh_usage s) (sh_lru s ++ [id]) (heap_set (sh_heap s) (with_refs e r)) (sh_next s), [])
      else
        (mkSh (sh_cap s) (sh_usage s) (sh_lru s) (heap_set (sh_heap s) (with_refs e r)) (sh_next s), [])
  end.

(* lru_shard_finish: e was just taken out of the table *)
Definition shard_finish (s : lru_shard) (o : option N) : lru_shard * list centry :=
  match o with
  | None => (s, [])
  | Some id =>
      match heap_get (sh_heap s) id with
      | None => (s, [])
      | Some e =>
          shard_unref
            (mkSh (sh_cap s) ((sh_usage s + two64 - ce_charge e) mod two64)
                  (list_remove id (sh_lru s))
                  (heap_set (sh_heap s) (with_in_cache e false)) (sh_next s)) id
      end
  end.

Definition oid (o : option centry) : option N := option_map ce_id o.

(* the eviction loop of lru_shard_insert: while (usage > capacity && list not empty).
   Each iteration takes one entry off lru->list, so |lru| iterations suffice. *)
Fixpoint evict_loop (fuel : nat) (s : lru_shard) : lru_shard * list centry :=
  match fuel with
  | O => (s, [])
  | S f =>
      if sh_cap s <? sh_usage s then
        match sh_lru s with
        | [] => (s, [])
        | oldid :: _ =>
            match heap_get (sh_heap s) oldid with
            | None => (s, [])
            | Some old =>
                let '(s1, f1) := shard_finish s (oid (table_find s (ce_key old))) in
                let '(s2, f2) := evict_loop f s1 in
                (s2, f1 ++ f2)
            end
        end
      else (s, [])
  end.

(* lru_shard_prune: while (list not empty) *)
Fixpoint prune_loop (fuel : nat) (s : lru_shard) : lru_shard * list centry :=
  match fuel with
  | O => (s, [])
  | S f =>
      match sh_lru s with
      | [] => (s, [])
      | oldid :: _ =>
          match heap_get (sh_heap s) oldid with
          | None => (s, [])
          | Some old =>
              let '(s1, f1) := shard_finish s (oid (table_find s (ce_key old))) in
              let '(s2, f2) := prune_loop f s1 in
              (s2, f1 ++ f2)
          end
      end
  end.

Definition shard_prune (s : lru_shard) : lru_shard * list centry :=
  prune_loop (length (sh_lru s)) s.

(* lru_shard_insert: returns the handle (id of the new entry) *)
Definition shard_insert (s : lru_shard) (key : bytes) (val charge : N)
  : lru_shard * N * list centry :=
  let id := sh_next s in
  if 0 <? sh_cap s then
    let e := mkCE id key val charge 2 true in
    let old := oid (table_find s key) in                 (* lru_table_insert returns the old entry *)
    let s1 := mkSh (sh_cap s) ((sh_usage s + charge) mod two64) (sh_lru s)
                   (sh_heap s ++ [e]) (id + 1) in
    let '(s2, f1) := shard_finish s1 old in
    let '(s3, f2) := evict_loop (length (sh_lru s2)) s2 in
    (s3, id, f1 ++ f2)
  else
    let e := mkCE id key val charge 1 false in
    let s1 := mkSh (sh_cap s) (sh_usage s) (sh_lru s) (sh_heap s ++ [e]) (id + 1) in
    let '(s3, f2) := evict_loop (length (sh_lru s1)) s1 in
    (s3, id, f2).

(* lru_shard_lookup: handle id and value (ldb_lru_value), or miss *)
Definition shard_lookup (s : lru_shard) (key : bytes) : lru_shard * option (N * N) :=
  match table_find s key with
  | None => (s, None)
  | Some e => (shard_ref s e, Some (ce_id e, ce_val e))
  end.

Definition shard_release (s : lru_shard) (id : N) : lru_shard * list centry := shard_unref s id.

Definition shard_erase (s : lru_shard) (key : bytes) : lru_shard * list centry :=
  shard_finish s (oid (table_find s key)).

(* lru_shard_clear (ldb_lru_destroy): every entry of lru->list, oldest first *)
Fixpoint clear_loop (ids : list N) (s : lru_shard) : lru_shard * list centry :=
  match ids with
  | [] => (s, [])
  | id :: r =>
      match heap_get (sh_heap s) id with
      | None => clear_loop r s
      | Some e =>
          let '(s1, f1) := shard_unref (mkSh (sh_cap s) (sh_usage s) (sh_lru s)
                                          (heap_set (sh_heap s) (with_in_cache e false)) (sh_next s)) id in
          let '(s2, f2) := clear_loop r s1 in
          (s2, f1 ++ f2)
      end
  end.
Definition shard_clear (s : lru_shard) : lru_shard * list centry := clear_loop (sh_lru s) s.

(* ------------------------------------------------------------------ *)
(* The 16-shard front end (ldb_lru_t)                                  *)
(* ------------------------------------------------------------------ *)
Definition NUM_SHARDS : nat := 16.

Record lru_cache := mkLC { lc_shards : list lru_shard; lc_last_id : N }.

(* a handle: shard number (ldb_lru_shard(handle->hash)) and entry *)
Definition chandle := (nat * N)%type.

(* ldb_lru_shard(ldb_lru_hash(key)) = ldb_hash(key, 0) >> 28 *)
Definition shard_index (key : bytes) : nat := N.to_nat (ldb_hash key 0 / 268435456).

(* per_shard = (capacity + 15) / 16 in size_t *)
Definition lru_create (capacity : N) : lru_cache :=
  mkLC (repeat (shard_new (((capacity + 15) mod two64) / 16)) NUM_SHARDS) 0.

Fixpoint set_nth {A} (n : nat) (x : A) (l : list A) : list A :=
  match l, n with
  | [], _ => []
  | _ :: r, O => x :: r
  | y :: r, S n' => y :: set_nth n' x r
  end.

Definition get_shard (c : lru_cache) (i : nat) : lru_shard := nth i (lc_shards c) (shard_new 0).
Definition put_shard (c : lru_cache) (i : nat) (s : lru_shard) : lru_cache :=
  mkLC (set_nth i s (lc_shards c)) (lc_last_id c).

Definition lru_insert (c : lru_cache) (key : bytes) (val charge : N)
  : lru_cache * chandle * list centry :=
  let i := shard_index key in
  let '(s, id, f) := shard_insert (get_shard c i) key val charge in
  (put_shard c i s, (i, id), f).

Definition lru_lookup (c : lru_cache) (key : bytes) : lru_cache * option (chandle * N) :=
  let i := shard_index key in
  match shard_lookup (get_shard c i) key with
  | (s, Some (id, v)) => (put_shard c i s, Some ((i, id), v))
  | (s, None) => (put_shard c i s, None)
  end.

Definition lru_release (c : lru_cache) (h : chandle) : lru_cache * list centry :=
  let '(s, f) := shard_release (get_shard c (fst h)) (snd h) in
  (put_shard c (fst h) s, f).

Definition lru_erase (c : lru_cache) (key : bytes) : lru_cache * list centry :=
  let i := shard_index key in
  let '(s, f) := shard_erase (get_shard c i) key in
  (put_shard c i s, f).

(* ldb_lru_prune / ldb_lru_destroy: shard 0 .. 15 *)
Fixpoint map_shards (g : lru_shard -> lru_shard * list centry) (l : list lru_shard)
  : list lru_shard * list centry :=
  match l with
  | [] => ([], [])
  | s :: r =>
      let '(s', f1) := g s in
      let '(r', f2) := map_shards g r in
      (s' :: r', f1 ++ f2)
  end.

Definition lru_prune (c : lru_cache) : lru_cache * list centry :=
  let '(l, f) := map_shards shard_prune (lc_shards c) in (mkLC l (lc_last_id c), f).

Definition lru_destroy (c : lru_cache) : lru_cache * list centry :=
  let '(l, f) := map_shards shard_clear (lc_shards c) in (mkLC l (lc_last_id c), f).

Definition lru_usage (c : lru_cache) : N :=
  fold_left (fun acc s => (acc + sh_usage s) mod two64) (lc_shards c) 0.

(* ldb_lru_id: ++last_id (uint64) *)
Definition lru_new_id (c : lru_cache) : lru_cache * N :=
  let id := (lc_last_id c + 1) mod two64 in (mkLC (lc_shards c) id, id).

(* ------------------------------------------------------------------ *)
(* Client scripts.  Every insert and every lookup opens a numbered slot  *)
(* (0, 1, 2, ... in script order) holding the returned handle (nothing    *)
(* for a miss); [CRelease n] releases the handle of slot n and empties    *)
(* the slot, and does nothing on an empty slot: a script can only release *)
(* a handle it holds, once (the client discipline of cache.h).            *)
(* ------------------------------------------------------------------ *)
Inductive cop :=
| CInsert (k : bytes) (v charge : N)
| CLookup (k : bytes)
| CRelease (n : nat)
| CErase (k : bytes)
| CPrune
| CUsage
| CNewId.

Inductive cobs :=
| OHit (v : N) | OMiss | OUsage (u : N) | ONewId (i : N)
| ODel (k : bytes) (v : N)          (* a deleter call *)
| OSep.

Record cstate := mkCS { cs_cache : lru_cache; cs_slots : list (option chandle) }.

Definition dels (f : list centry) : list cobs := map (fun e => ODel (ce_key e) (ce_val e)) f.

Definition cache_step (st : cstate) (op : cop) : cstate * list cobs * list centry :=
  let c := cs_cache st in
  match op with
  | CInsert k v ch =>
      let '(c', h, f) := lru_insert c k v ch in
      (mkCS c' (cs_slots st ++ [Some h]), dels f, f)
  | CLookup k =>
      match lru_lookup c k with
      | (c', Some (h, v)) => (mkCS c' (cs_slots st ++ [Some h]), [OHit v], [])
      | (c', None) => (mkCS c' (cs_slots st ++ [None]), [OMiss], [])
      end
  | CRelease n =>
      match nth n (cs_slots st) None with
      | None => (st, [], [])
      | Some h =>
          let '(c', f) := lru_release c h in
          (mkCS c' (set_nth n None (cs_slots st)), dels f, f)
      end
  | CErase k => let '(c', f) := lru_erase c k in (mkCS c' (cs_slots st), dels f, f)
  | CPrune => let '(c', f) := lru_prune c in (mkCS c' (cs_slots st), dels f, f)
  | CUsage => (st, [OUsage (lru_usage c)], [])
  | CNewId => let '(c', i) := lru_new_id c in (mkCS c' (cs_slots st), [ONewId i], [])
  end.

Fixpoint cache_run (st : cstate) (ops : list cop) : cstate * list cobs * list centry :=
  match ops with
  | [] => (st, [], [])
  | op :: r =>
      let '(st1, o1, f1) := cache_step st op in
      let '(st2, o2, f2) := cache_run st1 r in
      (st2, o1 ++ o2, f1 ++ f2)
  end.

Definition cache_init (capacity : N) : cstate := mkCS (lru_create capacity) [].

(* release every handle still held, slot 0 first *)
Definition release_all_ops (st : cstate) : list cop := map CRelease (seq 0 (length (cs_slots st))).

(* the [lru] command: the script, then "|", release of every outstanding handle,
   then "|", ldb_lru_destroy *)
Definition lru_script (capacity : N) (ops : list cop) : list cobs :=
  let '(st1, o1, _) := cache_run (cache_init capacity) ops in
  let '(st2, o2, _) := cache_run st1 (release_all_ops st1) in
  let '(_, f3) := lru_destroy (cs_cache st2) in
  o1 ++ [OSep] ++ o2 ++ [OSep] ++ dels f3.
