(* CacheInv.v -- the per-shard invariant of the LRU cache model and its preservation by
   every shard operation (Cache.v).  Used by CacheProofs.v. *)
From LCDB Require Import Base BaseProofs Cache CacheSpec CacheLemmas.
From Coq Require Import Lia ZifyBool ZifyNat ZifyN Permutation.
Local Open Scope N_scope.

Ltac Zify.zify_post_hook ::= Z.div_mod_to_equations.

(* ------------------------------------------------------------------ *)
(* vocabulary                                                           *)
(* ------------------------------------------------------------------ *)
Definition same_static (e e' : centry) : Prop :=
  ce_id e = ce_id e' /\ ce_key e = ce_key e' /\ ce_val e = ce_val e' /\ ce_charge e = ce_charge e'.

Lemma same_static_refl : forall e, same_static e e.
Proof. intros e. repeat split. Qed.

Lemma same_static_trans : forall a b c, same_static a b -> same_static b c -> same_static a c.
Proof.
  intros a b c [A1 [A2 [A3 A4]]] [B1 [B2 [B3 B4]]]. repeat split; congruence.
Qed.

(* every entry of h' descends from an entry of h; in_cache only goes from true to false *)
Definition heap_sub (h h' : list centry) : Prop :=
  forall e', In e' h' ->
  exists e, In e h /\ same_static e e' /\ (ce_in_cache e' = true -> ce_in_cache e = true).

Definition freed_ok (h h' f : list centry) : Prop :=
  forall e, In e f ->
  (forall x, In x h' -> ce_id x <> ce_id e) /\ exists e0, In e0 h /\ same_static e0 e.

Record step_ok (h h' f : list centry) : Prop := {
  so_sub : heap_sub h h';
  so_freed : freed_ok h h' f;
  so_perm : Permutation (map kv f ++ map kv h') (map kv h) }.

Definition amo (h : list centry) : Prop :=
  forall e1 e2, In e1 h -> In e2 h -> ce_in_cache e1 = true -> ce_in_cache e2 = true ->
  ce_key e1 = ce_key e2 -> e1 = e2.

Lemma heap_sub_refl : forall h, heap_sub h h.
Proof.
  intros h e He. exists e. split; [exact He|]. split; [apply same_static_refl|]. intros H; exact H.
Qed.

Lemma heap_sub_trans : forall a b c, heap_sub a b -> heap_sub b c -> heap_sub a c.
Proof.
  intros a b c Hab Hbc e He. destruct (Hbc e He) as [y [Hy [Sy Iy]]].
  destruct (Hab y Hy) as [x [Hx [Sx Ix]]]. exists x. split; [exact Hx|].
  split; [eapply same_static_trans; eassumption|]. intros H. apply Ix, Iy, H.
Qed.

Lemma step_ok_refl : forall h, step_ok h h [].
Proof.
  intros h. constructor.
  - apply heap_sub_refl.
  - intros e He. destruct He.
  - cbn [map app]. reflexivity.
Qed.

Lemma step_ok_trans : forall h h1 h2 f1 f2, step_ok h h1 f1 -> step_ok h1 h2 f2 -> step_ok h h2 (f1 ++ f2).
Proof.
  intros h h1 h2 f1 f2 [S1 F1 P1] [S2 F2 P2]. constructor.
  - eapply heap_sub_trans; eassumption.
  - intros e He. apply in_app_or in He. destruct He as [He|He].
    + destruct (F1 e He) as [A1 A2]. split; [|exact A2].
      intros x Hx. destruct (S2 x Hx) as [y [Hy [[Sid _] _]]]. rewrite <- Sid. apply A1. exact Hy.
    + destruct (F2 e He) as [A1 [e0 [He0 Se0]]]. split; [exact A1|].
      destruct (S1 e0 He0) as [y [Hy [Sy _]]]. exists y. split; [exact Hy|].
      eapply same_static_trans; eassumption.
  - rewrite map_app, <- app_assoc. eapply perm_trans; [apply Permutation_app_head; exact P2|exact P1].
Qed.

Lemma amo_sub : forall h h', NoDup (map ce_id h') -> heap_sub h h' -> amo h -> amo h'.
Proof.
  intros h h' Hnd Hs Ha e1 e2 H1 H2 I1 I2 K.
  destruct (Hs e1 H1) as [x1 [Hx1 [[Sid1 [Sk1 _]] Ic1]]].
  destruct (Hs e2 H2) as [x2 [Hx2 [[Sid2 [Sk2 _]] Ic2]]].
  assert (x1 = x2) as E by (apply Ha; auto; congruence).
  apply (nodup_id_inj h'); auto. congruence.
Qed.

(* ------------------------------------------------------------------ *)
(* the LRU list                                                         *)
(* ------------------------------------------------------------------ *)
Definition elig (e : centry) : bool := ce_in_cache e && (ce_refs e =? 1).
Definition on_lru (h : list centry) (id : N) : Prop :=
  exists e, In e h /\ ce_id e = id /\ elig e = true.

Lemma on_lru_self : forall h e, NoDup (map ce_id h) -> In e h -> (on_lru h (ce_id e) <-> elig e = true).
Proof.
  intros h e Hnd Hin. split.
  - intros [x [Hx [Hid He]]]. assert (x = e) by (apply (nodup_id_inj h); assumption). subst x. exact He.
  - intros He. exists e. repeat split; assumption.
Qed.

Lemma on_lru_set : forall h e e' id0, In e h -> ce_id e = ce_id e' ->
  (on_lru (heap_set h e') id0 <-> (id0 = ce_id e /\ elig e' = true) \/ (id0 <> ce_id e /\ on_lru h id0)).
Proof.
  intros h e e' id0 Hin Hid. split.
  - intros [x [Hx [Hxid Hel]]]. apply in_heap_set in Hx. destruct Hx as [[Hxe _]|[Hx Hne]].
    + subst x. left. split; [congruence|exact Hel].
    + right. split; [congruence|]. exists x. repeat split; assumption.
  - intros [[Hid0 Hel]|[Hne [x [Hx [Hxid Hel]]]]].
    + exists e'. split; [|split; [congruence|exact Hel]].
      apply in_heap_set. left. split; [reflexivity|]. exists e. split; assumption.
    + exists x. split; [|split; assumption].
      apply in_heap_set. right. split; [exact Hx|congruence].
Qed.

Lemma on_lru_del : forall h x id0, on_lru (heap_del h x) id0 <-> id0 <> x /\ on_lru h id0.
Proof.
  intros h x id0. split.
  - intros [y [Hy [Hyid Hel]]]. apply in_heap_del in Hy. destruct Hy as [Hy Hne].
    split; [congruence|]. exists y. repeat split; assumption.
  - intros [Hne [y [Hy [Hyid Hel]]]]. exists y. split; [|split; assumption].
    apply in_heap_del. split; [exact Hy|congruence].
Qed.

(* ------------------------------------------------------------------ *)
(* the shard invariant.  rc id = number of client handles on entry id;  *)
(* B = "every charge is a size_t" (only the usage fields depend on it)  *)
(* ------------------------------------------------------------------ *)
Record sinv (B : Prop) (rc : N -> N) (s : lru_shard) : Prop := {
  si_nodup : NoDup (map ce_id (sh_heap s));
  si_next : forall e, In e (sh_heap s) -> ce_id e < sh_next s;
  si_lru_nodup : NoDup (sh_lru s);
  si_lru : forall id, In id (sh_lru s) <-> on_lru (sh_heap s) id;
  si_refs : forall e, In e (sh_heap s) ->
      ce_refs e = (if ce_in_cache e then 1 else 0) + rc (ce_id e) /\ 1 <= ce_refs e;
  si_rc0 : forall id, (forall e, In e (sh_heap s) -> ce_id e <> id) -> rc id = 0;
  si_cap0 : sh_cap s = 0 -> forall e, In e (sh_heap s) -> ce_in_cache e = false;
  si_charge : B -> forall e, In e (sh_heap s) -> ce_charge e < two64;
  si_usage : B -> sh_usage s = icsum (sh_heap s) mod two64 }.

Lemma sinv_ext : forall B rc rc' s, (forall x, rc x = rc' x) -> sinv B rc s -> sinv B rc' s.
Proof.
  intros B rc rc' s E [Hnd Hnext Hlnd Hlru Hrefs Hrc0 Hcap0 Hch Hus]. constructor; try assumption.
  - intros e He. rewrite <- E. apply Hrefs, He.
  - intros id H. rewrite <- E. apply Hrc0, H.
Qed.

Lemma sinv_mono : forall (B B' : Prop) rc s, (B' -> B) -> sinv B rc s -> sinv B' rc s.
Proof.
  intros B B' rc s E [Hnd Hnext Hlnd Hlru Hrefs Hrc0 Hcap0 Hch Hus]. constructor; try assumption.
  - intros HB. apply Hch, E, HB.
  - intros HB. apply Hus, E, HB.
Qed.

Lemma sinv_live : forall B rc s id, sinv B rc s -> rc id <> 0 ->
  exists e, heap_get (sh_heap s) id = Some e /\ In e (sh_heap s) /\ ce_id e = id.
Proof.
  intros B rc s id Hinv Hrc. destruct (heap_get (sh_heap s) id) as [e|] eqn:E.
  - exists e. split; [reflexivity|]. apply heap_get_some. exact E.
  - exfalso. apply Hrc. apply (si_rc0 _ _ _ Hinv). apply heap_get_none. exact E.
Qed.

(* ---- generic update of one entry ---- *)
Lemma sinv_set : forall (B : Prop) rc rc' cap u u' lru lru' h nxt e e',
  sinv B rc (mkSh cap u lru h nxt) ->
  In e h -> same_static e e' ->
  (ce_in_cache e' = true -> ce_in_cache e = true) ->
  NoDup lru' ->
  (forall id0, In id0 lru' <-> (id0 = ce_id e /\ elig e' = true) \/ (id0 <> ce_id e /\ In id0 lru)) ->
  (forall y, y <> ce_id e -> rc' y = rc y) ->
  ce_refs e' = (if ce_in_cache e' then 1 else 0) + rc' (ce_id e) -> 1 <= ce_refs e' ->
  (B -> forall D, u = (icc e + D) mod two64 -> u' = (icc e' + D) mod two64) ->
  sinv B rc' (mkSh cap u' lru' (heap_set h e') nxt).
Proof.
  intros B rc rc' cap u u' lru lru' h nxt e e' Hinv Hin Hss Hic Hlnd' Hlru' Hrc' Hre' Hre1' Hu'.
  destruct Hinv as [Hnd Hnext Hlnd Hlru Hrefs Hrc0 Hcap0 Hch Hus].
  cbn [sh_heap sh_lru sh_next sh_usage sh_cap] in *.
  destruct Hss as [Sid [Skey [Sval Sch]]].
  assert (HinS : forall x, In x (heap_set h e') <-> x = e' \/ (In x h /\ ce_id x <> ce_id e)).
  { intros x. rewrite in_heap_set, <- Sid. split.
    - intros [[H1 _]|H1]; [left; exact H1|right; exact H1].
    - intros [H1|H1]; [left; split; [exact H1|exists e; split; [exact Hin|reflexivity]]|right; exact H1]. }
  constructor; cbn [sh_heap sh_lru sh_next sh_usage sh_cap].
  - rewrite heap_set_ids. exact Hnd.
  - intros x Hx. apply HinS in Hx. destruct Hx as [Hx|[Hx _]].
    + subst x. rewrite <- Sid. apply Hnext, Hin.
    + apply Hnext, Hx.
  - exact Hlnd'.
  - intros id0. rewrite Hlru', (on_lru_set h e e' id0 Hin Sid), Hlru. reflexivity.
  - intros x Hx. apply HinS in Hx. destruct Hx as [Hx|[Hx Hne]].
    + subst x. rewrite <- Sid. split; assumption.
    + rewrite (Hrc' _ Hne). apply Hrefs, Hx.
  - intros id0 Hno.
    assert (Hne : id0 <> ce_id e).
    { intros E. apply (Hno e'); [apply HinS; left; reflexivity|congruence]. }
    rewrite (Hrc' _ Hne). apply Hrc0. intros x Hx.
    destruct (N.eq_dec (ce_id x) (ce_id e)) as [E|E]; [congruence|].
    apply Hno. apply HinS. right. split; assumption.
  - intros Hc x Hx. apply HinS in Hx. destruct Hx as [Hx|[Hx _]].
    + subst x. destruct (ce_in_cache e') eqn:E; [|reflexivity].
      rewrite (Hcap0 Hc e Hin) in Hic. discriminate (Hic eq_refl).
    + apply Hcap0; assumption.
  - intros HB x Hx. apply HinS in Hx. destruct Hx as [Hx|[Hx _]].
    + subst x. rewrite <- Sch. apply Hch; assumption.
    + apply Hch; assumption.
  - intros HB. rewrite (icsum_set h e' e Hnd Hin Sid). rewrite <- Sid. apply (Hu' HB).
    rewrite (Hus HB). rewrite (icsum_del h (ce_id e) e Hnd Hin eq_refl). reflexivity.
Qed.

Lemma step_ok_set : forall h e e', NoDup (map ce_id h) -> In e h -> same_static e e' ->
  (ce_in_cache e' = true -> ce_in_cache e = true) -> step_ok h (heap_set h e') [].
Proof.
  intros h e e' Hnd Hin Hss Hic. constructor.
  - intros x Hx. apply in_heap_set in Hx. destruct Hx as [[Hx _]|[Hx _]].
    + subst x. exists e. split; [exact Hin|]. split; assumption.
    + exists x. split; [exact Hx|]. split; [apply same_static_refl|]. intros H; exact H.
  - intros x Hx. destruct Hx.
  - cbn [map app]. destruct Hss as [Sid [Skey [Sval Sch]]].
    apply (kv_set_perm h e' e Hnd Hin Sid). unfold kv. congruence.
Qed.

(* ---- generic removal of one entry ---- *)
Lemma sinv_del : forall (B : Prop) rc rc' cap u lru h nxt e,
  sinv B rc (mkSh cap u lru h nxt) ->
  In e h -> ce_in_cache e = false ->
  (forall y, y <> ce_id e -> rc' y = rc y) -> rc' (ce_id e) = 0 ->
  sinv B rc' (mkSh cap u lru (heap_del h (ce_id e)) nxt).
Proof.
  intros B rc rc' cap u lru h nxt e Hinv Hin Hic Hrc' Hrc'0.
  destruct Hinv as [Hnd Hnext Hlnd Hlru Hrefs Hrc0 Hcap0 Hch Hus].
  cbn [sh_heap sh_lru sh_next sh_usage sh_cap] in *.
  constructor; cbn [sh_heap sh_lru sh_next sh_usage sh_cap].
  - apply heap_del_nodup. exact Hnd.
  - intros x Hx. apply in_heap_del in Hx. apply Hnext, Hx.
  - exact Hlnd.
  - intros id0. rewrite on_lru_del, Hlru. split; [|intros [_ H]; exact H].
    intros H. split; [|exact H]. intros E. subst id0.
    apply (on_lru_self h e Hnd Hin) in H. unfold elig in H. rewrite Hic in H. discriminate H.
  - intros x Hx. apply in_heap_del in Hx. destruct Hx as [Hx Hne].
    rewrite (Hrc' _ Hne). apply Hrefs, Hx.
  - intros id0 Hno. destruct (N.eq_dec id0 (ce_id e)) as [E|E]; [subst id0; exact Hrc'0|].
    rewrite (Hrc' _ E). apply Hrc0. intros x Hx.
    destruct (N.eq_dec (ce_id x) (ce_id e)) as [E'|E']; [congruence|].
    apply Hno. apply in_heap_del. split; assumption.
  - intros Hc x Hx. apply in_heap_del in Hx. apply Hcap0; [exact Hc|apply Hx].
  - intros HB x Hx. apply in_heap_del in Hx. apply Hch; [exact HB|apply Hx].
  - intros HB. rewrite (Hus HB). rewrite (icsum_del h (ce_id e) e Hnd Hin eq_refl).
    unfold icc. rewrite Hic. reflexivity.
Qed.

Lemma step_ok_del : forall h e, NoDup (map ce_id h) -> In e h -> step_ok h (heap_del h (ce_id e)) [e].
Proof.
  intros h e Hnd Hin. constructor.
  - intros x Hx. apply in_heap_del in Hx. exists x. split; [apply Hx|].
    split; [apply same_static_refl|]. intros H; exact H.
  - intros x Hx. destruct Hx as [Hx|[]]. subst x. split.
    + intros y Hy. apply in_heap_del in Hy. apply Hy.
    + exists e. split; [exact Hin|apply same_static_refl].
  - cbn [map app]. symmetry. apply kv_del_perm; [exact Hnd|exact Hin|reflexivity].
Qed.

(* ------------------------------------------------------------------ *)
(* lru_shard_ref                                                        *)
(* ------------------------------------------------------------------ *)
Lemma shard_ref_ok : forall B rc s e, sinv B rc s -> In e (sh_heap s) -> ce_in_cache e = true ->
  sinv B (fun y => rc y + if y =? ce_id e then 1 else 0) (shard_ref s e) /\
  step_ok (sh_heap s) (sh_heap (shard_ref s e)) [] /\
  sh_cap (shard_ref s e) = sh_cap s /\ sh_next (shard_ref s e) = sh_next s.
Proof.
  intros B rc [cap u lru h nxt] e Hinv Hin Hic. cbn [sh_heap] in Hin.
  pose proof (si_nodup _ _ _ Hinv) as Hnd. pose proof (si_lru_nodup _ _ _ Hinv) as Hlnd.
  pose proof (si_lru _ _ _ Hinv) as Hlru.
  destruct (si_refs _ _ _ Hinv e Hin) as [Hre Hre1]. rewrite Hic in Hre.
  cbn [sh_heap sh_lru] in *.
  assert (Hss : same_static e (with_refs e (ce_refs e + 1))) by (repeat split).
  unfold shard_ref. cbn [sh_heap sh_lru sh_next sh_usage sh_cap].
  split; [|split; [|split; reflexivity]].
  - apply (sinv_set B rc _ cap u u lru _ h nxt e (with_refs e (ce_refs e + 1)) Hinv Hin Hss).
    + intros H; exact Hic.
    + destruct ((ce_refs e =? 1) && ce_in_cache e); [apply list_remove_nodup|]; exact Hlnd.
    + intros id0. unfold elig. cbn [with_refs ce_refs ce_in_cache].
      assert (E1 : (ce_refs e + 1 =? 1) = false) by (apply N.eqb_neq; lia). rewrite E1, andb_false_r.
      rewrite Hic, andb_true_r. destruct (N.eqb_spec (ce_refs e) 1) as [E|E].
      * rewrite in_list_remove. split.
        -- intros [H1 H2]. right. split; assumption.
        -- intros [[_ H]|[H1 H2]]; [discriminate H|split; assumption].
      * split.
        -- intros H. right. split; [|exact H]. intros E0. subst id0.
           apply Hlru in H. apply (on_lru_self h e Hnd Hin) in H. unfold elig in H. lia.
        -- intros [[_ H]|[_ H]]; [discriminate H|exact H].
    + intros y Hy. rewrite (proj2 (N.eqb_neq _ _) Hy). lia.
    + cbn [with_refs ce_refs ce_in_cache]. rewrite Hic, N.eqb_refl. lia.
    + cbn [with_refs ce_refs]. lia.
    + intros HB D HD. exact HD.
  - apply (step_ok_set h e _ Hnd Hin Hss). intros _. exact Hic.
Qed.

(* ------------------------------------------------------------------ *)
(* lru_shard_unref                                                      *)
(* ------------------------------------------------------------------ *)
Lemma shard_unref_ok : forall B rc s x s' f, sinv B rc s -> 1 <= rc x -> shard_unref s x = (s', f) ->
  sinv B (fun y => if y =? x then rc x - 1 else rc y) s' /\
  step_ok (sh_heap s) (sh_heap s') f /\
  sh_cap s' = sh_cap s /\ sh_next s' = sh_next s /\
  (forall e, In e (sh_heap s) -> ce_id e = x -> ce_in_cache e = false -> sh_lru s' = sh_lru s).
Proof.
  intros B rc [cap u lru h nxt] x s' f Hinv Hrc H.
  pose proof (si_nodup _ _ _ Hinv) as Hnd. pose proof (si_lru_nodup _ _ _ Hinv) as Hlnd.
  pose proof (si_lru _ _ _ Hinv) as Hlru.
  unfold shard_unref in H. cbn [sh_heap sh_lru sh_next sh_usage sh_cap] in *.
  destruct (sinv_live B rc _ x Hinv ltac:(lia)) as [e [Hg [Hin Hid]]]. cbn [sh_heap] in Hg, Hin.
  rewrite Hg in H. subst x.
  destruct (si_refs _ _ _ Hinv e Hin) as [Hre Hre1]. cbn [sh_heap] in Hre.
  assert (Hself : In (ce_id e) lru -> elig e = true).
  { intros Hx. apply Hlru in Hx. apply (on_lru_self h e Hnd Hin). exact Hx. }
  destruct (N.eqb_spec (ce_refs e - 1) 0) as [Er|Er].
  - (* last reference: freed *)
    injection H as <- <-. cbn [sh_heap sh_lru sh_next sh_usage sh_cap].
    assert (Hic : ce_in_cache e = false) by (destruct (ce_in_cache e); [lia|reflexivity]).
    rewrite Hic in Hre.
    split; [|split; [|split; [|split]]]; try reflexivity.
    + apply (sinv_del B rc _ cap u lru h nxt e Hinv Hin Hic).
      * intros y Hy. rewrite (proj2 (N.eqb_neq _ _) Hy). reflexivity.
      * rewrite N.eqb_refl. lia.
    + apply step_ok_del; assumption.
  - assert (Hss : same_static e (with_refs e (ce_refs e - 1))) by (repeat split).
    destruct (ce_in_cache e && (ce_refs e - 1 =? 1)) eqn:Ec.
    + (* back on the LRU list *)
      injection H as <- <-. cbn [sh_heap sh_lru sh_next sh_usage sh_cap].
      apply andb_true_iff in Ec. destruct Ec as [Hic Er1]. rewrite Hic in Hre.
      assert (Hnot : ~ In (ce_id e) lru).
      { intros Hx. apply Hself in Hx. unfold elig in Hx. lia. }
      split; [|split; [|split; [|split]]]; try reflexivity.
      * apply (sinv_set B rc _ cap u u lru _ h nxt e (with_refs e (ce_refs e - 1)) Hinv Hin Hss).
        -- intros _. exact Hic.
        -- apply nodup_snoc; assumption.
        -- intros id0. unfold elig. cbn [with_refs ce_refs ce_in_cache]. rewrite Hic, Er1. cbn [andb].
           rewrite in_app_iff. cbn [In].
           destruct (N.eq_dec id0 (ce_id e)) as [E|E].
           ++ subst id0. split; [intros _; left; split; reflexivity|intros _; right; left; reflexivity].
           ++ split.
              ** intros [H|[H|[]]]; [right; split; assumption|congruence].
              ** intros [[H _]|[_ H]]; [congruence|left; exact H].
        -- intros y Hy. rewrite (proj2 (N.eqb_neq _ _) Hy). reflexivity.
        -- cbn [with_refs ce_refs ce_in_cache]. rewrite Hic, N.eqb_refl. lia.
        -- cbn [with_refs ce_refs]. lia.
        -- intros HB D HD. exact HD.
      * apply (step_ok_set h e _ Hnd Hin Hss). intros H; exact H.
      * intros e0 He0 Hid0 Hic0. assert (e0 = e) by (apply (nodup_id_inj h); auto; congruence).
        subst e0. congruence.
    + injection H as <- <-. cbn [sh_heap sh_lru sh_next sh_usage sh_cap].
      split; [|split; [|split; [|split]]]; try reflexivity.
      * apply (sinv_set B rc _ cap u u lru _ h nxt e (with_refs e (ce_refs e - 1)) Hinv Hin Hss).
        -- intros H; exact H.
        -- exact Hlnd.
        -- intros id0. unfold elig. cbn [with_refs ce_refs ce_in_cache]. rewrite Ec.
           split.
           ++ intros H. right. split; [|exact H]. intros E. subst id0.
              apply Hself in H. unfold elig in H. lia.
           ++ intros [[_ H]|[_ H]]; [discriminate H|exact H].
        -- intros y Hy. rewrite (proj2 (N.eqb_neq _ _) Hy). reflexivity.
        -- cbn [with_refs ce_refs ce_in_cache]. rewrite N.eqb_refl. lia.
        -- cbn [with_refs ce_refs]. lia.
        -- intros HB D HD. exact HD.
      * apply (step_ok_set h e _ Hnd Hin Hss). intros H; exact H.
Qed.
