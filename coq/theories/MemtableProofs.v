(* MemtableProofs.v -- proofs about Memtable.v:
   - memtable entry encode / decode round trip;
   - ldb_skiplist_compare over encoded entries is a total order (SkiplistSpec.cmp_order)
     whenever the user comparator is one, and it is Engine.icmp on the decoded entries;
   - [memtable_get_is_seek_from]: GIVEN the two skiplist theorems (contents = sorted list,
     find_greater_or_equal = find on the sorted list; SkiplistSpec statements, proved in
     SkiplistProofs.v), the replica of ldb_memtable_get over the skiplist of encoded
     entries equals Engine.get_in_run over the sorted [entry] list that Engine.do_write
     maintains.  MemtableGet.v instantiates the two premises. *)
From LCDB Require Import Base BaseProofs Varint VarintProofs IKey IKeyProofs
     Engine EngineSpec EngineRead Skiplist SkiplistSpec Memtable.
From Coq Require Import Lia ZifyBool ZifyNat ZifyN.
Local Open Scope N_scope.

Ltac Zify.zify_post_hook ::= Z.div_mod_to_equations.

#[local] Arguments N.mul : simpl never.
#[local] Arguments N.add : simpl never.
#[local] Arguments N.div : simpl never.
#[local] Arguments N.modulo : simpl never.
#[local] Arguments N.ltb : simpl never.
#[local] Arguments N.leb : simpl never.

(* ------------------------------------------------------------------ *)
(* bounds of a well-formed entry / add                                 *)
(* ------------------------------------------------------------------ *)
Definition MAXSEQ1 : N := 72057594037927936.      (* 2^56 *)

Definition entry_ok (e : entry) : Prop :=
  es e < MAXSEQ1 /\ nlen (ek e) + 8 < 4294967296 /\ nlen (ev e) < 4294967296.

Definition add_ok (a : N * N * bytes * bytes) : Prop :=
  let '(seq, ty, k, v) := a in
  seq < MAXSEQ1 /\ (ty = TYPE_DELETION \/ ty = TYPE_VALUE) /\
  nlen k + 8 < 4294967296 /\ nlen v < 4294967296.

Definition ety (e : entry) : N := if et e then TYPE_VALUE else TYPE_DELETION.
Definition enc_entry (e : entry) : bytes := mem_entry_encode (ek e) (es e) (ety e) (ev e).
Definition enc_add (a : N * N * bytes * bytes) : bytes :=
  let '(seq, ty, k, v) := a in mem_entry_encode k seq ty v.

Lemma enc_add_entry a : add_ok a -> enc_add a = enc_entry (entry_of_add a) /\ entry_ok (entry_of_add a).
Proof.
  destruct a as [[[seq ty] k] v]. cbn [add_ok enc_add entry_of_add].
  intros (Hs & Ht & Hk & Hv). unfold enc_entry, ety, entry_ok. cbn [ek es et ev].
  split; [|auto].
  destruct Ht as [Ht|Ht]; subst ty; reflexivity.
Qed.

Lemma nlen_le64 x : nlen (le64 x) = 8.
Proof. unfold nlen. rewrite le64_length. reflexivity. Qed.

Lemma ety_small e : ety e < 256.
Proof. unfold ety, TYPE_VALUE, TYPE_DELETION. destruct (et e); lia. Qed.

Lemma tag_small s t : s < MAXSEQ1 -> t < 256 -> pack_seqtype s t = s * 256 + t /\ s * 256 + t < 18446744073709551616.
Proof. unfold MAXSEQ1. intros Hs Ht. rewrite pack_seqtype_small by assumption. lia. Qed.

(* ------------------------------------------------------------------ *)
(* decoding                                                            *)
(* ------------------------------------------------------------------ *)
Lemma mt_slice_decode_write (s rest : bytes) :
  nlen s < 4294967296 ->
  mt_slice_decode (varint32_write (nlen s mod 4294967296) ++ s ++ rest) = (s, rest).
Proof.
  intros Hs. unfold mt_slice_decode. rewrite N.mod_small by exact Hs.
  rewrite varint32_read_write by exact Hs.
  rewrite take_n_nlen_app, drop_n_nlen_app. reflexivity.
Qed.

Lemma mem_entry_split k seq ty v :
  nlen k + 8 < 4294967296 ->
  mem_entry_encode k seq ty v
  = varint32_write (nlen (k ++ le64 (pack_seqtype seq ty)) mod 4294967296)
      ++ (k ++ le64 (pack_seqtype seq ty)) ++ (varint32_write (nlen v mod 4294967296) ++ v).
Proof.
  intros Hk. unfold mem_entry_encode. rewrite nlen_app, nlen_le64.
  rewrite <- !app_assoc. reflexivity.
Qed.

Lemma decode_entry k seq ty v :
  nlen k + 8 < 4294967296 ->
  mt_slice_decode (mem_entry_encode k seq ty v)
  = (k ++ le64 (pack_seqtype seq ty), varint32_write (nlen v mod 4294967296) ++ v).
Proof.
  intros Hk. rewrite mem_entry_split by exact Hk.
  apply mt_slice_decode_write. rewrite nlen_app, nlen_le64. exact Hk.
Qed.

Lemma decode_value (v : bytes) :
  nlen v < 4294967296 ->
  mt_slice_decode (varint32_write (nlen v mod 4294967296) ++ v) = (v, []).
Proof.
  intros Hv. rewrite <- (app_nil_r v) at 2. apply mt_slice_decode_write. exact Hv.
Qed.

Lemma decode_lkey k q :
  nlen k + 8 < 4294967296 ->
  mt_slice_decode (lkey_memtable_key k q) = (k ++ le64 (pack_seqtype q VALTYPE_SEEK), []).
Proof.
  intros Hk. unfold lkey_memtable_key, lkey_build.
  replace (varint32_write ((nlen k + 8) mod 4294967296) ++ k ++ le64 (pack_seqtype q VALTYPE_SEEK))
    with (varint32_write (nlen (k ++ le64 (pack_seqtype q VALTYPE_SEEK)) mod 4294967296)
            ++ (k ++ le64 (pack_seqtype q VALTYPE_SEEK)) ++ []).
  - apply mt_slice_decode_write. rewrite nlen_app, nlen_le64. exact Hk.
  - rewrite nlen_app, nlen_le64, app_nil_r. reflexivity.
Qed.

(* entry encode / decode round trip *)
Theorem mem_entry_roundtrip : forall k seq ty v,
  seq < MAXSEQ1 -> ty < 256 -> nlen k + 8 < 4294967296 -> nlen v < 4294967296 ->
  mem_entry_decode (mem_entry_encode k seq ty v) = Some (k, seq, ty, v).
Proof.
  intros k seq ty v Hs Ht Hk Hv. unfold mem_entry_decode.
  rewrite mem_entry_split by exact Hk.
  assert (Hlen : nlen (k ++ le64 (pack_seqtype seq ty)) = nlen k + 8)
    by (rewrite nlen_app, nlen_le64; reflexivity).
  rewrite (N.mod_small (nlen (k ++ le64 (pack_seqtype seq ty)))) by lia.
  assert (Hw : varint32_write (nlen (k ++ le64 (pack_seqtype seq ty))) ++ (k ++ le64 (pack_seqtype seq ty)) ++
                 (varint32_write (nlen v mod 4294967296) ++ v)
               = slice_write (k ++ le64 (pack_seqtype seq ty)) ++ (varint32_write (nlen v mod 4294967296) ++ v)).
  { unfold slice_write. rewrite <- !app_assoc. reflexivity. }
  rewrite Hw. rewrite slice_read_write by lia.
  rewrite Hlen. destruct (nlen k + 8 <? 8) eqn:E8; [lia|].
  rewrite (N.mod_small (nlen v)) by exact Hv.
  assert (Hv2 : varint32_write (nlen v) ++ v = slice_write v ++ []).
  { unfold slice_write. rewrite app_nil_r. reflexivity. }
  rewrite Hv2, slice_read_write by exact Hv.
  destruct (tag_small seq ty Hs Ht) as [Hp Hb].
  rewrite ikey_user_app, ikey_tag_app by (rewrite Hp; exact Hb).
  rewrite Hp. repeat f_equal.
  - lia.
  - lia.
Qed.

(* ------------------------------------------------------------------ *)
(* the comparator                                                      *)
(* ------------------------------------------------------------------ *)
Section Cmp.
Variable ucmp : bytes -> bytes -> comparison.
Hypothesis TO : total_order ucmp.

Lemma ikc_order (f : bytes -> bytes) : cmp_order (fun x y => ikc_compare ucmp (f x) (f y)).
Proof.
  constructor.
  - intros a. unfold ikc_compare. rewrite (to_refl ucmp TO). apply N.compare_refl.
  - intros a b Hab c. unfold ikc_compare in *.
    destruct (ucmp (ikey_user (f a)) (ikey_user (f b))) eqn:Eu; try discriminate.
    rewrite N.compare_eq_iff in Hab.
    destruct (to_eq ucmp TO _ _ Eu (ikey_user (f c))) as [H1 H2].
    rewrite H1, H2, Hab. split; reflexivity.
  - intros a b. unfold ikc_compare.
    rewrite (to_antisym ucmp TO (ikey_user (f a)) (ikey_user (f b))).
    destruct (ucmp (ikey_user (f b)) (ikey_user (f a))); cbn [CompOpp]; try reflexivity.
    apply N.compare_antisym.
  - intros a b c. unfold ikc_compare.
    destruct (ucmp (ikey_user (f a)) (ikey_user (f b))) eqn:Eab; try discriminate;
    destruct (ucmp (ikey_user (f b)) (ikey_user (f c))) eqn:Ebc; try discriminate; intros H1 H2.
    + destruct (to_eq ucmp TO _ _ Eab (ikey_user (f c))) as [H3 _]. rewrite H3, Ebc.
      rewrite N.compare_lt_iff in H1, H2. apply N.compare_lt_iff. lia.
    + destruct (to_eq ucmp TO _ _ Eab (ikey_user (f c))) as [H3 _]. rewrite H3, Ebc. reflexivity.
    + destruct (to_eq ucmp TO _ _ Ebc (ikey_user (f a))) as [_ H3]. rewrite <- H3, Eab. reflexivity.
    + rewrite (to_trans ucmp TO _ _ _ Eab Ebc). reflexivity.
Qed.

Lemma mt_compare_order : cmp_order (mt_compare ucmp).
Proof. exact (ikc_order (fun x => fst (mt_slice_decode x))). Qed.

(* the comparator on encoded entries, computed *)
Lemma mt_compare_entries a b : entry_ok a -> entry_ok b ->
  mt_compare ucmp (enc_entry a) (enc_entry b)
  = match ucmp (ek a) (ek b) with
    | Eq => N.compare (es b * 256 + ety b) (es a * 256 + ety a)
    | c => c
    end.
Proof.
  intros (Hsa & Hka & Hva) (Hsb & Hkb & Hvb). unfold mt_compare, enc_entry.
  rewrite !decode_entry by assumption. cbn [fst]. unfold ikc_compare.
  destruct (tag_small (es a) (ety a) Hsa (ety_small a)) as [Hpa Hba].
  destruct (tag_small (es b) (ety b) Hsb (ety_small b)) as [Hpb Hbb].
  rewrite !ikey_user_app. rewrite !ikey_tag_app by (rewrite ?Hpa, ?Hpb; assumption).
  rewrite Hpa, Hpb. reflexivity.
Qed.

Definition idistinct (a b : entry) : Prop := ~ (ucmp (ek a) (ek b) = Eq /\ es a = es b).

Lemma mt_lt_ilt a b : entry_ok a -> entry_ok b -> idistinct a b ->
  (match mt_compare ucmp (enc_entry a) (enc_entry b) with Lt => true | _ => false end) = ilt ucmp a b.
Proof.
  intros Ha Hb Hd. rewrite mt_compare_entries by assumption. unfold ilt, icmp, idistinct in *.
  destruct (ucmp (ek a) (ek b)) eqn:Eu; try reflexivity.
  pose proof (ety_small a) as Ta. pose proof (ety_small b) as Tb.
  assert (Hne : es a <> es b) by (intros E; apply Hd; split; [reflexivity|exact E]).
  destruct (es b ?= es a) eqn:C.
  - rewrite N.compare_eq_iff in C. congruence.
  - rewrite N.compare_lt_iff in C.
    assert (H : es b * 256 + ety b < es a * 256 + ety a) by lia.
    rewrite (proj2 (N.compare_lt_iff _ _) H). reflexivity.
  - rewrite N.compare_gt_iff in C.
    assert (H : es a * 256 + ety a < es b * 256 + ety b) by lia.
    rewrite (proj2 (N.compare_gt_iff _ _) H). reflexivity.
Qed.

Lemma mt_eq_not_distinct a b : entry_ok a -> entry_ok b ->
  mt_compare ucmp (enc_entry a) (enc_entry b) = Eq -> ucmp (ek a) (ek b) = Eq /\ es a = es b.
Proof.
  intros Ha Hb. rewrite mt_compare_entries by assumption.
  destruct (ucmp (ek a) (ek b)) eqn:Eu; try discriminate.
  intros C. rewrite N.compare_eq_iff in C.
  pose proof (ety_small a). pose proof (ety_small b). split; [reflexivity|lia].
Qed.

(* the seek predicate: first encoded entry >= the lookup key  =  Engine.ge_target *)
Lemma ge_key_target k q e : entry_ok e -> q < MAXSEQ1 -> nlen k + 8 < 4294967296 ->
  ge_key (mt_compare ucmp) (lkey_memtable_key k q) (enc_entry e) = ge_target ucmp k q e.
Proof.
  intros (Hs & Hk & Hv) Hq Hkk. unfold ge_key, mt_compare, enc_entry.
  rewrite decode_entry, decode_lkey by assumption. cbn [fst]. unfold ikc_compare, ge_target.
  destruct (tag_small (es e) (ety e) Hs (ety_small e)) as [Hpe Hbe].
  assert (Hseek : VALTYPE_SEEK < 256) by (unfold VALTYPE_SEEK; lia).
  destruct (tag_small q VALTYPE_SEEK Hq Hseek) as [Hpq Hbq].
  rewrite !ikey_user_app. rewrite !ikey_tag_app by (rewrite ?Hpe, ?Hpq; assumption).
  rewrite Hpe, Hpq.
  destruct (ucmp (ek e) k) eqn:Eu; try reflexivity.
  pose proof (ety_small e) as Te. unfold VALTYPE_SEEK.
  assert (Hety : ety e <= 1) by (unfold ety, TYPE_VALUE, TYPE_DELETION; destruct (et e); lia).
  destruct (q * 256 + 1 ?= es e * 256 + ety e) eqn:C.
  - rewrite N.compare_eq_iff in C. lia.
  - rewrite N.compare_lt_iff in C. lia.
  - rewrite N.compare_gt_iff in C. lia.
Qed.

(* ------------------------------------------------------------------ *)
(* sorted [entry] list  <->  sorted list of encoded entries            *)
(* ------------------------------------------------------------------ *)
Fixpoint entries_distinct (l : list entry) : Prop :=
  match l with
  | [] => True
  | a :: r => Forall (idistinct a) r /\ entries_distinct r
  end.

Lemma idistinct_sym a b : idistinct a b -> idistinct b a.
Proof.
  unfold idistinct. intros H [H1 H2]. apply H. split; [|congruence].
  rewrite (to_antisym ucmp TO), H1. reflexivity.
Qed.

Lemma insert_sorted_in e l x : In x (insert_sorted ucmp e l) <-> x = e \/ In x l.
Proof.
  induction l as [|y r IH]; cbn [insert_sorted].
  - cbn [In]. intuition.
  - destruct (ilt ucmp e y); cbn [In]; [intuition|]. rewrite IH. intuition.
Qed.

Lemma map_insert_sorted e l :
  entry_ok e -> Forall entry_ok l -> Forall (idistinct e) l ->
  map enc_entry (insert_sorted ucmp e l)
  = insert_key (mt_compare ucmp) (enc_entry e) (map enc_entry l).
Proof.
  intros He. induction l as [|x r IH]; intros Hok Hd; cbn [insert_sorted insert_key map].
  - reflexivity.
  - inversion Hok as [|? ? Hx Hr]; subst. inversion Hd as [|? ? Hdx Hdr]; subst.
    pose proof (mt_lt_ilt e x He Hx Hdx) as Hlt.
    destruct (ilt ucmp e x) eqn:El.
    + destruct (mt_compare ucmp (enc_entry e) (enc_entry x)); try discriminate. reflexivity.
    + rewrite <- (IH Hr Hdr).
      destruct (mt_compare ucmp (enc_entry e) (enc_entry x)); try discriminate; reflexivity.
Qed.

Lemma map_sort_entries es acc :
  Forall entry_ok es -> Forall entry_ok acc -> entries_distinct es ->
  (forall e x, In e es -> In x acc -> idistinct e x) ->
  map enc_entry (fold_left (fun m e => insert_sorted ucmp e m) es acc)
  = fold_left (fun a k => insert_key (mt_compare ucmp) k a) (map enc_entry es) (map enc_entry acc).
Proof.
  revert acc. induction es as [|e r IH]; intros acc Hok Hacc Hd Hx; cbn [fold_left map].
  - reflexivity.
  - inversion Hok as [|? ? He Hr]; subst. destruct Hd as [Hde Hdr].
    rewrite IH.
    + rewrite map_insert_sorted; [reflexivity|exact He|exact Hacc|].
      apply Forall_forall. intros x Hin. apply Hx; [left; reflexivity|exact Hin].
    + exact Hr.
    + apply Forall_forall. intros x Hin. apply insert_sorted_in in Hin.
      destruct Hin as [->|Hin]; [exact He|]. rewrite Forall_forall in Hacc. apply Hacc, Hin.
    + exact Hdr.
    + intros e' x Hin' Hin. apply insert_sorted_in in Hin. destruct Hin as [->|Hin].
      * apply idistinct_sym. rewrite Forall_forall in Hde. apply Hde, Hin'.
      * apply Hx; [right; exact Hin'|exact Hin].
Qed.

Lemma keys_distinct_enc es :
  Forall entry_ok es -> entries_distinct es -> keys_distinct (mt_compare ucmp) (map enc_entry es).
Proof.
  induction es as [|e r IH]; intros Hok Hd; cbn [map keys_distinct]; [exact I|].
  inversion Hok as [|? ? He Hr]; subst. destruct Hd as [Hde Hdr]. split; [|apply IH; assumption].
  apply Forall_forall. intros y Hy. apply in_map_iff in Hy. destruct Hy as (x & <- & Hx).
  intros Heq. rewrite Forall_forall in Hde, Hr.
  apply (Hde x Hx). apply mt_eq_not_distinct; [exact He|apply Hr, Hx|exact Heq].
Qed.

Lemma find_map {A B} (f : A -> B) (P : B -> bool) (l : list A) :
  find P (map f l) = option_map f (find (fun x => P (f x)) l).
Proof.
  induction l as [|x r IH]; cbn [map find option_map]; [reflexivity|].
  destruct (P (f x)); [reflexivity|exact IH].
Qed.

Lemma find_ext_in {A} (P Q : A -> bool) (l : list A) :
  (forall x, In x l -> P x = Q x) -> find P l = find Q l.
Proof.
  induction l as [|x r IH]; intros H; cbn [find]; [reflexivity|].
  rewrite (H x) by (left; reflexivity). destruct (Q x); [reflexivity|].
  apply IH. intros y Hy. apply H. right. exact Hy.
Qed.

Lemma sort_entries_ok es acc :
  Forall entry_ok es -> Forall entry_ok acc ->
  Forall entry_ok (fold_left (fun m e => insert_sorted ucmp e m) es acc).
Proof.
  revert acc. induction es as [|e r IH]; intros acc Hok Hacc; cbn [fold_left]; [exact Hacc|].
  inversion Hok as [|? ? He Hr]; subst. apply IH; [exact Hr|].
  apply Forall_forall. intros x Hin. apply insert_sorted_in in Hin.
  destruct Hin as [->|Hin]; [exact He|]. rewrite Forall_forall in Hacc. apply Hacc, Hin.
Qed.

(* the memtable built by adds is the skiplist built from the encoded entries *)
Lemma memtable_add_all_build adds hs sl :
  memtable_add_all ucmp sl adds hs = sl_insert_all (mt_compare ucmp) sl (map enc_add adds) hs.
Proof.
  revert hs sl. induction adds as [|[[[seq ty] k] v] r IH]; intros hs sl; cbn [memtable_add_all map sl_insert_all].
  - reflexivity.
  - destruct hs as [|h hr]; [reflexivity|]. rewrite IH. reflexivity.
Qed.

(* ------------------------------------------------------------------ *)
(* ldb_memtable_get = Engine.get_in_run                                *)
(* ------------------------------------------------------------------ *)
Definition adds_distinct (adds : list (N * N * bytes * bytes)) : Prop :=
  entries_distinct (map entry_of_add adds).

Definition mem_run (adds : list (N * N * bytes * bytes)) : list entry :=
  fold_left (fun m e => insert_sorted ucmp e m) (map entry_of_add adds) [].

Lemma get_body_entry e k : entry_ok e ->
  (let '(okey, rest) := mt_slice_decode (enc_entry e) in
   match ucmp (ikey_user okey) k with
   | Eq =>
       let ty := ikey_tag okey mod 256 in
       if ty =? TYPE_VALUE then Found (fst (mt_slice_decode rest))
       else if ty =? TYPE_DELETION then Deleted
       else NotHere
   | _ => NotHere
   end)
  = if ueq ucmp (ek e) k then result_of_entry e else NotHere.
Proof.
  intros (Hs & Hk & Hv). unfold enc_entry. rewrite decode_entry by exact Hk.
  destruct (tag_small (es e) (ety e) Hs (ety_small e)) as [Hp Hb].
  rewrite ikey_user_app, ikey_tag_app by (rewrite Hp; exact Hb). rewrite Hp.
  unfold ueq. destruct (ucmp (ek e) k); try reflexivity.
  rewrite decode_value by exact Hv. cbn [fst].
  replace ((es e * 256 + ety e) mod 256) with (ety e).
  - unfold result_of_entry, ety, TYPE_VALUE, TYPE_DELETION. destruct (et e); reflexivity.
  - pose proof (ety_small e). lia.
Qed.

Section Main.
(* the two skiplist theorems this proof needs (SkiplistProofs.skiplist_contents / skiplist_seek) *)
Hypothesis Hseek : skiplist_seek_statement bytes (mt_compare ucmp).

Theorem memtable_get_is_seek_from : forall adds hs k q,
  Forall add_ok adds -> adds_distinct adds -> heights_ok (map enc_add adds) hs ->
  q < MAXSEQ1 -> nlen k + 8 < 4294967296 ->
  memtable_get ucmp (memtable_add_all ucmp sl_empty adds hs) k q
  = get_in_run ucmp (mem_run adds) k q.
Proof.
  intros adds hs k q Hok Hd Hh Hq Hk.
  assert (Henc : map enc_add adds = map enc_entry (map entry_of_add adds)).
  { rewrite map_map. apply map_ext_in. intros a Ha. rewrite Forall_forall in Hok.
    apply (enc_add_entry a (Hok a Ha)). }
  assert (Hoks : Forall entry_ok (map entry_of_add adds)).
  { apply Forall_forall. intros e He. apply in_map_iff in He. destruct He as (a & <- & Ha).
    rewrite Forall_forall in Hok. apply (enc_add_entry a (Hok a Ha)). }
  rewrite memtable_add_all_build. fold (sl_build (mt_compare ucmp) (map enc_add adds) hs).
  set (sl := sl_build (mt_compare ucmp) (map enc_add adds) hs).
  assert (Hkd : keys_distinct (mt_compare ucmp) (map enc_add adds)).
  { rewrite Henc. apply keys_distinct_enc; assumption. }
  pose proof (Hseek mt_compare_order (map enc_add adds) hs Hkd Hh (lkey_memtable_key k q)) as Hs.
  fold sl in Hs.
  assert (Hsorted : sort_keys (mt_compare ucmp) (map enc_add adds) = map enc_entry (mem_run adds)).
  { unfold sort_keys, mem_run. rewrite Henc.
    rewrite (map_sort_entries (map entry_of_add adds) []); [reflexivity|exact Hoks|constructor|exact Hd|].
    intros e x _ []. }
  rewrite Hsorted, find_map in Hs.
  assert (Hrun_ok : Forall entry_ok (mem_run adds)).
  { unfold mem_run. apply sort_entries_ok; [exact Hoks|constructor]. }
  rewrite (find_ext_in _ (ge_target ucmp k q)) in Hs.
  2:{ intros e He. rewrite Forall_forall in Hrun_ok. apply ge_key_target; [apply Hrun_ok, He|exact Hq|exact Hk]. }
  unfold memtable_get, it_seek. unfold key_at in Hs.
  unfold get_in_run, seek_ge.
  destruct (fst (find_ge (mt_compare ucmp) sl (lkey_memtable_key k q))) as [n|].
  - rewrite Hs. destruct (find (ge_target ucmp k q) (mem_run adds)) as [e|] eqn:Ef; cbn [option_map].
    + apply get_body_entry. apply find_some in Ef. rewrite Forall_forall in Hrun_ok. apply Hrun_ok, Ef.
    + reflexivity.
  - destruct (find (ge_target ucmp k q) (mem_run adds)) as [e|]; cbn [option_map] in Hs; [discriminate|reflexivity].
Qed.

End Main.
End Cmp.
Print Assumptions memtable_get_is_seek_from. Print Assumptions mem_entry_roundtrip.
