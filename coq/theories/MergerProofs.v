(* MergerProofs.v -- the merging iterator (Merger.v, replica of table/merger.c)
   refines a cursor over the sorted merge of its runs, for arbitrary scripts.

   Layer 1 is generic in the element type and comparator; layer 2 instantiates it
   with entries ordered by the internal comparator. *)
From LCDB Require Import Base Cursor CursorProofs Merger Engine EngineSpec EngineStepsBase.
From Coq Require Import Sorting.Sorted.
Require Import Lia ZifyBool ZifyNat ZifyN.

(* ================================================================== LAYER 1 *)
Section Layer1.
Context {A : Type}.
Variable cmp : A -> A -> comparison.

Record cmp_order : Prop := {
  co_refl : forall a, cmp a a = Eq;
  co_antisym : forall a b, cmp a b = CompOpp (cmp b a);
  co_trans : forall a b c, cmp a b = Lt -> cmp b c = Lt -> cmp a c = Lt;
  co_eq : forall a b, cmp a b = Eq -> forall c, cmp a c = cmp b c
}.

Definition clt (a b : A) : bool := match cmp a b with Lt => true | _ => false end.

Hypothesis CO : cmp_order.

(* ------------------------------------------------------------------ the order *)
Lemma clt_iff a b : clt a b = true <-> cmp a b = Lt.
Proof. unfold clt. destruct (cmp a b); split; congruence. Qed.

Lemma clt_false_iff a b : clt a b = false <-> cmp a b <> Lt.
Proof. unfold clt. destruct (cmp a b); split; congruence. Qed.

Lemma cmp_gt_lt a b : cmp a b = Gt <-> cmp b a = Lt.
Proof. rewrite (co_antisym CO a b). destruct (cmp b a); cbn [CompOpp]; split; congruence. Qed.

Lemma clt_irrefl a : clt a a = false.
Proof. unfold clt. rewrite (co_refl CO). reflexivity. Qed.

Lemma clt_trans a b c : clt a b = true -> clt b c = true -> clt a c = true.
Proof. rewrite !clt_iff. apply (co_trans CO). Qed.

Lemma clt_asym a b : clt a b = true -> clt b a = false.
Proof.
  intros H. destruct (clt b a) eqn:E; [|reflexivity].
  pose proof (clt_trans _ _ _ H E) as X. rewrite clt_irrefl in X. discriminate.
Qed.

Lemma clt_total a b : cmp a b <> Eq -> clt a b = false -> clt b a = true.
Proof.
  intros Hne Hnl. apply clt_false_iff in Hnl. apply clt_iff.
  apply (proj1 (cmp_gt_lt a b)). destruct (cmp a b); congruence.
Qed.

(* a <= b <= c -> a <= c, where "x <= y" is written [clt y x = false] *)
Lemma cle_trans a b c : clt b a = false -> clt c b = false -> clt c a = false.
Proof.
  rewrite !clt_false_iff. intros Hba Hcb Hca.
  destruct (cmp b a) eqn:E.
  - apply Hcb. rewrite (co_antisym CO c b). rewrite (co_eq CO b a E c).
    rewrite (co_antisym CO a c), Hca. reflexivity.
  - apply Hba. reflexivity.
  - apply Hcb. apply (co_trans CO c a b Hca). apply (proj1 (cmp_gt_lt b a)). exact E.
Qed.

Definition up (P : A -> bool) : Prop := forall a b, clt a b = true -> P a = true -> P b = true.
Definition down (Q : A -> bool) : Prop := forall a b, clt a b = true -> Q b = true -> Q a = true.

Lemma ge_key_negb x e : negb (ge_key cmp x e) = clt e x.
Proof. unfold ge_key, clt. destruct (cmp e x); reflexivity. Qed.

Lemma ge_key_up x : up (ge_key cmp x).
Proof.
  intros a b Hab Ha. unfold ge_key in Ha |- *. destruct (cmp b x) eqn:E; try reflexivity.
  apply clt_iff in Hab. rewrite (co_trans CO a b x Hab E) in Ha. discriminate.
Qed.

Lemma ge_key_clt_distinct x e : cmp e x <> Eq -> ge_key cmp x e = clt x e.
Proof.
  intros H. unfold ge_key, clt. rewrite (co_antisym CO x e).
  destruct (cmp e x); cbn [CompOpp]; [exfalso; apply H; reflexivity|reflexivity|reflexivity].
Qed.

Lemma up_gt x : up (fun e => clt x e).
Proof. intros a b Hab Ha. exact (clt_trans x a b Ha Hab). Qed.

Lemma down_lt x : down (fun e => clt e x).
Proof. intros a b Hab Hb. exact (clt_trans a b x Hab Hb). Qed.

(* ------------------------------------------------------------------ re-seeking a child on a direction switch *)
Lemma reseek_prev r G :
  SrtBy clt r -> up G ->
  match c_get r (c_seek G r) with
  | Some _ => c_prev r (c_seek G r)
  | None => c_last r
  end = c_seek_last (fun e => negb (G e)) r.
Proof.
  intros Hs HG. destruct (c_get r (c_seek G r)) as [y|] eqn:Gy.
  - rewrite (c_prev_seek clt clt_irrefl clt_trans r _ y Hs Gy).
    apply c_seek_last_ext. intros e He.
    destruct (c_seek_get r G y Gy) as [Hy Gyt].
    destruct (G e) eqn:Ge; cbn [negb].
    + apply (c_seek_get_min clt clt_irrefl clt_trans r G y Hs Gy e He Ge).
    + destruct (SrtBy_cases clt clt_irrefl clt_trans r e y Hs He Hy) as [E|[H|H]].
      * subst e. congruence.
      * exact H.
      * rewrite (HG y e H Gyt) in Ge. discriminate.
  - assert (N : c_seek G r = None).
    { apply (c_get_wf_none r); [apply c_seek_wf|exact Gy]. }
    rewrite c_last_seek. apply c_seek_last_ext. intros e He.
    rewrite (proj1 (c_seek_none G r) N e He). reflexivity.
Qed.

(* ------------------------------------------------------------------ mapi *)
Lemma mapi_from_map {B C D : Type} (f : nat -> C -> D) (g : B -> C) (h : B -> D) (l : list B) :
  forall k, (forall j r, nth_error l j = Some r -> f (k + j)%nat (g r) = h r) ->
  mapi_from k f (map g l) = map h l.
Proof.
  induction l as [|b l IH]; intros k H; cbn [map mapi_from].
  - reflexivity.
  - f_equal.
    + pose proof (H O b eq_refl) as H0. rewrite Nat.add_0_r in H0. exact H0.
    + apply IH. intros j r Hj. pose proof (H (S j) r Hj) as H1.
      rewrite Nat.add_succ_r in H1. exact H1.
Qed.

Lemma mapi_from_mapi_from {B C D : Type} (f1 : nat -> B -> C) (f2 : nat -> C -> D) l :
  forall k, mapi_from k f2 (mapi_from k f1 l) = mapi_from k (fun i c => f2 i (f1 i c)) l.
Proof.
  induction l as [|b l IH]; intros k; cbn [mapi_from]; [reflexivity|]. f_equal. apply IH.
Qed.

Lemma mapi_mapi {B C D : Type} (f1 : nat -> B -> C) (f2 : nat -> C -> D) l :
  mapi f2 (mapi f1 l) = mapi (fun i c => f2 i (f1 i c)) l.
Proof. unfold mapi. apply mapi_from_mapi_from. Qed.

(* ------------------------------------------------------------------ find_smallest *)
Lemma fsf_some (cs : list (@child A)) : forall k best i x,
  find_smallest_from cmp k cs best = Some (i, x) ->
  (best = Some (i, x) \/
   exists j c, i = (k + j)%nat /\ nth_error cs j = Some c /\ ch_get c = Some x) /\
  (forall bi bk, best = Some (bi, bk) -> clt bk x = false) /\
  (forall c y, In c cs -> ch_get c = Some y -> clt y x = false).
Proof.
  induction cs as [|c r IH]; intros k best i x; cbn [find_smallest_from].
  - intros ->. split; [left; reflexivity|]. split.
    + intros bi bk E. inversion E; subst. apply clt_irrefl.
    + intros c y [].
  - assert (Shift : forall b' : option (nat * A),
      (b' = Some (i, x) \/
       exists j c', i = (S k + j)%nat /\ nth_error r j = Some c' /\ ch_get c' = Some x) ->
      (b' = Some (i, x) \/
       exists j c', i = (k + j)%nat /\ nth_error (c :: r) j = Some c' /\ ch_get c' = Some x)).
    { intros b' [E|(j & c' & Ej & Hj & Gj)]; [left; exact E|].
      right. exists (S j), c'. split; [lia|]. split; [exact Hj|exact Gj]. }
    assert (Here : forall kk, ch_get c = Some kk ->
      exists j c', k = (k + j)%nat /\ nth_error (c :: r) j = Some c' /\ ch_get c' = Some kk).
    { intros kk Gc. exists O, c. split; [lia|]. split; [reflexivity|exact Gc]. }
    destruct (ch_get c) as [kk|] eqn:Gc.
    + destruct best as [[bi bk]|].
      * destruct (cmp kk bk) eqn:Ck; cbv beta iota; intros H; apply IH in H;
          destruct H as (H1 & H2 & H3).
        -- split; [apply Shift; exact H1|]. split; [exact H2|].
           intros c0 y [E0|Hin] Gy; [subst c0|apply (H3 c0 y Hin Gy)].
           assert (y = kk) by congruence. subst y.
           apply (cle_trans x bk kk); [apply (H2 bi bk eq_refl)|].
           apply clt_false_iff. congruence.
        -- split.
           { destruct (Shift _ H1) as [E|R]; [|right; exact R].
             injection E as Ei Ex. subst i x. right. apply Here. reflexivity. }
           split.
           { intros bi' bk' E. injection E as Ei Ex. subst bi' bk'.
             apply (cle_trans x kk bk); [apply (H2 k kk eq_refl)|].
             apply clt_asym. apply clt_iff. exact Ck. }
           intros c0 y [E0|Hin] Gy; [subst c0|apply (H3 c0 y Hin Gy)].
           assert (y = kk) by congruence. subst y. apply (H2 k kk eq_refl).
        -- split; [apply Shift; exact H1|]. split; [exact H2|].
           intros c0 y [E0|Hin] Gy; [subst c0|apply (H3 c0 y Hin Gy)].
           assert (y = kk) by congruence. subst y.
           apply (cle_trans x bk kk); [apply (H2 bi bk eq_refl)|].
           apply clt_false_iff. congruence.
      * cbv beta iota. intros H; apply IH in H; destruct H as (H1 & H2 & H3).
        split.
        { destruct (Shift _ H1) as [E|R]; [|right; exact R].
          injection E as Ei Ex. subst i x. right. apply Here. reflexivity. }
        split; [intros bi bk E; discriminate|].
        intros c0 y [E0|Hin] Gy; [subst c0|apply (H3 c0 y Hin Gy)].
        assert (y = kk) by congruence. subst y. apply (H2 k kk eq_refl).
    + cbv beta iota. intros H; apply IH in H; destruct H as (H1 & H2 & H3).
      split; [apply Shift; exact H1|]. split; [exact H2|].
      intros c0 y [E0|Hin] Gy; [subst c0; congruence|apply (H3 c0 y Hin Gy)].
Qed.

Lemma fsf_none (cs : list (@child A)) : forall k best,
  find_smallest_from cmp k cs best = None ->
  best = None /\ forall c, In c cs -> ch_get c = None.
Proof.
  induction cs as [|c r IH]; intros k best; cbn [find_smallest_from].
  - intros ->. split; [reflexivity|intros c []].
  - destruct (ch_get c) as [kk|] eqn:Gc.
    + destruct best as [[bi bk]|]; [destruct (cmp kk bk)|]; cbv beta iota;
        intros H; apply IH in H; destruct H as [H _]; discriminate.
    + cbv beta iota. intros H. apply IH in H. destruct H as [H1 H2]. split; [exact H1|].
      intros c0 [E0|Hin]; [subst c0; exact Gc|apply H2; exact Hin].
Qed.

Lemma fs_some cs i :
  find_smallest cmp cs = Some i ->
  exists c x, nth_error cs i = Some c /\ ch_get c = Some x /\
              forall c' y, In c' cs -> ch_get c' = Some y -> clt y x = false.
Proof.
  unfold find_smallest.
  destruct (find_smallest_from cmp 0 cs None) as [[i' x]|] eqn:F; cbn [option_map fst]; [|discriminate].
  intros E. injection E as E. subst i'.
  destruct (fsf_some cs 0 None i x F) as ([E'|(j & c & Ej & Hj & Gj)] & _ & H3); [discriminate|].
  cbn [Nat.add] in Ej. subst j. exists c, x. split; [exact Hj|]. split; [exact Gj|exact H3].
Qed.

Lemma fs_none cs :
  find_smallest cmp cs = None -> forall c, In c cs -> ch_get c = None.
Proof.
  unfold find_smallest.
  destruct (find_smallest_from cmp 0 cs None) as [[i' x]|] eqn:F; cbn [option_map fst]; [discriminate|].
  intros _. apply (fsf_none cs 0 None F).
Qed.

(* ------------------------------------------------------------------ find_largest *)
Lemma flf_none (cs : list (@child A)) : forall k,
  find_largest_from cmp k cs = None -> forall c, In c cs -> ch_get c = None.
Proof.
  induction cs as [|c r IH]; intros k; cbn [find_largest_from].
  - intros _ c [].
  - destruct (find_largest_from cmp (S k) r) as [[bi bk]|] eqn:F;
      destruct (ch_get c) as [kk|] eqn:Gc.
    + destruct (cmp kk bk); cbv beta iota; intros E; discriminate.
    + intros E; discriminate.
    + intros E; discriminate.
    + intros _ c0 [E0|Hin]; [subst c0; exact Gc|apply (IH (S k) F c0 Hin)].
Qed.

Lemma flf_some (cs : list (@child A)) : forall k i x,
  find_largest_from cmp k cs = Some (i, x) ->
  (exists j c, i = (k + j)%nat /\ nth_error cs j = Some c /\ ch_get c = Some x) /\
  (forall c y, In c cs -> ch_get c = Some y -> clt x y = false).
Proof.
  induction cs as [|c r IH]; intros k i x; cbn [find_largest_from].
  - discriminate.
  - assert (Shift : forall bi bk,
      (exists j c', bi = (S k + j)%nat /\ nth_error r j = Some c' /\ ch_get c' = Some bk) ->
      exists j c', bi = (k + j)%nat /\ nth_error (c :: r) j = Some c' /\ ch_get c' = Some bk).
    { intros bi bk (j & c' & Ej & Hj & Gj). exists (S j), c'.
      split; [lia|]. split; [exact Hj|exact Gj]. }
    assert (Here : forall kk, ch_get c = Some kk ->
      exists j c', k = (k + j)%nat /\ nth_error (c :: r) j = Some c' /\ ch_get c' = Some kk).
    { intros kk Gc. exists O, c. split; [lia|]. split; [reflexivity|exact Gc]. }
    destruct (find_largest_from cmp (S k) r) as [[bi bk]|] eqn:F.
    + destruct (IH (S k) bi bk F) as (H1 & H2).
      destruct (ch_get c) as [kk|] eqn:Gc.
      * destruct (cmp kk bk) eqn:Ck; cbv beta iota; intros E; injection E as Ei Ex; subst i x.
        -- split; [apply Shift; exact H1|].
           intros c0 y [E0|Hin] Gy; [subst c0|apply (H2 c0 y Hin Gy)].
           assert (y = kk) by congruence. subst y.
           apply clt_false_iff. intros C. apply (proj2 (cmp_gt_lt kk bk)) in C. congruence.
        -- split; [apply Shift; exact H1|].
           intros c0 y [E0|Hin] Gy; [subst c0|apply (H2 c0 y Hin Gy)].
           assert (y = kk) by congruence. subst y.
           apply clt_false_iff. intros C. apply (proj2 (cmp_gt_lt kk bk)) in C. congruence.
        -- split; [apply Here; reflexivity|].
           intros c0 y [E0|Hin] Gy.
           ++ subst c0. assert (y = kk) by congruence. subst y. apply clt_irrefl.
           ++ apply (cle_trans y bk kk); [apply (H2 c0 y Hin Gy)|].
              apply clt_false_iff. congruence.
      * intros E; injection E as Ei Ex; subst i x.
        split; [apply Shift; exact H1|].
        intros c0 y [E0|Hin] Gy; [subst c0; congruence|apply (H2 c0 y Hin Gy)].
    + destruct (ch_get c) as [kk|] eqn:Gc; [|discriminate].
      intros E; injection E as Ei Ex; subst i x.
      split; [apply Here; reflexivity|].
      intros c0 y [E0|Hin] Gy.
      * subst c0. assert (y = kk) by congruence. subst y. apply clt_irrefl.
      * rewrite (flf_none r (S k) F c0 Hin) in Gy. discriminate.
Qed.

Lemma fl_some cs i :
  find_largest cmp cs = Some i ->
  exists c x, nth_error cs i = Some c /\ ch_get c = Some x /\
              forall c' y, In c' cs -> ch_get c' = Some y -> clt x y = false.
Proof.
  unfold find_largest.
  destruct (find_largest_from cmp 0 cs) as [[i' x]|] eqn:F; cbn [option_map fst]; [|discriminate].
  intros E. injection E as E. subst i'.
  destruct (flf_some cs 0 i x F) as ((j & c & Ej & Hj & Gj) & H3).
  cbn [Nat.add] in Ej. subst j. exists c, x. split; [exact Hj|]. split; [exact Gj|exact H3].
Qed.

Lemma fl_none cs :
  find_largest cmp cs = None -> forall c, In c cs -> ch_get c = None.
Proof.
  unfold find_largest.
  destruct (find_largest_from cmp 0 cs) as [[i' x]|] eqn:F; cbn [option_map fst]; [discriminate|].
  intros _. apply (flf_none cs 0 F).
Qed.

(* ------------------------------------------------------------------ the runs and their merge *)
Variable runs : list (list A).
Variable L : list A.
Hypothesis runs_sorted : forall r, In r runs -> SrtBy clt r.
Hypothesis runs_distinct : forall i j ri rj a b,
  i <> j -> nth_error runs i = Some ri -> nth_error runs j = Some rj ->
  In a ri -> In b rj -> cmp a b <> Eq.
Hypothesis L_sorted : SrtBy clt L.
Hypothesis L_elems : forall x, In x L <-> In x (concat runs).

(* the children when every child cursor is [f] of its run *)
Definition kids (f : list A -> cursor) : list (@child A) := map (fun r => (r, f r)) runs.

Lemma mapi_kids (f : nat -> @child A -> @child A) g h :
  (forall j r, nth_error runs j = Some r -> f j (r, g r) = (r, h r)) ->
  mapi f (kids g) = kids h.
Proof.
  intros H. unfold mapi, kids. apply mapi_from_map. intros j r Hj. exact (H j r Hj).
Qed.

Lemma kids_nth f i c :
  nth_error (kids f) i = Some c -> exists r, nth_error runs i = Some r /\ c = (r, f r).
Proof.
  unfold kids. rewrite nth_error_map. destruct (nth_error runs i) as [r|]; cbn [option_map]; [|discriminate].
  intros E. injection E as E. exists r. split; [reflexivity|symmetry; exact E].
Qed.

Lemma in_kids f r : In r runs -> In (r, f r) (kids f).
Proof. intros H. unfold kids. apply in_map_iff. exists r. split; [reflexivity|exact H]. Qed.

Lemma run_in_concat j r e : nth_error runs j = Some r -> In e r -> In e (concat runs).
Proof.
  intros Hj He. apply in_concat. exists r. split; [eapply nth_error_In; exact Hj|exact He].
Qed.

Lemma run_sorted j r : nth_error runs j = Some r -> SrtBy clt r.
Proof. intros Hj. apply runs_sorted. eapply nth_error_In; exact Hj. Qed.

Lemma kids_map_seek f ge : map (ch_seek ge) (kids f) = kids (c_seek ge).
Proof. unfold kids. rewrite map_map. reflexivity. Qed.

Lemma kids_map_first f : map ch_first (kids f) = kids (c_seek (fun _ => true)).
Proof.
  unfold kids. rewrite map_map. apply map_ext. intros r. unfold ch_first. cbn [fst].
  rewrite c_first_seek. reflexivity.
Qed.

Lemma kids_map_last f : map ch_last (kids f) = kids (c_seek_last (fun _ => true)).
Proof.
  unfold kids. rewrite map_map. apply map_ext. intros r. unfold ch_last. cbn [fst].
  rewrite c_last_seek. reflexivity.
Qed.

Lemma m_key_kids f i ri dir :
  nth_error runs i = Some ri -> m_key (mkM (kids f) (Some i) dir) = c_get ri (f ri).
Proof.
  intros H. unfold m_key. cbn [m_current m_children]. unfold kids.
  erewrite map_nth_error; [|exact H]. reflexivity.
Qed.

(* key lemma FS: what find_smallest finds when every child sits at its first P-element *)
Lemma FS P :
  (find_smallest cmp (kids (c_seek P)) = None /\ c_seek P L = None) \/
  (exists i ri x, find_smallest cmp (kids (c_seek P)) = Some i /\ nth_error runs i = Some ri /\
     c_get ri (c_seek P ri) = Some x /\ P x = true /\
     (forall e, In e (concat runs) -> P e = true -> clt e x = false) /\
     c_get L (c_seek P L) = Some x).
Proof.
  destruct (find_smallest cmp (kids (c_seek P))) as [i|] eqn:F.
  - right. destruct (fs_some _ i F) as (c & x & Hc & Gx & Hmin).
    destruct (kids_nth _ i c Hc) as (ri & Hri & Ec). subst c.
    unfold ch_get in Gx. cbn [fst snd] in Gx.
    destruct (c_seek_get ri P x Gx) as [Hin Px].
    assert (Hmin' : forall e, In e (concat runs) -> P e = true -> clt e x = false).
    { intros e He Pe. apply in_concat in He. destruct He as (rj & Hrj & Hej).
      destruct (c_get rj (c_seek P rj)) as [y|] eqn:Gy.
      - apply (cle_trans x y e).
        + apply (Hmin (rj, c_seek P rj) y); [apply in_kids; exact Hrj|exact Gy].
        + apply (c_seek_get_min clt clt_irrefl clt_trans rj P y (runs_sorted rj Hrj) Gy e Hej Pe).
      - assert (N : c_seek P rj = None).
        { apply (c_get_wf_none rj); [apply c_seek_wf|exact Gy]. }
        rewrite (proj1 (c_seek_none P rj) N e Hej) in Pe. discriminate. }
    exists i, ri, x. split; [reflexivity|]. split; [exact Hri|]. split; [exact Gx|].
    split; [exact Px|]. split; [exact Hmin'|].
    apply (c_seek_min clt clt_irrefl clt_trans L P x L_sorted).
    + apply L_elems. exact (run_in_concat i ri x Hri Hin).
    + exact Px.
    + intros y Hy Py. apply Hmin'; [apply L_elems; exact Hy|exact Py].
  - left. split; [reflexivity|]. apply c_seek_none. intros e He.
    apply L_elems in He. apply in_concat in He. destruct He as (rj & Hrj & Hej).
    pose proof (fs_none _ F (rj, c_seek P rj) (in_kids _ rj Hrj)) as Gy.
    unfold ch_get in Gy. cbn [fst snd] in Gy.
    assert (N : c_seek P rj = None).
    { apply (c_get_wf_none rj); [apply c_seek_wf|exact Gy]. }
    exact (proj1 (c_seek_none P rj) N e Hej).
Qed.

(* key lemma FL: symmetric *)
Lemma FL Q :
  (find_largest cmp (kids (c_seek_last Q)) = None /\ c_seek_last Q L = None) \/
  (exists i ri x, find_largest cmp (kids (c_seek_last Q)) = Some i /\ nth_error runs i = Some ri /\
     c_get ri (c_seek_last Q ri) = Some x /\ Q x = true /\
     (forall e, In e (concat runs) -> Q e = true -> clt x e = false) /\
     c_get L (c_seek_last Q L) = Some x).
Proof.
  destruct (find_largest cmp (kids (c_seek_last Q))) as [i|] eqn:F.
  - right. destruct (fl_some _ i F) as (c & x & Hc & Gx & Hmax).
    destruct (kids_nth _ i c Hc) as (ri & Hri & Ec). subst c.
    unfold ch_get in Gx. cbn [fst snd] in Gx.
    destruct (c_seek_last_get ri Q x Gx) as [Hin Qx].
    assert (Hmax' : forall e, In e (concat runs) -> Q e = true -> clt x e = false).
    { intros e He Qe. apply in_concat in He. destruct He as (rj & Hrj & Hej).
      destruct (c_get rj (c_seek_last Q rj)) as [y|] eqn:Gy.
      - apply (cle_trans e y x).
        + apply (c_seek_last_get_max clt clt_irrefl clt_trans rj Q y (runs_sorted rj Hrj) Gy e Hej Qe).
        + apply (Hmax (rj, c_seek_last Q rj) y); [apply in_kids; exact Hrj|exact Gy].
      - assert (N : c_seek_last Q rj = None).
        { apply (c_get_wf_none rj); [apply c_seek_last_wf|exact Gy]. }
        rewrite (proj1 (c_seek_last_none Q rj) N e Hej) in Qe. discriminate. }
    exists i, ri, x. split; [reflexivity|]. split; [exact Hri|]. split; [exact Gx|].
    split; [exact Qx|]. split; [exact Hmax'|].
    apply (c_seek_last_max clt clt_irrefl clt_trans L Q x L_sorted).
    + apply L_elems. exact (run_in_concat i ri x Hri Hin).
    + exact Qx.
    + intros y Hy Qy. apply Hmax'; [apply L_elems; exact Hy|exact Qy].
  - left. split; [reflexivity|]. apply c_seek_last_none. intros e He.
    apply L_elems in He. apply in_concat in He. destruct He as (rj & Hrj & Hej).
    pose proof (fl_none _ F (rj, c_seek_last Q rj) (in_kids _ rj Hrj)) as Gy.
    unfold ch_get in Gy. cbn [fst snd] in Gy.
    assert (N : c_seek_last Q rj = None).
    { apply (c_get_wf_none rj); [apply c_seek_last_wf|exact Gy]. }
    exact (proj1 (c_seek_last_none Q rj) N e Hej).
Qed.

(* ------------------------------------------------------------------ states described by a predicate *)
Definition fst_of (P : A -> bool) : @mstate A :=
  mkM (kids (c_seek P)) (find_smallest cmp (kids (c_seek P))) Forward.
Definition rst_of (Q : A -> bool) : @mstate A :=
  mkM (kids (c_seek_last Q)) (find_largest cmp (kids (c_seek_last Q))) Reverse.

Definition MRel (st : @mstate A) (p : cursor) : Prop :=
  (exists P, up P /\ st = fst_of P /\ p = c_seek P L) \/
  (exists Q, down Q /\ st = rst_of Q /\ p = c_seek_last Q L).

Lemma MRel_fwd P : up P -> MRel (fst_of P) (c_seek P L).
Proof. intros H. left. exists P. split; [exact H|]. split; reflexivity. Qed.

Lemma MRel_rev Q : down Q -> MRel (rst_of Q) (c_seek_last Q L).
Proof. intros H. right. exists Q. split; [exact H|]. split; reflexivity. Qed.

Lemma MRel_children st p : MRel st p -> exists f, m_children st = kids f.
Proof.
  intros [(P & _ & E & _)|(Q & _ & E & _)]; subst st;
    [exists (c_seek P)|exists (c_seek_last Q)]; reflexivity.
Qed.

Lemma MRel_init : MRel (m_init runs) None.
Proof.
  left. exists (fun _ => false). split; [intros a b _ H; exact H|].
  assert (N : forall l : list A, c_seek (fun _ => false) l = None).
  { intros l. apply c_seek_none. intros x _. reflexivity. }
  assert (K : map (fun r : list A => (r, @None nat)) runs = kids (c_seek (fun _ => false))).
  { unfold kids. apply map_ext. intros r. rewrite N. reflexivity. }
  split; [|symmetry; apply N].
  unfold m_init, fst_of. rewrite K.
  destruct (FS (fun _ => false)) as [[F _]|(i & ri & x & _ & _ & _ & Px & _)]; [|discriminate].
  rewrite F. reflexivity.
Qed.

Lemma MRel_get st p : MRel st p -> m_key st = c_get L p.
Proof.
  intros [(P & UP & E1 & E2)|(Q & DQ & E1 & E2)]; subst st p.
  - unfold fst_of.
    destruct (FS P) as [[F N]|(i & ri & x & F & Hri & Gx & Px & Hmin & GL)]; rewrite F.
    + rewrite N. reflexivity.
    + rewrite (m_key_kids _ i ri Forward Hri), Gx, GL. reflexivity.
  - unfold rst_of.
    destruct (FL Q) as [[F N]|(i & ri & x & F & Hri & Gx & Qx & Hmax & GL)]; rewrite F.
    + rewrite N. reflexivity.
    + rewrite (m_key_kids _ i ri Reverse Hri), Gx, GL. reflexivity.
Qed.

(* ------------------------------------------------------------------ first / last / seek *)
Lemma step_first st p : MRel st p -> MRel (m_first cmp st) (c_first L).
Proof.
  intros H. destruct (MRel_children st p H) as [f Hf].
  assert (E : m_first cmp st = fst_of (fun _ => true)).
  { unfold m_first, fst_of. rewrite Hf, kids_map_first. reflexivity. }
  rewrite E, c_first_seek. apply MRel_fwd. intros a b _ _. reflexivity.
Qed.

Lemma step_last st p : MRel st p -> MRel (m_last cmp st) (c_last L).
Proof.
  intros H. destruct (MRel_children st p H) as [f Hf].
  assert (E : m_last cmp st = rst_of (fun _ => true)).
  { unfold m_last, rst_of. rewrite Hf, kids_map_last. reflexivity. }
  rewrite E, c_last_seek. apply MRel_rev. intros a b _ _. reflexivity.
Qed.

Lemma step_seek ge st p : up ge -> MRel st p -> MRel (m_seek cmp ge st) (c_seek ge L).
Proof.
  intros U H. destruct (MRel_children st p H) as [f Hf].
  assert (E : m_seek cmp ge st = fst_of ge).
  { unfold m_seek, fst_of. rewrite Hf, kids_map_seek. reflexivity. }
  rewrite E. apply MRel_fwd. exact U.
Qed.

(* ------------------------------------------------------------------ unfolding next / prev *)
Definition f_step_next (i : nat) : nat -> @child A -> @child A :=
  fun j c => if (j =? i)%nat then ch_next c else c.
Definition f_step_prev (i : nat) : nat -> @child A -> @child A :=
  fun j c => if (j =? i)%nat then ch_prev c else c.
Definition f_reseek_next (i : nat) (x : A) : nat -> @child A -> @child A :=
  fun j c =>
    if (j =? i)%nat then c
    else
      let c' := ch_seek (ge_key cmp x) c in
      match ch_get c' with
      | Some ck => match cmp x ck with Eq => ch_next c' | _ => c' end
      | None => c'
      end.
Definition f_reseek_prev (i : nat) (x : A) : nat -> @child A -> @child A :=
  fun j c =>
    if (j =? i)%nat then c
    else
      let c' := ch_seek (ge_key cmp x) c in
      match ch_get c' with
      | Some _ => ch_prev c'
      | None => ch_last c'
      end.

Lemma m_next_none cs dir : m_next cmp (mkM cs None dir) = mkM cs None dir.
Proof. reflexivity. Qed.

Lemma m_prev_none cs dir : m_prev cmp (mkM cs None dir) = mkM cs None dir.
Proof. reflexivity. Qed.

Lemma m_next_F cs i x :
  m_key (mkM cs (Some i) Forward) = Some x ->
  m_next cmp (mkM cs (Some i) Forward) =
  mkM (mapi (f_step_next i) cs) (find_smallest cmp (mapi (f_step_next i) cs)) Forward.
Proof. intros H. unfold m_next. cbn [m_current m_children m_dir]. rewrite H. reflexivity. Qed.

Lemma m_next_R cs i x :
  m_key (mkM cs (Some i) Reverse) = Some x ->
  m_next cmp (mkM cs (Some i) Reverse) =
  mkM (mapi (f_step_next i) (mapi (f_reseek_next i x) cs))
      (find_smallest cmp (mapi (f_step_next i) (mapi (f_reseek_next i x) cs))) Forward.
Proof. intros H. unfold m_next. cbn [m_current m_children m_dir]. rewrite H. reflexivity. Qed.

Lemma m_prev_R cs i x :
  m_key (mkM cs (Some i) Reverse) = Some x ->
  m_prev cmp (mkM cs (Some i) Reverse) =
  mkM (mapi (f_step_prev i) cs) (find_largest cmp (mapi (f_step_prev i) cs)) Reverse.
Proof. intros H. unfold m_prev. cbn [m_current m_children m_dir]. rewrite H. reflexivity. Qed.

Lemma m_prev_F cs i x :
  m_key (mkM cs (Some i) Forward) = Some x ->
  m_prev cmp (mkM cs (Some i) Forward) =
  mkM (mapi (f_step_prev i) (mapi (f_reseek_prev i x) cs))
      (find_largest cmp (mapi (f_step_prev i) (mapi (f_reseek_prev i x) cs))) Reverse.
Proof. intros H. unfold m_prev. cbn [m_current m_children m_dir]. rewrite H. reflexivity. Qed.

(* ------------------------------------------------------------------ predicate refinements *)
Definition Pnext (P : A -> bool) (x : A) : A -> bool := fun e => P e && clt x e.
Definition Qprev (Q : A -> bool) (x : A) : A -> bool := fun e => Q e && clt e x.

Lemma Pnext_up P x : up P -> up (Pnext P x).
Proof.
  intros U a b Hab Ha. unfold Pnext in Ha |- *. apply andb_true_iff in Ha. destruct Ha as [Pa Xa].
  rewrite (U a b Hab Pa), (clt_trans x a b Xa Hab). reflexivity.
Qed.

Lemma Qprev_down Q x : down Q -> down (Qprev Q x).
Proof.
  intros D a b Hab Hb. unfold Qprev in Hb |- *. apply andb_true_iff in Hb. destruct Hb as [Qb Xb].
  rewrite (D a b Hab Qb), (clt_trans a b x Hab Xb). reflexivity.
Qed.

Lemma seek_gt_ext P x l :
  up P -> P x = true -> c_seek (fun y => clt x y) l = c_seek (Pnext P x) l.
Proof.
  intros U Px. apply c_seek_ext. intros e _. unfold Pnext.
  destruct (clt x e) eqn:E; [rewrite (U x e E Px); reflexivity|rewrite andb_false_r; reflexivity].
Qed.

Lemma seek_other_ext P x l :
  (forall e, In e l -> P e = true -> clt x e = true) -> c_seek P l = c_seek (Pnext P x) l.
Proof.
  intros H. apply c_seek_ext. intros e He. unfold Pnext.
  destruct (P e) eqn:Pe; [rewrite (H e He Pe); reflexivity|reflexivity].
Qed.

Lemma seek_last_lt_ext Q x l :
  down Q -> Q x = true -> c_seek_last (fun y => clt y x) l = c_seek_last (Qprev Q x) l.
Proof.
  intros D Qx. apply c_seek_last_ext. intros e _. unfold Qprev.
  destruct (clt e x) eqn:E; [rewrite (D e x E Qx); reflexivity|rewrite andb_false_r; reflexivity].
Qed.

Lemma seek_last_other_ext Q x l :
  (forall e, In e l -> Q e = true -> clt e x = true) -> c_seek_last Q l = c_seek_last (Qprev Q x) l.
Proof.
  intros H. apply c_seek_last_ext. intros e He. unfold Qprev.
  destruct (Q e) eqn:Qe; [rewrite (H e He Qe); reflexivity|reflexivity].
Qed.

(* ------------------------------------------------------------------ next, direction Forward *)
Lemma step_next_fwd P : up P -> MRel (m_next cmp (fst_of P)) (c_next L (c_seek P L)).
Proof.
  intros UP. destruct (FS P) as [[F N]|(i & ri & x & F & Hri & Gx & Px & Hmin & GL)].
  - assert (E : m_next cmp (fst_of P) = fst_of P).
    { unfold fst_of. rewrite F. apply m_next_none. }
    rewrite E. rewrite N at 1. cbn [c_next]. rewrite <- N. apply MRel_fwd. exact UP.
  - destruct (c_seek_get ri P x Gx) as [Hxi _].
    assert (K : mapi (f_step_next i) (kids (c_seek P)) = kids (c_seek (Pnext P x))).
    { apply mapi_kids. intros j rj Hj. unfold f_step_next.
      destruct (j =? i)%nat eqn:Eji.
      - apply Nat.eqb_eq in Eji. subst j. assert (rj = ri) by congruence. subst rj.
        unfold ch_next. cbn [fst snd]. f_equal.
        rewrite (c_next_seek clt clt_irrefl clt_trans ri _ x (run_sorted i ri Hri) Gx).
        apply seek_gt_ext; assumption.
      - apply Nat.eqb_neq in Eji. f_equal. apply seek_other_ext. intros e He Pe.
        apply clt_total.
        + exact (runs_distinct j i rj ri e x Eji Hj Hri He Hxi).
        + apply Hmin; [exact (run_in_concat j rj e Hj He)|exact Pe]. }
    assert (E : m_next cmp (fst_of P) = fst_of (Pnext P x)).
    { unfold fst_of. rewrite F. rewrite (m_next_F _ i x).
      - rewrite K. reflexivity.
      - rewrite (m_key_kids _ i ri Forward Hri). exact Gx. }
    rewrite E.
    rewrite (c_next_seek clt clt_irrefl clt_trans L _ x L_sorted GL).
    rewrite (seek_gt_ext P x L UP Px).
    apply MRel_fwd. apply Pnext_up. exact UP.
Qed.

(* ------------------------------------------------------------------ prev, direction Reverse *)
Lemma step_prev_rev Q : down Q -> MRel (m_prev cmp (rst_of Q)) (c_prev L (c_seek_last Q L)).
Proof.
  intros DQ. destruct (FL Q) as [[F N]|(i & ri & x & F & Hri & Gx & Qx & Hmax & GL)].
  - assert (E : m_prev cmp (rst_of Q) = rst_of Q).
    { unfold rst_of. rewrite F. apply m_prev_none. }
    rewrite E. rewrite N at 1. cbn [c_prev]. rewrite <- N. apply MRel_rev. exact DQ.
  - destruct (c_seek_last_get ri Q x Gx) as [Hxi _].
    assert (K : mapi (f_step_prev i) (kids (c_seek_last Q)) = kids (c_seek_last (Qprev Q x))).
    { apply mapi_kids. intros j rj Hj. unfold f_step_prev.
      destruct (j =? i)%nat eqn:Eji.
      - apply Nat.eqb_eq in Eji. subst j. assert (rj = ri) by congruence. subst rj.
        unfold ch_prev. cbn [fst snd]. f_equal.
        rewrite (c_prev_seek clt clt_irrefl clt_trans ri _ x (run_sorted i ri Hri) Gx).
        apply seek_last_lt_ext; assumption.
      - apply Nat.eqb_neq in Eji. f_equal. apply seek_last_other_ext. intros e He Qe.
        apply clt_total.
        + assert (Eij : i <> j) by (intros C; apply Eji; symmetry; exact C).
          exact (runs_distinct i j ri rj x e Eij Hri Hj Hxi He).
        + apply Hmax; [exact (run_in_concat j rj e Hj He)|exact Qe]. }
    assert (E : m_prev cmp (rst_of Q) = rst_of (Qprev Q x)).
    { unfold rst_of. rewrite F. rewrite (m_prev_R _ i x).
      - rewrite K. reflexivity.
      - rewrite (m_key_kids _ i ri Reverse Hri). exact Gx. }
    rewrite E.
    rewrite (c_prev_seek clt clt_irrefl clt_trans L _ x L_sorted GL).
    rewrite (seek_last_lt_ext Q x L DQ Qx).
    apply MRel_rev. apply Qprev_down. exact DQ.
Qed.

(* ------------------------------------------------------------------ prev, direction Forward (switch) *)
Lemma step_prev_fwd P : up P -> MRel (m_prev cmp (fst_of P)) (c_prev L (c_seek P L)).
Proof.
  intros UP. destruct (FS P) as [[F N]|(i & ri & x & F & Hri & Gx & Px & Hmin & GL)].
  - assert (E : m_prev cmp (fst_of P) = fst_of P).
    { unfold fst_of. rewrite F. apply m_prev_none. }
    rewrite E. rewrite N at 1. cbn [c_prev]. rewrite <- N. apply MRel_fwd. exact UP.
  - assert (K : mapi (f_step_prev i) (mapi (f_reseek_prev i x) (kids (c_seek P))) =
                kids (c_seek_last (fun e => clt e x))).
    { rewrite mapi_mapi. apply mapi_kids. intros j rj Hj. unfold f_step_prev, f_reseek_prev.
      destruct (j =? i)%nat eqn:Eji.
      - apply Nat.eqb_eq in Eji. subst j. assert (rj = ri) by congruence. subst rj.
        unfold ch_prev. cbn [fst snd]. f_equal.
        apply (c_prev_seek clt clt_irrefl clt_trans ri _ x (run_sorted i ri Hri) Gx).
      - unfold ch_seek, ch_get, ch_prev, ch_last. cbn [fst snd].
        generalize (reseek_prev rj (ge_key cmp x) (run_sorted j rj Hj) (ge_key_up x)).
        destruct (c_get rj (c_seek (ge_key cmp x) rj)) as [y|]; intros RP; rewrite RP; f_equal;
          apply c_seek_last_ext; intros e _; apply ge_key_negb. }
    assert (E : m_prev cmp (fst_of P) = rst_of (fun e => clt e x)).
    { unfold fst_of, rst_of. rewrite F. rewrite (m_prev_F _ i x).
      - rewrite K. reflexivity.
      - rewrite (m_key_kids _ i ri Forward Hri). exact Gx. }
    rewrite E.
    rewrite (c_prev_seek clt clt_irrefl clt_trans L _ x L_sorted GL).
    apply (MRel_rev (fun e => clt e x)). apply down_lt.
Qed.

(* ------------------------------------------------------------------ next, direction Reverse (switch) *)
Lemma step_next_rev Q : down Q -> MRel (m_next cmp (rst_of Q)) (c_next L (c_seek_last Q L)).
Proof.
  intros DQ. destruct (FL Q) as [[F N]|(i & ri & x & F & Hri & Gx & Qx & Hmax & GL)].
  - assert (E : m_next cmp (rst_of Q) = rst_of Q).
    { unfold rst_of. rewrite F. apply m_next_none. }
    rewrite E. rewrite N at 1. cbn [c_next]. rewrite <- N. apply MRel_rev. exact DQ.
  - destruct (c_seek_last_get ri Q x Gx) as [Hxi _].
    assert (K : mapi (f_step_next i) (mapi (f_reseek_next i x) (kids (c_seek_last Q))) =
                kids (c_seek (fun e => clt x e))).
    { rewrite mapi_mapi. apply mapi_kids. intros j rj Hj. unfold f_step_next, f_reseek_next.
      destruct (j =? i)%nat eqn:Eji.
      - apply Nat.eqb_eq in Eji. subst j. assert (rj = ri) by congruence. subst rj.
        unfold ch_next. cbn [fst snd]. f_equal.
        apply (c_next_seek clt clt_irrefl clt_trans ri _ x (run_sorted i ri Hri) Gx).
      - apply Nat.eqb_neq in Eji.
        assert (Eij : i <> j) by (intros C; apply Eji; symmetry; exact C).
        assert (X : c_seek (ge_key cmp x) rj = c_seek (fun e => clt x e) rj).
        { apply c_seek_ext. intros e He. apply ge_key_clt_distinct.
          exact (runs_distinct j i rj ri e x Eji Hj Hri He Hxi). }
        unfold ch_seek, ch_get, ch_next. cbn [fst snd].
        destruct (c_get rj (c_seek (ge_key cmp x) rj)) as [ck|] eqn:Gck.
        + destruct (c_seek_get rj _ ck Gck) as [Hck _].
          pose proof (runs_distinct i j ri rj x ck Eij Hri Hj Hxi Hck) as Hne.
          destruct (cmp x ck) eqn:Cx; [exfalso; apply Hne; reflexivity| |];
            f_equal; exact X.
        + f_equal. exact X. }
    assert (E : m_next cmp (rst_of Q) = fst_of (fun e => clt x e)).
    { unfold fst_of, rst_of. rewrite F. rewrite (m_next_R _ i x).
      - rewrite K. reflexivity.
      - rewrite (m_key_kids _ i ri Reverse Hri). exact Gx. }
    rewrite E.
    rewrite (c_next_seek clt clt_irrefl clt_trans L _ x L_sorted GL).
    apply (MRel_fwd (fun e => clt x e)). apply up_gt.
Qed.

Lemma step_next st p : MRel st p -> MRel (m_next cmp st) (c_next L p).
Proof.
  intros [(P & UP & E1 & E2)|(Q & DQ & E1 & E2)]; subst st p.
  - apply step_next_fwd. exact UP.
  - apply step_next_rev. exact DQ.
Qed.

Lemma step_prev st p : MRel st p -> MRel (m_prev cmp st) (c_prev L p).
Proof.
  intros [(P & UP & E1 & E2)|(Q & DQ & E1 & E2)]; subst st p.
  - apply step_prev_fwd. exact UP.
  - apply step_prev_rev. exact DQ.
Qed.

(* ------------------------------------------------------------------ the simulation *)
Variable T : Type.
Variable tge : T -> A -> bool.
Variable tcmp : A -> T -> comparison.
Hypothesis tge_mono : forall t a b, clt a b = true -> tge t a = true -> tge t b = true.

Theorem merger_bisim :
  exists R : @mstate A -> cursor -> Prop,
    R (m_init runs) None /\ bisim_t (merger_ops cmp tge tcmp) (cursor_ops tge tcmp L) R.
Proof.
  exists MRel. split; [exact MRel_init|].
  constructor; unfold merger_ops, cursor_ops;
    cbn [i_get i_first i_last i_seek i_next i_prev].
  - exact MRel_get.
  - exact step_first.
  - exact step_last.
  - intros t a b H. apply (step_seek (tge t) a b); [exact (tge_mono t)|exact H].
  - exact step_next.
  - exact step_prev.
Qed.

Corollary merger_simulates :
  simulates (merger_ops cmp tge tcmp) (m_init runs) (cursor_ops tge tcmp L) None.
Proof.
  destruct merger_bisim as (R & HR & HB).
  apply (bisim_scripts _ _ R); [|exact HR].
  apply bisim_t_bisim; [intros o t; reflexivity|exact HB].
Qed.

End Layer1.

(* ================================================================== LAYER 2 *)
Section Entries.
Variable ucmp : bytes -> bytes -> comparison.
Context {TO : total_order ucmp}.

Lemma clt_icmp a b : clt (icmp ucmp) a b = ilt ucmp a b.
Proof. reflexivity. Qed.

Lemma icmp_order : cmp_order (icmp ucmp).
Proof.
  constructor.
  - intros a. unfold icmp. rewrite (@ucmp_refl ucmp TO). apply N.compare_refl.
  - intros a b. unfold icmp. rewrite (@ucmp_opp ucmp TO (ek a) (ek b)).
    destruct (ucmp (ek b) (ek a)); cbn [CompOpp]; [|reflexivity|reflexivity].
    apply N.compare_antisym.
  - intros a b c Hab Hbc.
    assert (Lab : ilt ucmp a b = true) by (unfold ilt; rewrite Hab; reflexivity).
    assert (Lbc : ilt ucmp b c = true) by (unfold ilt; rewrite Hbc; reflexivity).
    pose proof (@ilt_trans ucmp TO a b c Lab Lbc) as Lac. unfold ilt in Lac.
    destruct (icmp ucmp a c); [discriminate|reflexivity|discriminate].
  - intros a b Hab c. unfold icmp in Hab |- *.
    destruct (ucmp (ek a) (ek b)) eqn:Ek; try discriminate.
    apply N.compare_eq in Hab.
    rewrite (@ucmp_eq_l ucmp TO (ek a) (ek b) (ek c) Ek). rewrite Hab. reflexivity.
Qed.

Lemma itge_mono (t : itarget) a b :
  clt (icmp ucmp) a b = true -> itge ucmp t a = true -> itge ucmp t b = true.
Proof.
  destruct t as [k q]. unfold itge. cbn [fst snd]. rewrite clt_icmp. intros Hlt Hge.
  apply (ilt_iff ucmp) in Hlt. unfold ge_target in Hge |- *.
  pose proof (@ucmp_trans3 ucmp TO (ek b) (ek a) k) as H3.
  rewrite (@ucmp_opp ucmp TO (ek b) (ek a)) in H3.
  destruct Hlt as [Hl|[He Hs]].
  - rewrite Hl in H3. cbn [CompOpp] in H3. revert H3 Hge.
    destruct (ucmp (ek a) k); intros H3 Hge; [rewrite H3; reflexivity|discriminate|rewrite H3; reflexivity].
  - rewrite He in H3. cbn [CompOpp] in H3. rewrite H3.
    destruct (ucmp (ek a) k); [lia|discriminate|reflexivity].
Qed.

Definition runs_ok (runs : list (list entry)) : Prop :=
  (forall r, In r runs -> sorted_run ucmp r = true) /\
  (forall i j ri rj a b, i <> j -> nth_error runs i = Some ri -> nth_error runs j = Some rj ->
     In a ri -> In b rj -> icmp ucmp a b <> Eq).

Lemma FOP_concat {B : Type} (R : B -> B -> Prop) (ls : list (list B)) :
  (forall r, In r ls -> ForallOrdPairs R r) ->
  ForallOrdPairs (fun r1 r2 => forall a b, In a r1 -> In b r2 -> R a b) ls ->
  ForallOrdPairs R (concat ls).
Proof.
  induction ls as [|r rs IH]; intros Hin Hx; cbn [concat].
  - constructor.
  - inversion Hx as [|r' rs' Hr Hrs]; subst. apply FOP_app. split; [apply Hin; left; reflexivity|].
    split.
    + apply IH; [intros r0 H0; apply Hin; right; exact H0|exact Hrs].
    + intros x y Hxr Hy. apply in_concat in Hy. destruct Hy as (r2 & Hr2 & Hy2).
      rewrite Forall_forall in Hr. exact (Hr r2 Hr2 x y Hxr Hy2).
Qed.

Lemma merged_sorted runs :
  runs_ok runs -> sorted_run ucmp (sort_entries ucmp (concat runs)) = true.
Proof.
  intros [Hs Hd]. apply (@sorted_run_Srt ucmp TO). apply (@sort_entries_Srt ucmp TO).
  apply FOP_concat.
  - intros r Hr. pose proof (proj1 (@sorted_run_Srt ucmp TO r) (Hs r Hr)) as S.
    unfold Srt in S. apply SS_FOP in S.
    eapply FOP_impl; [|exact S]. intros x y _ _ H. left. exact H.
  - apply (FOP_nth _ []). intros i j Hij Hj a b Ha Hb.
    assert (Ni : nth_error runs i = Some (nth i runs [])) by (apply nth_error_nth'; lia).
    assert (Nj : nth_error runs j = Some (nth j runs [])) by (apply nth_error_nth'; lia).
    assert (Hne : icmp ucmp a b <> Eq).
    { apply (Hd i j (nth i runs []) (nth j runs []) a b); [lia|exact Ni|exact Nj|exact Ha|exact Hb]. }
    unfold Cmp. destruct (ilt ucmp a b) eqn:E; [left; reflexivity|right].
    exact (clt_total (icmp ucmp) icmp_order a b Hne E).
Qed.

Theorem merger_is_cursor_bisim runs :
  runs_ok runs ->
  exists R, R (m_init runs) None /\
    bisim_t (internal_ops ucmp)
            (cursor_ops (itge ucmp) (itcmp ucmp) (sort_entries ucmp (concat runs))) R.
Proof.
  intros Hok. pose proof (merged_sorted runs Hok) as HL. destruct Hok as [Hs Hd].
  unfold internal_ops. apply merger_bisim.
  - exact icmp_order.
  - intros r Hr. exact (proj1 (@sorted_run_Srt ucmp TO r) (Hs r Hr)).
  - exact Hd.
  - exact (proj1 (@sorted_run_Srt ucmp TO _) HL).
  - intros x. apply sort_entries_In.
  - exact itge_mono.
Qed.

Theorem merger_is_cursor runs :
  runs_ok runs ->
  simulates (internal_ops ucmp) (m_init runs)
            (cursor_ops (itge ucmp) (itcmp ucmp) (sort_entries ucmp (concat runs))) None.
Proof.
  intros Hok. destruct (merger_is_cursor_bisim runs Hok) as (R & HR & HB).
  apply (bisim_scripts _ _ R); [|exact HR].
  apply bisim_t_bisim; [intros o t; reflexivity|exact HB].
Qed.

End Entries.

Print Assumptions merger_is_cursor.
