(* Repair.v -- model of ldb_repair (src/repair.c) at the level of Engine.v:
   every surviving table is re-registered at LEVEL 0 under its own number, the
   entries still in log files are converted into one new table per log (fresh
   numbers), the sequence counter becomes the largest surviving sequence, and
   the specification is re-based on the surviving entries (that is what C19
   promises: "the newest value present in the surviving table and log files").
   Definitions only. *)
From LCDB Require Export Engine.
Local Open Scope N_scope.

Section WithComparator.
Variable ucmp : bytes -> bytes -> comparison.

Definition max_seq (l : list entry) : N := fold_right (fun e m => N.max (es e) m) 0 l.

(* [nums]: numbers of the tables made from the logs (at most one log holds data
   after a clean close of the no-pthread build); [nf]: next file number afterwards *)
Definition do_repair (s : state) (nums : list N) (nf : N) : option state :=
  let pend := pending_entries ucmp s in
  let olds := concat (levels s) in
  let news := match pend, nums with
              | [], _ => Some []
              | _ :: _, n :: _ => if forallb (fun f => fnum f <? n) olds then Some [mkF n pend] else None   (* rep->next_file_number++ *)
              | _ :: _, [] => None
              end in
  match news with
  | None => None
  | Some nw =>
      let l0 := add_files ucmp [] (olds ++ nw) in
      let surv := pend ++ concat (map level_entries (levels s)) in
      (* numbers may restart below the old counter (repair recomputes it from the files it
         finds), but stay above every surviving file *)
      if forallb (fun f => fnum f <? nf) (olds ++ nw) then
        Some (mkS [] None (l0 :: repeat [] 6) (max_seq surv) [] nf surv)
      else None
  end.

End WithComparator.
