(* Properties_C15.v -- C15: write-ahead-log framing is exact, standard and torn-tail tolerant.
   Only theorem statements, each closed by [exact] of a lemma proved in
   LogFormatProofs.v / LogFormatClosed.v / Crc32cProofs.v, with Print Assumptions. *)
From LCDB Require Import Base Crc32c LogFormat BaseProofs Crc32cProofs LogFormatClosed CrcBurst.
Local Open Scope N_scope.

(* The model is pinned to the LevelDB log format constants. *)
Theorem C15_standard_constants :
  BLOCK = 32768 /\ HEADER = 7 /\ T_FULL = 1 /\ T_FIRST = 2 /\ T_MIDDLE = 3 /\ T_LAST = 4 /\
  POLY = 2197175160 /\ MASK_DELTA = 2726488792.
Proof. repeat split; reflexivity. Qed.
Print Assumptions C15_standard_constants.

(* CRC-32C: the reference value, and mask/unmask are inverse on 32-bit values. *)
Theorem C15_crc_check_value : crc_value [49;50;51;52;53;54;55;56;57] = 3808858755.
Proof. exact crc_check_value. Qed.
Print Assumptions C15_crc_check_value.

Theorem C15_crc_unmask_mask : forall c, c < 4294967296 -> crc_unmask (crc_mask c) = c.
Proof. exact crc_unmask_mask. Qed.
Print Assumptions C15_crc_unmask_mask.

(* Any sequence of records of any sizes is read back identically, with no drop report. *)
Theorem C15_roundtrip : forall rs,
  Forall (fun r => wf_bytes r = true) rs -> read_log (write_log rs) = map Rec rs.
Proof. exact read_write_roundtrip. Qed.
Print Assumptions C15_roundtrip.

(* ... also when the log was closed and re-opened for append at any length (log reuse):
   the writer's only state is the file length modulo the block size. *)
Theorem C15_append_any_offset : forall rs1 rs2,
  write_log (rs1 ++ rs2) = write_log rs1 ++ write_log_from (nlen (write_log rs1)) rs2.
Proof. exact write_log_app. Qed.
Print Assumptions C15_append_any_offset.

Theorem C15_roundtrip_reopen : forall rs1 rs2,
  Forall (fun r => wf_bytes r = true) (rs1 ++ rs2) ->
  read_log (write_log rs1 ++ write_log_from (nlen (write_log rs1)) rs2) = map Rec (rs1 ++ rs2).
Proof. exact read_write_roundtrip_reopen. Qed.
Print Assumptions C15_roundtrip_reopen.

(* Cutting the file at ANY byte yields precisely the records wholly before the cut and no
   error report. *)
Theorem C15_cut : forall rs n,
  Forall (fun r => wf_bytes r = true) rs -> (n <= length (write_log rs))%nat ->
  exists k, read_log (firstn n (write_log rs)) = map Rec (firstn k rs) /\
    (length (write_log (firstn k rs)) <= n)%nat /\
    (k < length rs -> n < length (write_log (firstn (S k) rs)))%nat.
Proof. exact read_cut. Qed.
Print Assumptions C15_cut.

(* For ANY byte string: every record returned is a concatenation of payloads of physical
   records whose stored CRC verified (so altered bytes cannot invent a record unless a
   CRC-32C collision is produced). *)
Theorem C15_alter_no_invention : forall f r, In (Rec r) (read_log f) ->
  exists frags, r = concat frags /\ Forall (fun p => In p (verified_payloads f)) frags.
Proof. exact read_log_no_invention_structural. Qed.
Print Assumptions C15_alter_no_invention.

Theorem C15_verified_means_crc : forall f ty p,
  In (PRec ty p) (phys_events true f) -> is_verified_substring f ty p.
Proof. exact phys_events_verified. Qed.
Print Assumptions C15_verified_means_crc.

(* "always reports the drop" is FALSE of the faithful model (finding F3): a one-bit
   alteration loses every record without any report. *)
Theorem C15_alter_always_reported_refuted : exists rs f',
  Forall (fun r => wf_bytes r = true) rs /\ length f' = length (write_log rs) /\
  (f' = firstn 6 (write_log rs) ++ [0] ++ skipn 7 (write_log rs) /\ nth 6 (write_log rs) 0 = 1) /\
  records_of (read_log f') <> rs /\ drops_of (read_log f') = [].
Proof. exact zero_header_silent_refuted. Qed.
Print Assumptions C15_alter_always_reported_refuted.

(* Out-of-fuel is unreachable in the writer model. *)
Theorem C15_writer_fuel : forall fuel off data, off <= BLOCK ->
  (add_record_fuel data <= fuel)%nat -> add_record_loop fuel off true data = add_record off data.
Proof. exact add_record_fuel_ok. Qed.
Print Assumptions C15_writer_fuel.

(* ---- Deterministic core of CRC detection (CrcBurst.v), messages of ANY length ---- *)

(* Any alteration of a slice of the checksummed bytes whose xor pattern [e] has all its set
   bits within 32 consecutive bit positions (bit j of byte i = position 8*i+j, the order in
   which the CRC consumes them; [burst_le_32]) changes the CRC: in particular every
   single-bit flip and every overwrite of 1..4 consecutive bytes. *)
Theorem C15_crc_detects_burst : forall pre d e post,
  length d = length e -> wf_bytes e = true -> all_zero e = false -> burst_le_32 e ->
  crc_value (pre ++ xor_bytes d e ++ post) <> crc_value (pre ++ d ++ post).
Proof. exact crc_detects_burst. Qed.
Print Assumptions C15_crc_detects_burst.

Theorem C15_crc_detects_overwrite_1_to_4_bytes : forall pre d d' post,
  length d' = length d -> (length d <= 4)%nat ->
  wf_bytes d = true -> wf_bytes d' = true -> d' <> d ->
  crc_value (pre ++ d' ++ post) <> crc_value (pre ++ d ++ post).
Proof. exact crc_detects_overwrite. Qed.
Print Assumptions C15_crc_detects_overwrite_1_to_4_bytes.

Theorem C15_crc_detects_bit_flip : forall pre b j post, j < 8 ->
  crc_value (pre ++ N.lxor b (2 ^ j) :: post) <> crc_value (pre ++ b :: post).
Proof. exact crc_detects_bit_flip. Qed.
Print Assumptions C15_crc_detects_bit_flip.

(* ... and 32 is optimal: a 33-bit pattern (the generator polynomial) is never detected. *)
Theorem C15_crc_burst_33_undetected : forall pre d post, length d = 5%nat ->
  crc_value (pre ++ xor_bytes d [241; 118; 236; 5; 1] ++ post) = crc_value (pre ++ d ++ post).
Proof. exact crc_burst_33_undetected. Qed.
Print Assumptions C15_crc_burst_33_undetected.

(* A written physical record whose type byte / payload is altered by one such burst (lengths
   unchanged) is answered by the reader with a bad-record event, never with a record,
   whatever follows it in the block. *)
Theorem C15_single_alteration_detected :
  forall f eof ty payload ty' payload' c0 c1 c2 c3 a b tail,
  wf_bytes (ty :: payload) = true -> wf_bytes (ty' :: payload') = true ->
  length payload' = length payload ->
  ty' :: payload' <> ty :: payload ->
  burst_le_32 (xor_bytes (ty' :: payload') (ty :: payload)) ->
  nlen payload < 65536 ->
  phys_record ty payload = c0 :: c1 :: c2 :: c3 :: a :: b :: ty :: payload ->
  exists r,
    parse_block (S f) true eof (c0 :: c1 :: c2 :: c3 :: a :: b :: ty' :: payload' ++ tail)
    = PBad r :: (if eof then [PEof] else []).
Proof. exact log_reader_rejects_altered_record. Qed.
Print Assumptions C15_single_alteration_detected.

(* The reader's comparison itself ([log_crc_ok] = the test made by [parse_block]) fails when
   one byte of [ty :: payload] is overwritten, when one bit is flipped, and when only the
   stored checksum bytes are altered. *)
Theorem C15_byte_overwrite_detected :
  forall ty payload pre b post b' ty' payload' c0 c1 c2 c3,
  wf_bytes (ty :: payload) = true ->
  ty :: payload = pre ++ b :: post -> ty' :: payload' = pre ++ b' :: post ->
  b' < 256 -> b' <> b ->
  le32 (crc_mask (crc_extend (crc_value [ty]) payload)) = [c0; c1; c2; c3] ->
  log_crc_ok c0 c1 c2 c3 ty' payload' = false.
Proof. exact log_record_byte_overwrite_detected. Qed.
Print Assumptions C15_byte_overwrite_detected.

Theorem C15_bit_flip_detected :
  forall ty payload pre b post j ty' payload' c0 c1 c2 c3,
  wf_bytes (ty :: payload) = true ->
  ty :: payload = pre ++ b :: post ->
  ty' :: payload' = pre ++ N.lxor b (2 ^ j) :: post -> j < 8 ->
  le32 (crc_mask (crc_extend (crc_value [ty]) payload)) = [c0; c1; c2; c3] ->
  log_crc_ok c0 c1 c2 c3 ty' payload' = false.
Proof. exact log_record_bit_flip_detected. Qed.
Print Assumptions C15_bit_flip_detected.

Theorem C15_crc_field_alteration_detected :
  forall ty payload c0 c1 c2 c3 c0' c1' c2' c3',
  wf_bytes (ty :: payload) = true ->
  le32 (crc_mask (crc_extend (crc_value [ty]) payload)) = [c0; c1; c2; c3] ->
  c0' < 256 -> c1' < 256 -> c2' < 256 -> c3' < 256 ->
  [c0'; c1'; c2'; c3'] <> [c0; c1; c2; c3] ->
  log_crc_ok c0' c1' c2' c3' ty payload = false.
Proof. exact log_record_crc_field_alteration_detected. Qed.
Print Assumptions C15_crc_field_alteration_detected.

Theorem C15_crc_mismatch_means_bad_record : forall f eof c0 c1 c2 c3 a b ty payload tail,
  a + 256 * b = nlen payload ->
  log_crc_ok c0 c1 c2 c3 ty payload = false ->
  exists r,
    parse_block (S f) true eof (c0 :: c1 :: c2 :: c3 :: a :: b :: ty :: payload ++ tail)
    = PBad r :: (if eof then [PEof] else []).
Proof. exact parse_block_crc_mismatch. Qed.
Print Assumptions C15_crc_mismatch_means_bad_record.
