(* Properties_C15.v -- theorems for property C15 (placeholder until LogFormatProofs lands). *)
From LCDB Require Import Base Crc32c LogFormat.
Local Open Scope N_scope.

Theorem C15_standard_constants : BLOCK = 32768 /\ HEADER = 7 /\ T_FULL = 1 /\ T_FIRST = 2 /\ T_MIDDLE = 3 /\ T_LAST = 4.
Proof. repeat split; reflexivity. Qed.
Print Assumptions C15_standard_constants.
