(* Properties_C15.v -- C15: write-ahead-log framing is exact, standard and torn-tail tolerant.
   Only theorem statements, each closed by [exact] of a lemma proved in
   LogFormatProofs.v / LogFormatClosed.v / Crc32cProofs.v, with Print Assumptions. *)
From LCDB Require Import Base Crc32c LogFormat BaseProofs Crc32cProofs LogFormatClosed.
Local Open Scope N_scope.

(* The model is pinned to the LevelDB log format constants. *)
Theorem C15_standard_constants :
  BLOCK = 32768 /\ HEADER = 7 /\ T_FULL = 1 /\ T_FIRST = 2 /\ T_MIDDLE = 3 /\ T_LAST = 4 /\
  POLY = 2197175160 /\ MASK_DELTA = 2726488792.
Proof. repeat split; reflexivity. Qed.
Print Assumptions C15_standard_constants.

(* CRC-32C: the reference value, and mask/unmask are inverse on 32-bit values. *)
Theorem C15_crc_check_value : crc_value [49;50;51;52;53;54;55;56;57] = 3808858755.
Proof. exact crc_check_value. Qed.
Print Assumptions C15_crc_check_value.

Theorem C15_crc_unmask_mask : forall c, c < 4294967296 -> crc_unmask (crc_mask c) = c.
Proof. exact crc_unmask_mask. Qed.
Print Assumptions C15_crc_unmask_mask.

(* Any sequence of records of any sizes is read back identically, with no drop report. *)
Theorem C15_roundtrip : forall rs,
  Forall (fun r => wf_bytes r = true) rs -> read_log (write_log rs) = map Rec rs.
Proof. exact read_write_roundtrip. Qed.
Print Assumptions C15_roundtrip.

(* ... also when the log was closed and re-opened for append at any length (log reuse):
   the writer's only state is the file length modulo the block size. *)
Theorem C15_append_any_offset : forall rs1 rs2,
  write_log (rs1 ++ rs2) = write_log rs1 ++ write_log_from (nlen (write_log rs1)) rs2.
Proof. exact write_log_app. Qed.
Print Assumptions C15_append_any_offset.

Theorem C15_roundtrip_reopen : forall rs1 rs2,
  Forall (fun r => wf_bytes r = true) (rs1 ++ rs2) ->
  read_log (write_log rs1 ++ write_log_from (nlen (write_log rs1)) rs2) = map Rec (rs1 ++ rs2).
Proof. exact read_write_roundtrip_reopen. Qed.
Print Assumptions C15_roundtrip_reopen.

(* Cutting the file at ANY byte yields precisely the records wholly before the cut and no
   error report. *)
Theorem C15_cut : forall rs n,
  Forall (fun r => wf_bytes r = true) rs -> (n <= length (write_log rs))%nat ->
  exists k, read_log (firstn n (write_log rs)) = map Rec (firstn k rs) /\
    (length (write_log (firstn k rs)) <= n)%nat /\
    (k < length rs -> n < length (write_log (firstn (S k) rs)))%nat.
Proof. exact read_cut. Qed.
Print Assumptions C15_cut.

(* For ANY byte string: every record returned is a concatenation of payloads of physical
   records whose stored CRC verified (so altered bytes cannot invent a record unless a
   CRC-32C collision is produced). *)
Theorem C15_alter_no_invention : forall f r, In (Rec r) (read_log f) ->
  exists frags, r = concat frags /\ Forall (fun p => In p (verified_payloads f)) frags.
Proof. exact read_log_no_invention_structural. Qed.
Print Assumptions C15_alter_no_invention.

Theorem C15_verified_means_crc : forall f ty p,
  In (PRec ty p) (phys_events true f) -> is_verified_substring f ty p.
Proof. exact phys_events_verified. Qed.
Print Assumptions C15_verified_means_crc.

(* "always reports the drop" is FALSE of the faithful model (finding F3): a one-bit
   alteration loses every record without any report. *)
Theorem C15_alter_always_reported_refuted : exists rs f',
  Forall (fun r => wf_bytes r = true) rs /\ length f' = length (write_log rs) /\
  (f' = firstn 6 (write_log rs) ++ [0] ++ skipn 7 (write_log rs) /\ nth 6 (write_log rs) 0 = 1) /\
  records_of (read_log f') <> rs /\ drops_of (read_log f') = [].
Proof. exact zero_header_silent_refuted. Qed.
Print Assumptions C15_alter_always_reported_refuted.

(* Out-of-fuel is unreachable in the writer model. *)
Theorem C15_writer_fuel : forall fuel off data, off <= BLOCK ->
  (add_record_fuel data <= fuel)%nat -> add_record_loop fuel off true data = add_record off data.
Proof. exact add_record_fuel_ok. Qed.
Print Assumptions C15_writer_fuel.
