(* WFileProofs.v -- proofs about WFile.v (model of ldb_wfile_t and of the log
   writer driving it):
     wfile_bytes          nothing appended is lost, reordered or duplicated
     wfile_flush_empties  flush / sync / close leave the buffer empty
     wfile_buf_bound      the buffer never holds more than 64 KiB
     add_record_ops_bytes the log writer appends exactly fst (add_record off data)
     record_reaches_os    after ldb_writer_add_record every byte of the record
                          has been passed to write(2)
   All under the assumption stated in WFile.v: system calls succeed and
   write(2) writes everything it is given. *)
From LCDB Require Import Base Crc32c LogFormat WFile BaseProofs LogFormatProofs.
From Coq Require Import Lia ZifyBool ZifyNat ZifyN.
Local Open Scope N_scope.

#[local] Arguments N.mul : simpl never.
#[local] Arguments N.add : simpl never.
#[local] Arguments N.sub : simpl never.
#[local] Arguments N.div : simpl never.
#[local] Arguments N.modulo : simpl never.
#[local] Arguments N.ltb : simpl never.
#[local] Arguments N.leb : simpl never.
#[local] Arguments N.eqb : simpl never.
#[local] Arguments N.min : simpl never.
#[local] Arguments N.to_nat : simpl never.
#[local] Arguments N.of_nat : simpl never.

Lemma WBUF_eq : WBUF = 65536.
Proof. reflexivity. Qed.
Lemma WMAX_eq : WMAX = 1073741824.
Proof. reflexivity. Qed.
#[local] Opaque WBUF WMAX.

(* ------------------------------------------------------------------ *)
(* Observations                                                        *)
(* ------------------------------------------------------------------ *)

Lemma written_of_app : forall a b, written_of (a ++ b) = written_of a ++ written_of b.
Proof. intros a b. unfold written_of. apply flat_map_app. Qed.

Lemma written_of_nil : written_of [] = [].
Proof. reflexivity. Qed.

Lemma written_of_cons : forall e es, written_of (e :: es) = sys_bytes e ++ written_of es.
Proof. reflexivity. Qed.

Lemma write_sizes_app : forall a b, write_sizes (a ++ b) = write_sizes a ++ write_sizes b.
Proof. intros a b. unfold write_sizes. apply flat_map_app. Qed.

Lemma appended_app : forall a b, appended (a ++ b) = appended a ++ appended b.
Proof. intros a b. unfold appended. apply flat_map_app. Qed.

Lemma appended_cons : forall op ops, appended (op :: ops) = op_bytes op ++ appended ops.
Proof. reflexivity. Qed.

Lemma nlen_0_nil : forall A (l : list A), nlen l = 0 -> l = [].
Proof.
  intros A l H. destruct l as [|x l]; [reflexivity|].
  rewrite nlen_cons in H. lia.
Qed.

(* ------------------------------------------------------------------ *)
(* fd_write                                                           *)
(* ------------------------------------------------------------------ *)

Lemma os_write_bytes : forall fuel d, written_of (os_write fuel d) = d.
Proof.
  induction fuel as [|f IH]; intros d; destruct d as [|x d]; cbn [os_write]; try reflexivity.
  - rewrite written_of_cons, written_of_nil. cbn [sys_bytes]. apply app_nil_r.
  - destruct (nlen (x :: d) <=? WMAX) eqn:Hle.
    + rewrite written_of_cons, written_of_nil. cbn [sys_bytes]. apply app_nil_r.
    + rewrite written_of_cons, IH. cbn [sys_bytes]. apply take_drop.
Qed.

(* nothing is lost or duplicated by the write loop *)
Lemma fd_write_bytes : forall d, written_of (fd_write d) = d.
Proof. intros d. unfold fd_write. apply os_write_bytes. Qed.

(* a length of 0 issues no system call *)
Lemma fd_write_nil : fd_write [] = [].
Proof. unfold fd_write. destruct (N.to_nat (nlen (@nil N) / WMAX)); reflexivity. Qed.

(* up to 2^30 bytes: exactly one write(2) *)
Lemma fd_write_small : forall d, d <> [] -> nlen d <= WMAX -> fd_write d = [WsWrite d].
Proof.
  intros d Hne Hle. unfold fd_write. destruct d as [|x d]; [congruence|].
  destruct (N.to_nat (nlen (x :: d) / WMAX)); cbn [os_write]; [reflexivity|].
  destruct (nlen (x :: d) <=? WMAX) eqn:E; [reflexivity|lia].
Qed.

(* only write(2) calls, each non-empty *)
Lemma os_write_only_writes : forall fuel d,
  Forall (fun e => exists c, e = WsWrite c /\ c <> []) (os_write fuel d).
Proof.
  induction fuel as [|f IH]; intros d; destruct d as [|x d]; cbn [os_write]; try constructor.
  - exists (x :: d). split; [reflexivity|discriminate].
  - constructor.
  - destruct (nlen (x :: d) <=? WMAX) eqn:Hle.
    + constructor; [|constructor]. exists (x :: d). split; [reflexivity|discriminate].
    + constructor; [|apply IH].
      exists (take_n WMAX (x :: d)). split; [reflexivity|].
      intros Hnil. apply (f_equal (@nlen N)) in Hnil.
      rewrite nlen_take, nlen_nil in Hnil. rewrite WMAX_eq in *. lia.
Qed.

(* adequacy of the fuel of fd_write: every call carries between 1 and 2^30 bytes *)
Lemma os_write_chunks_bound : forall fuel d,
  nlen d / WMAX <= N.of_nat fuel ->
  Forall (fun e => exists c, e = WsWrite c /\ 0 < nlen c <= WMAX) (os_write fuel d).
Proof.
  induction fuel as [|f IH]; intros d Hf; destruct d as [|x d]; cbn [os_write]; try constructor.
  - exists (x :: d). split; [reflexivity|].
    rewrite nlen_cons in *. rewrite WMAX_eq in *. lia.
  - constructor.
  - destruct (nlen (x :: d) <=? WMAX) eqn:Hle.
    + constructor; [|constructor]. exists (x :: d). split; [reflexivity|].
      rewrite nlen_cons in *. lia.
    + constructor.
      * exists (take_n WMAX (x :: d)). split; [reflexivity|].
        rewrite nlen_take. rewrite WMAX_eq in *. lia.
      * apply IH. rewrite nlen_drop. rewrite WMAX_eq in *. lia.
Qed.

Lemma fd_write_chunks_bound : forall d,
  Forall (fun e => exists c, e = WsWrite c /\ 0 < nlen c <= WMAX) (fd_write d).
Proof.
  intros d. unfold fd_write. apply os_write_chunks_bound. lia.
Qed.

(* ------------------------------------------------------------------ *)
(* One operation                                                       *)
(* ------------------------------------------------------------------ *)

Lemma wf_emit_spec : forall w es buf,
  wf_out (fst (wf_emit w es buf)) = wf_out w ++ es /\
  wf_buf (fst (wf_emit w es buf)) = buf /\
  wf_manifest (fst (wf_emit w es buf)) = wf_manifest w /\
  snd (wf_emit w es buf) = es.
Proof. intros w es buf. unfold wf_emit. cbn [fst snd wf_out wf_buf wf_manifest]. auto. Qed.

(* the state records exactly the calls returned *)
Lemma wf_step_out : forall w op,
  wf_out (fst (wf_step w op)) = wf_out w ++ snd (wf_step w op).
Proof.
  intros w op. destruct op as [d| | |]; cbn [wf_step].
  - unfold wf_append.
    destruct (nlen (drop_n (N.min (nlen d) (WBUF - nlen (wf_buf w))) d) =? 0) eqn:E0;
      [reflexivity|].
    destruct (nlen (drop_n (N.min (nlen d) (WBUF - nlen (wf_buf w))) d) <? WBUF) eqn:E1;
      reflexivity.
  - reflexivity.
  - reflexivity.
  - reflexivity.
Qed.

Lemma wf_step_manifest : forall w op,
  wf_manifest (fst (wf_step w op)) = wf_manifest w.
Proof.
  intros w op. destruct op as [d| | |]; cbn [wf_step].
  - unfold wf_append.
    destruct (nlen (drop_n (N.min (nlen d) (WBUF - nlen (wf_buf w))) d) =? 0) eqn:E0;
      [reflexivity|].
    destruct (nlen (drop_n (N.min (nlen d) (WBUF - nlen (wf_buf w))) d) <? WBUF) eqn:E1;
      reflexivity.
  - reflexivity.
  - reflexivity.
  - reflexivity.
Qed.

(* written ++ buffer grows by exactly the bytes appended *)
Lemma wf_append_bytes : forall w d,
  written_of (snd (wf_append w d)) ++ wf_buf (fst (wf_append w d)) = wf_buf w ++ d.
Proof.
  intros w d. unfold wf_append.
  set (copy := N.min (nlen d) (WBUF - nlen (wf_buf w))).
  pose proof (take_drop N copy d) as Htd.
  destruct (nlen (drop_n copy d) =? 0) eqn:E0.
  - cbn [wf_emit fst snd wf_buf]. rewrite written_of_nil. cbn [app].
    assert (Hnil : drop_n copy d = []) by (apply nlen_0_nil; lia).
    rewrite Hnil, app_nil_r in Htd. rewrite Htd. reflexivity.
  - destruct (nlen (drop_n copy d) <? WBUF) eqn:E1.
    + cbn [wf_emit fst snd wf_buf]. rewrite fd_write_bytes, <- app_assoc, Htd. reflexivity.
    + cbn [wf_emit fst snd wf_buf]. rewrite written_of_app, !fd_write_bytes, app_nil_r.
      rewrite <- app_assoc, Htd. reflexivity.
Qed.

Lemma wf_flush_bytes : forall w,
  written_of (snd (wf_flush w)) = wf_buf w /\ wf_buf (fst (wf_flush w)) = [].
Proof.
  intros w. unfold wf_flush. cbn [wf_emit fst snd wf_buf]. rewrite fd_write_bytes. auto.
Qed.

Lemma wf_sync_bytes : forall w,
  written_of (snd (wf_sync w)) = wf_buf w /\ wf_buf (fst (wf_sync w)) = [].
Proof.
  intros w. unfold wf_sync. cbn [wf_emit fst snd wf_buf].
  rewrite !written_of_app, fd_write_bytes.
  destruct (wf_manifest w); cbn [written_of flat_map sys_bytes app]; rewrite app_nil_r; auto.
Qed.

Lemma wf_close_bytes : forall w,
  written_of (snd (wf_close w)) = wf_buf w /\ wf_buf (fst (wf_close w)) = [].
Proof.
  intros w. unfold wf_close. cbn [wf_emit fst snd wf_buf].
  rewrite !written_of_app, fd_write_bytes.
  cbn [written_of flat_map sys_bytes app]. rewrite app_nil_r. auto.
Qed.

Lemma wf_step_bytes : forall w op,
  written_of (snd (wf_step w op)) ++ wf_buf (fst (wf_step w op)) = wf_buf w ++ op_bytes op.
Proof.
  intros w op. destruct op as [d| | |]; cbn [wf_step op_bytes].
  - apply wf_append_bytes.
  - destruct (wf_flush_bytes w) as [-> ->]. reflexivity.
  - destruct (wf_sync_bytes w) as [-> ->]. reflexivity.
  - destruct (wf_close_bytes w) as [-> ->]. reflexivity.
Qed.

(* ------------------------------------------------------------------ *)
(* Operation sequences                                                 *)
(* ------------------------------------------------------------------ *)

Lemma wf_run_cons : forall w op ops,
  wf_run w (op :: ops) =
    (fst (wf_run (fst (wf_step w op)) ops),
     snd (wf_step w op) ++ snd (wf_run (fst (wf_step w op)) ops)).
Proof.
  intros w op ops. cbn [wf_run].
  destruct (wf_step w op) as [w1 e1]. cbn [fst snd].
  destruct (wf_run w1 ops) as [w2 e2]. reflexivity.
Qed.

Lemma wf_run_nil : forall w, wf_run w [] = (w, []).
Proof. reflexivity. Qed.

Lemma wf_run_app : forall ops1 ops2 w,
  wf_run w (ops1 ++ ops2) =
    (fst (wf_run (fst (wf_run w ops1)) ops2),
     snd (wf_run w ops1) ++ snd (wf_run (fst (wf_run w ops1)) ops2)).
Proof.
  induction ops1 as [|op ops1 IH]; intros ops2 w.
  - cbn [app]. rewrite wf_run_nil. cbn [fst snd app].
    destruct (wf_run w ops2); reflexivity.
  - cbn [app]. rewrite !wf_run_cons. cbn [fst snd]. rewrite IH. cbn [fst snd].
    rewrite app_assoc. reflexivity.
Qed.

Lemma wf_run_out : forall ops w,
  wf_out (fst (wf_run w ops)) = wf_out w ++ snd (wf_run w ops).
Proof.
  induction ops as [|op ops IH]; intros w.
  - rewrite wf_run_nil. cbn [fst snd]. rewrite app_nil_r. reflexivity.
  - rewrite wf_run_cons. cbn [fst snd]. rewrite IH, wf_step_out, app_assoc. reflexivity.
Qed.

(* the fold executed by the model driver is the run *)
Lemma wf_exec_run : forall ops w, wf_exec w ops = fst (wf_run w ops).
Proof.
  induction ops as [|op ops IH]; intros w.
  - reflexivity.
  - rewrite wf_run_cons. cbn [fst]. unfold wf_exec in *. cbn [fold_left]. apply IH.
Qed.

Lemma wf_exec_out : forall manifest ops,
  wf_out (wf_exec (wf_init manifest) ops) = snd (wf_run (wf_init manifest) ops).
Proof. intros m ops. rewrite wf_exec_run, wf_run_out. reflexivity. Qed.

Lemma wf_exec_is_run : forall manifest ops,
  wf_exec (wf_init manifest) ops = fst (wf_run (wf_init manifest) ops) /\
  wf_out (wf_exec (wf_init manifest) ops) = snd (wf_run (wf_init manifest) ops).
Proof. intros manifest ops. split; [apply wf_exec_run|apply wf_exec_out]. Qed.

Lemma wf_run_manifest : forall ops w, wf_manifest (fst (wf_run w ops)) = wf_manifest w.
Proof.
  induction ops as [|op ops IH]; intros w.
  - reflexivity.
  - rewrite wf_run_cons. cbn [fst]. rewrite IH. apply wf_step_manifest.
Qed.

(* calls issued ++ final buffer = initial buffer ++ bytes appended *)
Lemma wf_run_bytes : forall ops w,
  written_of (snd (wf_run w ops)) ++ wf_buf (fst (wf_run w ops)) = wf_buf w ++ appended ops.
Proof.
  induction ops as [|op ops IH]; intros w.
  - rewrite wf_run_nil. cbn [fst snd]. rewrite written_of_nil. cbn [app appended flat_map].
    rewrite app_nil_r. reflexivity.
  - rewrite wf_run_cons. cbn [fst snd].
    rewrite written_of_app, <- app_assoc, IH, appended_cons, !app_assoc.
    rewrite wf_step_bytes. reflexivity.
Qed.

Lemma wf_run_written : forall ops w,
  wf_written (fst (wf_run w ops)) ++ wf_buf (fst (wf_run w ops)) =
    wf_written w ++ wf_buf w ++ appended ops.
Proof.
  intros ops w. unfold wf_written.
  rewrite wf_run_out, written_of_app, <- app_assoc, wf_run_bytes. reflexivity.
Qed.

(* wfile_bytes: after any sequence of operations on a fresh file, everything
   passed to write(2), followed by what is still buffered, is exactly the
   concatenation of everything appended. *)
Theorem wfile_bytes : forall manifest ops,
  wf_written (fst (wf_run (wf_init manifest) ops)) ++
  wf_buf (fst (wf_run (wf_init manifest) ops)) = appended ops.
Proof.
  intros m ops. rewrite wf_run_written. reflexivity.
Qed.

(* the calls returned by the run are the calls recorded in the state, and the
   write(2) payloads alone reproduce the appended bytes up to the buffer *)
Theorem wfile_bytes_calls : forall manifest ops,
  wf_out (fst (wf_run (wf_init manifest) ops)) = snd (wf_run (wf_init manifest) ops) /\
  written_of (snd (wf_run (wf_init manifest) ops)) ++
  wf_buf (fst (wf_run (wf_init manifest) ops)) = appended ops.
Proof.
  intros m ops. split.
  - rewrite wf_run_out. reflexivity.
  - rewrite wf_run_bytes. reflexivity.
Qed.

(* ------------------------------------------------------------------ *)
(* flush / sync / close empty the buffer                               *)
(* ------------------------------------------------------------------ *)

Definition is_flushing (op : wfop) : Prop :=
  match op with WfAppend _ => False | _ => True end.

Lemma wf_step_flushing_empties : forall w op,
  is_flushing op -> wf_buf (fst (wf_step w op)) = [].
Proof.
  intros w op H. destruct op as [d| | |]; cbn [wf_step]; [destruct H|..]; reflexivity.
Qed.

(* wfile_flush_empties: flush, sync and close leave the buffer empty; hence
   after a history that ends with one of them, write(2) has received every
   byte appended so far. *)
Theorem wfile_flush_empties : forall w,
  wf_buf (fst (wf_flush w)) = [] /\ wf_buf (fst (wf_sync w)) = [] /\
  wf_buf (fst (wf_close w)) = [].
Proof. intros w. repeat split; reflexivity. Qed.

Theorem wfile_flushed_all_written : forall manifest ops op,
  is_flushing op ->
  wf_buf (fst (wf_run (wf_init manifest) (ops ++ [op]))) = [] /\
  wf_written (fst (wf_run (wf_init manifest) (ops ++ [op]))) = appended ops.
Proof.
  intros m ops op Hop.
  assert (Hb : wf_buf (fst (wf_run (wf_init m) (ops ++ [op]))) = []).
  { rewrite wf_run_app. cbn [fst]. rewrite wf_run_cons, wf_run_nil. cbn [fst].
    apply wf_step_flushing_empties. exact Hop. }
  split; [exact Hb|].
  pose proof (wfile_bytes m (ops ++ [op])) as H.
  rewrite Hb, app_nil_r, appended_app in H. rewrite H.
  destruct op as [d| | |]; [destruct Hop|..]; cbn [appended flat_map op_bytes app];
    apply app_nil_r.
Qed.

(* sync: the data is written before the fsync, and the directory fsync of a
   MANIFEST file comes first *)
Lemma wf_sync_calls : forall w,
  snd (wf_sync w) =
    (if wf_manifest w then [WsSyncDir] else []) ++ fd_write (wf_buf w) ++ [WsFsync].
Proof. reflexivity. Qed.

(* flush of an empty buffer / append of nothing: no system call *)
Lemma wf_flush_empty_no_call : forall w, wf_buf w = [] -> snd (wf_flush w) = [].
Proof. intros w H. unfold wf_flush. cbn [wf_emit snd]. rewrite H. apply fd_write_nil. Qed.

Lemma wf_append_nil_no_call : forall w,
  snd (wf_append w []) = [] /\ wf_buf (fst (wf_append w [])) = wf_buf w.
Proof.
  intros w. unfold wf_append.
  rewrite nlen_nil.
  assert (Hc : N.min 0 (WBUF - nlen (wf_buf w)) = 0) by lia. rewrite Hc.
  rewrite drop_0, take_0, nlen_nil. cbn [N.eqb wf_emit fst snd wf_buf].
  rewrite app_nil_r. auto.
Qed.

(* ------------------------------------------------------------------ *)
(* The buffer never overflows                                          *)
(* ------------------------------------------------------------------ *)

Lemma wf_step_buf_bound : forall w op,
  nlen (wf_buf w) <= WBUF -> nlen (wf_buf (fst (wf_step w op))) <= WBUF.
Proof.
  intros w op Hb. destruct op as [d| | |]; cbn [wf_step];
    try (cbn [wf_flush wf_sync wf_close wf_emit fst wf_buf]; rewrite nlen_nil; lia).
  unfold wf_append.
  set (copy := N.min (nlen d) (WBUF - nlen (wf_buf w))).
  destruct (nlen (drop_n copy d) =? 0) eqn:E0.
  - cbn [wf_emit fst wf_buf]. rewrite nlen_app, nlen_take. subst copy. lia.
  - destruct (nlen (drop_n copy d) <? WBUF) eqn:E1; cbn [wf_emit fst wf_buf].
    + lia.
    + rewrite nlen_nil. lia.
Qed.

Theorem wfile_buf_bound : forall ops w,
  nlen (wf_buf w) <= WBUF -> nlen (wf_buf (fst (wf_run w ops))) <= WBUF.
Proof.
  induction ops as [|op ops IH]; intros w Hb.
  - exact Hb.
  - rewrite wf_run_cons. cbn [fst]. apply IH. apply wf_step_buf_bound. exact Hb.
Qed.

(* ------------------------------------------------------------------ *)
(* The log writer                                                      *)
(* ------------------------------------------------------------------ *)

Lemma phys_record_split : forall ty p, phys_record ty p = phys_header ty p ++ p.
Proof.
  intros ty p. unfold phys_record, phys_header. rewrite <- app_assoc. reflexivity.
Qed.

Lemma appended_emit_ops : forall ty p, appended (emit_ops ty p) = phys_record ty p.
Proof.
  intros ty p. unfold emit_ops. rewrite !appended_cons. cbn [op_bytes appended flat_map app].
  rewrite app_nil_r. symmetry. apply phys_record_split.
Qed.

Definition pad_ops_of (off : N) : list wfop :=
  if BLOCK - off <? HEADER
  then (if 0 <? BLOCK - off then [WfAppend (repeat 0 (N.to_nat (BLOCK - off)))] else [])
  else [].

Lemma appended_pad_ops : forall off, appended (pad_ops_of off) = pad_of off.
Proof.
  intros off. unfold pad_ops_of, pad_of.
  destruct (BLOCK - off <? HEADER) eqn:E; [|reflexivity].
  destruct (0 <? BLOCK - off) eqn:E0.
  - cbn [appended flat_map op_bytes]. apply app_nil_r.
  - assert (H0 : BLOCK - off = 0) by lia. rewrite H0. reflexivity.
Qed.

Lemma add_record_step_ops_eq : forall off b data,
  add_record_step_ops off b data =
    (pad_ops_of off ++ emit_ops (frag_type b (nlen data =? flen_of off data))
                                (take_n (flen_of off data) data),
     off1_of off + HEADER + flen_of off data,
     if nlen data =? flen_of off data then None
     else Some (drop_n (flen_of off data) data)).
Proof. reflexivity. Qed.

Lemma add_record_loop_ops_eq : forall fuel off b data,
  add_record_loop_ops fuel off b data =
    if nlen data =? flen_of off data then
      (pad_ops_of off ++ emit_ops (frag_type b true) (take_n (flen_of off data) data),
       off1_of off + HEADER + flen_of off data)
    else
      match fuel with
      | O => (pad_ops_of off ++ emit_ops (frag_type b false) (take_n (flen_of off data) data),
              off1_of off + HEADER + flen_of off data)
      | S f =>
        ((pad_ops_of off ++ emit_ops (frag_type b false) (take_n (flen_of off data) data)) ++
           fst (add_record_loop_ops f (off1_of off + HEADER + flen_of off data) false
                                    (drop_n (flen_of off data) data)),
         snd (add_record_loop_ops f (off1_of off + HEADER + flen_of off data) false
                                    (drop_n (flen_of off data) data)))
      end.
Proof.
  intros fuel off b data.
  destruct fuel; cbn [add_record_loop_ops]; rewrite add_record_step_ops_eq; cbv beta iota zeta;
    destruct (nlen data =? flen_of off data); try reflexivity.
  destruct (add_record_loop_ops _ _ _ _); reflexivity.
Qed.

#[local] Opaque add_record_loop_ops add_record_loop.

Lemma appended_step_ops : forall off ty p,
  appended (pad_ops_of off ++ emit_ops ty p) = pad_of off ++ phys_record ty p.
Proof.
  intros off ty p. rewrite appended_app, appended_pad_ops, appended_emit_ops. reflexivity.
Qed.

(* the operations of the writer loop carry exactly the bytes of the format
   model, and compute the same block offset *)
Lemma add_record_loop_ops_bytes : forall fuel off b data,
  appended (fst (add_record_loop_ops fuel off b data)) = fst (add_record_loop fuel off b data) /\
  snd (add_record_loop_ops fuel off b data) = snd (add_record_loop fuel off b data).
Proof.
  induction fuel as [|f IH]; intros off b data;
    rewrite add_record_loop_ops_eq, add_record_loop_eq;
    destruct (nlen data =? flen_of off data) eqn:E; cbn [fst snd];
    try (split; [apply appended_step_ops|reflexivity]).
  destruct (IH (off1_of off + HEADER + flen_of off data) false
               (drop_n (flen_of off data) data)) as [IH1 IH2].
  split.
  - rewrite appended_app, appended_step_ops, IH1. reflexivity.
  - exact IH2.
Qed.

Theorem add_record_ops_bytes : forall off data,
  appended (fst (add_record_ops off data)) = fst (add_record off data) /\
  snd (add_record_ops off data) = snd (add_record off data).
Proof. intros off data. unfold add_record_ops, add_record. apply add_record_loop_ops_bytes. Qed.

(* the last operation of ldb_writer_add_record is a flush *)
Lemma add_record_loop_ops_ends_with_flush : forall fuel off b data,
  exists ops', fst (add_record_loop_ops fuel off b data) = ops' ++ [WfFlush].
Proof.
  assert (Hstep : forall off ty p, exists ops',
            pad_ops_of off ++ emit_ops ty p = ops' ++ [WfFlush]).
  { intros off ty p. exists (pad_ops_of off ++ [WfAppend (phys_header ty p); WfAppend p]).
    rewrite <- app_assoc. reflexivity. }
  induction fuel as [|f IH]; intros off b data;
    rewrite add_record_loop_ops_eq;
    destruct (nlen data =? flen_of off data) eqn:E; cbn [fst]; try apply Hstep.
  destruct (IH (off1_of off + HEADER + flen_of off data) false
               (drop_n (flen_of off data) data)) as [ops' Hops'].
  rewrite Hops'. eexists. rewrite app_assoc. reflexivity.
Qed.

Lemma add_record_ops_ends_with_flush : forall off data,
  exists ops', fst (add_record_ops off data) = ops' ++ [WfFlush].
Proof. intros off data. unfold add_record_ops. apply add_record_loop_ops_ends_with_flush. Qed.

Lemma wf_run_ends_with_flush : forall ops w, wf_buf (fst (wf_run w (ops ++ [WfFlush]))) = [].
Proof.
  intros ops w. rewrite wf_run_app. cbn [fst]. rewrite wf_run_cons, wf_run_nil. reflexivity.
Qed.

(* record_reaches_os: ldb_writer_add_record on a file in any state [w], at
   block offset [off]: when it returns, the buffer is empty, the block offset
   is the one of the format model, and write(2) has received what was
   buffered before followed by every byte of the record's encoding
   fst (add_record off data) -- in particular, from an empty buffer,
   written = previously written ++ fst (add_record off data). *)
Theorem record_reaches_os_gen : forall w off data,
  let '(r, off') := wfile_add_record w off data in
  wf_buf (fst r) = [] /\
  off' = snd (add_record off data) /\
  written_of (snd r) = wf_buf w ++ fst (add_record off data) /\
  wf_out (fst r) = wf_out w ++ snd r /\
  wf_written (fst r) = wf_written w ++ wf_buf w ++ fst (add_record off data).
Proof.
  intros w off data. unfold wfile_add_record.
  destruct (add_record_ops_bytes off data) as [Hb Ho].
  destruct (add_record_ops_ends_with_flush off data) as [ops' Hops'].
  destruct (add_record_ops off data) as [ops off'] eqn:Eops. cbn [fst snd] in *.
  assert (Hbuf : wf_buf (fst (wf_run w ops)) = []).
  { rewrite Hops'. apply wf_run_ends_with_flush. }
  pose proof (wf_run_bytes ops w) as Hrb. rewrite Hbuf, app_nil_r, Hb in Hrb.
  pose proof (wf_run_written ops w) as Hrw. rewrite Hbuf, app_nil_r, Hb in Hrw.
  repeat split; auto using wf_run_out.
Qed.

Theorem record_reaches_os : forall w off data,
  wf_buf w = [] ->
  let '(r, off') := wfile_add_record w off data in
  wf_buf (fst r) = [] /\
  off' = snd (add_record off data) /\
  written_of (snd r) = fst (add_record off data) /\
  wf_written (fst r) = wf_written w ++ fst (add_record off data).
Proof.
  intros w off data Hw.
  pose proof (record_reaches_os_gen w off data) as H.
  destruct (wfile_add_record w off data) as [r off'].
  destruct H as (H1 & H2 & H3 & _ & H5). rewrite Hw in *. cbn [app] in *. auto.
Qed.

(* a whole log: records added one after the other to a fresh file (block
   offset 0) put exactly write_log rs through write(2), with nothing left in
   the buffer after each record *)
(* [wfile_add_records] is defined in WFile.v *)

Lemma wfile_add_records_written : forall rs w off,
  wf_buf w = [] ->
  wf_buf (fst (wfile_add_records w off rs)) = [] /\
  wf_written (fst (wfile_add_records w off rs)) = wf_written w ++ write_records off rs.
Proof.
  induction rs as [|r rs IH]; intros w off Hw.
  - cbn [wfile_add_records write_records fst]. rewrite app_nil_r. auto.
  - cbn [wfile_add_records write_records].
    pose proof (record_reaches_os w off r Hw) as H.
    destruct (wfile_add_record w off r) as [x off'].
    destruct H as (H1 & H2 & _ & H4).
    destruct (add_record off r) as [out off2]. cbn [fst snd] in *. subst off2.
    destruct (IH (fst x) off' H1) as [IH1 IH2].
    split; [exact IH1|]. rewrite IH2, H4, <- app_assoc. reflexivity.
Qed.

Theorem log_reaches_os : forall manifest rs,
  wf_buf (fst (wfile_add_records (wf_init manifest) 0 rs)) = [] /\
  wf_written (fst (wfile_add_records (wf_init manifest) 0 rs)) = write_log rs.
Proof.
  intros m rs.
  destruct (wfile_add_records_written rs (wf_init m) 0 eq_refl) as [H1 H2].
  split; [exact H1|]. rewrite H2. reflexivity.
Qed.

(* ------------------------------------------------------------------ *)
(* Exact system calls of the log writer: one write(2) per fragment     *)
(* ------------------------------------------------------------------ *)

(* the bytes of each iteration of the writer loop (trailer padding of the
   previous block ++ header ++ fragment), one list element per iteration *)
(* [add_record_chunks] is defined in WFile.v *)

Lemma add_record_chunks_eq : forall fuel off b data,
  add_record_chunks fuel off b data =
    if nlen data =? flen_of off data then
      [pad_of off ++ phys_record (frag_type b true) (take_n (flen_of off data) data)]
    else
      match fuel with
      | O => [pad_of off ++ phys_record (frag_type b false) (take_n (flen_of off data) data)]
      | S f =>
        (pad_of off ++ phys_record (frag_type b false) (take_n (flen_of off data) data)) ::
          add_record_chunks f (off1_of off + HEADER + flen_of off data) false
                            (drop_n (flen_of off data) data)
      end.
Proof.
  intros fuel off b data.
  destruct fuel; cbn [add_record_chunks]; rewrite add_record_step_eq; cbv beta iota zeta;
    destruct (nlen data =? flen_of off data); reflexivity.
Qed.

#[local] Opaque add_record_chunks.

Lemma add_record_chunks_concat : forall fuel off b data,
  concat (add_record_chunks fuel off b data) = fst (add_record_loop fuel off b data).
Proof.
  induction fuel as [|f IH]; intros off b data;
    rewrite add_record_chunks_eq, add_record_loop_eq;
    destruct (nlen data =? flen_of off data) eqn:E; cbn [fst concat];
    try apply app_nil_r.
  rewrite IH. reflexivity.
Qed.

(* an append that fits: copied into the buffer, no system call *)
Lemma wf_append_fits : forall w d,
  nlen (wf_buf w) + nlen d <= WBUF ->
  wf_append w d = wf_emit w [] (wf_buf w ++ d).
Proof.
  intros w d H. unfold wf_append.
  assert (Hc : N.min (nlen d) (WBUF - nlen (wf_buf w)) = nlen d) by lia. rewrite Hc.
  rewrite (drop_all N (nlen d) d) by lia. rewrite (take_all N (nlen d) d) by lia.
  rewrite nlen_nil. reflexivity.
Qed.

Lemma nlen_pad_of_lt : forall off, nlen (pad_of off) < HEADER.
Proof.
  intros off. unfold pad_of. destruct (BLOCK - off <? HEADER) eqn:E.
  - rewrite nlen_repeat. lia.
  - rewrite nlen_nil. rewrite HEADER_eq. lia.
Qed.

Lemma nlen_phys_header : forall ty p, nlen (phys_header ty p) = HEADER.
Proof. reflexivity. Qed.

Lemma flen_of_le : forall off data, flen_of off data <= 32761.
Proof.
  intros off data. unfold flen_of, avail_of, off1_of. rewrite BLOCK_eq, HEADER_eq.
  destruct (32768 - off <? 7) eqn:E1;
    match goal with |- context [if ?x <? ?y then _ else _] => destruct (x <? y) eqn:E2 end; lia.
Qed.

Lemma wf_append_fits_mk : forall m o b d,
  nlen b + nlen d <= WBUF ->
  wf_append (mk_wfile m o b) d = (mk_wfile m o (b ++ d), []).
Proof.
  intros m o b d H. rewrite wf_append_fits by exact H.
  unfold wf_emit. cbn [wf_manifest wf_out wf_buf]. rewrite app_nil_r. reflexivity.
Qed.

Lemma wf_run_pad_ops : forall m o off,
  wf_run (mk_wfile m o []) (pad_ops_of off) = (mk_wfile m o (pad_of off), []).
Proof.
  intros m o off. pose proof (nlen_pad_of_lt off) as Hpad. rewrite HEADER_eq in Hpad.
  unfold pad_ops_of, pad_of in *. destruct (BLOCK - off <? HEADER) eqn:E.
  - destruct (0 <? BLOCK - off) eqn:E0.
    + rewrite wf_run_cons, wf_run_nil. cbn [wf_step].
      rewrite wf_append_fits_mk by (rewrite nlen_nil, WBUF_eq; lia).
      cbn [fst snd app]. reflexivity.
    + assert (H0 : BLOCK - off = 0) by lia. rewrite H0. reflexivity.
  - reflexivity.
Qed.

Lemma wf_run_emit_ops : forall m o b ty p,
  nlen b < 7 -> nlen p <= 32761 ->
  wf_run (mk_wfile m o b) (emit_ops ty p) =
    (mk_wfile m (o ++ [WsWrite (b ++ phys_record ty p)]) [], [WsWrite (b ++ phys_record ty p)]).
Proof.
  intros m o b ty p Hb Hp. unfold emit_ops.
  rewrite wf_run_cons. cbn [wf_step].
  rewrite wf_append_fits_mk by (rewrite nlen_phys_header, HEADER_eq, WBUF_eq; lia).
  cbn [fst snd app].
  rewrite wf_run_cons. cbn [wf_step].
  rewrite wf_append_fits_mk
    by (rewrite nlen_app, nlen_phys_header, HEADER_eq, WBUF_eq; lia).
  cbn [fst snd app].
  rewrite wf_run_cons, wf_run_nil. cbn [wf_step fst snd].
  unfold wf_flush, wf_emit. cbn [wf_manifest wf_out wf_buf fst snd].
  rewrite app_nil_r.
  assert (Heq : (b ++ phys_header ty p) ++ p = b ++ phys_record ty p).
  { rewrite <- app_assoc, phys_record_split. reflexivity. }
  rewrite Heq. rewrite fd_write_small.
  - reflexivity.
  - intros Hnil. apply (f_equal (@nlen N)) in Hnil.
    rewrite nlen_app, nlen_phys_record, nlen_nil, HEADER_eq in Hnil. lia.
  - rewrite nlen_app, nlen_phys_record, HEADER_eq, WMAX_eq. lia.
Qed.

(* one iteration from an empty buffer: a single write(2) carrying
   padding ++ header ++ fragment, and the buffer is empty again *)
Lemma wf_run_step_ops : forall w off ty p,
  wf_buf w = [] -> nlen p <= 32761 ->
  wf_run w (pad_ops_of off ++ emit_ops ty p) =
    (mk_wfile (wf_manifest w) (wf_out w ++ [WsWrite (pad_of off ++ phys_record ty p)]) [],
     [WsWrite (pad_of off ++ phys_record ty p)]).
Proof.
  intros w off ty p Hw Hp.
  destruct w as [m o b]. cbn [wf_buf wf_manifest wf_out] in *. subst b.
  pose proof (nlen_pad_of_lt off) as Hpad. rewrite HEADER_eq in Hpad.
  rewrite wf_run_app, wf_run_pad_ops. cbn [fst snd app].
  rewrite wf_run_emit_ops by assumption. reflexivity.
Qed.

Lemma nlen_take_flen : forall off data, nlen (take_n (flen_of off data) data) <= 32761.
Proof.
  intros off data. rewrite nlen_take. pose proof (flen_of_le off data). lia.
Qed.

Lemma add_record_loop_ops_calls : forall fuel w off b data,
  wf_buf w = [] ->
  snd (wf_run w (fst (add_record_loop_ops fuel off b data))) =
    map WsWrite (add_record_chunks fuel off b data) /\
  wf_buf (fst (wf_run w (fst (add_record_loop_ops fuel off b data)))) = [].
Proof.
  induction fuel as [|f IH]; intros w off b data Hw;
    rewrite add_record_loop_ops_eq, add_record_chunks_eq;
    destruct (nlen data =? flen_of off data) eqn:E; cbn [fst snd];
    try (rewrite (wf_run_step_ops w off _ _ Hw (nlen_take_flen off data));
         cbn [fst snd map wf_buf]; auto).
  rewrite wf_run_app.
  rewrite (wf_run_step_ops w off _ _ Hw (nlen_take_flen off data)). cbn [fst snd map app].
  match goal with |- context [wf_run ?w1 _] =>
    destruct (IH w1 (off1_of off + HEADER + flen_of off data) false
                 (drop_n (flen_of off data) data) eq_refl) as [IH1 IH2] end.
  rewrite IH1, IH2. auto.
Qed.

(* From an empty buffer, ldb_writer_add_record issues exactly one write(2)
   per fragment -- carrying the zero trailer of the previous block (if any),
   the 7-byte header and the fragment payload -- and nothing else. *)
Theorem record_one_write_per_fragment : forall w off data,
  wf_buf w = [] ->
  snd (fst (wfile_add_record w off data)) =
    map WsWrite (add_record_chunks (add_record_fuel data) off true data) /\
  concat (add_record_chunks (add_record_fuel data) off true data) = fst (add_record off data).
Proof.
  intros w off data Hw. split.
  - unfold wfile_add_record, add_record_ops.
    destruct (add_record_loop_ops_calls (add_record_fuel data) w off true data Hw) as [H _].
    destruct (add_record_loop_ops (add_record_fuel data) off true data) as [ops off'].
    cbn [fst snd] in *. exact H.
  - unfold add_record. apply add_record_chunks_concat.
Qed.

(* MANIFEST records (and log records of sync writes): the fsync follows the
   last write(2) of the record; for a MANIFEST the directory fsync comes in
   between (ldb_wfile_sync0: sync_dir, flush [nothing left to write], fsync) *)
Theorem record_sync_calls : forall w off data,
  wf_buf w = [] ->
  snd (fst (wfile_add_record_sync w off data)) =
    map WsWrite (add_record_chunks (add_record_fuel data) off true data) ++
    (if wf_manifest w then [WsSyncDir] else []) ++ [WsFsync] /\
  wf_buf (fst (fst (wfile_add_record_sync w off data))) = [].
Proof.
  intros w off data Hw. unfold wfile_add_record_sync, add_record_ops.
  destruct (add_record_loop_ops_calls (add_record_fuel data) w off true data Hw) as [H1 H2].
  destruct (add_record_loop_ops (add_record_fuel data) off true data) as [ops off'].
  cbn [fst snd] in *.
  rewrite wf_run_app. cbn [fst snd]. rewrite wf_run_cons, wf_run_nil. cbn [wf_step fst snd].
  rewrite H1, app_nil_r. split; [|reflexivity].
  f_equal. rewrite wf_sync_calls, H2, fd_write_nil, wf_run_manifest. reflexivity.
Qed.
