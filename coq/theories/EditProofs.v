(* EditProofs.v -- proofs about Edit.v: ldb_edit_import (ldb_edit_export e) returns
   the canonical form of e for every well-formed edit. *)
From LCDB Require Import Base Varint BaseProofs VarintProofs MetaLemmas Edit.
From Coq Require Import Lia ZifyBool ZifyNat ZifyN Sorted.
Local Open Scope N_scope.

Ltac Zify.zify_post_hook ::= Z.div_mod_to_equations.

#[local] Arguments N.mul : simpl never.
#[local] Arguments N.add : simpl never.
#[local] Arguments N.div : simpl never.
#[local] Arguments N.modulo : simpl never.
#[local] Arguments N.ltb : simpl never.
#[local] Arguments N.leb : simpl never.

(* ------------------------------------------------------------------ *)
(* Readers consume input                                               *)
(* ------------------------------------------------------------------ *)

Lemma level_read_shrinks : forall l v r,
  level_read l = Some (v, r) -> (length r < length l)%nat.
Proof.
  unfold level_read. intros l v r H.
  destruct (varint32_read l) as [[n b]|] eqn:Hv; [|discriminate H].
  destruct (EDIT_NUM_LEVELS <=? n); [discriminate H|].
  injection H as _ Hr. subst r. apply varint32_read_shrinks in Hv. exact Hv.
Qed.

Lemma import_step_shrinks : forall input e rest e',
  import_step input e = Some (rest, e') -> (length rest < length input)%nat.
Proof.
  unfold import_step. intros input e rest e' H.
  destruct (varint32_read input) as [[tag r]|] eqn:Ht; [|discriminate H].
  apply varint32_read_shrinks in Ht.
  repeat match type of H with
  | (if ?c then _ else _) = _ => destruct c
  | match slice_read ?x with _ => _ end = _ =>
      let E := fresh "E" in
      destruct (slice_read x) as [[? ?]|] eqn:E; [apply slice_read_shrinks in E|discriminate H]
  | match varint64_read ?x with _ => _ end = _ =>
      let E := fresh "E" in
      destruct (varint64_read x) as [[? ?]|] eqn:E; [apply varint64_read_shrinks in E|discriminate H]
  | match level_read ?x with _ => _ end = _ =>
      let E := fresh "E" in
      destruct (level_read x) as [[? ?]|] eqn:E; [apply level_read_shrinks in E|discriminate H]
  end;
  try discriminate H;
  injection H as Hr _; subst rest; lia.
Qed.

(* ------------------------------------------------------------------ *)
(* Fuel independence and the fuel-free view of the loop                *)
(* ------------------------------------------------------------------ *)

Lemma import_loop_nil : forall f e, import_loop f [] e = Some e.
Proof. intros [|f] e; reflexivity. Qed.

Lemma import_loop_fuel : forall f1 f2 input e,
  (length input <= f1)%nat -> (length input <= f2)%nat ->
  import_loop f1 input e = import_loop f2 input e.
Proof.
  induction f1 as [|f1 IH]; intros f2 input e H1 H2.
  - destruct input; [|cbn [length] in H1; lia].
    rewrite !import_loop_nil. reflexivity.
  - destruct input as [|x t]; [rewrite !import_loop_nil; reflexivity|].
    destruct f2 as [|f2]; [cbn [length] in H2; lia|].
    cbn [import_loop].
    destruct (import_step (x :: t) e) as [[rest e']|] eqn:Hs; [|reflexivity].
    apply import_step_shrinks in Hs. cbn [length] in *.
    apply IH; lia.
Qed.

Definition import_all (input : bytes) (e : edit) : option edit :=
  import_loop (length input) input e.

Lemma edit_import_all : forall src, edit_import src = import_all src edit_empty.
Proof. reflexivity. Qed.

Lemma import_all_nil : forall e, import_all [] e = Some e.
Proof. reflexivity. Qed.

Lemma import_all_step : forall input e rest e',
  import_step input e = Some (rest, e') -> import_all input e = import_all rest e'.
Proof.
  intros input e rest e' Hs. unfold import_all.
  destruct input as [|x t].
  - unfold import_step in Hs. cbn in Hs. discriminate Hs.
  - cbn [length import_loop]. rewrite Hs.
    apply import_step_shrinks in Hs. cbn [length] in Hs.
    apply import_loop_fuel; lia.
Qed.

Lemma import_all_fail : forall input e,
  input <> [] -> import_step input e = None -> import_all input e = None.
Proof.
  intros input e Hne Hs. unfold import_all.
  destruct input as [|x t]; [contradiction|].
  cbn [length import_loop]. rewrite Hs. reflexivity.
Qed.

(* ------------------------------------------------------------------ *)
(* One record                                                          *)
(* ------------------------------------------------------------------ *)

Ltac step_start :=
  unfold import_step;
  rewrite varint32_read_write by reflexivity;
  cbv beta iota;
  unfold TAG_COMPARATOR, TAG_LOG_NUMBER, TAG_NEXT_FILE_NUMBER, TAG_LAST_SEQUENCE,
         TAG_COMPACT_POINTER, TAG_DELETED_FILE, TAG_NEW_FILE, TAG_PREV_LOG_NUMBER;
  cbn [N.eqb Pos.eqb].

Lemma level_read_write : forall lvl rest,
  lvl < EDIT_NUM_LEVELS -> level_read (varint32_write lvl ++ rest) = Some (lvl, rest).
Proof.
  intros lvl rest H. unfold EDIT_NUM_LEVELS in H. unfold level_read.
  rewrite varint32_read_write by lia. cbv beta iota.
  replace (EDIT_NUM_LEVELS <=? lvl) with false
    by (symmetry; apply N.leb_gt; unfold EDIT_NUM_LEVELS; lia).
  reflexivity.
Qed.

Lemma step_comparator : forall c rest e,
  wf_str c = true ->
  import_step (varint32_write TAG_COMPARATOR ++ slice_write c ++ rest) e
  = Some (rest, edit_set_comparator e c).
Proof.
  intros c rest e H. unfold wf_str in H. apply N.ltb_lt in H.
  step_start. rewrite slice_read_write by exact H. reflexivity.
Qed.

Lemma step_log_number : forall n rest e,
  wf_u64 n = true ->
  import_step (varint32_write TAG_LOG_NUMBER ++ varint64_write n ++ rest) e
  = Some (rest, edit_set_log_number e n).
Proof.
  intros n rest e H. unfold wf_u64 in H. apply N.ltb_lt in H.
  step_start. rewrite varint64_read_write by exact H. reflexivity.
Qed.

Lemma step_prev_log_number : forall n rest e,
  wf_u64 n = true ->
  import_step (varint32_write TAG_PREV_LOG_NUMBER ++ varint64_write n ++ rest) e
  = Some (rest, edit_set_prev_log_number e n).
Proof.
  intros n rest e H. unfold wf_u64 in H. apply N.ltb_lt in H.
  step_start. rewrite varint64_read_write by exact H. reflexivity.
Qed.

Lemma step_next_file : forall n rest e,
  wf_u64 n = true ->
  import_step (varint32_write TAG_NEXT_FILE_NUMBER ++ varint64_write n ++ rest) e
  = Some (rest, edit_set_next_file e n).
Proof.
  intros n rest e H. unfold wf_u64 in H. apply N.ltb_lt in H.
  step_start. rewrite varint64_read_write by exact H. reflexivity.
Qed.

Lemma step_last_sequence : forall n rest e,
  wf_u64 n = true ->
  import_step (varint32_write TAG_LAST_SEQUENCE ++ varint64_write n ++ rest) e
  = Some (rest, edit_set_last_sequence e n).
Proof.
  intros n rest e H. unfold wf_u64 in H. apply N.ltb_lt in H.
  step_start. rewrite varint64_read_write by exact H. reflexivity.
Qed.

Lemma wf_key_bounds : forall k, wf_key k = true -> 8 <= nlen k /\ nlen k < 4294967296.
Proof.
  intros k H. unfold wf_key in H. apply andb_true_iff in H. destruct H as [H1 H2].
  apply N.leb_le in H1. apply N.ltb_lt in H2. split; assumption.
Qed.

Lemma step_compact : forall p rest e,
  wf_level (fst p) = true -> wf_key (snd p) = true ->
  import_step (export_compact p ++ rest) e
  = Some (rest, edit_set_compact_pointer e (fst p) (snd p)).
Proof.
  intros [lvl k] rest e Hl Hk. cbn [fst snd] in *.
  unfold wf_level in Hl. apply N.ltb_lt in Hl.
  apply wf_key_bounds in Hk. destruct Hk as [Hk8 Hk32].
  unfold export_compact. cbn [fst snd]. rewrite <- !app_assoc.
  step_start. rewrite level_read_write by exact Hl. cbv beta iota.
  rewrite slice_read_write by exact Hk32. cbv beta iota.
  replace (nlen k <? 8) with false by (symmetry; apply N.ltb_ge; lia).
  reflexivity.
Qed.

Lemma step_deleted : forall p rest e,
  wf_level (fst p) = true -> wf_u64 (snd p) = true ->
  import_step (export_deleted p ++ rest) e
  = Some (rest, edit_remove_file e (fst p) (snd p)).
Proof.
  intros [lvl n] rest e Hl Hn. cbn [fst snd] in *.
  unfold wf_level in Hl. apply N.ltb_lt in Hl.
  unfold wf_u64 in Hn. apply N.ltb_lt in Hn.
  unfold export_deleted. cbn [fst snd]. rewrite <- !app_assoc.
  step_start. rewrite level_read_write by exact Hl. cbv beta iota.
  rewrite varint64_read_write by exact Hn. reflexivity.
Qed.

Lemma step_newfile : forall f rest e,
  wf_newfile f = true ->
  import_step (export_newfile f ++ rest) e = Some (rest, edit_add_file e f).
Proof.
  intros [lvl num sz sm lg] rest e H. unfold wf_newfile in H. cbn [nf_level nf_number nf_size nf_smallest nf_largest] in H.
  rewrite !andb_true_iff in H. destruct H as [[[[Hl Hn] Hz] Hs] Hg].
  unfold wf_level in Hl. apply N.ltb_lt in Hl.
  unfold wf_u64 in Hn, Hz. apply N.ltb_lt in Hn. apply N.ltb_lt in Hz.
  apply wf_key_bounds in Hs. destruct Hs as [Hs8 Hs32].
  apply wf_key_bounds in Hg. destruct Hg as [Hg8 Hg32].
  unfold export_newfile. cbn [nf_level nf_number nf_size nf_smallest nf_largest].
  rewrite <- !app_assoc.
  step_start. rewrite level_read_write by exact Hl. cbv beta iota.
  rewrite varint64_read_write by exact Hn. cbv beta iota.
  rewrite varint64_read_write by exact Hz. cbv beta iota.
  rewrite slice_read_write by exact Hs32. cbv beta iota.
  rewrite slice_read_write by exact Hg32. cbv beta iota.
  replace (nlen sm <? 8) with false by (symmetry; apply N.ltb_ge; lia).
  replace (nlen lg <? 8) with false by (symmetry; apply N.ltb_ge; lia).
  reflexivity.
Qed.

(* ------------------------------------------------------------------ *)
(* Sections of the encoding                                            *)
(* ------------------------------------------------------------------ *)

Definition add_compacts (e : edit) (l : list (N * bytes)) : edit :=
  fold_left (fun a p => edit_set_compact_pointer a (fst p) (snd p)) l e.
Definition add_deleted (e : edit) (l : list (N * N)) : edit :=
  fold_left (fun a p => edit_remove_file a (fst p) (snd p)) l e.
Definition add_newfiles (e : edit) (l : list newfile) : edit :=
  fold_left edit_add_file l e.

Lemma import_compacts : forall l rest e,
  forallb (fun p => wf_level (fst p) && wf_key (snd p)) l = true ->
  import_all (flat_map export_compact l ++ rest) e = import_all rest (add_compacts e l).
Proof.
  induction l as [|p l IH]; intros rest e H.
  - reflexivity.
  - cbn [forallb] in H. apply andb_true_iff in H. destruct H as [Hp Hl].
    apply andb_true_iff in Hp. destruct Hp as [Hp1 Hp2].
    cbn [flat_map]. rewrite <- app_assoc.
    rewrite (import_all_step _ _ _ _ (step_compact p _ e Hp1 Hp2)).
    rewrite IH by exact Hl. reflexivity.
Qed.

Lemma import_deleted : forall l rest e,
  forallb (fun p => wf_level (fst p) && wf_u64 (snd p)) l = true ->
  import_all (flat_map export_deleted l ++ rest) e = import_all rest (add_deleted e l).
Proof.
  induction l as [|p l IH]; intros rest e H.
  - reflexivity.
  - cbn [forallb] in H. apply andb_true_iff in H. destruct H as [Hp Hl].
    apply andb_true_iff in Hp. destruct Hp as [Hp1 Hp2].
    cbn [flat_map]. rewrite <- app_assoc.
    rewrite (import_all_step _ _ _ _ (step_deleted p _ e Hp1 Hp2)).
    rewrite IH by exact Hl. reflexivity.
Qed.

Lemma import_newfiles : forall l rest e,
  forallb wf_newfile l = true ->
  import_all (flat_map export_newfile l ++ rest) e = import_all rest (add_newfiles e l).
Proof.
  induction l as [|p l IH]; intros rest e H.
  - reflexivity.
  - cbn [forallb] in H. apply andb_true_iff in H. destruct H as [Hp Hl].
    cbn [flat_map]. rewrite <- app_assoc.
    rewrite (import_all_step _ _ _ _ (step_newfile p _ e Hp)).
    rewrite IH by exact Hl. reflexivity.
Qed.

(* the folds, in closed form *)
Lemma add_compacts_eq : forall l e,
  add_compacts e l =
  mkEdit (e_comparator e) (e_log_number e) (e_prev_log_number e) (e_next_file_number e)
         (e_last_sequence e) (e_compact_pointers e ++ l) (e_deleted_files e) (e_new_files e).
Proof.
  unfold add_compacts. induction l as [|[lvl k] l IH]; intros e.
  - cbn [fold_left]. rewrite app_nil_r. destruct e; reflexivity.
  - cbn [fold_left]. rewrite IH. unfold edit_set_compact_pointer.
    cbn [e_comparator e_log_number e_prev_log_number e_next_file_number e_last_sequence
         e_compact_pointers e_deleted_files e_new_files fst snd].
    rewrite <- app_assoc. reflexivity.
Qed.

Lemma add_newfiles_eq : forall l e,
  add_newfiles e l =
  mkEdit (e_comparator e) (e_log_number e) (e_prev_log_number e) (e_next_file_number e)
         (e_last_sequence e) (e_compact_pointers e) (e_deleted_files e) (e_new_files e ++ l).
Proof.
  unfold add_newfiles. induction l as [|f l IH]; intros e.
  - cbn [fold_left]. rewrite app_nil_r. destruct e; reflexivity.
  - cbn [fold_left]. rewrite IH. unfold edit_add_file.
    cbn [e_comparator e_log_number e_prev_log_number e_next_file_number e_last_sequence
         e_compact_pointers e_deleted_files e_new_files].
    rewrite <- app_assoc. reflexivity.
Qed.

Lemma add_deleted_eq : forall l e,
  add_deleted e l =
  mkEdit (e_comparator e) (e_log_number e) (e_prev_log_number e) (e_next_file_number e)
         (e_last_sequence e) (e_compact_pointers e)
         (fold_left (fun s x => set_insert x s) l (e_deleted_files e)) (e_new_files e).
Proof.
  unfold add_deleted. induction l as [|[lvl n] l IH]; intros e.
  - cbn [fold_left]. destruct e; reflexivity.
  - cbn [fold_left]. rewrite IH. unfold edit_remove_file.
    cbn [e_comparator e_log_number e_prev_log_number e_next_file_number e_last_sequence
         e_compact_pointers e_deleted_files e_new_files fst snd].
    reflexivity.
Qed.

(* ------------------------------------------------------------------ *)
(* The deleted-file set                                                *)
(* ------------------------------------------------------------------ *)

Definition fe_lt (a b : N * N) : Prop := fe_compare a b = Lt.

Lemma fe_compare_eq : forall a b, fe_compare a b = Eq -> a = b.
Proof.
  intros [a1 a2] [b1 b2]. unfold fe_compare. cbn [fst snd].
  destruct (N.compare a1 b1) eqn:H1; try discriminate.
  intros H2. apply N.compare_eq_iff in H1. apply N.compare_eq_iff in H2. subst. reflexivity.
Qed.

Lemma fe_compare_refl : forall a, fe_compare a a = Eq.
Proof. intros [a1 a2]. unfold fe_compare. cbn [fst snd]. rewrite !N.compare_refl. reflexivity. Qed.

Lemma fe_compare_antisym : forall a b, fe_compare a b = CompOpp (fe_compare b a).
Proof.
  intros [a1 a2] [b1 b2]. unfold fe_compare. cbn [fst snd].
  rewrite (N.compare_antisym b1 a1). destruct (N.compare b1 a1); cbn [CompOpp]; try reflexivity.
  apply N.compare_antisym.
Qed.

Lemma fe_compare_gt_lt : forall a b, fe_compare a b = Gt -> fe_lt b a.
Proof.
  intros a b H. unfold fe_lt. rewrite fe_compare_antisym, H. reflexivity.
Qed.

Lemma fe_lt_gt : forall a b, fe_lt a b -> fe_compare b a = Gt.
Proof.
  intros a b H. unfold fe_lt in H. rewrite fe_compare_antisym, H. reflexivity.
Qed.

Lemma fe_lt_iff : forall a b,
  fe_lt a b <-> (fst a < fst b \/ (fst a = fst b /\ snd a < snd b)).
Proof.
  intros [a1 a2] [b1 b2]. unfold fe_lt, fe_compare. cbn [fst snd].
  destruct (N.compare a1 b1) eqn:H1.
  - apply N.compare_eq_iff in H1. rewrite N.compare_lt_iff. split; [intros; right; split; assumption|].
    intros [H|[_ H]]; [lia|exact H].
  - apply N.compare_lt_iff in H1. split; [intros; left; exact H1|reflexivity].
  - apply N.compare_gt_iff in H1. split; [discriminate|]. intros [H|[H _]]; lia.
Qed.

Lemma fe_lt_trans : forall a b c, fe_lt a b -> fe_lt b c -> fe_lt a c.
Proof.
  intros a b c. rewrite !fe_lt_iff. lia.
Qed.

Definition fe_sorted (l : list (N * N)) : Prop := StronglySorted fe_lt l.

Lemma set_insert_in : forall x l z, In z (set_insert x l) -> z = x \/ In z l.
Proof.
  induction l as [|y r IH]; intros z H; cbn [set_insert] in H.
  - destruct H as [H|[]]. left. symmetry. exact H.
  - destruct (fe_compare x y).
    + right. exact H.
    + destruct H as [H|H]; [left; symmetry; exact H|right; exact H].
    + destruct H as [H|H]; [right; left; exact H|].
      apply IH in H. destruct H as [H|H]; [left; exact H|right; right; exact H].
Qed.

Lemma set_insert_sorted : forall x l, fe_sorted l -> fe_sorted (set_insert x l).
Proof.
  unfold fe_sorted. induction l as [|y r IH]; intros Hs; cbn [set_insert].
  - constructor; constructor.
  - inversion Hs as [|y' r' Hr Hall]; subst.
    destruct (fe_compare x y) eqn:Hc.
    + exact Hs.
    + constructor; [exact Hs|]. constructor; [exact Hc|].
      rewrite Forall_forall in *. intros z Hz. eapply fe_lt_trans; [exact Hc|]. apply Hall. exact Hz.
    + constructor; [apply IH; exact Hr|].
      rewrite Forall_forall in *. intros z Hz. apply set_insert_in in Hz.
      destruct Hz as [Hz|Hz]; [subst z; apply fe_compare_gt_lt; exact Hc|apply Hall; exact Hz].
Qed.

Lemma canon_deleted_sorted_gen : forall l s,
  fe_sorted s -> fe_sorted (fold_left (fun s x => set_insert x s) l s).
Proof.
  induction l as [|x l IH]; intros s Hs; cbn [fold_left].
  - exact Hs.
  - apply IH. apply set_insert_sorted. exact Hs.
Qed.

Lemma canon_deleted_sorted : forall l, fe_sorted (canon_deleted l).
Proof. intros l. apply canon_deleted_sorted_gen. constructor. Qed.

Lemma set_insert_last : forall x s,
  Forall (fun y => fe_lt y x) s -> set_insert x s = s ++ [x].
Proof.
  induction s as [|y r IH]; intros H; cbn [set_insert app].
  - reflexivity.
  - inversion H as [|y' r' Hy Hr]; subst.
    rewrite (fe_lt_gt _ _ Hy). rewrite IH by exact Hr. reflexivity.
Qed.

Lemma fold_insert_sorted : forall l s,
  fe_sorted l ->
  Forall (fun y => Forall (fun x => fe_lt y x) l) s ->
  fold_left (fun s x => set_insert x s) l s = s ++ l.
Proof.
  induction l as [|x l IH]; intros s Hl Hs; cbn [fold_left].
  - rewrite app_nil_r. reflexivity.
  - inversion Hl as [|x' l' Hl' Hx]; subst.
    rewrite set_insert_last.
    + rewrite IH; [rewrite <- app_assoc; reflexivity|exact Hl'|].
      apply Forall_app. split.
      * rewrite Forall_forall in *. intros y Hy. specialize (Hs y Hy).
        inversion Hs; subst. assumption.
      * constructor; [exact Hx|constructor].
    + rewrite Forall_forall in *. intros y Hy. specialize (Hs y Hy).
      inversion Hs; subst. assumption.
Qed.

(* canonicalisation is the identity on a strictly sorted list, hence idempotent *)
Lemma canon_deleted_id : forall l, fe_sorted l -> canon_deleted l = l.
Proof.
  intros l H. unfold canon_deleted. rewrite fold_insert_sorted; [reflexivity|exact H|constructor].
Qed.

Lemma canon_deleted_idem : forall l, canon_deleted (canon_deleted l) = canon_deleted l.
Proof. intros l. apply canon_deleted_id. apply canon_deleted_sorted. Qed.

Lemma set_insert_wf : forall (P : N * N -> bool) x l,
  P x = true -> forallb P l = true -> forallb P (set_insert x l) = true.
Proof.
  induction l as [|y r IH]; intros Hx Hl; cbn [set_insert].
  - cbn [forallb]. rewrite Hx. reflexivity.
  - cbn [forallb] in Hl. apply andb_true_iff in Hl. destruct Hl as [Hy Hr].
    destruct (fe_compare x y); cbn [forallb].
    + rewrite Hy, Hr. reflexivity.
    + rewrite Hx, Hy, Hr. reflexivity.
    + rewrite Hy, IH by assumption. reflexivity.
Qed.

Lemma canon_deleted_wf_gen : forall (P : N * N -> bool) l s,
  forallb P l = true -> forallb P s = true ->
  forallb P (fold_left (fun s x => set_insert x s) l s) = true.
Proof.
  induction l as [|x l IH]; intros s Hl Hs; cbn [fold_left].
  - exact Hs.
  - cbn [forallb] in Hl. apply andb_true_iff in Hl. destruct Hl as [Hx Hl].
    apply IH; [exact Hl|]. apply set_insert_wf; assumption.
Qed.

Lemma canon_deleted_wf : forall (P : N * N -> bool) l,
  forallb P l = true -> forallb P (canon_deleted l) = true.
Proof. intros P l H. apply canon_deleted_wf_gen; [exact H|reflexivity]. Qed.

(* ------------------------------------------------------------------ *)
(* Round trip                                                          *)
(* ------------------------------------------------------------------ *)

Lemma import_scalar : forall tag v rest e (set : edit -> N -> edit),
  (forall n r e0, wf_u64 n = true ->
     import_step (varint32_write tag ++ varint64_write n ++ r) e0 = Some (r, set e0 n)) ->
  wf_opt_u64 v = true ->
  import_all (export_scalar tag v ++ rest) e =
  import_all rest (match v with Some n => set e n | None => e end).
Proof.
  intros tag v rest e set Hstep Hv. destruct v as [n|]; cbn [export_scalar wf_opt_u64] in *.
  - rewrite <- app_assoc. apply import_all_step. apply Hstep. exact Hv.
  - reflexivity.
Qed.

Theorem edit_import_export : forall e,
  wf_edit e = true -> edit_import (edit_export e) = Some (edit_canon e).
Proof.
  intros [c lg pl nf ls cps del new] H.
  unfold wf_edit in H.
  cbn [e_comparator e_log_number e_prev_log_number e_next_file_number e_last_sequence
       e_compact_pointers e_deleted_files e_new_files] in H.
  rewrite !andb_true_iff in H.
  destruct H as [[[[[[[Hc Hlg] Hpl] Hnf] Hls] Hcps] Hdel] Hnew].
  rewrite edit_import_all. unfold edit_export, edit_canon.
  cbn [e_comparator e_log_number e_prev_log_number e_next_file_number e_last_sequence
       e_compact_pointers e_deleted_files e_new_files].
  (* comparator *)
  assert (Hc' : forall rest e0,
    import_all ((match c with
                 | Some c0 => varint32_write TAG_COMPARATOR ++ slice_write c0
                 | None => []
                 end) ++ rest) e0 =
    import_all rest (match c with Some c0 => edit_set_comparator e0 c0 | None => e0 end)).
  { intros rest e0. destruct c as [c0|].
    - rewrite <- app_assoc. apply import_all_step. apply step_comparator. exact Hc.
    - reflexivity. }
  rewrite Hc'.
  rewrite (import_scalar TAG_LOG_NUMBER lg _ _ edit_set_log_number)
    by (first [intros; apply step_log_number; assumption | exact Hlg]).
  rewrite (import_scalar TAG_PREV_LOG_NUMBER pl _ _ edit_set_prev_log_number)
    by (first [intros; apply step_prev_log_number; assumption | exact Hpl]).
  rewrite (import_scalar TAG_NEXT_FILE_NUMBER nf _ _ edit_set_next_file)
    by (first [intros; apply step_next_file; assumption | exact Hnf]).
  rewrite (import_scalar TAG_LAST_SEQUENCE ls _ _ edit_set_last_sequence)
    by (first [intros; apply step_last_sequence; assumption | exact Hls]).
  rewrite import_compacts by exact Hcps.
  rewrite import_deleted by (apply canon_deleted_wf; exact Hdel).
  rewrite <- (app_nil_r (flat_map export_newfile new)).
  rewrite import_newfiles by exact Hnew.
  rewrite import_all_nil.
  rewrite add_newfiles_eq, add_deleted_eq, add_compacts_eq.
  destruct c, lg, pl, nf, ls;
    cbn [edit_empty edit_set_comparator edit_set_log_number edit_set_prev_log_number
         edit_set_next_file edit_set_last_sequence
         e_comparator e_log_number e_prev_log_number e_next_file_number e_last_sequence
         e_compact_pointers e_deleted_files e_new_files app];
    fold (canon_deleted (canon_deleted del)); rewrite canon_deleted_idem; reflexivity.
Qed.

(* an edit whose deleted-file list is already strictly sorted is canonical *)
Theorem edit_canon_id : forall e,
  fe_sorted (e_deleted_files e) -> edit_canon e = e.
Proof.
  intros [c lg pl nf ls cps del new] H. unfold edit_canon.
  cbn [e_comparator e_log_number e_prev_log_number e_next_file_number e_last_sequence
       e_compact_pointers e_deleted_files e_new_files] in *.
  rewrite canon_deleted_id by exact H. reflexivity.
Qed.

Theorem edit_canon_idem : forall e, edit_canon (edit_canon e) = edit_canon e.
Proof.
  intros e. apply edit_canon_id. unfold edit_canon.
  cbn [e_deleted_files]. apply canon_deleted_sorted.
Qed.

(* export depends only on the canonical form, so export . import . export = export *)
Theorem edit_export_canon : forall e, edit_export (edit_canon e) = edit_export e.
Proof.
  intros e. unfold edit_export, edit_canon.
  cbn [e_comparator e_log_number e_prev_log_number e_next_file_number e_last_sequence
       e_compact_pointers e_deleted_files e_new_files].
  rewrite canon_deleted_idem. reflexivity.
Qed.

Theorem edit_roundtrip_export : forall e,
  wf_edit e = true -> edit_roundtrip (edit_export e) = Some (edit_export e).
Proof.
  intros e H. unfold edit_roundtrip. rewrite edit_import_export by exact H.
  rewrite edit_export_canon. reflexivity.
Qed.

(* the API setters keep the deleted set sorted, so edits built through them are canonical *)
Theorem edit_remove_file_sorted : forall e l n,
  fe_sorted (e_deleted_files e) -> fe_sorted (e_deleted_files (edit_remove_file e l n)).
Proof.
  intros e l n H. unfold edit_remove_file. cbn [e_deleted_files].
  apply set_insert_sorted. exact H.
Qed.

(* error cases of the decoder *)
Theorem edit_import_bad_tag : forall tag rest,
  tag < 128 -> tag <> 1 -> tag <> 2 -> tag <> 3 -> tag <> 4 -> tag <> 5 -> tag <> 6 ->
  tag <> 7 -> tag <> 9 ->
  edit_import (tag :: rest) = None.
Proof.
  intros tag rest Hlt H1 H2 H3 H4 H5 H6 H7 H9.
  rewrite edit_import_all. apply import_all_fail; [discriminate|].
  unfold import_step.
  change (tag :: rest) with ([tag] ++ rest).
  replace [tag] with (varint32_write tag)
    by (unfold varint32_write; replace (tag <? 128) with true by (symmetry; apply N.ltb_lt; lia); reflexivity).
  rewrite varint32_read_write by lia. cbv beta iota.
  unfold TAG_COMPARATOR, TAG_LOG_NUMBER, TAG_NEXT_FILE_NUMBER, TAG_LAST_SEQUENCE,
         TAG_COMPACT_POINTER, TAG_DELETED_FILE, TAG_NEW_FILE, TAG_PREV_LOG_NUMBER.
  repeat match goal with
  | |- context [tag =? ?k] => replace (tag =? k) with false by (symmetry; apply N.eqb_neq; assumption)
  end.
  reflexivity.
Qed.

Theorem level_read_bad_level : forall lvl rest,
  EDIT_NUM_LEVELS <= lvl -> lvl < 4294967296 -> level_read (varint32_write lvl ++ rest) = None.
Proof.
  intros lvl rest H1 H2. unfold level_read. rewrite varint32_read_write by exact H2.
  cbv beta iota. replace (EDIT_NUM_LEVELS <=? lvl) with true by (symmetry; apply N.leb_le; exact H1).
  reflexivity.
Qed.

Print Assumptions edit_import_export.
