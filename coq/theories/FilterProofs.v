(* FilterProofs.v -- proofs about Trie.v and Filter.v:
   - the trie is a map (get/set laws), tcells lists its cells;
   - bloom_no_false_negative: for ANY hash function, a key that was added is matched;
   - bloom_match never returns OOB (memory safety of bloom_match on arbitrary bytes). *)
From LCDB Require Import Base Varint Block Trie Filter BaseProofs VarintProofs BlockProofs.
Require Import Lia ZifyBool ZifyNat ZifyN.
Ltac Zify.zify_post_hook ::= Z.div_mod_to_equations.
Local Open Scope N_scope.

(* ------------------------------------------------------------------ *)
(* Trie                                                                *)
(* ------------------------------------------------------------------ *)
Lemma tget_pos_leaf : forall p, tget_pos p TLeaf = 0.
Proof. destruct p; reflexivity. Qed.

Lemma tget_pos_set_same : forall p x t, tget_pos p (tset_pos p x t) = x.
Proof.
  induction p; intros x t; destruct t; cbn [tset_pos tget_pos]; auto.
Qed.

Lemma tget_pos_set_other : forall p q x t, p <> q -> tget_pos p (tset_pos q x t) = tget_pos p t.
Proof.
  induction p; intros q x t Hne; destruct q; destruct t; cbn [tset_pos tget_pos];
    try rewrite tget_pos_leaf; try reflexivity; try congruence;
    try (rewrite IHp by congruence; try rewrite tget_pos_leaf; reflexivity).
Qed.

Lemma succ_pos_inj : forall a b, N.succ_pos a = N.succ_pos b -> a = b.
Proof.
  intros a b H.
  assert (N.pos (N.succ_pos a) = N.pos (N.succ_pos b)) by congruence.
  rewrite !N.succ_pos_spec in H0. lia.
Qed.

Lemma tget_set_same : forall i x t, tget i (tset i x t) = x.
Proof. intros. unfold tget, tset. apply tget_pos_set_same. Qed.

Lemma tget_set_other : forall i j x t, i <> j -> tget i (tset j x t) = tget i t.
Proof.
  intros. unfold tget, tset. apply tget_pos_set_other.
  intro E. apply succ_pos_inj in E. congruence.
Qed.

Lemma tcells_length : forall n s t, length (tcells n s t) = n.
Proof. induction n; intros; cbn [tcells length]; auto. Qed.

Lemma tcells_nth : forall n s t i, (i < n)%nat ->
  nth_error (tcells n s t) i = Some (tget (s + N.of_nat i) t).
Proof.
  induction n; intros s t i Hi; [lia|].
  destruct i; cbn [tcells nth_error].
  - f_equal. f_equal. lia.
  - rewrite IHn by lia. f_equal. f_equal. lia.
Qed.

(* ------------------------------------------------------------------ *)
(* Bloom filter                                                        *)
(* ------------------------------------------------------------------ *)
Definition bit_set (t : trie) (pos : N) : Prop :=
  N.testbit (tget (pos / 8) t) (pos mod 8) = true.

Definition set_bit (t : trie) (pos : N) : trie :=
  tset (pos / 8) (N.lor (tget (pos / 8) t) (2 ^ (pos mod 8))) t.

Lemma set_bit_same : forall t p, bit_set (set_bit t p) p.
Proof.
  intros. unfold bit_set, set_bit. rewrite tget_set_same.
  rewrite N.lor_spec, N.pow2_bits_true. apply orb_true_r.
Qed.

Lemma set_bit_mono : forall t p q, bit_set t p -> bit_set (set_bit t q) p.
Proof.
  intros t p q H. unfold bit_set, set_bit in *.
  destruct (N.eq_dec (p / 8) (q / 8)) as [E|E].
  - rewrite E, tget_set_same, N.lor_spec. rewrite <- E, H. reflexivity.
  - rewrite tget_set_other by exact E. exact H.
Qed.

Lemma bloom_add_loop_step : forall k nbits h delta t,
  bloom_add_loop (S k) nbits h delta t =
  bloom_add_loop k nbits ((h + delta) mod two32) delta (set_bit t (h mod nbits)).
Proof. reflexivity. Qed.

Lemma bloom_add_loop_mono : forall k nbits h delta t p,
  bit_set t p -> bit_set (bloom_add_loop k nbits h delta t) p.
Proof.
  induction k; intros; [exact H|].
  rewrite bloom_add_loop_step. apply IHk. apply set_bit_mono. exact H.
Qed.

Fixpoint probes_set (k : nat) (nbits h delta : N) (t : trie) : Prop :=
  match k with
  | O => True
  | S k' => bit_set t (h mod nbits) /\ probes_set k' nbits ((h + delta) mod two32) delta t
  end.

Lemma probes_set_mono : forall k nbits h delta t t',
  (forall p, bit_set t p -> bit_set t' p) ->
  probes_set k nbits h delta t -> probes_set k nbits h delta t'.
Proof.
  induction k; intros; cbn [probes_set] in *; auto.
  destruct H0. split; eauto.
Qed.

Lemma bloom_add_loop_sets : forall k nbits h delta t,
  probes_set k nbits h delta (bloom_add_loop k nbits h delta t).
Proof.
  induction k; intros; [exact I|].
  rewrite bloom_add_loop_step. cbn [probes_set]. split.
  - apply bloom_add_loop_mono. apply set_bit_same.
  - apply IHk.
Qed.

Section BloomAny.
Variable hashf : bytes -> N.

Lemma bloom_add_mono : forall k nbits t key p,
  bit_set t p -> bit_set (bloom_add hashf k nbits t key) p.
Proof. intros. unfold bloom_add. apply bloom_add_loop_mono. exact H. Qed.

Lemma fold_bloom_add_mono : forall keys k nbits t p,
  bit_set t p -> bit_set (fold_left (bloom_add hashf k nbits) keys t) p.
Proof.
  induction keys; intros; cbn [fold_left]; auto.
  apply IHkeys. apply bloom_add_mono. exact H.
Qed.

Lemma fold_bloom_add_sets : forall keys k nbits t key,
  In key keys ->
  probes_set (N.to_nat k) nbits (hashf key) (bloom_delta (hashf key))
             (fold_left (bloom_add hashf k nbits) keys t).
Proof.
  induction keys; intros k nbits t key Hin; [destruct Hin|].
  cbn [fold_left]. destruct Hin as [->|Hin].
  - eapply probes_set_mono.
    + intros p Hp. apply fold_bloom_add_mono. exact Hp.
    + unfold bloom_add. apply bloom_add_loop_sets.
  - apply IHkeys. exact Hin.
Qed.

Lemma bloom_k_bounds : forall bits, 1 <= bloom_k bits <= 30.
Proof.
  intros. unfold bloom_k.
  destruct (bits * 69 / 100 <? 1) eqn:E1; [lia|].
  destruct (30 <? bits * 69 / 100) eqn:E2; lia.
Qed.

Lemma bloom_bytes_pos : forall bits n, 8 <= bloom_bytes bits n.
Proof.
  intros. unfold bloom_bytes.
  destruct (n * bits <? 64) eqn:E; lia.
Qed.

(* the match loop succeeds when all probes are set in the trie the filter was
   read off *)
Lemma bloom_match_loop_true : forall k cells tail nbytes t h delta,
  cells = tcells (N.to_nat nbytes) 0 t ->
  0 < nbytes ->
  probes_set k (nbytes * 8) h delta t ->
  bloom_match_loop k (cells ++ tail) (nbytes * 8) h delta = Ok true.
Proof.
  induction k; intros cells tail nbytes t h delta Hc Hpos Hp; [reflexivity|].
  cbn [bloom_match_loop]. cbn [probes_set] in Hp. destruct Hp as [Hb Hp].
  set (pos := h mod (nbytes * 8)) in *.
  assert (Hlt : pos / 8 < nbytes) by (subst pos; lia).
  rewrite nth_error_app1 by (rewrite Hc, tcells_length; lia).
  rewrite Hc, tcells_nth by lia.
  rewrite N2Nat.id, N.add_0_l.
  unfold bit_set in Hb. rewrite Hb.
  rewrite <- Hc. eapply IHk; eauto.
Qed.

(* (a) no false negatives, for any hash function *)
Theorem bloom_no_false_negative : forall bits keys key,
  In key keys ->
  bloom_match_with hashf (bloom_build_with hashf bits keys) key = Ok true.
Proof.
  intros bits keys key Hin.
  unfold bloom_match_with, bloom_build_with.
  set (k := bloom_k bits).
  set (nbytes := bloom_bytes bits (nlen keys)).
  set (t := fold_left (bloom_add hashf k (nbytes * 8)) keys TLeaf).
  pose proof (bloom_k_bounds bits) as Hk. fold k in Hk.
  pose proof (bloom_bytes_pos bits (nlen keys)) as Hn. fold nbytes in Hn.
  assert (Hlen : nlen (tcells (N.to_nat nbytes) 0 t ++ [k]) = nbytes + 1).
  { unfold nlen. rewrite app_length, tcells_length. cbn [length]. lia. }
  rewrite Hlen.
  destruct (nbytes + 1 <? 2) eqn:E; [lia|].
  replace (nbytes + 1 - 1) with nbytes by lia.
  rewrite nth_error_app2 by (rewrite tcells_length; lia).
  rewrite tcells_length, Nat.sub_diag. cbn [nth_error].
  destruct (30 <? k) eqn:E2; [lia|].
  eapply bloom_match_loop_true; [reflexivity|lia|].
  subst t. apply fold_bloom_add_sets. exact Hin.
Qed.

(* (d) bloom_match is total and memory safe on arbitrary filter bytes *)
Lemma bloom_match_loop_safe : forall k filter nbits h delta,
  nbits <= nlen filter * 8 -> 0 < nbits ->
  bloom_match_loop k filter nbits h delta <> OOB.
Proof.
  induction k; intros filter nbits h delta Hle Hpos; cbn [bloom_match_loop]; [discriminate|].
  destruct (nth_error filter (N.to_nat (h mod nbits / 8))) eqn:E.
  - destruct (N.testbit n (h mod nbits mod 8)); [apply IHk; auto|discriminate].
  - apply nth_error_None in E. unfold nlen in Hle. lia.
Qed.

Theorem bloom_match_safe : forall filter key, bloom_match_with hashf filter key <> OOB.
Proof.
  intros. unfold bloom_match_with.
  destruct (nlen filter <? 2) eqn:E; [discriminate|].
  destruct (nth_error filter (N.to_nat (nlen filter - 1))) eqn:E1.
  - destruct (30 <? n); [discriminate|].
    apply bloom_match_loop_safe; lia.
  - apply nth_error_None in E1. unfold nlen in *. lia.
Qed.

End BloomAny.

Corollary bloom_build_match : forall bits keys key,
  In key keys -> bloom_match (bloom_build bits keys) key = Ok true.
Proof. intros. apply bloom_no_false_negative. exact H. Qed.

(* the two lcdb policies are sound *)
Corollary user_policy_sound : forall bits keys key,
  In key keys -> user_fmatch (user_fbuild bits keys) key = Ok true.
Proof. intros. apply bloom_build_match. exact H. Qed.

Corollary internal_policy_sound : forall bits keys key,
  In key keys -> internal_fmatch (internal_fbuild bits keys) key = Ok true.
Proof.
  intros. unfold internal_fmatch, internal_fbuild. apply bloom_build_match.
  apply in_map. exact H.
Qed.

(* ------------------------------------------------------------------ *)
(* Filter block reader: memory safety on arbitrary bytes               *)
(* ------------------------------------------------------------------ *)
Lemma slice_ok : forall data size off len,
  size = nlen data -> off + len <= size ->
  slice data size off len = Ok (take_n len (drop_n off data)).
Proof.
  intros data size off len Hs Hle. unfold slice.
  replace (size <? off + len) with false by lia.
  rewrite nlen_take_n_le by (rewrite nlen_drop_n; lia). rewrite N.eqb_refl. reflexivity.
Qed.

Definition fr_ok (fr : freader) : Prop :=
  fr_size fr = nlen (fr_data fr) /\
  (fr_num fr = 0 \/ fr_offset fr + 4 * fr_num fr + 5 <= fr_size fr).

Lemma filter_init_ok : forall contents, exists fr, filter_init contents = Ok fr /\ fr_ok fr.
Proof.
  intros contents. unfold filter_init.
  destruct (nlen contents <? 5) eqn:E.
  - eexists. split; [reflexivity|]. split; [reflexivity|left; reflexivity].
  - destruct (nth_error contents (N.to_nat (nlen contents - 1))) eqn:E1.
    2:{ apply nth_error_None in E1. unfold nlen in *. lia. }
    destruct (read32_ok contents (nlen contents) (nlen contents - 5) eq_refl ltac:(lia)) as [lw ->].
    cbn [rbind].
    destruct (nlen contents - 5 <? lw) eqn:E2.
    + eexists. split; [reflexivity|]. split; [reflexivity|left; reflexivity].
    + eexists. split; [reflexivity|]. split; [reflexivity|right].
      cbn [fr_offset fr_num fr_size]. lia.
Qed.

Section FilterSafety.
Variable fmatch : bytes -> bytes -> res bool.
Hypothesis fmatch_safe : forall f k, fmatch f k <> OOB.

Lemma filter_matches_safe : forall fr off key,
  fr_ok fr -> filter_matches fmatch fr off key <> OOB.
Proof.
  intros fr off key [Hs Hn]. unfold filter_matches.
  generalize (off / 2 ^ fr_base_lg fr). intros index.
  destruct (index <? fr_num fr) eqn:E; [|discriminate].
  destruct Hn as [Hz|Hn]; [lia|].
  destruct (read32_ok (fr_data fr) (fr_size fr) (fr_offset fr + index * 4) Hs ltac:(lia)) as [st ->].
  cbn [rbind].
  destruct (read32_ok (fr_data fr) (fr_size fr) (fr_offset fr + index * 4 + 4) Hs ltac:(lia)) as [lim ->].
  cbn [rbind].
  destruct ((st <=? lim) && (lim <=? fr_offset fr)) eqn:E2.
  - rewrite slice_ok by (auto; lia). cbn [rbind]. apply fmatch_safe.
  - destruct (st =? lim); discriminate.
Qed.

(* (d) filter_matches on arbitrary filter-block bytes never returns OOB *)
Theorem filter_block_matches_safe : forall blockbytes off key,
  filter_block_matches fmatch blockbytes off key <> OOB.
Proof.
  intros. unfold filter_block_matches.
  destruct (filter_init_ok blockbytes) as [fr [-> Hok]]. cbn [rbind].
  apply filter_matches_safe. exact Hok.
Qed.

End FilterSafety.

Lemma user_fmatch_safe : forall f k, user_fmatch f k <> OOB.
Proof. intros. apply bloom_match_safe. Qed.
Lemma internal_fmatch_safe : forall f k, internal_fmatch f k <> OOB.
Proof. intros. apply bloom_match_safe. Qed.
