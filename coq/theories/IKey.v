(* IKey.v -- model of src/dbformat.c/.h (internal keys, lookup keys, the
   internal-key comparator) and src/util/comparator.c (bytewise comparator).
   internal key = user_key ++ fixed64 ((sequence << 8) | type).  Definitions only. *)
From LCDB Require Export Base Varint.
Local Open Scope N_scope.

Definition TYPE_DELETION : N := 0.
Definition TYPE_VALUE : N := 1.
Definition VALTYPE_SEEK : N := 1.                       (* LDB_VALTYPE_SEEK = LDB_TYPE_VALUE *)
Definition MAX_SEQUENCE : N := 72057594037927935.       (* (1 << 56) - 1 *)
Definition NUM_LEVELS : N := 7.

(* pack_seqtype: (sequence << 8) | type in a uint64 (asserts are compiled out).
   The OR is written as + : exact for type < 256 (the enum has values 0 and 1). *)
Definition pack_seqtype (seq ty : N) : N :=
  (seq * 256) mod 18446744073709551616 + ty.

(* ldb_pkey_export / ldb_ikey_set *)
Definition ikey_encode (user_key : bytes) (seq ty : N) : bytes :=
  user_key ++ le64 (pack_seqtype seq ty).

(* ldb_extract_user_key: all but the last 8 bytes (C requires size >= 8; the model
   returns [] on a shorter string) *)
Definition ikey_user (k : bytes) : bytes := firstn (length k - 8) k.

(* the trailing fixed64 (ldb_fixed64_decode(x->data + x->size - 8)) *)
Definition ikey_tag (k : bytes) : N :=
  match de64 (skipn (length k - 8) k) with Some v => v | None => 0 end.

(* ldb_pkey_import *)
Definition ikey_parse (k : bytes) : option (bytes * N * N) :=
  if nlen k <? 8 then None
  else
    let num := ikey_tag k in
    let ty := num mod 256 in
    if 1 <? ty then None
    else Some (ikey_user k, num / 256, ty).

(* slice_compare of comparator.c = bytes_compare (memcmp on the common length,
   then the lengths). *)
(* ldb_ikc_compare with the bytewise user comparator: increasing user key, then
   decreasing (sequence, type) tag. *)
Definition ikey_compare (a b : bytes) : comparison :=
  match bytes_compare (ikey_user a) (ikey_user b) with
  | Eq => N.compare (ikey_tag b) (ikey_tag a)
  | c => c
  end.

Definition ikey_ltb (a b : bytes) : bool :=
  match ikey_compare a b with Lt => true | _ => false end.
Definition ikey_leb (a b : bytes) : bool :=
  match ikey_compare a b with Gt => false | _ => true end.

(* ---- LookupKey (ldb_lkey_init): varint32(usize + 8) user_key fixed64(tag) ---- *)
Definition lkey_build (user_key : bytes) (seq : N) : bytes :=
  varint32_write ((nlen user_key + 8) mod 4294967296) ++ user_key
    ++ le64 (pack_seqtype seq VALTYPE_SEEK).

(* kstart - start *)
Definition lkey_kstart (user_key : bytes) : nat :=
  length (varint32_write ((nlen user_key + 8) mod 4294967296)).

Definition lkey_memtable_key (user_key : bytes) (seq : N) : bytes :=
  lkey_build user_key seq.
Definition lkey_internal_key (user_key : bytes) (seq : N) : bytes :=
  skipn (lkey_kstart user_key) (lkey_build user_key seq).
Definition lkey_user_key (user_key : bytes) (seq : N) : bytes :=
  let ik := lkey_internal_key user_key seq in firstn (length ik - 8) ik.

(* ---- bytewise comparator: shortest_separator / short_successor ---- *)

(* shortest_separator(start, limit): walk the common prefix (diff_index); if one
   string is a prefix of the other leave start alone; otherwise, if
   diff_byte < 0xff && diff_byte + 1 < limit[diff_index], increment that byte and
   truncate after it. *)
Fixpoint shortest_separator (start limit : bytes) : bytes :=
  match start, limit with
  | x :: s', y :: l' =>
      if x =? y then x :: shortest_separator s' l'
      else if (x <? 255) && (x + 1 <? y) then [x + 1]
      else start
  | _, _ => start
  end.

(* short_successor(key): increment the first byte that is not 0xff and truncate
   after it; a run of 0xff is left alone. *)
Fixpoint short_successor (key : bytes) : bytes :=
  match key with
  | [] => []
  | x :: r => if x =? 255 then x :: short_successor r else [x + 1]
  end.

(* ---- internal-key comparator versions (dbformat.c) ---- *)
Definition seek_tag : bytes := le64 (pack_seqtype MAX_SEQUENCE VALTYPE_SEEK).

Definition ikc_shortest_separator (start limit : bytes) : bytes :=
  let user_start := ikey_user start in
  let user_limit := ikey_user limit in
  let tmp := shortest_separator user_start user_limit in
  if (nlen tmp <? nlen user_start) && bytes_ltb user_start tmp
  then tmp ++ seek_tag
  else start.

Definition ikc_short_successor (key : bytes) : bytes :=
  let user_key := ikey_user key in
  let tmp := short_successor user_key in
  if (nlen tmp <? nlen user_key) && bytes_ltb user_key tmp
  then tmp ++ seek_tag
  else key.
