(* PolicyBase.v -- vocabulary shared by the proofs about Policy.v: total accessors for
   the smallest / largest key of a file, the literal "> 0" comparisons, the user-range
   overlap predicate computed by ldb_version_get_overlapping_inputs. *)
From LCDB Require Import Base Engine EngineSpec EngineStepsBase EngineStepsInv Policy.
From Coq Require Import Sorting.Sorted.
Require Import Lia ZifyBool ZifyNat ZifyN.
Local Open Scope N_scope.

Section PB.
Variable ucmp : bytes -> bytes -> comparison.
Context {TO : total_order ucmp}.

Notation ueq := (Engine.ueq ucmp).
Notation ult := (Engine.ult ucmp).
Notation ilt := (Engine.ilt ucmp).
Notation icmp := (Engine.icmp ucmp).
Notation Srt := (EngineStepsBase.Srt ucmp).
Notation FOK := (EngineStepsInv.FOK ucmp).
Notation FB := (EngineStepsInv.FB ucmp).

Lemma ugt_ult a b : ugt ucmp a b = ult b a.
Proof.
  unfold ugt, Engine.ult. rewrite ((ucmp_opp ucmp) a b). destruct (ucmp b a); reflexivity.
Qed.

Lemma icmp_opp a b : icmp a b = CompOpp (icmp b a).
Proof.
  unfold Engine.icmp. rewrite ((ucmp_opp ucmp) (ek a) (ek b)).
  destruct (ucmp (ek b) (ek a)); cbn [CompOpp]; auto. apply N.compare_antisym.
Qed.

Lemma igt_ilt a b : igt ucmp a b = ilt b a.
Proof.
  unfold igt, Engine.ilt. rewrite (icmp_opp a b). destruct (icmp b a); reflexivity.
Qed.

(* total accessors *)
Definition dE : entry := mkE [] 0 false [].
Definition sm (f : file) : entry := match fsmallest f with Some a => a | None => dE end.
Definition lg (f : file) : entry := match flargest f with Some a => a | None => dE end.

Lemma FOK_sm f : FOK f -> fsmallest f = Some (sm f).
Proof.
  intros H. destruct (FOK_ends ucmp f H) as (a & r & E1 & E2 & E3). unfold sm. rewrite E2. reflexivity.
Qed.
Lemma FOK_lg f : FOK f -> flargest f = Some (lg f).
Proof.
  intros H. destruct (FOK_ends ucmp f H) as (a & r & E1 & E2 & E3). unfold lg. rewrite E3. reflexivity.
Qed.

Lemma sm_In f : FOK f -> In (sm f) (fents f).
Proof.
  intros H. destruct (FOK_ends ucmp f H) as (a & r & E1 & E2 & E3). unfold sm. rewrite E2, E1. left; auto.
Qed.
Lemma lg_In f : FOK f -> In (lg f) (fents f).
Proof.
  intros H. destruct (FOK_ends ucmp f H) as (a & r & E1 & E2 & E3). unfold lg. rewrite E3, E1. apply last_In.
Qed.

Lemma sm_min f x : FOK f -> In x (fents f) -> ilt x (sm f) = false.
Proof.
  intros H Hx. destruct (FOK_ends ucmp f H) as (a & r & E1 & E2 & E3). unfold sm. rewrite E2.
  destruct H as [_ HS]. rewrite E1 in *. apply (Srt_hd_min ucmp a r x HS Hx).
Qed.
Lemma lg_max f x : FOK f -> In x (fents f) -> ilt (lg f) x = false.
Proof.
  intros H Hx. destruct (FOK_ends ucmp f H) as (a & r & E1 & E2 & E3). unfold lg. rewrite E3.
  destruct H as [_ HS]. rewrite E1 in *. apply (Srt_last_max ucmp a r x HS Hx).
Qed.

Lemma sm_le_lg f : FOK f -> ilt (lg f) (sm f) = false.
Proof. intros H. apply lg_max; auto. apply sm_In; auto. Qed.

Lemma sm_umin f x : FOK f -> In x (fents f) -> ucmp (ek (sm f)) (ek x) <> Gt.
Proof. intros H Hx. apply (ile_ukey ucmp). apply sm_min; auto. Qed.
Lemma lg_umax f x : FOK f -> In x (fents f) -> ucmp (ek x) (ek (lg f)) <> Gt.
Proof. intros H Hx. apply (ile_ukey ucmp). apply lg_max; auto. Qed.
Lemma sm_lg_user f : FOK f -> ucmp (ek (sm f)) (ek (lg f)) <> Gt.
Proof. intros H. apply sm_umin; auto. apply lg_In; auto. Qed.

Lemma FB_sm_lg f g : FOK f -> FOK g -> (FB f g <-> ilt (lg f) (sm g) = true).
Proof.
  intros Hf Hg. rewrite <- (FBb_FB ucmp f g Hf Hg). unfold FBb.
  rewrite (FOK_lg f Hf), (FOK_sm g Hg). tauto.
Qed.

(* the user-range tests of get_overlapping_inputs *)
Definition ovl (ub ue : option bytes) (f : file) : bool :=
  negb (before_begin ucmp ub (ek (lg f))) && negb (after_end ucmp ue (ek (sm f))).
(* the file does not extend the range *)
Definition within (ub ue : option bytes) (f : file) : bool :=
  negb (before_begin ucmp ub (ek (sm f))) && negb (after_end ucmp ue (ek (lg f))).

(* the range only grows *)
Definition wider_b (ub ub' : option bytes) : Prop :=
  match ub, ub' with
  | None, None => True
  | Some u, Some u' => ucmp u' u <> Gt
  | _, _ => False
  end.
Definition wider_e (ue ue' : option bytes) : Prop :=
  match ue, ue' with
  | None, None => True
  | Some u, Some u' => ucmp u u' <> Gt
  | _, _ => False
  end.

End PB.
