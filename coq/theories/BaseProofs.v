(* BaseProofs.v -- proofs about Base.v: fixed32/fixed64 round trips,
   byte-string comparison is a strict total order. *)
From LCDB Require Import Base.
From Coq Require Import Lia ZifyBool ZifyNat ZifyN.
Local Open Scope N_scope.

Ltac Zify.zify_post_hook ::= Z.div_mod_to_equations.

#[local] Arguments N.mul : simpl never.
#[local] Arguments N.add : simpl never.
#[local] Arguments N.div : simpl never.
#[local] Arguments N.modulo : simpl never.
#[local] Arguments N.ltb : simpl never.
#[local] Arguments N.pow : simpl never.

(* ---- numerals ---- *)
Lemma pow2_32 : 2 ^ 32 = 4294967296.
Proof. reflexivity. Qed.
Lemma pow2_64 : 2 ^ 64 = 18446744073709551616.
Proof. reflexivity. Qed.

(* ---- is_byte / wf_bytes helpers ---- *)
Lemma is_byte_lt : forall b, is_byte b = true <-> b < 256.
Proof. intros b. unfold is_byte. apply N.ltb_lt. Qed.

Lemma wf_bytes_nil : wf_bytes [] = true.
Proof. reflexivity. Qed.

Lemma wf_bytes_cons : forall b l,
  wf_bytes (b :: l) = true <-> b < 256 /\ wf_bytes l = true.
Proof.
  intros b l. unfold wf_bytes. cbn [forallb].
  rewrite andb_true_iff, is_byte_lt. reflexivity.
Qed.

Lemma wf_bytes_app : forall a b,
  wf_bytes (a ++ b) = true <-> wf_bytes a = true /\ wf_bytes b = true.
Proof.
  intros a b. unfold wf_bytes. rewrite forallb_app, andb_true_iff. reflexivity.
Qed.

Lemma wf_bytes_forall : forall l,
  wf_bytes l = true <-> (forall b, In b l -> b < 256).
Proof.
  intros l. unfold wf_bytes. rewrite forallb_forall.
  split; intros H b Hb; apply is_byte_lt; apply H; exact Hb.
Qed.

Lemma mod256_is_byte : forall x, is_byte (x mod 256) = true.
Proof. intros x. apply is_byte_lt. apply N.mod_lt. discriminate. Qed.

(* ---- le32 / le64 ---- *)
Lemma le32_length : forall x, length (le32 x) = 4%nat.
Proof. intros x. reflexivity. Qed.

Lemma le64_length : forall x, length (le64 x) = 8%nat.
Proof. intros x. unfold le64. rewrite app_length, !le32_length. reflexivity. Qed.

Lemma le32_wf : forall x, wf_bytes (le32 x) = true.
Proof.
  intros x. unfold le32, wf_bytes. cbn [forallb].
  rewrite !mod256_is_byte. reflexivity.
Qed.

Lemma le64_wf : forall x, wf_bytes (le64 x) = true.
Proof.
  intros x. unfold le64. apply wf_bytes_app. split; apply le32_wf.
Qed.

Lemma de32_le32 : forall x rest,
  x < 4294967296 -> de32 (le32 x ++ rest) = Some x.
Proof.
  intros x rest Hx. unfold le32. cbn [app de32]. f_equal. lia.
Qed.

Lemma skipn4_le32 : forall x rest, skipn 4 (le32 x ++ rest) = rest.
Proof. intros x rest. reflexivity. Qed.

Lemma skipn8_le64 : forall x rest, skipn 8 (le64 x ++ rest) = rest.
Proof. intros x rest. reflexivity. Qed.

Lemma de64_le64 : forall x rest,
  x < 18446744073709551616 -> de64 (le64 x ++ rest) = Some x.
Proof.
  intros x rest Hx. unfold de64, le64. rewrite <- app_assoc.
  rewrite skipn4_le32.
  rewrite !de32_le32 by lia.
  f_equal. lia.
Qed.

Lemma fixed32_read_le32 : forall x rest,
  x < 4294967296 -> fixed32_read (le32 x ++ rest) = Some (x, rest).
Proof.
  intros x rest Hx. unfold fixed32_read.
  rewrite de32_le32 by exact Hx. rewrite skipn4_le32. reflexivity.
Qed.

Lemma fixed64_read_le64 : forall x rest,
  x < 18446744073709551616 -> fixed64_read (le64 x ++ rest) = Some (x, rest).
Proof.
  intros x rest Hx. unfold fixed64_read.
  rewrite de64_le64 by exact Hx. rewrite skipn8_le64. reflexivity.
Qed.

(* Versions stated with 2^32 / 2^64. *)
Lemma de32_le32_pow : forall x rest,
  x < 2 ^ 32 -> de32 (le32 x ++ rest) = Some x.
Proof. intros x rest Hx. rewrite pow2_32 in Hx. apply de32_le32; exact Hx. Qed.

Lemma de64_le64_pow : forall x rest,
  x < 2 ^ 64 -> de64 (le64 x ++ rest) = Some x.
Proof. intros x rest Hx. rewrite pow2_64 in Hx. apply de64_le64; exact Hx. Qed.

Lemma fixed32_read_le32_pow : forall x rest,
  x < 2 ^ 32 -> fixed32_read (le32 x ++ rest) = Some (x, rest).
Proof. intros x rest Hx. rewrite pow2_32 in Hx. apply fixed32_read_le32; exact Hx. Qed.

Lemma fixed64_read_le64_pow : forall x rest,
  x < 2 ^ 64 -> fixed64_read (le64 x ++ rest) = Some (x, rest).
Proof. intros x rest Hx. rewrite pow2_64 in Hx. apply fixed64_read_le64; exact Hx. Qed.

(* de32 of four well-formed bytes is a 32-bit value. *)
Lemma de32_bound : forall a b c d rest v,
  a < 256 -> b < 256 -> c < 256 -> d < 256 ->
  de32 (a :: b :: c :: d :: rest) = Some v -> v < 4294967296.
Proof.
  intros a b c d rest v Ha Hb Hc Hd Hv. cbn [de32] in Hv.
  injection Hv as Hv. lia.
Qed.

Lemma de32_bound_wf : forall l v,
  wf_bytes l = true -> de32 l = Some v -> v < 4294967296.
Proof.
  intros l v Hwf Hv.
  destruct l as [|a [|b [|c [|d rest]]]]; cbn [de32] in Hv; try discriminate Hv.
  apply wf_bytes_cons in Hwf. destruct Hwf as [Ha Hwf].
  apply wf_bytes_cons in Hwf. destruct Hwf as [Hb Hwf].
  apply wf_bytes_cons in Hwf. destruct Hwf as [Hc Hwf].
  apply wf_bytes_cons in Hwf. destruct Hwf as [Hd Hwf].
  injection Hv as Hv. lia.
Qed.

Lemma le32_de32 : forall a b c d v,
  a < 256 -> b < 256 -> c < 256 -> d < 256 ->
  de32 [a; b; c; d] = Some v -> le32 v = [a; b; c; d].
Proof.
  intros a b c d v Ha Hb Hc Hd Hv. cbn [de32] in Hv.
  injection Hv as Hv. unfold le32.
  repeat f_equal; lia.
Qed.

(* le32 is injective on 32-bit values. *)
Lemma le32_inj : forall x y,
  x < 4294967296 -> y < 4294967296 -> le32 x = le32 y -> x = y.
Proof.
  intros x y Hx Hy Heq.
  assert (Hx' : de32 (le32 x ++ []) = Some x) by (apply de32_le32; exact Hx).
  assert (Hy' : de32 (le32 y ++ []) = Some y) by (apply de32_le32; exact Hy).
  rewrite Heq in Hx'. rewrite Hx' in Hy'. injection Hy' as Hy'. exact Hy'.
Qed.

Lemma de64_bound_wf : forall l v,
  wf_bytes l = true -> de64 l = Some v -> v < 18446744073709551616.
Proof.
  intros l v Hwf Hv. unfold de64 in Hv.
  destruct (de32 l) as [lo|] eqn:Hlo; [|discriminate Hv].
  destruct (de32 (skipn 4 l)) as [hi|] eqn:Hhi; [|discriminate Hv].
  injection Hv as Hv.
  assert (Hlo' : lo < 4294967296) by (eapply de32_bound_wf; eauto).
  assert (Hwf' : wf_bytes (skipn 4 l) = true).
  { rewrite <- (firstn_skipn 4 l) in Hwf. apply wf_bytes_app in Hwf. apply Hwf. }
  assert (Hhi' : hi < 4294967296) by (eapply de32_bound_wf; eauto).
  lia.
Qed.

(* ---- list_eqb / bytes_eqb ---- *)
Lemma bytes_eqb_eq : forall a b, bytes_eqb a b = true <-> a = b.
Proof.
  unfold bytes_eqb.
  induction a as [|x a IH]; intros [|y b]; cbn [list_eqb].
  - split; reflexivity.
  - split; discriminate.
  - split; discriminate.
  - rewrite andb_true_iff, N.eqb_eq, IH. split.
    + intros [Hxy Hab]. subst. reflexivity.
    + intros Heq. injection Heq as Hxy Hab. split; assumption.
Qed.

Lemma bytes_eqb_refl : forall a, bytes_eqb a a = true.
Proof. intros a. apply bytes_eqb_eq. reflexivity. Qed.

Lemma bytes_eqb_neq : forall a b, bytes_eqb a b = false <-> a <> b.
Proof.
  intros a b. split.
  - intros Hf Heq. apply bytes_eqb_eq in Heq. congruence.
  - intros Hne. destruct (bytes_eqb a b) eqn:He; [|reflexivity].
    apply bytes_eqb_eq in He. contradiction.
Qed.

(* ---- bytes_compare ---- *)
Lemma bytes_compare_refl : forall a, bytes_compare a a = Eq.
Proof.
  induction a as [|x a IH]; cbn [bytes_compare].
  - reflexivity.
  - rewrite N.compare_refl. exact IH.
Qed.

Lemma bytes_compare_eq_iff : forall a b, bytes_compare a b = Eq <-> a = b.
Proof.
  induction a as [|x a IH]; intros [|y b]; cbn [bytes_compare].
  - split; reflexivity.
  - split; discriminate.
  - split; discriminate.
  - destruct (N.compare x y) eqn:Hc.
    + apply N.compare_eq_iff in Hc. subst y. rewrite IH. split.
      * intros Hab. subst. reflexivity.
      * intros Heq. injection Heq as Hab. exact Hab.
    + split; [discriminate|]. intros Heq. injection Heq as Hxy Hab. subst y.
      rewrite N.compare_refl in Hc. discriminate Hc.
    + split; [discriminate|]. intros Heq. injection Heq as Hxy Hab. subst y.
      rewrite N.compare_refl in Hc. discriminate Hc.
Qed.

Lemma bytes_compare_antisym : forall a b,
  bytes_compare a b = CompOpp (bytes_compare b a).
Proof.
  induction a as [|x a IH]; intros [|y b]; cbn [bytes_compare]; try reflexivity.
  rewrite (N.compare_antisym y x).
  destruct (N.compare y x); cbn [CompOpp]; try reflexivity.
  apply IH.
Qed.

Lemma bytes_compare_lt_gt : forall a b,
  bytes_compare a b = Lt <-> bytes_compare b a = Gt.
Proof.
  intros a b. rewrite (bytes_compare_antisym a b).
  destruct (bytes_compare b a); cbn [CompOpp]; split; congruence.
Qed.

Lemma bytes_compare_lt_trans : forall a b c,
  bytes_compare a b = Lt -> bytes_compare b c = Lt -> bytes_compare a c = Lt.
Proof.
  induction a as [|x a IH]; intros [|y b] [|z c] Hab Hbc;
    cbn [bytes_compare] in *; try discriminate; try reflexivity.
  destruct (N.compare x y) eqn:Hxy; try discriminate Hab.
  - apply N.compare_eq_iff in Hxy. subst y.
    destruct (N.compare x z) eqn:Hxz; try discriminate Hbc; try reflexivity.
    eapply IH; eauto.
  - destruct (N.compare y z) eqn:Hyz; try discriminate Hbc.
    + apply N.compare_eq_iff in Hyz. subst z. rewrite Hxy. reflexivity.
    + apply N.compare_lt_iff in Hxy. apply N.compare_lt_iff in Hyz.
      assert (Hxz : x < z) by (eapply N.lt_trans; eassumption).
      apply N.compare_lt_iff in Hxz. rewrite Hxz. reflexivity.
Qed.

Lemma bytes_compare_gt_trans : forall a b c,
  bytes_compare a b = Gt -> bytes_compare b c = Gt -> bytes_compare a c = Gt.
Proof.
  intros a b c Hab Hbc.
  apply bytes_compare_lt_gt in Hab. apply bytes_compare_lt_gt in Hbc.
  apply bytes_compare_lt_gt. eapply bytes_compare_lt_trans; eauto.
Qed.

Lemma bytes_compare_app_prefix : forall a x t,
  bytes_compare a (a ++ x :: t) = Lt.
Proof.
  induction a as [|y a IH]; intros x t; cbn [app bytes_compare].
  - reflexivity.
  - rewrite N.compare_refl. apply IH.
Qed.

Lemma bytes_compare_app_same : forall p a b,
  bytes_compare (p ++ a) (p ++ b) = bytes_compare a b.
Proof.
  induction p as [|y p IH]; intros a b; cbn [app bytes_compare].
  - reflexivity.
  - rewrite N.compare_refl. apply IH.
Qed.

Lemma bytes_ltb_irrefl : forall a, bytes_ltb a a = false.
Proof. intros a. unfold bytes_ltb. rewrite bytes_compare_refl. reflexivity. Qed.

Lemma bytes_ltb_trans : forall a b c,
  bytes_ltb a b = true -> bytes_ltb b c = true -> bytes_ltb a c = true.
Proof.
  unfold bytes_ltb. intros a b c Hab Hbc.
  destruct (bytes_compare a b) eqn:H1; try discriminate Hab.
  destruct (bytes_compare b c) eqn:H2; try discriminate Hbc.
  rewrite (bytes_compare_lt_trans a b c H1 H2). reflexivity.
Qed.

Lemma bytes_leb_ltb : forall a b, bytes_leb a b = negb (bytes_ltb b a).
Proof.
  intros a b. unfold bytes_leb, bytes_ltb.
  rewrite (bytes_compare_antisym b a).
  destruct (bytes_compare a b); reflexivity.
Qed.

Print Assumptions de64_le64.
Print Assumptions le32_de32.
Print Assumptions bytes_compare_lt_trans.
Print Assumptions bytes_compare_eq_iff.
