#!/usr/bin/env python3
"""facts_c10.py <outdir> -- translate the synchronisation skeleton of the CURRENT
/repo (env VERIF_REPO, default /repo) into a Coq fact table for property C10.

Writes <outdir>/Facts_C10.v  (Definition facts : list access_class := [...])
       <outdir>/facts_c10.json (raw sites, classes, problems of the lexical scan).
Never writes into the repo.  This translator is part of the TRUSTED base of C10:
it is a lexical scan, deliberately simple.

What is extracted
 (a) memory orders: every ldb_atomic_* call site of the files in ATOMIC_FILES
     (file, enclosing function, variable expression, operation, order).  The
     skiplist link wrappers get roles: RPublish = the store wrapper used by
     ldb_skiplist_insert to link the new node into prev[i]; RTraverse = every
     load wrapper called by a function other than ldb_skiplist_insert.
 (b) lock regions: for each file of SCAN a linear scan of every function body
     tracking ldb_mutex_lock/unlock/assert_held and ldb_cond_wait of the listed
     mutex expressions, with block structure (a block ending in return/goto/
     break/continue does not leak its lock state; `for (;;)` loops exit with
     the state of their break; labels take the state of their goto).  Every
     textual access to a listed field is recorded with the set of lock classes
     held at that point.  Functions that assert the mutex, or are listed in
     ENTRY (hand-written, from the REQUIRES comments), start in the held state;
     every call site of such a function is checked to hold what it requires.
 (c) hand-listed protocol tokens (NOT derivable lexically, listed explicitly):
     Q = "this thread is the head of db->writers" (writer-queue protocol;
         acquired/released inside db->mutex critical sections of ldb_write);
         accesses of the queue head to db->log, db->logfile, db->mem and the
         memtable insert run outside db->mutex and are guarded by Q only:
         GQueueHead = GLock [Q].
     B = "this thread runs the single background compaction"
         (db->background_compaction_scheduled, set/cleared under db->mutex;
         one pool thread); guards the MANIFEST writer of ldb_versions_apply
         while db->mutex is released.
 (e) every object with static storage duration that is not const (file scope or function local):
     the known ones are hand-listed (STATIC_ALLOW) with what serialises them; any other one becomes an
     unguarded shared write class, which check_facts rejects.
 (d) hand-listed, textually CONFIRMED entries (CONFIRM): the fresh-object writes
     that precede publication in the skiplist/memtable/arena, whose ordering
     w.r.t. the publishing store is checked by position in the function body.
"""
import os, re, sys, json

REPO = os.environ.get('VERIF_REPO', '/repo')

# ------------------------------------------------------------------ lock classes
M_DB, Q_HEAD, B_TOKEN, M_SHARD, M_POOL, M_FILE, M_LRUID, M_RFILE = 1, 2, 3, 4, 5, 6, 7, 8
LOCKNAME = {M_DB: 'M_db', Q_HEAD: 'Q_writers_head', B_TOKEN: 'B_background', M_SHARD: 'M_shard',
            M_POOL: 'M_pool', M_FILE: 'M_file', M_LRUID: 'M_lru_id', M_RFILE: 'M_rfile_seek'}

ATOMIC_FILES = ['skiplist.c', 'memtable.c', 'util/arena.c', 'db_impl.c', 'util/cache.c', 'table_cache.c',
                'version_set.c', 'util/thread_pool.c', 'util/env_unix_impl.h']

KNOWN_DEFINED = {'LDB_PTHREAD', 'LDB_HAVE_ATOMICS', 'NDEBUG', '_GNU_SOURCE'}
KNOWN_UNDEFINED = {'_WIN32', '_WIN64'}

DB_FIELDS = ['mem', 'imm', 'logfile_number', 'logfile', 'log', 'seed', 'writers', 'tmp_batch', 'snapshots',
             'pending_outputs', 'background_compaction_scheduled', 'manual_compaction', 'versions', 'bg_error', 'stats']
# pointer fields whose pointee is protected by the same guard as the pointer (passing it = may write the pointee)
DB_POINTEE = {'versions', 'log', 'logfile', 'tmp_batch'}

SCAN = {
 'db_impl.c': dict(
    mutexes={'&db->mutex': M_DB, 'state->mu': M_DB},
    fields=[(r'\bdb->(%s)\b' % '|'.join(DB_FIELDS), 'db.%s')],
    pointee={'db.' + f for f in DB_POINTEE},
    # functions entered with locks held although they do not assert it (from their callers / REQUIRES comments)
    entry={'ldb_do_compaction_work': {M_DB, B_TOKEN}, 'ldb_background_compaction': {M_DB, B_TOKEN},
           'ldb_compact_memtable': {M_DB, B_TOKEN}, 'ldb_install_compaction_results': {M_DB, B_TOKEN},
           'ldb_cleanup_compaction': {M_DB, B_TOKEN}, 'ldb_write_level0_table': {M_DB, B_TOKEN},
           'ldb_open_compaction_output_file': {B_TOKEN}, 'ldb_finish_compaction_output_file': {B_TOKEN},
           'ldb_make_room_for_write': {M_DB, Q_HEAD}, 'ldb_build_batch_group': {M_DB, Q_HEAD}},
    # defined in version_set.c, called here: call sites must hold what its entry state declares
    extern_entry={'ldb_versions_apply': {M_DB, B_TOKEN}},
    init={'ldb_create', 'ldb_open', 'ldb_recover', 'ldb_recover_log_file', 'ldb_new_db'},
    teardown={'ldb_destroy_internal'},
    # virtual lock events: (function, regex, 'lock'|'unlock', class, which occurrence)
    virtual=[('ldb_write', r'ldb_make_room_for_write\s*\(', 'lock', Q_HEAD),
             ('ldb_write', r'ldb_queue_shift\s*\(', 'unlock', Q_HEAD),
             ('ldb_background_call', r'assert\s*\(\s*db->background_compaction_scheduled\s*\)', 'lock', B_TOKEN),
             ('ldb_background_call', r'db->background_compaction_scheduled\s*=\s*0', 'unlock', B_TOKEN)],
    # textual evidence required for the hand-listed tokens
    evidence=[r'&w\s*!=\s*db->writers\.head', r'front of the writer queue', r'ldb_pool_create\s*\(\s*1\s*\)'],
    # calls that are accesses to state behind a pointer: name -> (location class, kind)
    calls={'ldb_memtable_ref': ('memtable.refs', 'W'), 'ldb_memtable_unref': ('memtable.refs', 'W'),
           'ldb_version_ref': ('version.refs', 'W'), 'ldb_version_unref': ('version.refs', 'W'),
           'ldb_batch_insert_into': ('memtable.insert', 'W'), 'ldb_memtable_add': ('memtable.insert', 'W')},
 ),
 'version_set.c': dict(
    mutexes={'mu': M_DB},
    only={'ldb_versions_apply'},
    fields=[(r'\bvset->(descriptor_log|descriptor_file)\b', 'versions.descriptor'),
            (r'\bvset->(manifest_file_number|dbname|options|icmp|table_cache)\b', 'versions.immutable'),
            (r'\bvset(?:->(\w+))?\b', 'db.versions')],
    pointee={'versions.descriptor', 'db.versions'},
    entry={'ldb_versions_apply': {M_DB, B_TOKEN}},
    init=set(), teardown=set(), virtual=[], evidence=[], calls={},
 ),
 'util/cache.c': dict(
    mutexes={'&lru->mutex': M_SHARD, '&lru->id_mutex': M_LRUID},
    fields=[(r'\blru->(usage|list|in_use|table|capacity|last_id)\b', 'lru.%s'),
            (r'\b(?:e|handle|old)->(refs|in_cache)\b', 'lru_handle.%s')],
    pointee=set(),
    entry={'lru_shard_ref': {M_SHARD}, 'lru_shard_unref': {M_SHARD}, 'lru_shard_finish': {M_SHARD}},
    init={'lru_shard_init', 'lru_shard_clear', 'ldb_lru_create', 'ldb_lru_destroy'},
    teardown=set(), virtual=[], evidence=[], calls={},
 ),
 'util/thread_pool.c': dict(
    mutexes={'&pool->mutex': M_POOL},
    fields=[(r'\bpool->(queue|threads|running|left|stop)\b', 'pool.%s')],
    pointee=set(), entry={}, init={'ldb_pool_create'}, teardown=set(), virtual=[], evidence=[], calls={},
 ),
 'util/env_unix_impl.h': dict(
    mutexes={'&file_mutex': M_FILE, '&file->mutex': M_RFILE},   # M_rfile_seek serialises lseek+read on one fd (no listed field)
    fields=[(r'\b(file_set)\b', 'env.%s')],
    pointee=set(), entry={}, init=set(), teardown=set(), virtual=[], evidence=[], calls={},
 ),
}

# ------------------------------------------------------------------ text utilities
def strip_c(src):
    """comments and string/char literals -> spaces (newlines kept)."""
    out = []; i = 0; n = len(src)
    while i < n:
        c = src[i]
        if src.startswith('/*', i):
            j = src.find('*/', i + 2); j = n if j < 0 else j + 2
            out.append(re.sub(r'[^\n]', ' ', src[i:j])); i = j
        elif src.startswith('//', i):
            j = src.find('\n', i); j = n if j < 0 else j
            out.append(' ' * (j - i)); i = j
        elif c == '"' or c == "'":
            j = i + 1
            while j < n and src[j] != c:
                j += 2 if src[j] == '\\' else 1
            out.append(c + ' ' * (j - i - 1) + c); i = j + 1
        else:
            out.append(c); i += 1
    return ''.join(out)

def eval_cond(kind, expr):
    """True / False / None(unknown) for the simple conditions we understand."""
    expr = expr.strip()
    if kind in ('ifdef', 'ifndef'):
        v = True if expr in KNOWN_DEFINED else False if expr in KNOWN_UNDEFINED else None
        return v if (v is None or kind == 'ifdef') else (not v)
    names = re.findall(r'defined\s*\(\s*(\w+)\s*\)', expr)
    rest = re.sub(r'!?\s*defined\s*\(\s*\w+\s*\)|\|\||&&|\s', '', expr)
    if rest or not names:
        return None
    vals = []
    for m in re.finditer(r'(!?)\s*defined\s*\(\s*(\w+)\s*\)', expr):
        v = True if m.group(2) in KNOWN_DEFINED else False if m.group(2) in KNOWN_UNDEFINED else None
        vals.append(None if v is None else (v != bool(m.group(1))))
    if '&&' in expr and '||' in expr:
        return None
    if '&&' in expr:
        return False if False in vals else None if None in vals else True
    return True if True in vals else None if None in vals else False

def preprocess(src):
    """Blank the branches of #if/#ifdef that are dead under the pinned build (LDB_PTHREAD, atomics present);
    unknown conditions keep both branches.  Directive lines themselves are blanked."""
    lines = src.split('\n'); out = []
    stack = []   # (active_before, state) state: True taken / False skipped / None unknown; 'done' if a branch was taken
    def active():
        return all(s[1] is not False for s in stack)
    for ln in lines:
        m = re.match(r'\s*#\s*(ifdef|ifndef|if|elif|else|endif)\b(.*)', ln)
        if m:
            d, e = m.group(1), m.group(2)
            if d in ('ifdef', 'ifndef', 'if'):
                v = eval_cond(d, e)
                stack.append([d, v, v is True])
            elif d == 'elif' and stack:
                top = stack[-1]
                if top[2]:
                    top[1] = False
                else:
                    v = eval_cond('if', e)
                    top[1] = v if top[1] is False else None
                    top[2] = v is True
            elif d == 'else' and stack:
                top = stack[-1]
                if top[2]:
                    top[1] = False
                elif top[1] is False:
                    top[1] = True
                else:
                    top[1] = None
            elif d == 'endif' and stack:
                stack.pop()
            out.append('')
        elif re.match(r'\s*#', ln):
            out.append('')
        else:
            out.append(ln if active() else '')
    return '\n'.join(out)

def match_paren(s, i):
    """s[i] == '(' -> index of the matching ')' (or -1)."""
    d = 0
    for j in range(i, len(s)):
        if s[j] == '(':
            d += 1
        elif s[j] == ')':
            d -= 1
            if d == 0:
                return j
    return -1

def match_paren_back(s, j):
    d = 0
    for i in range(j, -1, -1):
        if s[i] == ')':
            d += 1
        elif s[i] == '(':
            d -= 1
            if d == 0:
                return i
    return -1

def split_args(s):
    args = []; d = 0; cur = ''
    for c in s:
        if c in '([{':
            d += 1
        elif c in ')]}':
            d -= 1
        if c == ',' and d == 0:
            args.append(cur.strip()); cur = ''
        else:
            cur += c
    if cur.strip():
        args.append(cur.strip())
    return args

def functions(txt):
    """[(name, body_start, body_end)] of top-level function definitions; body excludes the outer braces."""
    res = []; depth = 0; i = 0; n = len(txt); last = 0
    while i < n:
        c = txt[i]
        if c == '{':
            if depth == 0:
                head = txt[last:i]
                j = len(head) - 1
                while j >= 0 and head[j].isspace():
                    j -= 1
                name = None
                if j >= 0 and head[j] == ')':
                    k = match_paren_back(head, j)
                    m = re.search(r'([A-Za-z_]\w*)\s*$', head[:k]) if k > 0 else None
                    if m and '=' not in head:
                        name = m.group(1)
                start = i + 1
                d = 1; k = i + 1
                while k < n and d > 0:
                    if txt[k] == '{':
                        d += 1
                    elif txt[k] == '}':
                        d -= 1
                    k += 1
                if name and name not in ('if', 'while', 'for', 'switch'):
                    res.append((name, start, k - 1))
                i = k; last = k
                continue
        elif c == ';' and depth == 0:
            last = i + 1
        i += 1
    return res

def line_of(txt, pos):
    return txt.count('\n', 0, pos) + 1

# ------------------------------------------------------------------ (a) atomics
ORDERS = {'ldb_order_relaxed': 'Relaxed', 'ldb_order_consume': 'Acquire', 'ldb_order_acquire': 'Acquire',
          'ldb_order_release': 'Release', 'ldb_order_acq_rel': 'AcqRel', 'ldb_order_seq_cst': 'SeqCst'}
ATOMIC_RE = re.compile(r'\bldb_atomic_(load_ptr|store_ptr|load|store|fetch_add|fetch_sub|init_ptr|init|exchange|compare_exchange)\s*\(')

def atomic_sites(rel, txt):
    sites = []
    funcs = functions(txt)
    for m in ATOMIC_RE.finditer(txt):
        op = m.group(1)
        e = match_paren(txt, m.end() - 1)
        if e < 0:
            continue
        args = split_args(txt[m.end():e])
        if not args:
            continue
        var = re.sub(r'\s+', '', args[0]).lstrip('&')
        if op.startswith('init'):
            order = 'Relaxed'       # ldb_atomic_init = relaxed store (atomic.h)
        elif op in ('exchange', 'compare_exchange'):
            order = 'SeqCst'        # atomic.h passes 5 = seq_cst
        else:
            order = ORDERS.get(args[-1].strip())
            if order is None:
                order = 'UNKNOWN:' + args[-1].strip()
        fn = next((f for f, s, t in funcs if s <= m.start() < t), '?')
        sites.append(dict(file=rel, func=fn, line=line_of(txt, m.start()), var=var, op=op, order=order))
    return sites

def atomic_locclass(var):
    v = var
    if re.search(r'->next\[', v): return 'skiplist.next'
    if v.endswith('->max_height'): return 'skiplist.max_height'
    if v.endswith('->usage') and 'arena' in v: return 'arena.usage'
    if v.endswith('->has_imm'): return 'db.has_imm'
    if v.endswith('->shutting_down'): return 'db.shutting_down'
    if v.endswith('->acquires_allowed'): return 'env.limiter'
    return 'atomic:' + v

# ------------------------------------------------------------------ (b) lock regions
class Problem(Exception):
    pass

def scan_function(rel, cfg, txt, name, s, t, problems, entry_sets):
    """linear scan of one function body; returns (accesses, callsites)."""
    body = txt[s:t]
    ev = []    # (pos, prio, kind, data)
    def add(pos, kind, data=None):
        ev.append((pos, kind, data))
    for i, c in enumerate(body):
        if c == '{': add(i, '{')
        elif c == '}': add(i, '}')
    def mutex_class(expr):
        return cfg['mutexes'].get(re.sub(r'\s+', '', expr))
    for m in re.finditer(r'\bldb_mutex_(lock|unlock|assert_held)\s*\(', body):
        e = match_paren(body, m.end() - 1)
        mc = mutex_class(body[m.end():e])
        if mc is not None:
            add(m.start(), m.group(1), mc)
        elif name in cfg.get('only', {name}):
            problems.append('%s:%s: mutex expression %r not in the table' % (rel, name, body[m.end():e]))
    for m in re.finditer(r'\bldb_cond_wait\s*\(', body):
        e = match_paren(body, m.end() - 1)
        a = split_args(body[m.end():e])
        mc = mutex_class(a[-1]) if a else None
        if mc is not None:
            add(m.start(), 'wait', mc)
    for fn, rx, what, cls in cfg['virtual']:
        if fn == name:
            m = re.search(rx, body)
            if not m:
                problems.append('%s:%s: marker %r of a protocol token not found' % (rel, name, rx))
            else:
                add(m.start() if what == 'lock' else m.start(), 'v' + what, cls)
    # jumps and labels
    for m in re.finditer(r'\b(return|break|continue|goto)\b', body):
        j = m.start() - 1
        while j >= 0 and body[j].isspace():
            j -= 1
        uncond = j < 0 or body[j] in ';{}:'
        endp = body.find(';', m.end())
        lab = None
        if m.group(1) == 'goto':
            lab = body[m.end():endp].strip()
        add(m.start(), 'jump', (m.group(1), uncond, endp, lab))
    for m in re.finditer(r'(?m)^[ \t]*([A-Za-z_]\w*)[ \t]*:[ \t]*$', body):
        if m.group(1) not in ('default',):
            add(m.start(1), 'label', m.group(1))
    # asserts (compiled out by -DNDEBUG in every build variant of the framework)
    aspans = []
    for m in re.finditer(r'\bassert\s*\(', body):
        e = match_paren(body, m.end() - 1)
        aspans.append((m.start(), e))
    # field accesses
    seen = set()
    for rx, cls in cfg['fields']:
        for m in re.finditer(rx, body):
            if any(a <= m.start() < b for a, b in seen):
                continue
            if m.start() > 0 and (body[m.start() - 1].isalnum() or body[m.start() - 1] in '_.'):
                continue
            if body[max(0, m.start() - 2):m.start()] == '->':
                continue
            seen.add((m.start(), m.end()))
            lc = cls % m.group(1) if '%s' in cls else cls
            # extend over ->x .x [..]
            k = m.end(); ext = False
            while True:
                mm = re.match(r'\s*(->|\.)\s*\w+', body[k:])
                if mm:
                    k += mm.end(); ext = True; continue
                if k < len(body) and body[k] == '[':
                    d = 0; q = k
                    while q < len(body):
                        if body[q] == '[': d += 1
                        elif body[q] == ']':
                            d -= 1
                            if d == 0: break
                        q += 1
                    k = q + 1; ext = True; continue
                break
            after = body[k:k + 4].lstrip()
            p = m.start() - 1
            while p >= 0 and body[p].isspace():
                p -= 1
            before = body[max(0, p - 1):p + 1]
            kind = 'R'
            if re.match(r'(=[^=]|\+=|-=|\|=|&=|\+\+|--)', after + ' '):
                kind = 'W'
            elif before.endswith('++') or before.endswith('--'):
                kind = 'W'
            elif before.endswith('&') and not before.endswith('&&'):
                kind = 'W'          # address taken: the callee may write
            elif lc in cfg['pointee'] and (p >= 0 and body[p] in '(,') and re.match(r'\s*[,)]', body[k:k + 3] + ' '):
                kind = 'W'          # pointee handed to a function
            add(m.start(), 'access', (lc, kind, any(a <= m.start() <= b for a, b in aspans)))
    # calls of interest: functions with an entry requirement, and pointer-state calls
    names = set(entry_sets) | set(cfg['calls'])
    for m in re.finditer(r'\b([A-Za-z_]\w*)\s*\(', body):
        if m.group(1) in names and not (m.start() > 0 and body[m.start() - 1] in '&'):
            add(m.start(), 'call', m.group(1))
    ev.sort(key=lambda x: (x[0], 0 if x[1] in ('{',) else 1))

    held = set(entry_sets.get(name, set()))
    entry_state = frozenset(held)
    accesses = []; calls = []
    stack = []      # blocks
    goto_state = {}
    last_uncond = None      # (endpos) of the last unconditional jump at the current level
    last_closed = None
    where = lambda p: '%s:%s:%d' % (rel, name, line_of(txt, s + p))

    def block_type(pos):
        j = pos - 1
        while j >= 0 and body[j].isspace():
            j -= 1
        if j >= 0 and body[j] == ')':
            k = match_paren_back(body, j)
            m = re.search(r'([A-Za-z_]\w*)\s*$', body[:k])
            kw = m.group(1) if m else ''
            inner = re.sub(r'\s+', '', body[k + 1:j])
            pre = body[:m.start()].rstrip() if m else ''
            is_else = pre.endswith('else')
            if kw == 'for' and inner == ';;': return 'inf', is_else
            if kw == 'while' and inner in ('1',): return 'inf', is_else
            if kw in ('for', 'while'): return 'loop', is_else
            if kw == 'switch': return 'switch', is_else
            if kw == 'if': return 'if', is_else
            return 'plain', False
        m = re.search(r'([A-Za-z_]\w*)\s*$', body[:j + 1])
        kw = m.group(1) if m else ''
        if kw == 'else': return 'else', True
        if kw == 'do': return 'loop', False
        return 'plain', False

    for pos, kind, data in ev:
        if kind == '{':
            bt, is_else = block_type(pos)
            blk = dict(type=bt, entry=frozenset(held), breaks=[], jumped_at=None, if_exit='none')
            if is_else and last_closed is not None:
                # the else branch starts from the state at the entry of the matching if
                held = set(last_closed['entry']); blk['entry'] = frozenset(held)
                blk['if_exit'] = last_closed['exit']
            stack.append(blk); last_closed = None
        elif kind == '}':
            if not stack:
                problems.append(where(pos) + ': unbalanced braces'); continue
            blk = stack.pop()
            ended_jump = blk['jumped_at'] is not None and body[blk['jumped_at'] + 1:pos].strip() == ''
            exit_state = None if ended_jump else frozenset(held)
            if blk['type'] == 'inf':
                bs = set(blk['breaks'])
                if len(bs) > 1:
                    problems.append(where(pos) + ': breaks of an infinite loop leave with different lock states')
                if bs:
                    held = set(next(iter(bs))); exit_state = frozenset(held)
            elif blk['type'] == 'loop':
                if exit_state is not None and exit_state != blk['entry']:
                    problems.append(where(pos) + ': loop body changes the lock state')
                for b in blk['breaks']:
                    if b != blk['entry']:
                        problems.append(where(pos) + ': break leaves a loop with a different lock state')
                held = set(blk['entry']); exit_state = blk['entry']
            else:
                if blk['type'] == 'switch':
                    held = set(blk['entry']); exit_state = blk['entry']
                elif ended_jump:
                    held = set(blk['entry'])
                if blk['if_exit'] != 'none':
                    a, b = blk['if_exit'], exit_state
                    if a is not None and b is not None and a != b:
                        problems.append(where(pos) + ': if/else branches end with different lock states')
                    if b is None and a is not None:
                        held = set(a); exit_state = a
            blk['exit'] = exit_state
            last_closed = blk if blk['type'] in ('if', 'else') or blk['if_exit'] != 'none' else None
            if last_closed is not None and blk['type'] != 'if' and blk['if_exit'] == 'none':
                last_closed = None
            continue
        else:
            last_closed = None if kind not in ('access', 'call') else last_closed
        if kind in ('lock', 'vlock'):
            if data in held:
                problems.append(where(pos) + ': %s locked while held' % LOCKNAME[data])
            held.add(data)
        elif kind in ('unlock', 'vunlock'):
            if data not in held:
                problems.append(where(pos) + ': %s unlocked while not held' % LOCKNAME[data])
            held.discard(data)
        elif kind in ('assert_held', 'wait'):
            if data not in held:
                problems.append(where(pos) + ': %s required (%s) but not held' % (LOCKNAME[data], kind))
        elif kind == 'jump':
            what, uncond, endp, lab = data
            if what == 'return':
                if frozenset(held) != entry_state:
                    problems.append(where(pos) + ': return with lock state {%s}, entered with {%s}' % (
                        ','.join(LOCKNAME[x] for x in sorted(held)), ','.join(LOCKNAME[x] for x in sorted(entry_state))))
            elif what == 'break':
                for b in reversed(stack):
                    if b['type'] in ('inf', 'loop', 'switch'):
                        b['breaks'].append(frozenset(held)); break
            elif what == 'goto':
                if lab in goto_state and goto_state[lab] != frozenset(held):
                    problems.append(where(pos) + ': gotos to %s with different lock states' % lab)
                goto_state[lab] = frozenset(held)
            if uncond:
                if stack:
                    stack[-1]['jumped_at'] = endp
                else:
                    last_uncond = endp
        elif kind == 'label':
            if data in goto_state:
                held = set(goto_state[data])
        elif kind == 'access':
            lc, k, in_assert = data
            accesses.append(dict(file=rel, func=name, line=line_of(txt, s + pos), loc=lc, kind=k,
                                 held=sorted(held), in_assert=in_assert))
        elif kind == 'call':
            calls.append(dict(file=rel, func=name, line=line_of(txt, s + pos), callee=data, held=sorted(held)))
    tail_jump = last_uncond is not None and body[last_uncond + 1:].strip() == ''
    if not tail_jump and frozenset(held) != entry_state:
        problems.append('%s:%s: function ends with lock state {%s}, entered with {%s}' % (
            rel, name, ','.join(LOCKNAME[x] for x in sorted(held)), ','.join(LOCKNAME[x] for x in sorted(entry_state))))
    return accesses, calls

def scan_file(rel, cfg, problems):
    path = os.path.join(REPO, 'src', rel)
    raw = open(path, errors='replace').read()
    txt = preprocess(strip_c(raw))
    for rx in cfg['evidence']:
        if not re.search(rx, raw):
            problems.append('%s: textual evidence %r for a hand-listed protocol token is gone' % (rel, rx))
    funcs = functions(txt)
    entry_sets = {k: set(v) for k, v in cfg['entry'].items()}
    for k, v in cfg.get('extern_entry', {}).items():
        entry_sets[k] = set(v)
    for name, s, t in funcs:
        body = txt[s:t]
        for m in re.finditer(r'\bldb_mutex_assert_held\s*\(', body):
            e = match_paren(body, m.end() - 1)
            mc = cfg['mutexes'].get(re.sub(r'\s+', '', body[m.end():e]))
            if mc is not None:
                entry_sets.setdefault(name, set()).add(mc)
    for k in cfg['entry']:
        if k not in [f for f, _, _ in funcs]:
            problems.append('%s: hand-listed function %s no longer exists' % (rel, k))
    accesses = []; calls = []
    for name, s, t in funcs:
        if 'only' in cfg and name not in cfg['only']:
            continue
        a, c = scan_function(rel, cfg, txt, name, s, t, problems, entry_sets)
        accesses += a; calls += c
    return accesses, calls, entry_sets, [f for f, _, _ in funcs]

# ------------------------------------------------------------------ (d) confirmed hand-listed entries
def confirm_publication(problems):
    """Fresh-object writes precede the publishing store; returns (classes, notes, publish_wrapper, traverse_wrappers)."""
    notes = []
    sk = preprocess(strip_c(open(os.path.join(REPO, 'src', 'skiplist.c'), errors='replace').read()))
    fs = {n: (s, t) for n, s, t in functions(sk)}
    pub = None; trav = set(); plain_loads = set()
    if 'ldb_skiplist_insert' not in fs:
        problems.append('skiplist.c: ldb_skiplist_insert not found')
        return None, set(), notes
    s, t = fs['ldb_skiplist_insert']; body = sk[s:t]
    m = re.search(r'\b(ldb_skipnode_\w+)\s*\(\s*prev\s*\[\s*i\s*\]\s*,\s*i\s*,\s*x\s*\)', body)
    if not m:
        problems.append('skiplist.c:ldb_skiplist_insert: the store linking x into prev[i] was not found')
    else:
        pub = m.group(1)
        c = re.search(r'\bx\s*=\s*ldb_skipnode_create\s*\(', body)
        if not c or c.start() > m.start():
            problems.append('skiplist.c:ldb_skiplist_insert: node creation does not precede its publication')
        else:
            notes.append('skiplist.c:ldb_skiplist_insert: x = ldb_skipnode_create(...) (line %d) precedes %s(prev[i], i, x) (line %d)' % (
                line_of(sk, s + c.start()), pub, line_of(sk, s + m.start())))
        # every other store into x before publication is a pre-publication store
    for n, (a, b) in fs.items():
        if n == 'ldb_skiplist_insert' or n.startswith('ldb_skipnode_'):
            continue
        for mm in re.finditer(r'\b(ldb_skipnode_next\w*)\s*\(', sk[a:b]):
            trav.add(mm.group(1))
    # memtable: entry bytes are written before ldb_skiplist_insert
    mt = preprocess(strip_c(open(os.path.join(REPO, 'src', 'memtable.c'), errors='replace').read()))
    fm = {n: (s, t) for n, s, t in functions(mt)}
    if 'ldb_memtable_add' in fm:
        a, b = fm['ldb_memtable_add']; body = mt[a:b]
        ins = re.search(r'\bldb_skiplist_insert\s*\(', body)
        alloc = re.search(r'\bldb_arena_alloc\w*\s*\(', body)
        writes = [w.start() for w in re.finditer(r'\b(memcpy|ldb_\w*write\w*|ldb_\w*encode\w*|ldb_\w*put\w*)\s*\(', body)]
        if not ins or not alloc or not writes or max(writes) > ins.start() or alloc.start() > min(writes):
            problems.append('memtable.c:ldb_memtable_add: entry bytes are not all written between the arena allocation and ldb_skiplist_insert')
        else:
            notes.append('memtable.c:ldb_memtable_add: %d buffer writes between ldb_arena_alloc (line %d) and ldb_skiplist_insert (line %d)' % (
                len(writes), line_of(mt, a + alloc.start()), line_of(mt, a + ins.start())))
    else:
        problems.append('memtable.c: ldb_memtable_add not found')
    return pub, trav, notes

# ------------------------------------------------------------------ assembly
def coq_str(s):
    return '"' + s.replace('"', "'") + '"'

# ------------------------------------------------------------------ (e) static-duration mutable storage
STATIC_ALLOW = {
    'util/atomic.c:ldb_atomic_lock': 'a mutex (fallback implementation of the atomics)',
    'util/crc32c.c:result': 'one-time CPU-feature probe; written under the spinlock `lock` next to it, every writer stores the same value',
    'util/crc32c.c:lock': 'spinlock of the CPU-feature probe',
    'util/env_unix_impl.h:ldb_fd_limiter': 'counting limiter, accessed with atomic operations only (the ldb_limiter functions)',
    'util/env_unix_impl.h:ldb_mmap_limiter': 'counting limiter, accessed with atomic operations only (the ldb_limiter functions)',
    'util/env_unix_impl.h:file_mutex': 'a mutex (guards file_set: lock class M_file)',
    'util/env_unix_impl.h:file_set': 'table of locked files, guarded by file_mutex (lock class M_file, checked by the lock-region scan)',
    'util/env_unix_impl.h:guard': 'pthread_once / once-flag of ldb_env_init',
    'util/rbt.c:sentinel': 'the shared NIL node of the red-black trees; its fields are only written with values that no reader depends on (CLRS sentinel), trees themselves are guarded by their owners',
    'util/rbt.c:NIL': 'pointer to the sentinel, never reassigned',
}

def scan_statics():
    """every `static` object declaration (file scope or function local) of the library sources that is not const"""
    import glob
    src = os.path.join(REPO, 'src')
    files = sorted(glob.glob(src + '/*.c') + glob.glob(src + '/*.h') + glob.glob(src + '/util/*.c') + glob.glob(src + '/util/*.h') +
                   glob.glob(src + '/table/*.c') + glob.glob(src + '/table/*.h'))
    out = []
    for f in files:
        rel = os.path.relpath(f, src)
        if re.search(r'env_win|env_mem|testutil|(^|/)t-', rel): continue
        txt = re.sub(r'/\*.*?\*/', lambda m: '\n' * m.group(0).count('\n'), open(f, errors='replace').read(), flags=re.S)
        for m in re.finditer(r'(?m)^[ \t]*static\b([^;{]*)([;{])', txt):
            decl, end = m.group(1), m.group(2)
            head = decl.split('=')[0]
            if '(' in head: continue                    # a function
            if re.search(r'\bconst\b', head): continue
            if end == '{' and '=' not in decl: continue
            nm = re.findall(r'([A-Za-z_]\w*)\s*(?:\[[^\]]*\])*\s*$', head.strip())
            out.append((rel, txt[:m.start()].count('\n') + 1, nm[0] if nm else '?', ' '.join(decl.split())[:90]))
    return out

def main():
    if len(sys.argv) < 2:
        print(__doc__); return 2
    out = sys.argv[1]
    if os.path.realpath(out).startswith(os.path.realpath(REPO) + os.sep) or os.path.realpath(out) == os.path.realpath(REPO):
        print('refusing to write into the repo'); return 2
    os.makedirs(out, exist_ok=True)
    problems = []
    # (a)
    asites = []
    for rel in ATOMIC_FILES:
        p = os.path.join(REPO, 'src', rel)
        if not os.path.exists(p):
            problems.append('missing source file ' + rel); continue
        asites += atomic_sites(rel, preprocess(strip_c(open(p, errors='replace').read())))
    pub, trav, notes = confirm_publication(problems)
    # (b)
    accesses = []; calls = []; entries = {}; allfuncs = {}
    for rel, cfg in SCAN.items():
        if not os.path.exists(os.path.join(REPO, 'src', rel)):
            problems.append('missing source file ' + rel); continue
        a, c, e, fl = scan_file(rel, cfg, problems)
        accesses += a; calls += c; entries[rel] = e; allfuncs[rel] = fl

    locids = {}
    def locid(name):
        if name not in locids:
            locids[name] = len(locids)
        return locids[name]
    classes = {}     # key -> dict(name, loc, kind, mo, guard, role, sites)
    def add_class(loc, kind, mo, guard, role, site, tag=''):
        key = (loc, kind, mo, guard, role, tag)
        c = classes.setdefault(key, dict(loc=loc, kind=kind, mo=mo, guard=guard, role=role, tag=tag, sites=[]))
        c['sites'].append(site)

    # atomics -> classes
    for st in asites:
        if st['order'].startswith('UNKNOWN'):
            problems.append('%s:%s:%d: memory order %s not understood' % (st['file'], st['func'], st['line'], st['order']))
            continue
        lc = atomic_locclass(st['var'])
        kind = 'Read' if st['op'] in ('load', 'load_ptr') else 'Write'
        role = 'RPlain'
        if lc == 'skiplist.next':
            if kind == 'Write' and st['func'] == pub:
                role = 'RPublish'
            if kind == 'Read' and st['func'] in trav:
                role = 'RTraverse'
        add_class(lc, kind, st['order'], 'GAtomic', role, '%s:%s:%d %s(%s)' % (st['file'], st['func'], st['line'], st['op'], st['var']),
                  tag=st['func'] if lc == 'skiplist.next' else '')
    # published fields (hand-listed, confirmed textually above)
    P = 'skiplist.next'
    add_class('memtable.entry', 'Write', 'NonAtomic', ('GPublishedBy', P), 'RPlain',
              'skiplist.c:ldb_skipnode_init node->key = key; memtable.c:ldb_memtable_add entry bytes (CONFIRMED: before publication)')
    add_class('memtable.entry', 'Read', 'NonAtomic', ('GPublishedBy', P), 'RPlain',
              'skiplist.c readers: x->key / next->key after an acquire load of next[]; memtable.c:ldb_memtable_get, iterator key/value')
    # arena allocation state: only the inserter (queue head) or recovery touches it
    add_class('arena.alloc_state', 'Write', 'NonAtomic', ('GLock', (Q_HEAD,)), 'RPlain',
              'util/arena.c:ldb_arena_alloc* data/left/blocks, reached only from ldb_memtable_add <- ldb_batch_insert_into (HAND-LISTED; call site checked: class memtable.insert)')

    # (e) storage with static duration that is not const: every such object is shared by ALL handles and threads of the
    #     process; the known ones are hand-listed with what serialises them, any other one is an unguarded shared write
    for (rel, line, name, decl) in scan_statics():
        key = '%s:%s' % (rel, name)
        if key in STATIC_ALLOW:
            notes.append('static %s (%s): %s' % (key, decl, STATIC_ALLOW[key]))
            continue
        lc = 'static:%s' % key
        add_class(lc, 'Write', 'NonAtomic', ('GLock', ()), 'RPlain', '%s:%d static %s -- mutable static storage not in the hand-listed table (shared by every thread that calls the enclosing function)' % (rel, line, decl))

    # lock-region accesses -> classes
    for a in accesses:
        if a['in_assert']:
            continue
        cfg = SCAN[a['file']]
        if a['func'] in cfg['init'] or (a['func'] in cfg['teardown'] and not a['held']):
            guard = 'GInit'
        else:
            guard = ('GLock', tuple(a['held']))
        add_class(a['loc'], 'Write' if a['kind'] == 'W' else 'Read', 'NonAtomic', guard, 'RPlain',
                  '%s:%s:%d' % (a['file'], a['func'], a['line']))
    # calls
    for c in calls:
        cfg = SCAN[c['file']]
        site = '%s:%s:%d call %s' % (c['file'], c['func'], c['line'], c['callee'])
        isinit = c['func'] in cfg['init'] or (c['func'] in cfg['teardown'] and not c['held'])
        if c['callee'] in cfg['calls']:
            lc, k = cfg['calls'][c['callee']]
            add_class(lc, 'Write' if k == 'W' else 'Read', 'NonAtomic', 'GInit' if isinit else ('GLock', tuple(c['held'])), 'RPlain', site)
        req = entries.get(c['file'], {}).get(c['callee'])
        if req:
            for lk in sorted(req):
                lc = 'requires:%s:%s' % (c['callee'], LOCKNAME[lk])
                add_class(lc, 'Write', 'NonAtomic', ('GLock', (lk,)), 'RPlain', 'declared entry state of ' + c['callee'], tag='decl')
                add_class(lc, 'Write', 'NonAtomic', 'GInit' if isinit else ('GLock', tuple(c['held'])), 'RPlain', site, tag='site')
    # memtable.insert must hold Q (it is what makes arena.alloc_state and the single-writer skiplist assumption true)
    add_class('memtable.insert', 'Write', 'NonAtomic', ('GLock', (Q_HEAD,)), 'RPlain',
              'declared: the skiplist has a single writer at a time = the writer-queue head (HAND-LISTED)', tag='decl')

    # names
    def guard_coq(g):
        if g == 'GInit' or g == 'GAtomic' or g == 'GThreadLocal':
            return g
        if g[0] == 'GLock':
            return '(GLock [%s])' % '; '.join(str(x) for x in g[1])
        if g[0] == 'GPublishedBy':
            return '(GPublishedBy %d)' % locid(g[1])
    def guard_txt(g):
        if isinstance(g, str):
            return g
        if g[0] == 'GLock':
            if g[1] == (Q_HEAD,):
                return 'GQueueHead'
            return 'GLock{' + ','.join(LOCKNAME[x] for x in g[1]) + '}'
        return 'GPublishedBy(%s)' % g[1]
    ordered = sorted(classes.values(), key=lambda c: (c['loc'], c['kind'], c['mo'], guard_txt(c['guard']), c['role'], c['tag']))
    for c in ordered:
        locid(c['loc'])
    lines = []
    summary = []
    for c in ordered:
        fnset = []
        for st in c['sites']:
            f = st.split(':')[1] if st.count(':') >= 2 and ' ' not in st.split(':')[1] else ''
            if f and f not in fnset:
                fnset.append(f)
        nm = '%s %s %s %s%s%s' % (c['loc'], c['kind'], c['mo'], guard_txt(c['guard']),
                                  ' ' + c['role'] if c['role'] != 'RPlain' else '',
                                  (' @' + ','.join(fnset[:6]) + ('..' if len(fnset) > 6 else '')) if fnset else '')
        c['name'] = nm
        lines.append('  mkClass %s %d %s %s %s %s' % (coq_str(nm), locid(c['loc']), c['kind'], c['mo'], guard_coq(c['guard']), c['role']))
        summary.append(dict(name=nm, loc=c['loc'], kind=c['kind'], mo=c['mo'], guard=guard_txt(c['guard']), role=c['role'], sites=c['sites']))

    v = []
    v.append('(* Facts_C10.v -- GENERATED by bin/facts_c10.py from the sources of the repository; do not edit.')
    v.append('   Lock classes: ' + ', '.join('%d = %s' % (k, n) for k, n in sorted(LOCKNAME.items())))
    v.append('   GQueueHead = GLock [%d]: access by the thread at the head of db->writers outside db->mutex (writer-queue protocol, hand-listed).' % Q_HEAD)
    v.append('   Location classes: ' + ', '.join('%d = %s' % (i, n) for n, i in sorted(locids.items(), key=lambda x: x[1])))
    v.append('*)')
    v.append('Require Import List String.')
    v.append('Import ListNotations.')
    v.append('Require Import LCDB.Hb.')
    v.append('Open Scope string_scope.')
    v.append('')
    v.append('Definition facts : list access_class := [')
    v.append(';\n'.join(lines))
    v.append('].')
    v.append('')
    v.append('(* RAW SITES')
    v.append(' atomic call sites (file:function:line op(var) order):')
    for st in asites:
        v.append('   %s:%s:%d %s(%s) %s' % (st['file'], st['func'], st['line'], st['op'], st['var'], st['order']))
    v.append(' publication (confirmed textually): publish wrapper = %s; traversal wrappers = %s' % (pub, ','.join(sorted(trav))))
    for nline in notes:
        v.append('   ' + nline)
    v.append(' lock-region accesses (file:function:line class kind {held}):')
    for a in accesses:
        v.append('   %s:%s:%d %s %s {%s}%s' % (a['file'], a['func'], a['line'], a['loc'], a['kind'],
                 ','.join(LOCKNAME[x] for x in a['held']), ' [inside assert: ignored, NDEBUG]' if a['in_assert'] else ''))
    v.append(' call sites (file:function:line callee {held}):')
    for c in calls:
        v.append('   %s:%s:%d %s {%s}' % (c['file'], c['func'], c['line'], c['callee'], ','.join(LOCKNAME[x] for x in c['held'])))
    v.append(' problems of the lexical scan: %d' % len(problems))
    for p in problems:
        v.append('   ' + p.replace('*)', '* )'))
    v.append('*)')
    open(os.path.join(out, 'Facts_C10.v'), 'w').write('\n'.join(v) + '\n')
    json.dump(dict(repo=REPO, classes=summary, atomic_sites=asites, accesses=accesses, calls=calls, problems=problems,
                   publish_wrapper=pub, traverse_wrappers=sorted(trav), notes=notes,
                   lock_classes={str(k): n for k, n in LOCKNAME.items()}, loc_classes=locids),
              open(os.path.join(out, 'facts_c10.json'), 'w'), indent=1)
    print('facts_c10: %d classes, %d atomic sites, %d accesses, %d call sites, %d problems' % (
        len(ordered), len(asites), len(accesses), len(calls), len(problems)))
    for p in problems:
        print('PROBLEM ' + p)
    return 0

if __name__ == '__main__':
    sys.exit(main())
