"""vlib.py -- shared machinery of the lcdb verification checks.

build   : compile /repo's working tree (VERIF_REPO) into a scratch dir
prove   : (re)build the Coq development, re-check Properties_<ID>.v, collect Print Assumptions
model   : extracted OCaml model driver
correspond : run C driver and model driver on the same case lines and diff
report  : evidence/<ID>.json, VIOLATION / KNOWN-FINDING lines, exit code
"""
import os, sys, json, subprocess, tempfile, shutil, time, glob, re, atexit, hashlib
from concurrent.futures import ThreadPoolExecutor

VERIF = os.path.dirname(os.path.dirname(os.path.abspath(__file__)))
REPO = os.environ.get('VERIF_REPO', '/repo')
COQ = os.path.join(VERIF, 'coq')
NCPU = int(os.environ.get('VERIF_JOBS', '16'))

# ---------------------------------------------------------------- rng
class Rng:
    """splitmix64; every random choice of a check derives from one of these."""
    def __init__(self, seed):
        self.s = seed & 0xFFFFFFFFFFFFFFFF
    def next(self):
        self.s = (self.s + 0x9E3779B97F4A7C15) & 0xFFFFFFFFFFFFFFFF
        z = self.s
        z = ((z ^ (z >> 30)) * 0xBF58476D1CE4E5B9) & 0xFFFFFFFFFFFFFFFF
        z = ((z ^ (z >> 27)) * 0x94D049BB133111EB) & 0xFFFFFFFFFFFFFFFF
        return z ^ (z >> 31)
    def below(self, n):
        return self.next() % n if n > 0 else 0
    def range(self, a, b):           # inclusive
        return a + self.below(b - a + 1)
    def choice(self, l):
        return l[self.below(len(l))]
    def chance(self, num, den):
        return self.below(den) < num
    def bytes(self, n):
        out = bytearray()
        while len(out) < n:
            out += self.next().to_bytes(8, 'little')
        return bytes(out[:n])
    def fork(self):
        return Rng(self.next())

def seed_from_env():
    try:
        return int(os.environ.get('VERIF_SEED', '20260923'))
    except ValueError:
        return 20260923

def tier_from_args(argv):
    t = os.environ.get('VERIF_TIER', 'quick')
    if '--tier' in argv:
        t = argv[argv.index('--tier') + 1]
    t = t if t in ('quick', 'thorough') else 'quick'
    os.environ['VERIF_TIER'] = t       # coq_check adds the coqchk pass in the thorough tier
    return t

# ---------------------------------------------------------------- scratch
_scratch = []
def scratch_dir(prefix='lcdbv.'):
    base = '/dev/shm' if os.path.isdir('/dev/shm') and os.access('/dev/shm', os.W_OK) else tempfile.gettempdir()
    d = tempfile.mkdtemp(prefix=prefix, dir=base)
    _scratch.append(d)
    return d

def _cleanup():
    for d in _scratch:
        shutil.rmtree(d, ignore_errors=True)
atexit.register(_cleanup)

# ---------------------------------------------------------------- build of /repo
VARIANTS = {
    # name: (cc, cflags, defines)
    'nothread': ('gcc', ['-O1', '-g'], ['-D_GNU_SOURCE', '-DNDEBUG']),
    'pthread':  ('gcc', ['-O1', '-g'], ['-D_GNU_SOURCE', '-DNDEBUG', '-DLDB_PTHREAD']),
    'asan':     ('gcc', ['-O1', '-g', '-fsanitize=address,undefined', '-fno-sanitize-recover=undefined', '-fno-omit-frame-pointer'],
                 ['-D_GNU_SOURCE', '-DNDEBUG']),
    'asan_pthread': ('gcc', ['-O1', '-g', '-fsanitize=address,undefined', '-fno-sanitize-recover=undefined', '-fno-omit-frame-pointer'],
                 ['-D_GNU_SOURCE', '-DNDEBUG', '-DLDB_PTHREAD']),
    'tsan':     ('clang', ['-O1', '-g', '-fsanitize=thread', '-fno-omit-frame-pointer'],
                 ['-D_GNU_SOURCE', '-DNDEBUG', '-DLDB_PTHREAD']),
}
HOOK_DEFINE = '-DLCDB_VERIF'

def repo_sources():
    srcs = []
    for pat in ('src/*.c', 'src/util/*.c', 'src/table/*.c'):
        srcs += glob.glob(os.path.join(REPO, pat))
    skip = {'dbutil.c', 'testutil.c', 'histogram.c'}
    return sorted(s for s in srcs if os.path.basename(s) not in skip)

class BuildError(Exception):
    pass

def build_lib(out, variant='nothread', extra=()):
    """Compile /repo/src into out/<variant>/liblcdb.a from the current working tree."""
    cc, cflags, defs = VARIANTS[variant]
    d = os.path.join(out, variant)
    os.makedirs(d, exist_ok=True)
    srcs = repo_sources()
    def one(src):
        rel = os.path.relpath(src, REPO).replace('/', '_')
        obj = os.path.join(d, rel[:-2] + '.o')
        cmd = [cc, '-std=c90', '-w'] + cflags + defs + [HOOK_DEFINE] + list(extra) + \
              ['-I' + os.path.join(REPO, 'include'), '-I' + os.path.join(REPO, 'src'), '-c', src, '-o', obj]
        r = subprocess.run(cmd, capture_output=True, text=True)
        if r.returncode != 0:
            raise BuildError('compile failed: %s\n%s' % (src, r.stderr[-2000:]))
        return obj
    with ThreadPoolExecutor(NCPU) as ex:
        objs = list(ex.map(one, srcs))
    lib = os.path.join(d, 'liblcdb.a')
    if os.path.exists(lib):
        os.unlink(lib)
    subprocess.run(['ar', 'rcs', lib] + objs, check=True)
    return lib

def build_bin(out, variant, name, srcs, lib, extra_cflags=(), extra_ld=()):
    cc, cflags, defs = VARIANTS[variant]
    exe = os.path.join(out, variant, name)
    cmd = [cc, '-w'] + cflags + defs + [HOOK_DEFINE] + list(extra_cflags) + \
          ['-I' + os.path.join(REPO, 'include'), '-I' + os.path.join(REPO, 'src'),
           '-I' + os.path.join(VERIF, 'harness')] + \
          [os.path.join(VERIF, 'harness', s) for s in srcs] + [lib] + list(extra_ld) + ['-lpthread', '-lm', '-o', exe]
    r = subprocess.run(cmd, capture_output=True, text=True)
    if r.returncode != 0:
        raise BuildError('driver build failed: %s\n%s' % (name, r.stderr[-3000:]))
    return exe

# ---------------------------------------------------------------- coq
FORBIDDEN = re.compile(r'\b(Admitted|admit|Axiom|Axioms|Parameter|Parameters|Conjecture|Abort All|bypass_check)\b|Unset Guard|Unset Positivity|Unset Universe|type-in-type|impredicative-set')

def strip_coq_comments(s):
    out = []; depth = 0; i = 0
    while i < len(s):
        if s.startswith('(*', i):
            depth += 1; i += 2
        elif s.startswith('*)', i) and depth > 0:
            depth -= 1; i += 2
        else:
            if depth == 0:
                out.append(s[i])
            i += 1
    return ''.join(out)

def coq_forbidden_hits():
    hits = []
    for f in sorted(glob.glob(os.path.join(COQ, 'theories', '*.v'))):
        txt = strip_coq_comments(open(f).read())
        for ln, line in enumerate(txt.split('\n'), 1):
            if FORBIDDEN.search(line):
                hits.append('%s:%d:%s' % (os.path.basename(f), ln, line.strip()[:80]))
    return hits

def coq_make(target=None):
    """Full .vo build (no -vos) of [target] and everything it depends on; a no-op when up to date."""
    if not os.path.exists(os.path.join(COQ, 'Makefile')):
        subprocess.run(['coq_makefile', '-f', '_CoqProject', '-o', 'Makefile'], cwd=COQ, capture_output=True)
    r = subprocess.run(['timeout', '3000', 'make', '-j%d' % NCPU] + ([target] if target else []), cwd=COQ, capture_output=True, text=True)
    return r.returncode == 0, (r.stdout + r.stderr)[-3000:]

def coq_check(prop):
    """Re-check Properties_<prop>.v with coqc; returns dict for the evidence."""
    t0 = time.time()
    ok, log = coq_make('theories/Properties_%s.vo' % prop)
    pf = os.path.join(COQ, 'theories', 'Properties_%s.v' % prop)
    res = {'file': 'coq/theories/Properties_%s.v' % prop, 'make_ok': ok, 'theorems': [], 'assumptions': {},
           'axioms': [], 'own_axioms': [], 'forbidden': coq_forbidden_hits(), 'ok': False, 'log': ''}
    if not os.path.exists(pf):
        res['log'] = 'missing ' + pf
        return res
    src = strip_coq_comments(open(pf).read())
    res['theorems'] = re.findall(r'^\s*(?:Theorem|Corollary)\s+(\w+)', src, re.M)
    sd = scratch_dir('lcdbcoq.')
    r = subprocess.run(['timeout', '900', 'coqc', '-Q', 'theories', 'LCDB',
                        '-w', '-notation-overridden,-deprecated-hint-without-locality,-deprecated-instance-without-locality',
                        '-o', os.path.join(sd, 'Properties_%s.vo' % prop), pf], cwd=COQ, capture_output=True, text=True)
    out = r.stdout
    res['log'] = (log if not ok else '') + r.stderr[-2000:]
    # Parse Print Assumptions blocks: either "Closed under the global context" or "Axioms:\n name : type ..."
    axioms = set()
    closed = out.count('Closed under the global context')
    for m in re.finditer(r'^Axioms:\n((?:.+\n?)+?)(?=^\S|\Z)', out, re.M):
        pass
    for line in out.split('\n'):
        m = re.match(r'^([A-Za-z_][\w\.]*)\s*:', line)
        if m and not line.startswith('Axioms'):
            axioms.add(m.group(1))
    res['closed_count'] = closed
    res['axioms'] = sorted(axioms)
    res['own_axioms'] = sorted(a for a in axioms if a.startswith('LCDB.') or '.' not in a)
    res['print_assumptions'] = out[-4000:]
    res['ok'] = ok and r.returncode == 0 and not res['forbidden'] and not res['own_axioms'] and len(res['theorems']) > 0
    if os.environ.get('VERIF_TIER') == 'thorough' and res['ok']:
        # independent re-check of the compiled theorem file and everything it depends on (coqchk), with its axiom list
        c = subprocess.run(['timeout', '3000', 'coqchk', '-o', '-silent', '-Q', 'theories', 'LCDB', 'LCDB.Properties_%s' % prop],
                           cwd=COQ, capture_output=True, text=True)
        txt = c.stdout + c.stderr
        m = re.search(r'\* Axioms:(.*?)\n\s*\n\* Constants', txt, re.S)
        res['coqchk'] = {'exit': c.returncode, 'axioms': (m.group(1).strip() if m else '?'), 'summary': txt[-1200:]}
        if c.returncode != 0 or not m or m.group(1).strip() != '<none>' or 'type-in-type: <none>' not in txt or 'assumed: <none>' not in txt:
            res['ok'] = False; res['log'] += '\ncoqchk: ' + txt[-1500:]
    res['wall_s'] = round(time.time() - t0, 2)
    shutil.rmtree(sd, ignore_errors=True)
    return res

# ---------------------------------------------------------------- model driver
MODELDRV = os.path.join(VERIF, 'ocaml', 'build', 'modeldrv')

def ensure_model():
    srcs = glob.glob(os.path.join(COQ, 'theories', '*.v')) + [os.path.join(VERIF, 'ocaml', 'driver.ml')]
    newest = max(os.path.getmtime(s) for s in srcs)
    if not os.path.exists(MODELDRV) or (os.environ.get('VERIF_REBUILD_MODEL') and os.path.getmtime(MODELDRV) < newest):
        r = subprocess.run([os.path.join(VERIF, 'bin', 'build-model')], capture_output=True, text=True)
        if r.returncode != 0:
            raise BuildError('model build failed:\n' + (r.stdout + r.stderr)[-3000:])
    return MODELDRV

def big_stack():
    """the extracted model recurses over byte lists (1 MiB records => deep recursion): lift the stack limit"""
    import resource
    try:
        soft, hard = resource.getrlimit(resource.RLIMIT_STACK)
        resource.setrlimit(resource.RLIMIT_STACK, (hard, hard))
    except Exception:
        pass

def run_lines(exe, lines, env=None, timeout=3600, shards=1):
    """Feed case lines to a driver; returns list of output lines (same length)."""
    if shards > 1 and len(lines) >= 2 * shards:
        n = len(lines)
        chunks = [lines[i * n // shards:(i + 1) * n // shards] for i in range(shards)]
        with ThreadPoolExecutor(shards) as ex:
            outs = list(ex.map(lambda c: run_lines(exe, c, env, timeout, 1), chunks))
        return [l for o in outs for l in o]
    e = dict(os.environ)
    if env:
        e.update(env)
    # a crash / sanitizer abort kills the driver at one line: that line is marked CRASH and the driver is restarted on the
    # lines after it, so every other line still gets its own result (bounded number of restarts)
    result = []; start = 0; restarts = 0
    while start < len(lines):
        chunk = lines[start:]
        data = ('\n'.join(chunk) + '\n').encode()
        r = subprocess.run([exe] if isinstance(exe, str) else exe, input=data, capture_output=True, timeout=timeout, env=e, preexec_fn=big_stack)
        out = r.stdout.decode('latin1').split('\n')
        if out and out[-1] == '':
            out.pop()
        if r.returncode == 0 and len(out) == len(chunk):
            result += out; break
        out = out[:len(chunk)]
        crash = 'CRASH rc=%d %s' % (r.returncode, r.stderr.decode('latin1')[-400:].replace('\n', ' | '))
        if len(out) == len(chunk):        # died after the last line (e.g. leak report at exit): keep the outputs
            result += out; break
        result += out + [crash]
        start += len(out) + 1
        restarts += 1
        if restarts >= 400:
            result += [crash] * (len(lines) - len(result)); break
    return result

# ---------------------------------------------------------------- reporting
def load_known():
    p = os.path.join(VERIF, 'known_findings.json')
    if os.path.exists(p):
        return json.load(open(p))
    return {'findings': []}

class Report:
    def __init__(self, prop, tier, seed, level='proof'):
        self.prop = prop; self.tier = tier; self.seed = seed; self.level = level
        self.t0 = time.time()
        self.cov = {'evaluations': 0, 'distinct_nontrivial': 0, 'rule': '', 'samples': []}
        self.assumptions = []
        self.violations = []      # (replay_path, note)
        self.known_lines = []
        self._distinct = set()
        self.known = [f for f in load_known().get('findings', []) if f.get('property') == prop]

    def count(self, key, n=1):
        self.cov[key] = self.cov.get(key, 0) + n

    def evaluated(self, n=1):
        self.cov['evaluations'] += n

    def nontrivial(self, key):
        h = hashlib.sha1(repr(key).encode()).hexdigest()
        if h not in self._distinct:
            self._distinct.add(h)
            self.cov['distinct_nontrivial'] = len(self._distinct)

    def sample(self, s, maxn=6):
        if len(self.cov['samples']) < maxn:
            if isinstance(s, str) and len(s) > 400:
                s = s[:400] + '...(%d chars)' % len(s)
            self.cov['samples'].append(s)

    def add_proof(self, pr):
        self.proof = pr
        self.cov['obligations'] = len(pr['theorems'])
        self.cov['discharged'] = len(pr['theorems']) if pr['ok'] else 0
        self.cov['checker_cmd'] = 'make -C coq (full .vo build) && coqc -Q theories LCDB ' + pr['file'].split('/', 1)[1]
        self.cov['theorems'] = pr['theorems']
        self.cov['trusted_base'] = [
            'Coq 8.16.1 kernel (coqc; vm_compute used, native_compute not used)',
            'Print Assumptions: %d theorem(s) closed under the global context; axioms: %s' % (pr.get('closed_count', 0), ', '.join(pr['axioms']) or 'none'),
            'extraction: ExtrOcamlBasic only, no Extract Constant; OCaml 4.13.1',
            'hand-written glue: ocaml/driver.ml, harness/*.c, bin/*.py; gcc/clang + sanitizers',
            'model is hand-written and pinned to the LevelDB format standard; tied to /repo by the correspondence runs counted in this file',
        ]
        self.cov['print_assumptions'] = pr.get('print_assumptions', '')[-1500:]
        if pr.get('coqchk'):
            self.cov['coqchk'] = pr['coqchk']
            self.cov['trusted_base'].append('coqchk -o (independent checker) on this theorem file and all its dependencies: exit %s, axioms %s' % (pr['coqchk']['exit'], pr['coqchk']['axioms']))
        if not pr['ok']:
            self.cov['proof_log'] = pr['log'][-1500:] + ' forbidden=' + repr(pr['forbidden']) + ' own_axioms=' + repr(pr['own_axioms'])

    def is_known(self, signature):
        for f in self.known:
            if f.get('status', 'known') == 'known' and f.get('signature') == signature:
                return f
        return None

    def violation(self, replay_obj, signature=None, suffix=''):
        """Record a violation; known findings print KNOWN-FINDING instead."""
        if signature is not None:
            f = self.is_known(signature)
            if f is not None:
                line = 'KNOWN-FINDING: property=%s %s' % (self.prop, f.get('what', signature))
                if line not in self.known_lines:
                    self.known_lines.append(line)
                    print(line, flush=True)
                return False
        if len(self.violations) >= 5:      # enough replays; keep counting
            self.violations.append(None); return True
        d = os.path.join(os.environ.get('VERIF_OUT', VERIF), 'replays', self.prop)
        os.makedirs(d, exist_ok=True)
        path = os.path.join(d, '%d-%d.json' % (self.seed, len(self.violations)))
        replay_obj = dict(replay_obj); replay_obj['property'] = self.prop; replay_obj['signature'] = signature
        json.dump(replay_obj, open(path, 'w'), indent=1)
        self.violations.append(path)
        print('VIOLATION property=%s replay=%s%s' % (self.prop, path, (' ' + suffix) if suffix else ''), flush=True)
        return True

    def finish(self):
        ev = {
            'property_id': self.prop, 'tier': self.tier, 'seed': self.seed, 'level': self.level,
            'coverage': self.cov, 'assumptions': self.assumptions,
            'wall_s': round(time.time() - self.t0, 2), 'violations': len(self.violations),
        }
        if self.known_lines:
            ev['coverage']['known_findings_reported'] = self.known_lines
        evd = os.path.join(os.environ.get('VERIF_OUT', VERIF), 'evidence')
        os.makedirs(evd, exist_ok=True)
        json.dump(ev, open(os.path.join(evd, '%s.json' % self.prop), 'w'), indent=1)
        return 1 if self.violations else 0

def diff_cases(rep, cases, c_out, m_out, what, classify=None, max_report=3, failing=None, correspondence=None):
    """Compare C and model outputs line by line; any difference is a K1 violation
    (the model is the format standard).  Returns number of mismatches.
    failing: optional set of case indices on which a property-level oracle (evaluated on the implementation's own
    output) fails too. When given, a mismatch outside that set is a broken CORRESPONDENCE only (the model's theorems
    no longer speak about this code, but no input was found on which the property itself fails): it is still
    reported, naming the correspondence, with the VIOLATION line ending in no-failing-input-found."""
    bad = 0
    for i, (c, m) in enumerate(zip(c_out, m_out)):
        if c != m:
            bad += 1
            if bad <= max_report:
                sig = classify(cases[i], c, m) if classify else None
                obj = {'kind': 'K1-differential', 'what': what, 'case': cases[i][:20000],
                       'implementation': c[:20000], 'model': m[:20000]}
                sfx = ''
                if failing is not None and i not in failing:
                    sfx = 'no-failing-input-found'
                    obj['correspondence_that_no_longer_checks'] = correspondence or what
                rep.violation(obj, signature=sig, suffix=sfx)
    return bad

# ---------------------------------------------------------------- K1 driver
def build_k1(out, variant='nothread', lib=None):
    """Build harness/k1.c (+ every harness/k1_*.h command module) against the given lib."""
    if lib is None:
        lib = build_lib(out, variant)
    mods = sorted(os.path.basename(f)[3:-2] for f in glob.glob(os.path.join(VERIF, 'harness', 'k1_*.h')))
    inc = os.path.join(out, variant, 'inc'); os.makedirs(inc, exist_ok=True)
    with open(os.path.join(inc, 'k1_ext.h'), 'w') as f:
        for m in mods:
            f.write('#include "k1_%s.h"\n' % m)
        f.write('static int run_ext(int argc, char **a) {\n')
        for m in mods:
            f.write('  if (run_%s(argc, a)) return 1;\n' % m)
        f.write('  (void)argc; (void)a; return 0;\n}\n')
    return build_bin(out, variant, 'k1', ['k1.c'], lib, extra_cflags=['-I' + inc])

# ---------------------------------------------------------------- K2 driver
def build_k2(out, variant='nothread', lib=None):
    if lib is None:
        lib = build_lib(out, variant)
    return build_bin(out, variant, 'k2', ['k2.c'], lib, extra_ld=['-Wl,--wrap=ldb_versions_apply', '-Wl,--wrap=unlink'] + GC_WRAPS)

GC_WRAPS = ['-Wl,--wrap=ldb_versions_add_files', '-Wl,--wrap=ldb_get_children', '-Wl,--wrap=ldb_remove_file']
K3_WRAPS = ['open', 'close', 'write', 'read', 'pread', 'mmap', 'fsync', 'fdatasync', 'rename', 'unlink', 'mkdir', 'link']
def build_k3(out, variant='nothread', lib=None):
    """k2.c with the libc interposition of harness/iowrap.h (tie K3)."""
    if lib is None:
        lib = build_lib(out, variant)
    cc, cflags, defs = VARIANTS[variant]
    exe = os.path.join(out, variant, 'k3')
    cmd = [cc, '-w'] + cflags + defs + [HOOK_DEFINE, '-DK3', '-U_FORTIFY_SOURCE',
          '-I' + os.path.join(REPO, 'include'), '-I' + os.path.join(REPO, 'src'), '-I' + os.path.join(VERIF, 'harness'),
          os.path.join(VERIF, 'harness', 'k2.c'), lib, '-Wl,--wrap=ldb_versions_apply'] + GC_WRAPS + \
          ['-Wl,--wrap=' + w for w in K3_WRAPS] + ['-lpthread', '-lm', '-o', exe]
    r = subprocess.run(cmd, capture_output=True, text=True)
    if r.returncode != 0:
        raise BuildError('k3 build failed:\n' + r.stderr[-3000:])
    return exe
