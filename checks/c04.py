"""C04 -- write batches are all-or-nothing (crash side): batches of up to thousands of updates
spanning several 32 KiB log blocks, crash images cutting inside them."""
import vlib, k3check
from c03 import known_sig

OPTS = [{'write_buffer': 262144, 'reuse_logs': 0}, {'write_buffer': 65536, 'reuse_logs': 0, 'paranoid': 1}]

def run(rep, tier, seed):
    pr = vlib.coq_check('C04'); rep.add_proof(pr)
    if not pr['ok']:
        rep.violation({'kind': 'proof-broken', 'log': pr['log'][-3000:], 'forbidden': pr['forbidden']}, suffix='no-failing-input-found')
    nh, nops, mp = (6, 16, 90) if tier == 'quick' else (64, 40, 100000)
    k3check.run_crash(rep, 'C04', tier, seed, ['written', 'torn'], nh, nops, mp, OPTS, big=True, known_sig=known_sig)
    rep.cov['rule'] = ('batches of 1..3000 updates (spanning >= 3 log blocks) with a marker key each; crash images (byte-exact and torn) at '
                       'sampled syscall boundaries incl. between the fragments of one batch; recovered contents must equal the in-order '
                       'application of WHOLE batches')

def replay(rep, path):
    return k3check.replay_crash(rep, path)
