"""C20 -- lifecycle operations are exclusive, complete and non-destructive.
Theorems: coq/theories/Properties_C20.v (Lifecycle.v over Engine.v / Filename.v).
Tie K2: histories with the lifecycle commands of harness/k2_life.h (lock2, backup, bscan, copydb,
wrongcmp, failopen) replayed on the engine model and the lock model; tie K1: ldb_destroy on
scratch directories against destroy_tree (the Filename.v model of ldb_parse_filename)."""
import os
from concurrent.futures import ThreadPoolExecutor
import vlib, k2check

# corpus: one history touching every lifecycle command in the three database states of the
# property text (memtable only / tables on several levels / after reopen), incl. the lock2 probe
CORPUS = ({'write_buffer': 65536}, [
    'open', 'put 61 @3:1', 'lock2', 'backup 0', 'put 62 @70000:2', 'put 63 @70000:3', 'flush', 'layout', 'put 63 @5:3', 'del 61',
    'backup 1', 'bscan 0', 'lock2', 'get 61 -', 'copydb 0', 'scan -', 'put 64 @9:9', 'compact * *', 'layout', 'wrongcmp', 'get 64 -',
    'failopen', 'lock2', 'put 61 @4:4', 'bscan 1', 'bscan 0', 'backup 0', 'del 62', 'bscan 0', 'close', 'bscan 1', 'lock2', 'reopen',
    'lock2', 'scan -', 'failopen', 'wrongcmp', 'copydb 1', 'scan -', 'layout'])

# ------------------------------------------------------------------ K1: destroy
OWN = [b'CURRENT', b'LOCK', b'LOG', b'LOG.old', b'MANIFEST-000004', b'000012.log', b'12.ldb', b'12.sst', b'7.dbtmp',
       b'0.log', b'18446744073709551615.sst', b'MANIFEST-0']
FOREIGN = [b'README', b'000001.txt', b'MANIFEST', b'MANIFEST-', b'CURRENT.bak', b'1.log.old', b'lost', b'LOG.old2', b'.log',
           b'18446744073709551616.log', b'-1.log', b'12.LDB', b'current', b' CURRENT', b'MANIFEST-4x', b'MANIFEST--4', b'12.ldb~']

def name_ok(n):
    return 0 < len(n) <= 200 and b'/' not in n and b'\0' not in n and n not in (b'.', b'..')

def mutate(rng, n):
    c = rng.below(9)
    if c == 0: return n + rng.choice([b'~', b'.bak', b'.old', b'0', b'x', b' ', b'.', b'.log'])
    if c == 1: return rng.choice([b'x', b'0', b'.', b' ', b'_', b'-']) + n
    if c == 2: return n.swapcase()
    if c == 3: return n[:-1] if len(n) > 1 else n + b'1'
    if c == 4: return n[1:] if len(n) > 1 else n + b'1'
    if c == 5:
        i = rng.below(len(n)); return n[:i] + bytes([rng.choice(list(b'019.-LOGldbsxX\xff\x01'))]) + n[i + 1:]
    if c == 6:
        i = rng.below(len(n) + 1); return n[:i] + bytes([rng.choice(list(b'0.9-+ e'))]) + n[i:]
    if c == 7: return n.replace(b'.', rng.choice([b'..', b'_', b'']))
    return bytes(str(rng.below(1 << rng.range(1, 70))).encode()) + rng.choice([b'.log', b'.ldb', b'.sst', b'.dbtmp', b'.lg', b''])

def destroy_cases(rng, tier):
    hx = lambda n: n.hex()
    cases = []
    # (a) every name of length <= 3 over a small alphabet, in groups (one directory per group)
    alpha = [b'0', b'7', b'.', b'l', b'L', b'-']
    short = [a for a in alpha] + [a + b for a in alpha for b in alpha] + [a + b + c for a in alpha for b in alpha for c in alpha]
    short = [n for n in short if name_ok(n)]
    for i in range(0, len(short), 24):
        cases.append(('destroy_case ' + ','.join(hx(n) for n in short[i:i + 24]), 'short'))
    # (b) the fixed own / foreign names, alone and mixed
    for n in OWN + FOREIGN:
        cases.append(('destroy_case ' + hx(n), 'single'))
    cases.append(('destroy_case ' + ','.join(hx(n) for n in OWN), 'all-own'))
    cases.append(('destroy_case ' + ','.join(hx(n) for n in OWN + FOREIGN), 'own+foreign'))
    cases.append(('destroy_case .', 'empty'))
    # (c) random directories: own names, mutated own names, foreign names; with and without a lost subdirectory
    ndirs = 200 if tier == 'quick' else 6000
    for _ in range(ndirs):
        def pick_names(maxn):
            out = []
            for _ in range(rng.range(0, maxn)):
                c = rng.below(10)
                if c < 4: n = rng.choice(OWN)
                elif c < 8: n = mutate(rng, rng.choice(OWN))
                elif c < 9: n = rng.choice(FOREIGN)
                else: n = mutate(rng, mutate(rng, rng.choice(OWN + FOREIGN)))
                if name_ok(n) and n not in out: out.append(n)
            return out
        top = pick_names(12)
        line = 'destroy_case ' + (','.join(hx(n) for n in top) or '.')
        kind = 'random'
        if rng.chance(1, 3):
            top2 = [n for n in top if n != b'lost']
            sub = pick_names(6)
            if rng.chance(1, 4) and b'CURRENT' not in sub: sub.append(b'CURRENT')
            line = 'destroy_case %s %s' % (','.join(hx(n) for n in top2) or '.', ','.join(hx(n) for n in sub) or '.')
            kind = 'random+lost'
        cases.append((line, kind))
    return cases

def compute_destroy(tier, seed):
    """both drivers on the destroy cases (no reporting: runs in a thread next to the K2 histories)"""
    out = vlib.scratch_dir()
    k1 = vlib.build_k1(out, 'nothread')
    model = vlib.ensure_model()
    tmp = vlib.scratch_dir('lcdbdestroy.')
    cases = destroy_cases(vlib.Rng(seed ^ 0xD157), tier)
    lines = [c[0] for c in cases]
    c = vlib.run_lines(k1, lines, env={'K1_TMPDIR': tmp}, shards=8)
    m = vlib.run_lines(model, lines, shards=4)
    return cases, lines, c, m, len(os.listdir(tmp))

def report_destroy(rep, cases, lines, c, m, left):
    rep.evaluated(len(lines))
    hist = {}
    kept = gone = 0
    for (l, kind), co in zip(cases, c):
        hist[kind] = hist.get(kind, 0) + 1
        if co == 'gone': gone += 1
        elif not co.startswith('EXC'): kept += 1
        rep.nontrivial(('destroy', l))
    bad = vlib.diff_cases(rep, lines, c, m, 'ldb_destroy vs destroy_tree')
    rep.cov['destroy'] = {'cases': len(lines), 'by_kind': hist, 'directory_removed': gone, 'something_kept': kept,
                          'mismatches': bad, 'harness_errors': sum(1 for x in c if x.startswith('EXC') or x.startswith('CRASH')),
                          'scratch_left_behind': left}
    rep.sample({'destroy_case': lines[-1], 'implementation': c[-1], 'model': m[-1]})

def run(rep, tier, seed):
    pr = vlib.coq_check('C20'); rep.add_proof(pr)
    if not pr['ok']:
        rep.violation({'kind': 'proof-broken', 'log': pr['log'][-3000:], 'forbidden': pr['forbidden']}, suffix='no-failing-input-found')
    nh, nops = (24, 90) if tier == 'quick' else (1200, 300)
    vlib.ensure_model()
    with ThreadPoolExecutor(1) as ex:
        fut = ex.submit(compute_destroy, tier, seed)
        res = k2check.run_k2(rep, 'C20', tier, seed, 'c20', nh, nops, extra_histories=[CORPUS])
        dres = fut.result()
    import k8check
    k8check.run_backup_points(rep, tier, seed)      # pthread build: backups taken while other threads write / flush / compact
    life = {}
    for r in res:
        for k, v in r['res'].stats.items():
            if k.startswith('life_'): life[k[5:]] = life.get(k[5:], 0) + v
    rep.cov['lifecycle_ops'] = life
    report_destroy(rep, *dres)
    rep.cov['rule_k8'] = ('pthread build: 2..5 threads write, flush, compact and call ldb_backup under schedule perturbation; after the run every backup that returned OK is opened (paranoid) and scanned: it must open and equal the state of the source at one point of the publish order between its invocation and its return')
    rep.cov['rule'] = ('K2: histories as for C01 plus lock2 (second ldb_open of the open directory must fail, the record lock on LOCK probed '
                       'from a forked child must still be held afterwards), backup n / bscan n (ldb_backup, the backup opened through a second '
                       'handle must scan equal to the model view of the moment it was taken, also after any later operation of the source), '
                       'copydb n (close, ldb_copy, reopen; the copy must scan equal to the model view), wrongcmp (open with the other '
                       'comparator must return LDB_INVALID and leave names, sizes and checksums of all files except LOG/LOCK unchanged), '
                       'failopen (open with error_if_exists must fail and the next open must succeed); every later read of the source is '
                       'compared with the engine model, which took no step for a backup; the lock state machine of Lifecycle.v predicts '
                       'which opens fail. K1: ldb_destroy on scratch directories (all names of length <= 3 over {0,7,.,l,L,-}, the database\'s '
                       'own names, mutated own names, foreign names, optional lost/ subdirectory with and without CURRENT) against destroy_tree; '
                       'distinct_nontrivial = K2 histories with >= 1 flush and >= 1 compaction + distinct destroy cases')

def replay(rep, path):
    import json
    if str(json.load(open(path)).get('kind', '')).startswith('K8-'):
        import k8check
        return k8check.replay(rep, path, 'C20')
    import json
    r = json.load(open(path))
    if r.get('kind') == 'K1-differential':
        out = vlib.scratch_dir(); k1 = vlib.build_k1(out, 'nothread'); model = vlib.ensure_model()
        tmp = vlib.scratch_dir('lcdbdestroy.')
        c = vlib.run_lines(k1, [r['case']], env={'K1_TMPDIR': tmp}); m = vlib.run_lines(model, [r['case']])
        print('case           ', r['case'][:600]); print('implementation ', c[0][:600]); print('model          ', m[0][:600])
        return 1 if c != m else 0
    return k2check.replay_k2(rep, path)
