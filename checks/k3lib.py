"""k3lib.py -- tie K3: I/O traces of real runs (harness/iowrap.h), crash-image
materialisation under the property's crash model, real recovery on every image, and the
durability / atomicity / coherence oracles of C02 C03 C04 C05 (C12 adds fault injection)."""
import os, shutil, subprocess, json, hashlib
import vlib, k2lib

# ------------------------------------------------------------------ trace
def parse_io_trace(path):
    evs = []
    for line in open(path, errors='replace'):
        a = line.rstrip('\n').split(' ')
        k = a[0]
        if k == 'C': evs.append({'k': 'C', 'id': int(a[1]), 'name': a[2], 'mode': a[3], 'size': int(a[4])})
        elif k == 'W': evs.append({'k': 'W', 'id': int(a[1]), 'len': int(a[2]), 'name': a[3], 'partial': len(a) > 4})
        elif k == 'S': evs.append({'k': 'S', 'id': int(a[1]), 'name': a[2]})
        elif k == 'D': evs.append({'k': 'D'})
        elif k == 'R': evs.append({'k': 'R', 'a': a[1], 'b': a[2]})
        elif k == 'U': evs.append({'k': 'U', 'name': a[1]})
        elif k == 'X': evs.append({'k': 'X', 'id': int(a[1]), 'name': a[2]})
        elif k == 'M': evs.append({'k': 'M', 'name': a[1]})
        elif k == 'L': evs.append({'k': 'L', 'a': a[1], 'b': a[2]})
        elif k == 'A': evs.append({'k': 'A', 'call': int(a[1]), 'op': a[2]})
        elif k == 'Z': evs.append({'k': 'Z', 'call': int(a[1]), 'op': a[2]})
        elif k == 'F': evs.append({'k': 'F', 'idx': int(a[1]), 'what': a[2], 'name': a[3], 'errno': a[4]})
        elif k == 'I': evs.append({'k': 'I', 'idx': int(a[1]), 'what': a[2], 'name': a[3]})
    return evs

IGNORED = ('LOG', 'LOG.old', 'LOCK')

class FileObj:
    __slots__ = ('handle', 'written', 'synced', 'base')
    def __init__(self, handle, base=0):
        self.handle = handle; self.written = base; self.synced = 0; self.base = base

def image_at(evs, shadow, p, mode, rng=None, initial=None):
    """Directory image after a crash right before event index p.
    mode: 'written' byte-exact process-crash image (C03);
          'min'  power loss: every file cut to its last-fsync length, dir ops only up to the last fsync;
          'dirahead' power loss: all dir ops persisted, data minimal;
          'torn' power loss: dir ops all, data = synced + a random part of the unsynced tail."""
    # pass 1: object state per handle up to p
    objs = {}          # handle id -> FileObj
    last_sync = 0
    for i, e in enumerate(evs[:p]):
        k = e['k']
        if k in ('S', 'D'):
            last_sync = i + 1
    dir_limit = p if mode in ('written', 'dirahead', 'torn') else last_sync
    names = {}         # name -> FileObj
    for n0 in (initial or {}):
        # files present when the traced run started (second-level crashes: the directory a first crash left) are durable
        o = FileObj(('init', n0), initial[n0]); o.synced = o.base; names[n0] = o
    for i, e in enumerate(evs[:p]):
        k = e['k']
        if k == 'C':
            if e['name'] in IGNORED: continue
            if e['mode'] == 'a' and e['name'] in names:
                o = names[e['name']]; o.handle = e['id']; objs[e['id']] = o
            else:
                o = FileObj(e['id'], e['size'] if e['mode'] == 'a' else 0)
                o.synced = o.base    # content present before this run is taken as durable
                objs[e['id']] = o
                if i < dir_limit: names[e['name']] = o
        elif k == 'W':
            o = objs.get(e['id'])
            if o: o.written += e['len']
        elif k == 'S':
            o = objs.get(e['id'])
            if o: o.synced = o.written
        elif k == 'R' and i < dir_limit:
            if e['a'] in names: names[e['b']] = names.pop(e['a'])
        elif k == 'U' and i < dir_limit:
            names.pop(e['name'], None)
    img = {}
    for n, o in names.items():
        if mode == 'written': ln = o.written
        elif mode in ('min', 'dirahead'): ln = o.synced
        else: ln = o.synced + (rng.below(o.written - o.synced + 1) if rng and o.written > o.synced else 0)
        img[n] = (o.handle, ln)
    return img

def image_key(img):
    return hashlib.sha1(repr(sorted(img.items())).encode()).hexdigest()

def materialise(img, shadow, dst, extra_cut=None, initial_dir=None):
    if os.path.exists(dst): shutil.rmtree(dst)
    os.makedirs(dst)
    for n, (h, ln) in img.items():
        src = os.path.join(initial_dir, h[1]) if isinstance(h, tuple) else os.path.join(shadow, str(h))
        with open(src, 'rb') as f:
            data = f.read(ln)
        with open(os.path.join(dst, n), 'wb') as f:
            f.write(data)

# ------------------------------------------------------------------ histories with marker keys
def khex(b): return b.hex() if b else '-'

def gen_write_history(rng, nops=40, sync_ratio=(1, 3), big_batches=False, reopen=True, more_gets=False):
    """returns (ops, batches): batches[i] = {'op_index', 'sync', 'updates': [(key, valtok|None)]}"""
    keys = [b'a', b'b', b'ab', b'ba', b'\xffk', b'', b'q' * 30]
    ops = ['open']; batches = []
    while len(ops) < nops:
        c = rng.below(20)
        if c < 13:
            bi = len(batches)
            n = rng.range(1, 5)
            if big_batches and rng.chance(1, 4):
                n = rng.range(300, 3000)
            ups = [(b'm%05d' % bi, '@%d:%d' % (rng.range(1, 40), bi % 256))]
            for j in range(n):
                k = rng.choice(keys) if n < 50 else b'k%05d' % rng.below(4000)
                if rng.chance(1, 6): ups.append((k, None))
                else:
                    big = rng.chance(1, 6) and n < 50
                    ups.append((k, '@%d:%d' % (rng.range(20000, 70000) if big else rng.range(1, 200), rng.below(256))))
            sync = rng.chance(*sync_ratio)
            parts = ','.join(('p%s:%s' % (khex(k), v)) if v is not None else ('d%s' % khex(k)) for k, v in ups)
            ops.append('batch %s %d' % (parts, 1 if sync else 0))
            batches.append({'op_index': len(ops) - 1, 'sync': sync, 'updates': ups})
            if rng.chance(1, 12):
                ops.append('batch . %d' % rng.below(2))       # an EMPTY write batch: a 12-byte log record, acknowledged like any other
        elif c < 15: ops.append('flush')
        elif c < 17: ops.append('crange %d * *' % rng.below(3))
        elif c < 18: ops.append('compact * *')
        elif c < 19 and reopen: ops.append('reopen')
        else: ops.append('get %s -' % khex(rng.choice(keys)))
        if more_gets and rng.chance(1, 3):
            ops.append('get %s -' % khex(rng.choice(keys)))
    return ops, batches

def apply_batches(batches, subset):
    m = {}
    for i in sorted(subset):
        for k, v in batches[i]['updates']:
            if v is None: m.pop(k, None)
            else: m[k] = v
    return m

def run_traced(k3, dbdir, opts, ops, workdir, fail=None, timeout=600, logidx=False):
    if os.path.exists(dbdir): shutil.rmtree(dbdir)
    tr = os.path.join(workdir, 'trace'); sh = os.path.join(workdir, 'shadow')
    if os.path.exists(sh): shutil.rmtree(sh)
    env = dict(os.environ, K3_TRACE=tr, K3_SHADOW=sh)
    if fail: env['K3_FAIL'] = fail
    if logidx: env['K3_LOGIDX'] = '1'
    args = [k3, dbdir] + ['%s=%s' % kv for kv in sorted(opts.items())]
    try:
        r = subprocess.run(args, input=('\n'.join(ops) + '\n').encode(), capture_output=True, timeout=timeout, env=env)
        rc, out, err = r.returncode, r.stdout.decode('latin1'), r.stderr.decode('latin1')
    except subprocess.TimeoutExpired as e:
        rc, out, err = -999, (e.stdout or b'').decode('latin1'), 'TIMEOUT'
    return rc, out, err, parse_io_trace(tr), sh

def recover_and_read(k2, img, shadow, dst, opts, followup=None, timeout=60, initial_dir=None, env=None):
    """Run the real ldb_open on a materialised image, scan, then an optional follow-up workload."""
    materialise(img, shadow, dst, initial_dir=initial_dir)
    ops = ['open', 'scan -', 'layout']
    if followup: ops += followup
    args = [k2, dst] + ['%s=%s' % kv for kv in sorted(opts.items())]
    try:
        r = subprocess.run(args, input=('\n'.join(ops) + '\n').encode(), capture_output=True, timeout=timeout, env=(dict(os.environ, **env) if env else None))
        out = r.stdout.decode('latin1'); rc = r.returncode
    except subprocess.TimeoutExpired:
        out = ''; rc = -999
    calls = k2lib.parse_trace(out)
    shutil.rmtree(dst, ignore_errors=True)
    return rc, calls, ops

def scan_to_map(ret):
    body, status = ret.rsplit(' status=', 1)
    m = {}
    for k, v in k2lib.parse_view(body):
        m[k] = v
    return m, status

def batch_positions(evs, ops, batches, calls):
    """per batch: trace index of its A and Z markers, ack status, log file that received it"""
    a_idx = {}; z_idx = {}
    cur = None; logs = {}
    for i, e in enumerate(evs):
        if e['k'] == 'A': a_idx[e['call']] = i; cur = e['call']
        elif e['k'] == 'Z': z_idx[e['call']] = i; cur = None
        elif e['k'] == 'W' and cur is not None and e['name'].endswith('.log'):
            logs.setdefault(cur, e['name'])
    info = []
    for b in batches:
        c = b['op_index']
        ret = calls[c]['ret'] if c < len(calls) else None
        info.append({'a': a_idx.get(c), 'z': z_idx.get(c), 'acked': ret == '0', 'ret': ret, 'log': logs.get(c)})
    return info

def unlinked_logs_before(evs, p):
    return {e['name'] for e in evs[:p] if e['k'] == 'U' and e['name'].endswith('.log')}

def check_recovered(content, batches, info, p, evs, power_loss):
    """The contract: content = apply (in order) of a subset M of the issued batches;
    M contains every batch that must survive; per log segment M is a prefix.
    Returns (ok, why, M)."""
    present = set()
    for i, b in enumerate(batches):
        mk = b['updates'][0][0]
        if mk in content: present.add(i)
    issued = {i for i, x in enumerate(info) if x['a'] is not None and x['a'] < p}
    if not present <= issued:
        return False, 'batch not yet issued is present: %s' % sorted(present - issued), present
    expect = apply_batches(batches, present)
    if expect != content:
        diff = [k.hex() for k in set(expect) | set(content) if expect.get(k) != content.get(k)][:5]
        return False, 'contents are not the in-order application of whole batches (keys %s)' % diff, present
    acked = {i for i, x in enumerate(info) if x['acked'] and x['z'] is not None and x['z'] < p}
    if power_loss:
        gone = unlinked_logs_before(evs, p)
        must = {i for i in acked if batches[i]['sync'] or (info[i]['log'] in gone)}
        # a synced batch also makes everything before it IN THE SAME LOG durable (prefix of the file)
        for i in list(must):
            if batches[i]['sync']:
                must |= {j for j in acked if j < i and info[j]['log'] == info[i]['log']}
    else:
        must = acked
    if not must <= present:
        return False, 'acknowledged batches missing: %s' % sorted(must - present)[:8], present
    # per segment prefix shape
    bylog = {}
    for i in sorted(issued):
        bylog.setdefault(info[i]['log'], []).append(i)
    for lg, ids in bylog.items():
        flags = [i in present for i in ids]
        if any((not a) and b for a, b in zip(flags, flags[1:])):
            return False, 'a dropped batch is followed by a surviving one in the same log segment %s' % lg, present
    if not power_loss:
        extra = present - acked
        inflight = {i for i, x in enumerate(info) if x['a'] is not None and x['a'] < p and (x['z'] is None or x['z'] >= p)}
        if not extra <= inflight:
            return False, 'unacknowledged batch present that was not in flight: %s' % sorted(extra - inflight), present
    return True, '', present
