"""C10 -- one handle can be shared by threads without data races.

Theory : coq/theories/Hb.v (axiomatic happens-before model), HbProofs.v (lockset_drf, publish_drf,
         atomic_drf, C10_drf_generic), Properties_C10.v.
Tie K4 : bin/facts_c10.py re-reads the synchronisation skeleton of the CURRENT sources (memory orders of
         every ldb_atomic_* site, lexical lock regions of db_impl.c / version_set.c / cache.c /
         thread_pool.c / env_unix_impl.h, two hand-listed protocol tokens) into a fact table; the theorem
         `C10_this_tree : check_facts facts = true` is re-evaluated by coqc against the regenerated table.
Search : harness/k10.c under ThreadSanitizer (clang, real __atomic builtins: atomic.h selects
         LDB_GNUC_ATOMICS under clang -std=c90) and AddressSanitizer; every distinct report is a
         violation with the scenario/seed/report as replay."""
import os, re, sys, json, shutil, subprocess, time, hashlib
from concurrent.futures import ThreadPoolExecutor
import vlib

TSAN_OPTIONS = 'halt_on_error=0:report_signal_unsafe=0:history_size=4:second_deadlock_stack=1'
ASAN_OPTIONS = 'detect_leaks=1:abort_on_error=0'
COQ_W = '-notation-overridden,-deprecated-hint-without-locality,-deprecated-instance-without-locality'
# report kinds that are violations of C10 (data race or memory error); other TSan reports are recorded only
VIOLATION_KINDS = ('data race', 'heap-use-after-free', 'double lock', 'unlock of an unlocked mutex',
                   'use of an invalid mutex', 'destroy of a locked mutex', 'read lock of a write locked mutex')

# ---------------------------------------------------------------- facts
def normalise_facts(text):
    """the Definition without comments (line numbers live in the comments only)."""
    body = vlib.strip_coq_comments(text)
    m = re.search(r'Definition facts.*?\]\.', body, re.S)
    return re.sub(r'\s+', ' ', m.group(0)) if m else ''

def facts_step(sd):
    """regenerate + compile + evaluate; returns a dict for the evidence."""
    res = {'ok': False, 'problems': [], 'check_facts': None, 'bad_classes': '', 'bad_pairs': '', 'changed': None, 'log': ''}
    gen = os.path.join(sd, 'facts'); os.makedirs(gen, exist_ok=True)
    r = subprocess.run([sys.executable, os.path.join(vlib.VERIF, 'bin', 'facts_c10.py'), gen],
                       capture_output=True, text=True, env=dict(os.environ, VERIF_REPO=vlib.REPO))
    res['translator_stdout'] = r.stdout[-1500:]
    if r.returncode != 0 or not os.path.exists(os.path.join(gen, 'Facts_C10.v')):
        res['log'] = 'translator failed: ' + (r.stdout + r.stderr)[-1500:]
        return res
    info = json.load(open(os.path.join(gen, 'facts_c10.json')))
    res['problems'] = info['problems']
    res['n_classes'] = len(info['classes']); res['n_atomic_sites'] = len(info['atomic_sites'])
    res['n_accesses'] = len(info['accesses']); res['n_calls'] = len(info['calls'])
    res['publish_wrapper'] = info['publish_wrapper']; res['traverse_wrappers'] = info['traverse_wrappers']
    res['atomic_orders'] = sorted({'%s:%s %s(%s) %s' % (s['file'], s['func'], s['op'], s['var'], s['order']) for s in info['atomic_sites']})
    committed = os.path.join(vlib.COQ, 'theories', 'Facts_C10.v')
    new = open(os.path.join(gen, 'Facts_C10.v')).read()
    if os.path.exists(committed):
        a, b = normalise_facts(open(committed).read()), normalise_facts(new)
        res['changed'] = a != b
        if a != b:
            sa = set(re.findall(r'mkClass "[^"]*" \d+ \w+ \w+ (?:\([^)]*\)|\w+) \w+', a))
            sb = set(re.findall(r'mkClass "[^"]*" \d+ \w+ \w+ (?:\([^)]*\)|\w+) \w+', b))
            res['facts_added'] = sorted(sb - sa)[:12]; res['facts_removed'] = sorted(sa - sb)[:12]
    base = ['coqc', '-Q', os.path.join(vlib.COQ, 'theories'), 'LCDB', '-Q', gen, 'LCDBGEN', '-w', COQ_W]
    r = subprocess.run(['timeout', '600'] + base + [os.path.join(gen, 'Facts_C10.v')], capture_output=True, text=True, cwd=gen)
    if r.returncode != 0:
        res['log'] = 'generated Facts_C10.v does not compile: ' + r.stderr[-1500:]
        return res
    open(os.path.join(gen, 'Diag_C10.v'), 'w').write(
        'Require Import List String. Import ListNotations.\nRequire Import LCDB.Hb LCDBGEN.Facts_C10.\n'
        'Eval vm_compute in (check_facts facts).\nEval vm_compute in (bad_classes facts).\nEval vm_compute in (bad_pairs facts).\n')
    # the theorem itself, against the regenerated table (in parallel with the diagnosis)
    src = open(os.path.join(vlib.COQ, 'theories', 'Properties_C10.v')).read().replace('LCDB.Facts_C10', 'LCDBGEN.Facts_C10')
    open(os.path.join(gen, 'Properties_C10_gen.v'), 'w').write(src)
    with ThreadPoolExecutor(2) as ex:
        f1 = ex.submit(subprocess.run, ['timeout', '600'] + base + [os.path.join(gen, 'Diag_C10.v')], capture_output=True, text=True, cwd=gen)
        f2 = ex.submit(subprocess.run, ['timeout', '600'] + base + [os.path.join(gen, 'Properties_C10_gen.v')], capture_output=True, text=True, cwd=gen)
        rd, r = f1.result(), f2.result()
    parts = re.split(r'^\s*= ', rd.stdout, flags=re.M)
    if len(parts) >= 4:
        res['check_facts'] = parts[1].strip().startswith('true')
        res['bad_classes'] = re.sub(r'\s+', ' ', parts[2].split('\n     : ')[0])[:3000]
        res['bad_pairs'] = re.sub(r'\s+', ' ', parts[3].split('\n     : ')[0])[:6000]
    res['theorem_ok'] = r.returncode == 0
    res['closed_count'] = r.stdout.count('Closed under the global context')
    if r.returncode != 0:
        res['log'] = 'C10_this_tree does not hold for the regenerated facts: ' + r.stderr[-800:]
    res['ok'] = res['theorem_ok'] and res['check_facts'] is True and not res['problems']
    # which site moved: accesses made with no lock held, outside init
    res['unguarded_sites'] = [st for c in info['classes'] if c['guard'] == 'GLock{}' for st in c['sites']][:40]
    return res

# ---------------------------------------------------------------- sanitizer runs
def parse_tsan(err):
    """[(kind, signature, text)] of the ThreadSanitizer reports in a stderr."""
    out = []
    for blk in err.split('=================='):
        m = re.search(r'WARNING: ThreadSanitizer: ([^\n(]+?)\s*(?:\(pid=\d+\))?\s*\n', blk)
        if not m:
            continue
        kind = m.group(1).strip()
        stacks = re.split(r'\n\s*\n', blk)
        frames = []
        for st in stacks[:3]:
            fr = re.findall(r'#\d+ (\S+) ([^\s:]+)?', st)
            fr = [f for f, _ in fr if not f.startswith('__tsan') and not f.startswith('__interceptor')
                  and f not in ('malloc', 'free', 'memcpy', 'memset', 'memcmp', 'worker', 'main')]
            frames.append('>'.join(fr[:2]))
        sig = kind + '|' + '|'.join(sorted(f for f in frames[:2] if f))
        out.append((kind, sig, blk.strip()[:6000]))
    return out

def parse_asan(err):
    out = []
    m = re.search(r'ERROR: (AddressSanitizer|LeakSanitizer): ([^\n]*)', err)
    if m:
        fr = re.findall(r'#\d+ 0x[0-9a-f]+ in (\S+)', err)
        out.append((m.group(2).split(' ')[0], 'asan|' + m.group(2).split(' ')[0] + '|' + '>'.join(fr[:4]), err[:6000]))
    m = re.search(r'runtime error: ([^\n]*)', err)
    if m:
        out.append(('ubsan', 'ubsan|' + re.sub(r'0x[0-9a-f]+|\d+', 'N', m.group(1))[:120], err[:4000]))
    return out

def one_run(args):
    exe, variant, base, idx, seed, scenario, nthreads, nops, tmo = args
    d = os.path.join(base, 'run%d' % idx); os.makedirs(d, exist_ok=True)
    env = dict(os.environ, TSAN_OPTIONS=TSAN_OPTIONS, ASAN_OPTIONS=ASAN_OPTIONS, UBSAN_OPTIONS='print_stacktrace=1')
    cmd = [exe, d, str(seed), str(scenario), str(nthreads), str(nops)]
    t0 = time.time()
    try:
        r = subprocess.run(cmd, capture_output=True, timeout=tmo, env=env)
        rc, out, err = r.returncode, r.stdout.decode('latin1'), r.stderr.decode('latin1')
    except subprocess.TimeoutExpired as e:
        rc, out, err = -999, (e.stdout or b'').decode('latin1'), (e.stderr or b'').decode('latin1')
    shutil.rmtree(d, ignore_errors=True)
    return dict(variant=variant, seed=seed, scenario=scenario, nthreads=nthreads, nops=nops, rc=rc,
                out=out.strip()[-600:], err=err, wall=round(time.time() - t0, 1),
                argv=[os.path.basename(exe), '<dir>', str(seed), str(scenario), str(nthreads), str(nops)])

def build_variants(sd):
    def b(variant):
        lib = vlib.build_lib(sd, variant)
        return vlib.build_bin(sd, variant, 'k10', ['k10.c'], lib, extra_ld=['-Wl,--wrap=ldb_table_internal_get'])
    with ThreadPoolExecutor(2) as ex:
        ft, fa = ex.submit(b, 'tsan'), ex.submit(b, 'asan_pthread')
        return ft.result(), fa.result()

SCALE = {0: 0.6, 1: 1.6, 2: 1.3, 3: 0.3, 4: 0.6, 5: 0.6, 6: 2.0}     # compaction/backup-heavy scenarios cost more per operation

def run_search(sd, exes, tier, seed):
    """runs the sanitizer workloads; returns (results, meta)."""
    rng = vlib.Rng(seed ^ 0xC10)
    n_t, n_a, nops = (20, 4, 160) if tier == 'quick' else (440, 60, 500)
    jobs = []
    base = os.path.join(sd, 'runs'); os.makedirs(base, exist_ok=True)
    for i in range(n_t + n_a):
        variant = 'tsan' if i < n_t else 'asan_pthread'
        scenario = i % 7
        nthreads = rng.choice([4, 6, 8])
        n = int(nops * SCALE[scenario] * (2 if variant != 'tsan' else 1))
        jobs.append((exes[0] if variant == 'tsan' else exes[1], variant, base, i, rng.below(1 << 30), scenario, nthreads,
                     n, 240 if tier == 'quick' else 900))
    par = max(2, min(8, vlib.NCPU // 2))
    with ThreadPoolExecutor(par) as ex:
        results = list(ex.map(one_run, jobs))
    return results, {'tsan': n_t, 'asan_pthread': n_a, 'parallel': par, 'ops_per_thread_base': nops}

def account(rep, results, meta):
    found = {}      # signature -> (kind, text, run)
    notes = {}
    for r in results:
        rep.evaluated()
        m = re.search(r'writes=(\d+) gets=(\d+) hits=(\d+) iters=(\d+) steps=(\d+) snaps=(\d+) compacts=(\d+) props=(\d+) backups=(\d+) l0=(-?\d+) tablelines=(\d+) final=(\d+) bad=(\d+)', r['out'])
        if m and int(m.group(11)) > 0 and int(m.group(3)) > 0:
            rep.nontrivial((r['variant'], r['seed'], r['scenario']))      # tables were produced while the threads ran
        rep.sample('%s scenario=%d seed=%d threads=%d: %s (%.1fs)' % (r['variant'], r['scenario'], r['seed'], r['nthreads'], r['out'][-300:], r['wall']))
        reports = parse_tsan(r['err']) if r['variant'] == 'tsan' else parse_asan(r['err'])
        for kind, sig, text in reports:
            if any(kind.startswith(k) for k in VIOLATION_KINDS) or r['variant'] != 'tsan':
                found.setdefault(sig, (kind, text, r))
            else:
                notes.setdefault(sig, kind)
        if r['rc'] == -999:
            found.setdefault('hang|%s|%d' % (r['variant'], r['scenario']), ('hang', 'workload did not finish in time; stderr tail: ' + r['err'][-1500:], r))
        elif r['rc'] == 3:
            found.setdefault('corrupt-read|%s' % r['variant'], ('corrupt-read', r['out'] + '\n' + r['err'][-1500:], r))
        elif r['rc'] != 0 and not reports:
            found.setdefault('crash|%s|rc=%d' % (r['variant'], r['rc']), ('crash', 'exit code %d; stderr tail: %s' % (r['rc'], r['err'][-2500:]), r))
    rep.cov['sanitizer_runs'] = dict(meta, wall_max_s=max([r['wall'] for r in results] or [0]),
                                     other_tsan_reports=sorted(set(notes.values())))
    return found

def report_found(rep, found, facts):
    for sig, (kind, text, r) in sorted(found.items()):
        rep.violation({'kind': 'sanitizer-' + kind.replace(' ', '-'), 'variant': r['variant'], 'argv': r['argv'],
                       'seed': r['seed'], 'scenario': r['scenario'], 'nthreads': r['nthreads'], 'nops': r['nops'],
                       'env': {'TSAN_OPTIONS': TSAN_OPTIONS, 'ASAN_OPTIONS': ASAN_OPTIONS},
                       'report': text, 'facts_check': {k: facts.get(k) for k in ('check_facts', 'bad_pairs', 'bad_classes', 'problems')},
                       'how': 'bin/check C10 --replay <this file> rebuilds harness/k10.c in the same variant and repeats the run (races are schedule dependent: up to 12 attempts)'},
                      signature=sig)

# ---------------------------------------------------------------- entry points
def run(rep, tier, seed):
    sd = vlib.scratch_dir('lcdbc10.')
    def build_and_search():
        exes = build_variants(sd)                   # compile the two sanitizer variants and search while coq runs
        return run_search(sd, exes, tier, seed)
    with ThreadPoolExecutor(1) as bg:
        fb = bg.submit(build_and_search)
        pr = vlib.coq_check('C10'); rep.add_proof(pr)
        if not pr['ok']:
            rep.violation({'kind': 'proof-broken', 'log': pr['log'][-3000:], 'forbidden': pr['forbidden']}, suffix='no-failing-input-found')
        facts = facts_step(sd)
        results, meta = fb.result()
    rep.cov['facts'] = {k: facts.get(k) for k in ('n_classes', 'n_atomic_sites', 'n_accesses', 'n_calls', 'check_facts', 'theorem_ok',
                                                   'changed', 'facts_added', 'facts_removed', 'problems', 'publish_wrapper',
                                                   'traverse_wrappers', 'atomic_orders', 'translator_stdout')}
    rep.cov['facts_changed_vs_committed'] = ('facts changed' if facts.get('changed') else 'facts identical to coq/theories/Facts_C10.v') \
        if facts.get('changed') is not None else 'not compared'
    rep.evaluated(facts.get('n_classes') or 0)
    found = account(rep, results, meta)
    report_found(rep, found, facts)
    if not facts['ok']:
        obj = {'kind': 'facts-check-failed', 'check_facts': facts.get('check_facts'), 'theorem_ok': facts.get('theorem_ok'),
               'failing_classes': facts.get('bad_classes'), 'failing_pairs': facts.get('bad_pairs'),
               'translator_problems': facts.get('problems'), 'unguarded_sites': facts.get('unguarded_sites'),
               'facts_added': facts.get('facts_added'), 'facts_removed': facts.get('facts_removed'), 'log': facts.get('log'),
               'how': 'bin/check C10 --replay <this file> regenerates the facts from the current sources and re-evaluates check_facts'}
        rep.cov['facts_failure'] = {k: obj[k] for k in ('failing_classes', 'failing_pairs', 'translator_problems', 'log')}
        if found:
            rep.cov['explanation'] = 'the declared discipline is inconsistent for this tree AND a sanitizer report was found (replays above)'
        else:
            rep.violation(obj, suffix='no-failing-input-found')
    rep.cov['rule'] = ('(1) every ldb_atomic_* site and every textual access to the mutex-protected fields of db_impl.c, version_set.c(apply), '
                       'cache.c, thread_pool.c, env_unix_impl.h is re-read from the sources, classified (location class, kind, memory order, '
                       'locks held) and check_facts is evaluated in Coq on the table (evaluations count the classes); '
                       '(2) %s ThreadSanitizer runs + %s ASan/UBSan runs of harness/k10.c: 4-8 threads on one handle, 5 scenarios, '
                       'put/del/batch/get/has/iterate/snapshot/release/compact-range/property/approximate-sizes/backup, 64 KiB write buffer; '
                       'distinct_nontrivial = runs in which tables were flushed/compacted while the threads were running and reads hit'
                       % (rep.cov['sanitizer_runs']['tsan'], rep.cov['sanitizer_runs']['asan_pthread']))
    rep.assumptions += [
        'execution_of (Hb.v): executions of the C code respect the guards read off the source text by bin/facts_c10.py (trusted translator, lexical)',
        'writer-queue token Q and background token B are hand-listed protocol locks (their mutual exclusion is argued in comments, not proved)',
        'accesses not listed in the translator tables (iterators, version_set.c functions other than apply, table/*.c) are outside the fact table; the sanitizer runs are their only coverage',
        'the theorem is about the access skeleton, not the object code; TSan observes the compiled code for the schedules that occurred',
    ]

def replay(rep, path):
    obj = json.load(open(path))
    sd = vlib.scratch_dir('lcdbc10r.')
    if obj.get('kind', '').startswith('sanitizer-'):
        variant = obj['variant']
        lib = vlib.build_lib(sd, variant)
        exe = vlib.build_bin(sd, variant, 'k10', ['k10.c'], lib, extra_ld=['-Wl,--wrap=ldb_table_internal_get'])
        for attempt in range(12):
            r = one_run((exe, variant, sd, attempt, obj['seed'], obj['scenario'], obj['nthreads'], obj['nops'], 900))
            reports = parse_tsan(r['err']) if variant == 'tsan' else parse_asan(r['err'])
            bad = [x for x in reports if any(x[0].startswith(k) for k in VIOLATION_KINDS) or variant != 'tsan']
            if bad or r['rc'] not in (0,):
                print('REPRODUCED attempt=%d rc=%d reports=%d' % (attempt, r['rc'], len(bad)))
                if bad:
                    print(bad[0][2][:3000])
                rep.violation(dict(obj, reproduced=True), signature=obj.get('signature'))
                return rep.finish()
        print('not reproduced in 12 attempts')
        return rep.finish()
    facts = facts_step(sd)
    print(json.dumps({k: facts.get(k) for k in ('check_facts', 'theorem_ok', 'bad_classes', 'bad_pairs', 'problems', 'log')}, indent=1))
    if not facts['ok']:
        rep.violation(dict(obj, reproduced=True), suffix='no-failing-input-found')
    return rep.finish()
