"""extra_c01 -- additional K1 ties for property C01 ("reads return the latest write ...
regardless of cache evictions, ..."): the LRU cache (block cache / table cache) and the
memtable (skiplist + entry encoding) are inside the model, each with an executable Gallina
replica (coq/theories/Cache.v, Skiplist.v, Memtable.v), theorems that justify the
abstraction the engine model makes (Properties_C01c.v: the caches are transparent, the
skiplist is a sorted list, ldb_memtable_get is Engine.get_in_run) and the byte/behaviour
exact differentials run here (checks/extra_cache.py, checks/extra_memtable.py).
run_extra(rep, tier, seed) reports every disagreement through rep.violation.  Most of the
quick-tier wall time is the build of liblcdb + k1 (vlib.build_k1); a caller that already
has a nothread k1 driver can pass it (k1=..., out=...) to skip that."""
import vlib
import extra_cache, extra_memtable

def run_extra(rep, tier, seed, k1=None, out=None):
    if out is None:
        out = vlib.scratch_dir()
    if k1 is None:
        k1 = vlib.build_k1(out)
    model = vlib.ensure_model()
    bad = 0
    bad += extra_cache.run_segment(rep, tier, seed, out, k1, model)
    bad += extra_memtable.run_segment(rep, tier, seed, out, k1, model)
    rep.count('extra_c01_disagreements', bad)
    return bad
