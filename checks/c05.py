"""C05 -- recovery always succeeds and yields a coherent, writable database.
Tie: K3, all image kinds, follow-up workload + clean reopen after every 5th recovery."""
import vlib, k3check
from c03 import known_sig

OPTS = [{'write_buffer': 65536, 'reuse_logs': 0}, {'write_buffer': 65536, 'reuse_logs': 1}, {'write_buffer': 65536, 'reuse_logs': 0, 'paranoid': 1},
        {'write_buffer': 65536, 'reuse_logs': 1, 'paranoid': 1}]

def run(rep, tier, seed):
    pr = vlib.coq_check('C05'); rep.add_proof(pr)
    if not pr['ok']:
        rep.violation({'kind': 'proof-broken', 'log': pr['log'][-3000:], 'forbidden': pr['forbidden']}, suffix='no-failing-input-found')
    nh, nops, mp = (8, 30, 80) if tier == 'quick' else (64, 60, 100000)
    k3check.run_crash(rep, 'C05', tier, seed, ['written', 'min', 'torn', 'dirahead'], nh, nops, mp, OPTS, known_sig=known_sig, nested=(25 if tier == 'quick' else 6))
    # clean (crash-free) reopen cycles over long log/MANIFEST-reuse histories must succeed as well
    import k2check, histgen
    k2check.run_k2(rep, 'C05', tier, seed, 'c01', 2 if tier == 'quick' else 40, 60, fixed={'reuse_logs': 1}, extra_histories=[histgen.corpus_histories()[i] for i in (3, 4, -1)])
    rep.cov['rule'] = ('every crash image of C02/C03 (byte-exact, minimal, torn, dir-ahead) at sampled syscall boundaries: real ldb_open must '
                       'succeed, contents must be the in-order application of whole batches dropping at most a tail per log segment, and a '
                       'follow-up workload (writes, delete, flush, clean reopen) must take precedence and persist')

def replay(rep, path):
    return k3check.replay_crash(rep, path)
