"""C18 -- decoders are total and memory-safe on arbitrary bytes.
Theorems: coq/theories/Properties_C18.v (checked-access models never return OOB; bounded varint readers; log reader).
Tie: (1) the SSTable-layer differential incl. its malformed stream under ASan+UBSan (shared with C16);
(2) metadata / log / varint decoders on garbage and structure-aware malformed inputs, plain and ASan builds
vs the extracted model; (3) whole-database operations (open, get, scan both ways, compact, reopen, repair)
on mutated database directories under ASan+UBSan: must terminate with a status, no sanitizer report, no
abort, no timeout."""
import os, shutil, subprocess
from concurrent.futures import ThreadPoolExecutor
import vlib, k2lib, k3lib
import c16, c11, metagen
from k1util import hx

def meta_garbage(rng, tier):
    lines = [l for (l, _) in metagen.edit_garbage_cases(rng, tier)]
    n = 400 if tier == 'quick' else 20000
    for _ in range(n):
        g = rng.bytes(rng.below(60))
        c = rng.below(8)
        if c == 0: lines.append('batch_iter %s' % hx(g))
        elif c == 1: lines.append('batch_iter %s' % hx(bytes(8) + bytes([rng.below(5), 0, 0, 0]) + g))      # plausible header, garbage body
        elif c == 2: lines.append('ikey_parse %s' % hx(g[:rng.below(14)]))
        elif c == 3: lines.append('parse_filename %s' % hx(bytes(rng.choice(b'0123456789.logdbstmpMANIFEST-CURRENTLOCK') for _ in range(rng.below(18)))))
        elif c == 4: lines.append('varint32_read %s' % hx(g[:rng.below(8)]))
        elif c == 5: lines.append('varint64_read %s' % hx(bytes([rng.choice([0x80, 0xff, 0x7f, rng.below(256)]) for _ in range(rng.below(13))])))
        elif c == 6: lines.append('slice_read %s' % hx(g))
        else: lines.append('logread %d %s' % (rng.below(2), hx(g)))
    # log images with plausible headers and hostile lengths
    for _ in range(60 if tier == 'quick' else 3000):
        body = rng.bytes(rng.below(80))
        hdr = rng.bytes(4) + bytes([rng.choice([0, 1, 7, 0xff, len(body) & 255]), rng.choice([0, 0, 1, 0x7f, 0xff]), rng.below(8)])
        lines.append('logread %d %s' % (rng.below(2), hx((hdr + body) * rng.range(1, 3))))
    return lines

def db_case(args):
    k2a, src, work, opts, fname, pos, kind, seed, allkeys = args
    rng = vlib.Rng(seed)
    if os.path.exists(work): shutil.rmtree(work)
    shutil.copytree(src, work)
    p = os.path.join(work, fname)
    data = open(p, 'rb').read()
    new = c11.mutate(data, pos, kind, rng) if kind != 'garbage' else (data[:pos] + rng.bytes(rng.range(1, 40)) + data[pos + 7:])
    if new == data:
        shutil.rmtree(work, ignore_errors=True); return None
    open(p, 'wb').write(new)
    ops = ['dumpall', 'open'] + ['get %s -' % k3lib.khex(k) for k in allkeys[:6]] + ['scan -', 'rscan -', 'compact * *', 'crange 1 * *', 'reopen', 'scan -', 'dumpall', 'repair 0', 'scan -', 'repair 2', 'rscan -', 'dumpall']
    env = dict(os.environ, ASAN_OPTIONS='allocator_may_return_null=1:max_allocation_size_mb=256:detect_leaks=0', UBSAN_OPTIONS='halt_on_error=1:print_stacktrace=1')
    try:
        r = subprocess.run([k2a, work] + ['%s=%s' % kv for kv in sorted(opts.items())], input=('\n'.join(ops) + '\n').encode(),
                           capture_output=True, timeout=120, env=env)
        rc = r.returncode; err = r.stderr.decode('latin1')
    except subprocess.TimeoutExpired:
        rc = -999; err = 'TIMEOUT'
    shutil.rmtree(work, ignore_errors=True)
    for d in (work + '.lost',):
        shutil.rmtree(d, ignore_errors=True)
    if rc != 0:
        return {'file': fname, 'pos': pos, 'alteration': kind, 'rc': rc, 'stderr': err[-1500:]}
    return {}

def run(rep, tier, seed):
    # (1) table layer: differential + malformed stream + ASan (also re-checks Properties_C18.v)
    c16.run(rep, tier, seed, proof_id='C18')
    out = vlib.scratch_dir()
    rng = vlib.Rng(seed ^ 0xC18)
    # (2) metadata / log / varint decoders on malformed input
    lib = vlib.build_lib(out, 'nothread'); k1 = vlib.build_k1(out, 'nothread', lib=lib)
    model = vlib.ensure_model()
    lines = meta_garbage(rng, tier)
    c = vlib.run_lines(k1, lines, shards=4); m = vlib.run_lines(model, lines, shards=vlib.NCPU)
    rep.evaluated(len(lines))
    vlib.diff_cases(rep, lines, c, m, 'malformed-metadata-decoders')
    try:
        liba = vlib.build_lib(out, 'asan'); k1a = vlib.build_k1(out, 'asan', lib=liba)
        env = {'ASAN_OPTIONS': 'allocator_may_return_null=1:max_allocation_size_mb=64:detect_leaks=0', 'UBSAN_OPTIONS': 'halt_on_error=1:print_stacktrace=1'}
        ca = vlib.run_lines(k1a, lines, env=env, shards=vlib.NCPU)
        rep.evaluated(len(lines))
        bad = [i for i, o in enumerate(ca) if o.startswith('CRASH')]
        for i in bad[:200]:
            ca[i] = vlib.run_lines(k1a, [lines[i]], env=env)[0]
        n = 0
        for l, o, oc in zip(lines, ca, c):
            if o.startswith('CRASH') or o != oc:
                n += 1
                if n <= 3:
                    rep.violation({'kind': 'sanitizer-abort' if o.startswith('CRASH') else 'asan-vs-plain-output', 'case': l[:4000], 'implementation': o[:3000], 'plain': oc[:500]})
        rep.cov['meta_malformed_asan'] = len(lines)
        # (3) whole-database operations on mutated directories
        k2a = vlib.build_k2(out, 'asan', lib=liba)
        k2 = vlib.build_k2(out, 'nothread', lib=lib)
        jobs = []
        for d in range(2 if tier == 'quick' else 6):
            opts = {'write_buffer': 65536, 'block_size': 1024, 'paranoid': d % 2, 'verify': d % 2, 'bloom': 10 if d % 2 == 0 else 0,
                    'compression': d % 2, 'mmap': (d // 2) % 2, 'cache': 0 if d % 2 else -1, 'reuse_logs': d % 2}
            src = os.path.join(out, 'dbsrc%d' % d)
            content, allkeys, batches, names = c11.build_db(k2, src, rng, dict(opts, paranoid=0, verify=0), heavy=(d % 2 == 1))
            files = [n for n in sorted(os.listdir(src)) if n not in ('LOCK', 'LOG', 'LOG.old')]
            for n in files:
                size = os.path.getsize(os.path.join(src, n))
                npos = (45 if n.endswith('.ldb') else 25) if tier == 'quick' else 600
                pos = set(range(max(0, size - 48), size)) if n.endswith('.ldb') and tier != 'quick' else set()
                while len(pos) < min(size, npos): pos.add(rng.below(size))
                for p in sorted(pos):
                    kd = rng.choice(['flip', 'zero', 'ff', 'trunc', 'sector', 'garbage', 'garbage'])
                    jobs.append((k2a, src, os.path.join(out, 'm%d' % len(jobs)), opts, n, p, kd, rng.next(), allkeys))
        with ThreadPoolExecutor(vlib.NCPU) as ex:
            results = list(ex.map(db_case, jobs))
        nv = 0; ran = 0
        for job, r in zip(jobs, results):
            if r is None: continue
            ran += 1; rep.evaluated(1); rep.nontrivial(('db', job[4], job[5], job[6]))
            if r:
                nv += 1
                if nv <= 3:
                    rep.violation({'kind': 'whole-db-sanitizer-abort-or-timeout', 'problem': r, 'options': job[3]})
        rep.cov['mutated_database_runs_asan'] = ran
    except vlib.BuildError as e:
        rep.assumptions.append('asan variant did not build: ' + str(e)[:300])
        rep.violation({'kind': 'asan-build-failed', 'detail': str(e)[:2000]}, suffix='no-failing-input-found')
    rep.cov['rule'] = (rep.cov.get('rule', '') + ' || C18 additions: garbage and structure-aware malformed inputs for the version-edit, write-batch, internal-key, '
                       'file-name, varint, slice and log decoders (plain and ASan+UBSan builds vs the extracted model); open/get/scan/compact/reopen/repair on '
                       'database directories with one mutated file (bit flip, 0x00/0xFF, truncation, zeroed sector, spliced garbage) under ASan+UBSan: '
                       'sanitizer report / abort / timeout is the oracle')

def replay(rep, path):
    print(open(path).read()[:3000]); return 1
