"""C02 -- synced writes survive power loss at any instant.
Tie: K3, crash images of the property's crash model (minimal / dir-ops-ahead / torn tail) at every syscall boundary."""
import vlib, k3check
from c03 import known_sig

OPTS = [{'write_buffer': 65536, 'reuse_logs': 0}, {'write_buffer': 65536, 'reuse_logs': 0, 'paranoid': 1},
        {'write_buffer': 262144, 'reuse_logs': 0, 'compression': 1, 'bloom': 10}, {'write_buffer': 65536, 'reuse_logs': 1}]

def run(rep, tier, seed):
    pr = vlib.coq_check('C02')
    pr2 = vlib.coq_check('C02b')      # group commit: the selection rule of ldb_build_batch_group (Group.v)
    pr['theorems'] += pr2['theorems']; pr['ok'] = pr['ok'] and pr2['ok']; pr['closed_count'] = pr.get('closed_count', 0) + pr2.get('closed_count', 0)
    pr['axioms'] = sorted(set(pr['axioms']) | set(pr2['axioms'])); pr['log'] += pr2['log']; pr['file'] += ' + coq/theories/Properties_C02b.v'
    rep.add_proof(pr)
    if not pr['ok']:
        rep.violation({'kind': 'proof-broken', 'log': pr['log'][-3000:], 'forbidden': pr['forbidden']}, suffix='no-failing-input-found')
    nh, nops, mp = (8, 30, 110) if tier == 'quick' else (96, 60, 100000)
    k3check.run_crash(rep, 'C02', tier, seed, ['min', 'dirahead', 'torn'], nh, nops, mp, OPTS, known_sig=known_sig)
    import k8check
    k8check.run_sync_groups(rep, tier, seed)       # pthread build: sync writers merged into a group commit must be fsynced with it
    rep.cov['rule'] = ('write histories with mixed sync/non-sync batches, flushes, compactions, reopen; at every (sampled in quick) syscall '
                       'boundary three images allowed by the crash model are materialised (minimal: every file cut to its last-fsync length and '
                       'directory operations only up to the last fsync; directory-ops-ahead-of-data; torn tail) and the real ldb_open + scan must '
                       'contain every sync-acknowledged batch and every batch whose log was deleted; plus multi-threaded runs of the pthread build with mixed sync flags under schedule perturbation: every group commit that contains a sync=1 writer must be followed by an fsync of the log before the next group is built, and the members of every group (queue as the leader saw it: sizes, sync flags, flush requests) must be the ones the extracted model of ldb_build_batch_group selects, or at least satisfy the guard the theorems need (leader + batches of a queue prefix, no sync member under a non-sync leader: counted as group_policy_divergence, no alarm); distinct_nontrivial = distinct images recovered')
    rep.assumptions.append('crash model is the one stated in the property (prefix of written bytes >= last fsync, directory operations in issue order >= last fsync)')

def replay(rep, path):
    import json
    if str(json.load(open(path)).get('kind', '')).startswith('K8-'):
        import k8check
        return k8check.replay(rep, path, 'C02')
    return k3check.replay_crash(rep, path)
