"""helpers for K1 case lines: hex, patterns"""
def hx(b):
    return b.hex() if len(b) else '-'
def unhx(s):
    s = s.strip()
    return b'' if s == '-' else bytes.fromhex(s)
def pat(n, seed):
    return '@%d:%d' % (n, seed)
def pattern_bytes(n, seed):
    return bytes(((seed + i * 31 + (i // 251)) & 255) for i in range(n))
def expand(arg):
    if arg == '-':
        return b''
    if arg.startswith('@'):
        n, s = arg[1:].split(':')
        return pattern_bytes(int(n), int(s))
    return bytes.fromhex(arg)
