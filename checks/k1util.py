"""helpers for K1 case lines: hex, patterns"""
def hx(b):
    return b.hex() if len(b) else '-'
def unhx(s):
    s = s.strip()
    return b'' if s == '-' else bytes.fromhex(s)
def pat(n, seed):
    return '@%d:%d' % (n, seed)
def pattern_bytes(n, seed):
    return bytes(((seed + i * 31 + (i // 251)) & 255) for i in range(n))
def expand(arg):
    if arg == '-':
        return b''
    if arg.startswith('@'):
        n, s = arg[1:].split(':')
        return pattern_bytes(int(n), int(s))
    return bytes.fromhex(arg)

def run_balanced(vlib, exe, lines, env=None, shards=16, cost=None):
    """like vlib.run_lines with shards, but cases are distributed by estimated cost
    (longest first, least-loaded shard) instead of contiguous chunks; returns the
    outputs in the order of [lines]."""
    from concurrent.futures import ThreadPoolExecutor
    if len(lines) < 2 * shards:
        return vlib.run_lines(exe, lines, env=env)
    cost = cost or len
    cs = [cost(l) for l in lines]
    order = sorted(range(len(lines)), key=lambda i: -cs[i])
    buckets = [[] for _ in range(shards)]; loads = [0] * shards
    for i in order:
        j = loads.index(min(loads)); buckets[j].append(i); loads[j] += cs[i] + 1
    for b in buckets:
        b.sort()
    with ThreadPoolExecutor(shards) as ex:
        outs = list(ex.map(lambda b: vlib.run_lines(exe, [lines[i] for i in b], env=env) if b else [], buckets))
    res = [None] * len(lines)
    for b, o in zip(buckets, outs):
        for i, x in zip(b, o):
            res[i] = x
    return res
