"""k2check.py -- shared runner for the K2-tied properties (C01 C06 C07 C13 C14)."""
import os, json, time
from concurrent.futures import ThreadPoolExecutor, ProcessPoolExecutor
import vlib, k2lib, histgen

# which observed problems concern which property, and whether the problem is itself a
# concrete failing input ('direct') or a broken correspondence without a wrong answer yet
DIRECT = {
    'C01': {'read-vs-spec', 'scan-vs-spec', 'view-changed-by-step', 'api-error', 'harness-crash', 'table-status'},
    'C06': {'read-vs-spec', 'scan-vs-spec', 'view-changed-by-step', 'api-error', 'harness-crash'},
    'C07': {'iter-vs-spec', 'scan-vs-spec', 'view-changed-by-step', 'api-error', 'harness-crash', 'table-status'},
    'C13': {'dir-vs-live', 'gc-vs-model', 'iter-vs-spec', 'table-status', 'api-error', 'harness-crash'},
    'C14': {'inv-false-on-observed', 'layout-mismatch', 'meta-mismatch', 'api-error', 'harness-crash', 'table-status', 'table-bytes-vs-independent-reader'},
}
DIRECT['C19'] = {'read-vs-spec', 'read-vs-spec-after-repair', 'scan-vs-spec', 'iter-vs-spec', 'api-error', 'harness-crash', 'table-status', 'dir-vs-live', 'layout-mismatch'}
DIRECT['C20'] = {'backup-contents', 'backup-not-independent', 'backup-onto-source-accepted', 'copy-contents', 'wrongcmp-not-refused', 'wrongcmp-modified-files',
                 'lock-not-exclusive', 'lock-not-released', 'lock-dropped-by-failed-open',
                 'read-vs-spec', 'scan-vs-spec', 'api-error', 'harness-crash'}     # the source must stay unchanged and usable
DIRECT['C05'] = {'api-error', 'read-vs-spec', 'scan-vs-spec', 'harness-crash', 'layout-mismatch'}
INDIRECT = {
    'C01': {'replica-divergence', 'step-not-guarded', 'step-output-differs', 'inv-false-on-observed'},
    'C06': {'replica-divergence', 'step-not-guarded', 'step-output-differs', 'inv-false-on-observed'},
    'C07': {'replica-divergence', 'inv-false-on-observed', 'step-output-differs'},
    'C13': {'step-not-guarded'},
    'C14': {'step-not-guarded', 'step-output-differs', 'replica-divergence'},
    'C19': {'step-not-guarded', 'step-output-differs'},
    'C20': {'step-not-guarded'},
}

# checks that only borrow the K2 machinery for clean (crash-free) reopen cycles
DIRECT.setdefault('C05', {'api-error', 'read-vs-spec', 'scan-vs-spec', 'harness-crash', 'layout-mismatch'})
INDIRECT.setdefault('C05', set())
DIRECT.setdefault('C17', {'api-error', 'layout-mismatch', 'harness-crash'})
INDIRECT.setdefault('C17', set())
# the MANIFEST bytes replayed by the replica of ldb_versions_recover (ManifestReplay.v) vs the layout in memory
DIRECT['C17'].add('manifest-replay-mismatch')
DIRECT['C14'].add('manifest-replay-mismatch')

def snapshot_only(p):
    """problem concerns a read at a snapshot (C06) rather than at the latest sequence (C01)"""
    op = p.get('op', '')
    a = op.split(' ')
    if a[0] in ('get', 'has'): return a[2] != '-'
    if a[0] in ('scan', 'rscan'): return a[1] != '-'
    if p['kind'] == 'view-changed-by-step':
        return p.get('sequences') != ['last']
    return False

def one_history(args):
    k2, model, base, idx, seed, profile, nops, fixed = args
    rng = vlib.Rng(seed)
    if isinstance(profile, tuple):      # a fixed corpus history: (cfg, ops)
        cfg, ops = profile; keys = []
    else:
        cfg, ops, keys = histgen.gen_history(rng, profile, nops, cfg=histgen.gen_config(rng, fixed))
    if profile == 'c14': cfg['tablehex'] = 3000
    dbdir = os.path.join(base, 'db%d' % idx)
    t0 = time.time()
    rc, out, err = k2lib.run_c(k2, dbdir, cfg, ops)
    import shutil, glob; shutil.rmtree(dbdir, ignore_errors=True)
    for d in glob.glob(dbdir + '.*'): shutil.rmtree(d, ignore_errors=True)      # backups / copies / lost+found of this history
    calls = k2lib.parse_trace(out)
    res = k2lib.K2Result()
    if rc != 0:
        res.problem('harness-crash', len(calls), detail='exit %d: %s' % (rc, err[-600:]))
    k2lib.validate(calls, ops, cfg, model, res, keys)
    return {'seed': seed, 'cfg': cfg, 'ops': ops, 'res': res, 'wall': time.time() - t0}

def run_k2(rep, prop, tier, seed, profile, nhist, nops, fixed=None, extra_histories=()):
    out = vlib.scratch_dir()
    k2 = vlib.build_k2(out, 'nothread')
    model = vlib.ensure_model()
    rng = vlib.Rng(seed ^ 0xC0FFEE)
    jobs = [(k2, model, out, 1000000 + i, 0, h, nops, fixed) for i, h in enumerate(extra_histories)]   # corpus first (indices disjoint from the random histories')
    jobs += [(k2, model, out, i, rng.next(), profile, nops, fixed) for i in range(nhist)]
    with ProcessPoolExecutor(vlib.NCPU) as ex:
        results = list(ex.map(one_history, jobs, chunksize=1))
    totals = {}
    nontrivial = 0
    cfg_hist = {}
    reported = 0
    for r in results:
        st = r['res'].stats
        for k, v in st.items():
            totals[k] = totals.get(k, 0) + v
        rep.evaluated(1)
        if st['flush'] >= 1 and st['compact'] >= 1:
            rep.nontrivial((r['seed'],))
        for k, v in r['cfg'].items():
            cfg_hist['%s=%s' % (k, v)] = cfg_hist.get('%s=%s' % (k, v), 0) + 1
        # concrete failing inputs first: a broken guard is only reported without one when the search
        # (the rest of the history: reads of every key at every snapshot) found none
        probs = sorted(r['res'].problems, key=lambda p: 0 if p['kind'] in DIRECT[prop] else 1)
        has_direct = any(p['kind'] in DIRECT[prop] for p in probs)
        for p in probs:
            kind = p['kind']
            if has_direct and kind in INDIRECT[prop] and kind not in DIRECT[prop]:
                continue
            if kind == 'policy-divergence':
                continue
            direct = kind in DIRECT[prop]
            indirect = kind in INDIRECT[prop]
            if prop == 'C01' and snapshot_only(p): direct = False; indirect = False
            if prop == 'C06' and kind in ('read-vs-spec', 'scan-vs-spec', 'view-changed-by-step') and not snapshot_only(p):
                direct = False; indirect = False
            if not (direct or indirect):
                totals['other_property_problems'] = totals.get('other_property_problems', 0) + 1
                continue
            sig = 'C19:get-after-repair-stale-level0-order' if kind == 'read-vs-spec-after-repair' else None
            if kind == 'lock-dropped-by-failed-open': sig = 'C20:fcntl-lock-dropped-by-failed-second-open'
            if reported < 3 or sig:
                reported += 1
                rep.violation({'kind': 'K2-' + kind, 'problem': p, 'options': r['cfg'],
                               'history': r['ops'][:p['call'] + 1] if isinstance(p.get('call'), int) else r['ops'],
                               'history_seed': r['seed'], 'profile': profile},
                              signature=sig, suffix='' if direct else 'no-failing-input-found')
    rep.cov['k2'] = totals
    rep.cov['traces_validated_against_impl'] = len(results)
    rep.cov['config_distribution'] = cfg_hist
    rep.cov['policy_divergence'] = totals.get('policy_divergence', 0)
    rep.cov['guards_checked'] = totals.get('guarded_steps', 0)
    if results:
        r0 = results[0]
        rep.sample({'options': r0['cfg'], 'ops_head': r0['ops'][:25], 'n_ops': len(r0['ops']), 'stats': r0['res'].stats})
    return results

def replay_k2(rep, path):
    r = json.load(open(path))
    out = vlib.scratch_dir(); k2 = vlib.build_k2(out, 'nothread'); model = vlib.ensure_model()
    rc, txt, err = k2lib.run_c(k2, os.path.join(out, 'db'), r['options'], r['history'])
    calls = k2lib.parse_trace(txt); res = k2lib.K2Result()
    k2lib.validate(calls, r['history'], r['options'], model, res, [])
    for p in res.problems:
        print(json.dumps(p)[:600])
    return 1 if [p for p in res.problems if p['kind'] != 'policy-divergence'] else 0
