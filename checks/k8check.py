"""k8check.py -- runners of the concurrency checks C08 (linearizability, batch atomicity under group
commit) and C09 (no deadlock / lost wake-up / stuck call) on top of k8lib + harness/k8.c."""
import os, json, time, subprocess
from concurrent.futures import ThreadPoolExecutor
import vlib, k8lib

def history_lines(run, limit=4000):
    ev = []
    for (tid, opid), o in run.ops.items():
        ev.append((o.inv, 'INV %d %d %d %s' % (tid, opid, o.inv, o.text[:300])))
        if o.ret is not None: ev.append((o.ret, 'RET %d %d %d %s' % (tid, opid, o.ret, (o.res or '')[:300])))
    ev.sort()
    return [e[1] for e in ev][:limit]

def private_model(out):
    """a private copy of the extracted model driver (other checks may rebuild ocaml/build/modeldrv while we run)"""
    import shutil
    for attempt in range(20):
        try:
            src = vlib.ensure_model()
            dst = os.path.join(out, 'modeldrv.k8')
            shutil.copy2(src, dst); os.chmod(dst, 0o755)
            probe = vlib.run_lines(dst, ['lts_check A;0;L;.;0;0;0;0;0;0;0;3;-'])
            if probe and probe[0].startswith('ok'): return dst
            return None
        except (OSError, vlib.BuildError):
            time.sleep(3)
    return None

# ------------------------------------------------------------------ abstract traces against the Coq model
def validate_abs(model, abs_lines):
    """feed one observed abstract-state trace to the extracted checker (Lts.check_trace);
    returns (ok, message, n_states)"""
    if not abs_lines: return True, 'empty', 0
    toks = []
    for ln in abs_lines:
        a = ln.split(' ')
        if a[0] == 'A':
            f = dict(x.split('=', 1) for x in a[4:])
            toks.append('A;%s;%s;%s;%s;%s;%s;%s;%s;%s;%s;%s;%s' % (a[2], a[3], f['q'], f['ls'], f['imm'], f['bgs'], f['bge'].lstrip('-') if f['bge'] != '0' else '0',
                                                            f['man'], f['sd'], f['l0'], f['logn'], f['cv']))
        elif a[0] == 'E':
            toks.append('E;%s;%s;%s' % (a[2], a[3], a[4]))
    out = vlib.run_lines(model, ['lts_check ' + ' '.join(toks)], timeout=600)
    res = out[0] if out else 'EXC no-output'
    return res.startswith('ok'), res, sum(1 for t in toks if t[0] == 'A')

def trace_checker_selftest(exe, base, model, rep):
    """the extracted trace checker must reject corrupted observations of a real run"""
    if not model: return
    rng = vlib.Rng(0x7ACE)
    sc = k8lib.gen_scenario(rng, 'stall', nthreads=4, nops=24)
    run = k8lib.run_k8(exe, base, 700000, sc, {'seed': 11, 'mode': 1, 'abs': 1})
    lines = run.abs
    ok0 = validate_abs(model, lines)
    res = {'pristine_accepted': ok0[0], 'observations': len(lines), 'mutations': {}}
    def idx(pred):
        for j, l in enumerate(lines):
            if pred(l): return j
        return None
    muts = {}
    i = idx(lambda l: l.startswith('E ') and ' S w' in l)
    if i is not None: muts['drop-signal-to-writer'] = lines[:i] + lines[i + 1:]
    i = idx(lambda l: l.startswith('E ') and ' B bg' in l)
    if i is not None: muts['drop-background-broadcast'] = lines[:i] + lines[i + 1:]
    i = idx(lambda l: l.startswith('A ') and ' U ' in l and ' ls=0 ' not in l)
    if i is not None:
        m = lines[:]; a = m[i].split(' '); a = [('ls=0' if x.startswith('ls=') else x) for x in a]; m[i] = ' '.join(a); muts['last-sequence-goes-back'] = m
    i = idx(lambda l: l.startswith('A ') and 'imm=1 bgs=1' in l)
    if i is not None:
        m = lines[:]; m[i] = m[i].replace('imm=1 bgs=1', 'imm=1 bgs=0'); muts['imm-without-background-call'] = m
    i = idx(lambda l: l.startswith('A ') and ' W ' in l and l.endswith('cv=bg'))
    if i is not None:
        m = lines[:]; m[i] = m[i].replace(' bgs=1 ', ' bgs=0 ').replace(' imm=1 ', ' imm=0 '); muts['wait-without-pending-waker'] = m
    i = idx(lambda l: l.startswith('A ') and ' L ' in l)
    if i is not None and i + 1 < len(lines):
        m = lines[:]; m[i] = m[i].replace(' sd=0 ', ' sd=1 '); muts['state-changed-while-unlocked'] = m
    bad = []
    for name, m in muts.items():
        r = validate_abs(model, m)
        res['mutations'][name] = r[1][:80]
        if r[0]: bad.append(name)
    rep.cov['trace_checker_selftest'] = res
    if not ok0[0] or bad:
        rep.violation({'kind': 'check-internal-error', 'detail': 'trace checker self-test: pristine=%s accepted-mutations=%s' % (ok0[:2], bad)},
                      suffix='no-failing-input-found')

# ------------------------------------------------------------------ one job
def one_c08(args):
    exe, base, idx, sc_seed, sched_seed, tier, want_abs, model = args
    rng = vlib.Rng(sc_seed)
    prof = rng.choice(['c08', 'c08', 'c08', 'readers', 'writers', 'stall', 'manual'])
    sc = k8lib.gen_scenario(rng, prof) if tier != 'quick' else k8lib.gen_scenario(rng, prof, nops=rng.range(8, 18))
    sched = k8lib.gen_schedule(vlib.Rng(sched_seed), abs_trace=want_abs)
    if idx % 3 == 2 and prof in ('stall', 'manual', 'c08'):
        sched['lockwait'] = rng.choice([3000, 12000, 30000])     # a reader stalled right before db->mutex while flushes and compactions go on
    run = k8lib.run_k8(exe, base, idx, sc, sched)
    stats = {}
    t0 = time.time()
    problems = k8lib.check_liveness(run, sc)
    live_bad = bool(problems)
    if not live_bad:
        problems += k8lib.check_c08_run(run, sc, stats)
    absres = None
    if want_abs and model and not live_bad:
        absres = validate_abs(model, run.abs)
        if not absres[0]:
            problems.append({'kind': 'abstract-trace-rejected-by-model', 'detail': absres[1][:600]})
    res = {'sc_seed': sc_seed, 'sched': sched, 'profile': prof, 'problems': problems, 'stats': stats, 'done': run.done,
           'wall': run.wall, 'check_wall': time.time() - t0, 'nops': len(run.ops), 'abs': absres, 'nthreads': len(sc.threads)}
    if problems:
        res['scenario'] = sc.to_json(); res['history'] = history_lines(run); res['groups'] = run.groups[:400]
    if idx < 2:
        res['sample'] = {'profile': prof, 'threads': len(sc.threads), 'ops_thread0': sc.threads[0][:10], 'schedule': sched,
                         'history_head': history_lines(run, 14), 'done': run.done}
    return res

LIVENESS_KINDS = ('stuck', 'timeout-without-watchdog-report', 'operation-never-returned', 'close-did-not-return', 'operations-missing')

def oracle_selftest(exe, base, rep):
    """the oracles must reject histories that are not linearizable: mutate real histories"""
    import copy
    rng = vlib.Rng(0x5E1F)
    detected = 0; tried = 0
    for i in range(12):
        sc = k8lib.gen_scenario(rng, 'readers', nthreads=3, nops=14)
        run = k8lib.run_k8(exe, base, 900000 + i, sc, {'seed': i + 1, 'mode': 1})
        st = {}
        if k8lib.check_liveness(run, sc) or k8lib.check_c08_run(run, sc, st): continue
        _, lin = k8lib.check_linearizable_publish_order(run, sc, {})
        # (a) stale read: replace the result of a get by an older value of the same key written strictly before
        done = False
        for (tid, opid), o in sorted(run.ops.items()):
            if o.kind() != 'get' or done: continue
            hist = lin['keyhist'].get(o.a[1], [])
            cur = k8lib.parse_val(o.res)
            olds = [h for h in hist if h[1] is not None and cur is not None and h[1] != cur[0] and lin['tagmap'][h[1]][3].ret < o.inv
                    and h[0] < lin['tagmap'][cur[0]][1] and lin['tagmap'][cur[0]][3].ret < o.inv]
            if olds:
                saved = o.res; o.res = '%s:%d' % (olds[0][1], olds[0][2]); tried += 1
                if k8lib.check_c08_run(run, sc, {}): detected += 1
                o.res = saved; done = True
        # (b) torn batch: a snapshot read of a marker flips to notfound while the payload stays
        done = False
        for (tid, opid), o in sorted(run.ops.items()):
            if o.kind() != 'sget' or done or not o.a[2].startswith('m') or o.res == 'notfound': continue
            # only meaningful if the same snapshot also read a payload value of that batch
            w = lin['tagmap'][k8lib.parse_val(o.res)[0]][3]
            pay = set(t for (k, t, l) in k8lib.write_entries(w) if t and not k.startswith('m'))
            sib = [p for (t2, o2), p in run.ops.items() if t2 == tid and p.kind() == 'sget' and p.a[1] == o.a[1]
                   and p.res.split(':')[0] in pay]
            if sib:
                saved = o.res; o.res = 'notfound'; tried += 1
                if k8lib.check_c08_run(run, sc, {}): detected += 1
                o.res = saved; done = True
    rep.cov['oracle_selftest'] = {'mutated_histories': tried, 'rejected': detected}
    if tried and detected != tried:
        rep.violation({'kind': 'check-internal-error', 'detail': 'oracle accepted %d of %d mutated (non-linearizable) histories' % (tried - detected, tried)},
                      suffix='no-failing-input-found')

def _merge(tot, st):
    for k, v in st.items():
        if isinstance(v, (int, float)): tot[k] = tot.get(k, 0) + v

def _done_counts(tot, done):
    if not done: return
    for k in ('groups', 'multi', 'switches', 'bgdone', 'bgwait', 'wwait', 'versions', 'spurious', 'steps'):
        try: tot['h_' + k] = tot.get('h_' + k, 0) + int(done.get(k, 0))
        except ValueError: pass
    try: tot['h_l0max'] = max(tot.get('h_l0max', 0), int(done.get('l0max', 0)))
    except ValueError: pass

def run_c08(rep, tier, seed):
    out = vlib.scratch_dir()
    exe = k8lib.build_k8(out, 'pthread')
    model = private_model(out)
    nsc, nsched = (60, 5) if tier == 'quick' else (2000, 10)
    rng = vlib.Rng(seed ^ 0xC08C08)
    jobs = []
    idx = 0
    for s in range(nsc):
        sc_seed = rng.next()
        for k in range(nsched):
            want_abs = (k == 0) and (tier == 'quick' or s % 4 == 0)
            jobs.append((exe, out, idx, sc_seed, rng.next(), tier, want_abs, model)); idx += 1
    t0 = time.time()
    with ThreadPoolExecutor(vlib.NCPU) as ex:
        results = list(ex.map(one_c08, jobs))
    wall = time.time() - t0
    tot = {}; reported = 0; nabs = 0; nabs_states = 0; kinds = {}
    profiles = {}
    for r in results:
        rep.evaluated(1)
        _merge(tot, r['stats']); _done_counts(tot, r['done'])
        profiles[r['profile']] = profiles.get(r['profile'], 0) + 1
        d = r['done'] or {}
        if int(d.get('multi', 0)) >= 1 and int(d.get('switches', 0)) >= 1 and r['nthreads'] >= 2:
            rep.nontrivial((r['sc_seed'], r['sched']['seed']))
        if r['abs'] is not None:
            nabs += 1; nabs_states += r['abs'][2]
        if 'sample' in r: rep.sample(r['sample'])
        for p in r['problems']:
            kinds[p['kind']] = kinds.get(p['kind'], 0) + 1
        if r['problems'] and reported < 3:
            reported += 1
            p = r['problems'][0]
            live = p['kind'] in LIVENESS_KINDS or p['kind'] == 'harness-crash'
            rep.violation({'kind': 'K8-' + p['kind'], 'problem': p, 'all_problems': r['problems'][:10], 'scenario': r['scenario'],
                           'schedule': r['sched'], 'scenario_seed': r['sc_seed'], 'history': r['history'], 'groups': r.get('groups')},
                          signature=p['kind'], suffix='' if not live else 'liveness')
        elif r['problems']:
            rep.violations.append(None)
    oracle_selftest(exe, out, rep)
    trace_checker_selftest(exe, out, model, rep)
    rep.cov['k8'] = tot
    rep.cov['problem_kinds'] = kinds
    rep.cov['schedules'] = len(results)
    rep.cov['scenarios'] = nsc
    rep.cov['schedules_per_sec'] = round(len(results) / max(wall, 1e-9), 1)
    rep.cov['profiles'] = profiles
    rep.cov['traces_validated_against_impl'] = nabs
    rep.cov['abstract_states_validated'] = nabs_states
    rep.cov['model_checker_available'] = model is not None
    rep.cov['rule'] = ('real multi-threaded runs of the pthread build (2..8 client threads + lcdb\'s background thread) over put/del/batch/get/'
                       'snapshot+reads/iterator scans/flush/compact-range/compact with unique values, 64 KiB write buffer and values up to 40 KB, '
                       'under seeded schedule perturbation at every mutex/condvar/thread-creation/I-O call (random yields, PCT-style priorities, spurious wake-ups); '
                       'each history is decided completely against the sorted-map spec given the observed publish order (sequence numbers of the group commits), '
                       'and independently by a per-key Wing-Gong search, a marker-based batch-atomicity/snapshot-chain test, monotone reads and the final state '
                       '(also after reopen); a sample of runs also has every observed change of db->mutex ownership validated by the extracted Coq checker; '
                       'distinct_nontrivial = schedules with >= 1 merged group commit and >= 1 memtable switch')
    rep.assumptions += ['schedules are sampled (perturbation + OS scheduler), not enumerated',
                        'the publish order used by the complete decision procedure is read white-box from the group-commit leader (harness/k8.c); '
                        'the per-key search and the marker test do not use it']
    return results

# ------------------------------------------------------------------ C02 under group commit
def one_syncgroup(args):
    exe, base, idx, sc_seed, sched_seed, model = args
    rng = vlib.Rng(sc_seed)
    sc = k8lib.gen_scenario(rng, 'writers', nthreads=rng.range(3, 8), nops=rng.range(12, 26))
    # many sync writers queued behind non-sync leaders and vice versa
    for t, ops in enumerate(sc.threads):
        for i, o in enumerate(ops):
            if o.split(' ')[0] in ('put', 'del', 'batch'):
                o = o[:-5] if o.endswith(' sync') else o
                if rng.chance(1, 3): o += ' sync'
                ops[i] = o
    sched = k8lib.gen_schedule(vlib.Rng(sched_seed))
    run = k8lib.run_k8(exe, base, 5000 + idx, sc, sched)
    stats = {}
    problems = k8lib.check_liveness(run, sc)
    if not problems:
        problems = k8lib.check_group_sync(run, sc, stats)           # concrete failing inputs first
        problems += k8lib.check_group_model(run, model, stats)
    res = {'sc_seed': sc_seed, 'sched': sched, 'problems': problems, 'stats': stats, 'done': run.done, 'ngroups': len(run.groups)}
    if problems:
        res['scenario'] = sc.to_json(); res['history'] = history_lines(run); res['groups'] = run.groups[:400]
    return res

def run_sync_groups(rep, tier, seed):
    """pthread build: a sync=1 write that the group-commit leader merges into its group must be fsynced with it."""
    out = vlib.scratch_dir()
    exe = k8lib.build_k8(out, 'pthread')
    n = 60 if tier == 'quick' else 1500
    rng = vlib.Rng(seed ^ 0x5C02)
    model = vlib.ensure_model()
    jobs = [(exe, out, i, rng.next(), rng.next(), model) for i in range(n)]
    with ThreadPoolExecutor(vlib.NCPU) as ex:
        results = list(ex.map(one_syncgroup, jobs))
    tot = {}; reported = 0
    for r in results:
        rep.evaluated(1); _merge(tot, r['stats'])
        if r['stats'].get('sync_groups_multi', 0) >= 1: rep.nontrivial(('syncgroup', r['sc_seed'], r['sched']['seed']))
        for p in r['problems'][:1]:
            if p['kind'] in LIVENESS_KINDS: continue        # C09's business
            if reported < 3:
                reported += 1
                only_corr = p['kind'] in ('group-model-error',)
                obj = {'kind': 'K8-' + p['kind'], 'problem': p, 'scenario': r['scenario'], 'schedule': r['sched'],
                       'scenario_seed': r['sc_seed'], 'history': r['history'], 'groups': r.get('groups')}
                if only_corr:
                    # a different (e.g. smaller) group is not by itself a durability failure: the sync oracle above is the search for one
                    obj['correspondence_that_no_longer_checks'] = 'Group.v (model of ldb_build_batch_group) vs the observed group commits: theorems Properties_C02b.*'
                rep.violation(obj, suffix='no-failing-input-found' if only_corr else '')
            else:
                rep.violations.append(None)
    rep.cov['k8_sync_groups'] = dict(tot, runs=len(results))
    return results

# ------------------------------------------------------------------ C20 under concurrency: backups
def one_backup(args):
    exe, base, idx, sc_seed, sched_seed = args
    rng = vlib.Rng(sc_seed)
    sc = k8lib.gen_scenario(rng, 'backup', nops=rng.range(10, 22))
    # compactions and flushes running while the backups are taken
    for t, ops in enumerate(sc.threads):
        for j in range(rng.range(1, 3)):
            ops.insert(rng.below(len(ops) + 1), rng.choice(['flush', 'crange 0 - -', 'crange 1 - -', 'compact - -']))
    sched = k8lib.gen_schedule(vlib.Rng(sched_seed))
    sched['reopen'] = 0
    run = k8lib.run_k8(exe, base, 7000 + idx, sc, sched)
    stats = {}
    problems = k8lib.check_liveness(run, sc)
    if not problems:
        problems = k8lib.check_backups(run, sc, stats)
    res = {'sc_seed': sc_seed, 'sched': sched, 'problems': problems, 'stats': stats, 'done': run.done}
    if problems:
        res['scenario'] = sc.to_json(); res['history'] = history_lines(run); res['groups'] = run.groups[:400]
    return res

def run_backup_points(rep, tier, seed):
    """pthread build: backups taken while other threads write, flush and compact must open and be a point-in-time state."""
    out = vlib.scratch_dir()
    exe = k8lib.build_k8(out, 'pthread')
    n = 60 if tier == 'quick' else 1200
    rng = vlib.Rng(seed ^ 0xBAC20)
    jobs = [(exe, out, i, rng.next(), rng.next()) for i in range(n)]
    with ThreadPoolExecutor(vlib.NCPU) as ex:
        results = list(ex.map(one_backup, jobs))
    tot = {}; reported = 0
    for r in results:
        rep.evaluated(1); _merge(tot, r['stats'])
        if r['stats'].get('backups_checked', 0) >= 1: rep.nontrivial(('k8backup', r['sc_seed'], r['sched']['seed']))
        for p in r['problems'][:1]:
            if p['kind'] in LIVENESS_KINDS: continue
            if reported < 3:
                reported += 1
                rep.violation({'kind': 'K8-' + p['kind'], 'problem': p, 'scenario': r['scenario'], 'schedule': r['sched'],
                               'scenario_seed': r['sc_seed'], 'history': r['history']})
            else:
                rep.violations.append(None)
    rep.cov['k8_backups'] = dict(tot, runs=len(results))
    return results

# ------------------------------------------------------------------ C09
C09_PROFILES = ['writers', 'writers', 'stall', 'stall', 'manual', 'manual', 'backup', 'closebg', 'closebg', 'c08', 'readers']

def one_c09(args):
    exe, base, idx, sc_seed, sched_seed, tier, want_abs, model = args
    rng = vlib.Rng(sc_seed)
    prof = rng.choice(C09_PROFILES)
    sc = k8lib.gen_scenario(rng, prof) if tier != 'quick' else k8lib.gen_scenario(rng, prof, nops=rng.range(8, 18))
    if prof == 'closebg':
        # end every thread with big writes so that a flush / compaction is scheduled or running when close starts
        for t, ops in enumerate(sc.threads):
            for j in range(3): ops.append('put %s z%d_%d %d' % (sc.keys[0], t, j, 30000 + 1000 * j))
    sched = k8lib.gen_schedule(vlib.Rng(sched_seed), abs_trace=want_abs)
    sched['reopen'] = 0 if rng.chance(1, 2) else 1
    # every fourth stall / writers run also has one table fsync fail (background error while writers are queued or
    # stalled): every call must still return (with an error), nobody may sleep forever
    faults = prof in ('stall', 'writers', 'closebg', 'manual', 'backup') and idx % 4 == 1
    # every tenth run starts on a database that already holds dozens of level-0 tables (above the stop-writes trigger) and
    # is opened with reuse_logs=1, so that the open itself writes nothing: the pending compaction must still get scheduled
    preload = (idx % 10 == 7)
    if preload:
        sched['preload_mb'] = rng.choice([3, 5]); sched['reuse_logs'] = 1; want_abs = False
    # the thread pool's own check-then-wait window (worker going idle vs. pool shutdown at close): half of the runs widen it
    if idx % 2 == 0: sched['poolwait'] = rng.choice([300, 2000, 8000])
    if faults:
        sched['failsync'] = rng.range(1, 3); sched['reopen'] = 0
        if prof != 'stall':
            for t, ops in enumerate(sc.threads):
                for j in range(4): ops.insert(rng.below(len(ops) + 1), 'put %s f%d_%d %d' % (sc.keys[0], t, j, 30000 + 500 * j))
    run = k8lib.run_k8(exe, base, idx, sc, sched)
    problems = k8lib.check_liveness(run, sc, faults=faults)
    if faults: want_abs = False
    absres = None
    if want_abs and model and not problems:
        # waker obligations on the observed trace: popped followers and the new head are signalled, every end of a
        # background call and every bg_error is broadcast, nobody waits for background work that is not scheduled
        absres = validate_abs(model, run.abs)
        if not absres[0]:
            problems.append({'kind': 'abstract-trace-rejected-by-model', 'detail': absres[1][:600]})
    res = {'sc_seed': sc_seed, 'sched': sched, 'profile': prof, 'problems': problems, 'done': run.done, 'wall': run.wall,
           'nops': len(run.ops), 'nthreads': len(sc.threads), 'abs': absres}
    if problems:
        res['scenario'] = sc.to_json(); res['history'] = history_lines(run); res['stuck'] = run.stuck
    if idx < 2:
        res['sample'] = {'profile': prof, 'threads': len(sc.threads), 'ops_thread0': sc.threads[0][:10], 'schedule': sched, 'done': run.done}
    return res

def detector_selftest(exe, base, rep):
    """the watchdog must report seeded liveness bugs: a lost writer wake-up, lost background broadcasts, a leaked mutex"""
    rng = vlib.Rng(0xD37EC7)
    cases = []
    sc = k8lib.gen_scenario(rng, 'writers', nthreads=6, nops=30)
    cases.append(('lost-signal-to-queued-writer', sc, {'seed': 3, 'mode': 1, 'yield': 300, 'dropsig': 1, 'timeout': 2}))
    sc2 = k8lib.gen_scenario(rng, 'stall', nthreads=3, nops=30)
    sc2.threads[0] = ['put k00 y0_%d 40000' % i for i in range(12)] + ['flush']
    cases.append(('lost-background-broadcast', sc2, {'seed': 4, 'mode': 1, 'dropbc': 1, 'timeout': 2}))
    sc3 = k8lib.gen_scenario(rng, 'writers', nthreads=3, nops=10)
    sc3.threads[0] = ['holdmutex']
    cases.append(('leaked-mutex', sc3, {'seed': 5, 'mode': 1, 'timeout': 2}))
    res = {}
    for i, (name, s, sched) in enumerate(cases):
        run = k8lib.run_k8(exe, base, 800000 + i, s, sched, timeout=60)
        res[name] = {'reported_stuck': run.rc == 3 and bool(run.stuck), 'report': run.stuck[:4]}
    rep.cov['detector_selftest'] = res
    bad = [n for n, r in res.items() if not r['reported_stuck']]
    if bad:
        rep.violation({'kind': 'check-internal-error', 'detail': 'watchdog missed seeded liveness bugs: %s' % bad}, suffix='no-failing-input-found')

def run_c09(rep, tier, seed):
    out = vlib.scratch_dir()
    exe = k8lib.build_k8(out, 'pthread')
    model = private_model(out)
    nsc, nsched = (60, 5) if tier == 'quick' else (2000, 10)
    rng = vlib.Rng(seed ^ 0xC09C09)
    jobs = []; idx = 0
    for s in range(nsc):
        sc_seed = rng.next()
        for k in range(nsched):
            want_abs = (k == 0) and (tier == 'quick' or s % 4 == 0)
            jobs.append((exe, out, idx, sc_seed, rng.next(), tier, want_abs, model)); idx += 1
    t0 = time.time()
    with ThreadPoolExecutor(vlib.NCPU) as ex:
        results = list(ex.map(one_c09, jobs))
    wall = time.time() - t0
    tot = {}; kinds = {}; profiles = {}; reported = 0; nops = 0; nabs = 0; nabs_states = 0
    for r in results:
        rep.evaluated(1); _done_counts(tot, r['done']); nops += r['nops']
        if r.get('abs') is not None:
            nabs += 1; nabs_states += r['abs'][2]
        profiles[r['profile']] = profiles.get(r['profile'], 0) + 1
        d = r['done'] or {}
        if int(d.get('wwait', 0)) >= 1 and int(d.get('bgwait', 0)) >= 1:
            rep.nontrivial((r['sc_seed'], r['sched']['seed']))
        if 'sample' in r: rep.sample(r['sample'])
        for p in r['problems']: kinds[p['kind']] = kinds.get(p['kind'], 0) + 1
        if r['problems'] and reported < 3:
            reported += 1
            p = r['problems'][0]
            rep.violation({'kind': 'K8-' + p['kind'], 'problem': p, 'scenario': r['scenario'], 'schedule': r['sched'],
                           'scenario_seed': r['sc_seed'], 'history': r['history'], 'stuck_report': r.get('stuck')}, signature=p['kind'])
        elif r['problems']:
            rep.violations.append(None)
    detector_selftest(exe, out, rep)
    trace_checker_selftest(exe, out, model, rep)
    rep.cov['k8'] = tot
    rep.cov['operations_returned'] = nops
    rep.cov['problem_kinds'] = kinds
    rep.cov['schedules'] = len(results)
    rep.cov['schedules_per_sec'] = round(len(results) / max(wall, 1e-9), 1)
    rep.cov['profiles'] = profiles
    rep.cov['traces_validated_against_impl'] = len(results)
    rep.cov['abstract_traces_checked_by_model'] = nabs
    rep.cov['abstract_states_validated'] = nabs_states
    rep.cov['model_checker_available'] = model is not None
    rep.cov['rule'] = ('real multi-threaded runs (2..8 client threads + background thread) of scenario families: many writers (group commit, sync and non-sync), '
                       'writer stall (64 KiB write buffer, 20-40 KB values: waits on background_work_finished), manual compaction / flush / compact concurrent with writers, '
                       'ldb_backup concurrent with writers, close while a flush or compaction is scheduled or running; schedules perturbed at every mutex/condvar/'
                       'thread-creation/I-O call incl. injected spurious wake-ups; a watchdog turns a run without progress into a STUCK report naming the blocked threads; '
                       'oracle: exit 0, every invoked operation returned OK, close returned; on a sample of runs every change of ownership of db->mutex is also checked by the '
                       'extracted Coq trace checker (waker obligations: popped followers and new head signalled, bg call / bg_error broadcast, no wait without a scheduled call); distinct_nontrivial = schedules in which >= 1 writer waited in the queue '
                       'and >= 1 thread waited for background work; h_* = totals reported by the harness (queue waits, background waits, memtable switches, background calls)')
    rep.assumptions += ['schedules are sampled, not enumerated', 'close is called after the client threads were joined (API contract); background work may still be running',
                        'I/O faults: only a failing table fsync (background error) in a quarter of the stall/writers/closebg runs; see C12 for the rest']
    return results

# ------------------------------------------------------------------ replay
def replay(rep, path, prop):
    r = json.load(open(path))
    if 'scenario' not in r:
        print('replay file has no scenario'); return 1
    out = vlib.scratch_dir(); exe = k8lib.build_k8(out, 'pthread')
    sc = k8lib.Scenario.from_json(r['scenario'])
    bad = 0; n = 40
    def one(i):
        sched = dict(r['schedule']); sched['seed'] = int(sched.get('seed', 1)) + i
        run = k8lib.run_k8(exe, out, i, sc, sched)
        ps = k8lib.check_liveness(run, sc)
        if not ps and prop == 'C08': ps = k8lib.check_c08_run(run, sc, {})
        if not ps and prop == 'C02': ps = k8lib.check_group_sync(run, sc, {}) + k8lib.check_group_model(run, vlib.ensure_model(), {})
        if not ps and prop == 'C20': ps = k8lib.check_backups(run, sc, {})
        return ps
    with ThreadPoolExecutor(vlib.NCPU) as ex:
        for ps in ex.map(one, range(n)):
            if ps:
                bad += 1
                if bad <= 3: print(json.dumps(ps[0])[:800])
    print('replayed %d schedules of the recorded scenario: %d with problems' % (n, bad))
    return 1 if bad else 0
