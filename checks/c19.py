"""C19 -- repair recovers all surviving data. Theorems: coq/theories/Properties_C19.v (Repair.v, EngineRead.v).
Tie: K2 histories with the lose-metadata + ldb_repair + ldb_open operation."""
import vlib, k2check

# corpus: the history of finding F1 (stale point lookup after repair: level-0 files are searched newest
# file number first, but numbers do not follow data age once compactions have rewritten old data)
F1 = ({'write_buffer': 65536}, ['open', 'put 61 @3:1', 'compact * *', 'put 61 @3:2', 'put 6b @3:3', 'compact 7a 7a',
      'put 6b @3:4', 'compact 7a 7a', 'compact 61 61', 'layout', 'repair 0', 'get 6b -', 'get 61 -', 'scan -', 'layout'])

def run(rep, tier, seed):
    pr = vlib.coq_check('C19')
    pr2 = vlib.coq_check('C19b')      # the salvage loop of convert_log_to_table (RepairLog.v)
    pr['theorems'] += pr2['theorems']; pr['ok'] = pr['ok'] and pr2['ok']; pr['closed_count'] = pr.get('closed_count', 0) + pr2.get('closed_count', 0)
    pr['axioms'] = sorted(set(pr['axioms']) | set(pr2['axioms'])); pr['log'] += pr2['log']; pr['file'] += ' + coq/theories/Properties_C19b.v'
    rep.add_proof(pr)
    if not pr['ok']:
        rep.violation({'kind': 'proof-broken', 'log': pr['log'][-3000:], 'forbidden': pr['forbidden']}, suffix='no-failing-input-found')
    nh, nops = (32, 110) if tier == 'quick' else (1200, 300)
    res = k2check.run_k2(rep, 'C19', tier, seed, 'c19', nh, nops, extra_histories=[F1])
    damaged_log_segment(rep, tier, seed)
    salvaged_table_segment(rep, tier, seed)
    rep.cov['repairs'] = sum(r['res'].stats.get('repair', 0) for r in res)
    rep.cov['rule'] = ('histories as for C01 plus: close, lose the metadata (delete MANIFEST+CURRENT / truncate MANIFEST / dangling CURRENT / '
                       'corrupt MANIFEST), ldb_repair, ldb_open, then read every key, scan, and continue with writes and compactions; the model '
                       're-registers every surviving table at level 0 and re-bases the specification on the surviving entries; '
                       'plus: repair of directories whose live log holds one record that does not parse as a batch (every other record must be salvaged); distinct_nontrivial = histories with >= 1 flush and >= 1 non-trivial compaction')

def damaged_log_segment(rep, tier, seed):
    """Repair must salvage every intact record of a live write-ahead log even when one record in its middle does not
    parse as a write batch: write n single-record batches (no flush), close, overwrite the first operation tag of one
    middle record (repair reads logs without checksum verification, so the record is delivered and fails to apply),
    lose the metadata, ldb_repair + ldb_open, and compare the contents with the application of all OTHER batches."""
    import os, shutil, subprocess, k2lib, k3lib, k3lift
    out = vlib.scratch_dir(); k2 = vlib.build_k2(out, 'nothread')
    model = k2lib.Model(vlib.ensure_model())
    rng = vlib.Rng(seed ^ 0xD0C19)
    ncase = 12 if tier == 'quick' else 300
    for c in range(ncase):
        db = os.path.join(out, 'dl%d' % c)
        keys = [b'k%02d' % i for i in range(rng.range(3, 9))]
        n = rng.range(5, 14)
        batches = []
        ops = ['open']
        for i in range(n):
            ups = []
            for _ in range(rng.range(1, 3)):
                k = rng.choice(keys)
                ups.append((k, None) if rng.chance(1, 6) else (k, '@%d:%d' % (rng.range(1, 60), rng.below(256))))
            ups.append((b'm%03d' % i, '@%d:%d' % (rng.range(1, 20), i)))
            ops.append('batch %s 0' % ','.join(('p%s:%s' % (k.hex(), v)) if v is not None else ('d%s' % k.hex()) for k, v in ups))
            batches.append(ups)
        opts = {'write_buffer': 4194304, 'reuse_logs': 0}
        rc, txt, err = k2lib.run_c(k2, db, opts, ops + ['close'])
        logs = sorted(f for f in os.listdir(db) if f.endswith('.log'))
        if rc != 0 or not logs:
            rep.violation({'kind': 'harness-crash', 'detail': err[-500:]}); continue
        path = os.path.join(db, logs[-1]); data = bytearray(open(path, 'rb').read())
        # walk the physical records (all FULL: the log is far below one 32 KiB block)
        offs = []; pos = 0
        while pos + 7 <= len(data):
            ln = data[pos + 4] | (data[pos + 5] << 8); ty = data[pos + 6]
            if ty != 1 or pos + 7 + ln > len(data): break
            offs.append(pos + 7); pos += 7 + ln
        if len(offs) != n:
            continue
        j = rng.range(1, n - 2) if n >= 3 else 0
        how = rng.choice(['tag', 'tag', 'count', 'highseq'])
        if how == 'tag': data[offs[j] + 12] = 0x07                      # no such operation
        elif how == 'count': data[offs[j] + 8] = (data[offs[j] + 8] + 1) & 255           # count does not match the operations
        else:
            # nothing damaged, but the sequence numbers are above 2^32 (a long-lived database): byte 4 of the 64-bit
            # little-endian sequence of EVERY record is raised (repair reads logs without checksum verification)
            for o in offs: data[o + 4] = (data[o + 4] + 1 + (c % 3)) & 255
            j = -1
        open(path, 'wb').write(bytes(data))
        rc, txt, err = k2lib.run_c(k2, db, opts, ['repair 0', 'scan -'] + ['get %s -' % k.hex() for k in keys], keep=True)
        calls = k2lib.parse_trace(txt)
        rep.evaluated(1); rep.nontrivial(('damaged-log', n, j, how))
        shutil.rmtree(db, ignore_errors=True); shutil.rmtree(db + '.lost', ignore_errors=True)
        if rc != 0 or len(calls) < 2 or calls[0]['ret'] is None or calls[0]['ret'].split(' ')[0] != '0':
            rep.violation({'kind': 'repair-failed-on-damaged-log', 'detail': (calls[0]['ret'] if calls else err[-300:]), 'history': ops, 'damaged_record': j, 'how': how}); continue
        content, st = k3lib.scan_to_map(calls[1]['ret'])
        # intact batches must all be there; of the damaged one, any prefix of its operations may have been applied ('count' damage
        # applies all of them and then reports the mismatch), so its keys are compared against both possibilities
        def apply(skip_from):
            m = {}
            for i, ups in enumerate(batches):
                for t, (k, v) in enumerate(ups):
                    if i == j and t >= skip_from: continue
                    if v is None: m.pop(k, None)
                    else: m[k] = v
            return m
        allowed = [apply(t) for t in range(len(batches[j]) + 1)]
        # the exact expectation: the salvage loop of RepairLog.v (theorems Properties_C19b.v) on the records as damaged
        recs = []
        for ri, o in enumerate(offs):
            ln = data[o - 3] | (data[o - 2] << 8)
            recs.append(bytes(data[o:o + ln]).hex() or '-')
        mo = model.ask('salvage_case ' + ','.join(recs))
        mbody = mo.split(' ok=')[0]
        want_m = {}
        if mbody not in ('.', ''):
            for t in mbody.split(','):
                k_, v_ = t.split('=')
                want_m[bytes.fromhex(k_) if k_ != '-' else b''] = bytes.fromhex(v_) if v_ != '-' else b''
        got_m = {k_: k3lift.pattern(v_) for k_, v_ in content.items()}
        rep.count('salvage_model_cases')
        if st == '0' and got_m != want_m and content in allowed:
            rep.violation({'kind': 'repair-salvage-differs-from-model', 'history': ops, 'options': opts, 'damaged_record': j, 'damage': how,
                           'model': mo[:2000], 'implementation': {k.hex(): v for k, v in sorted(content.items())},
                           'correspondence_that_no_longer_checks': 'RepairLog.v (salvage loop of convert_log_to_table): theorems Properties_C19b.*'},
                          suffix='no-failing-input-found')
        if st != '0' or content not in allowed:
            want = allowed[0]
            diff = sorted(k.hex() for k in set(want) | set(content) if want.get(k) != content.get(k))[:8]
            rep.violation({'kind': 'repair-lost-intact-log-records', 'history': ops, 'options': opts, 'damaged_record': j, 'damage': how,
                           'detail': 'after repair the contents are not the application of the intact batches (keys %s differ from dropping batch %d entirely)' % (diff, j),
                           'implementation': {k.hex(): v for k, v in sorted(content.items())}})
    model.close()
    rep.cov['damaged_log_repairs'] = ncase

def salvaged_table_segment(rep, tier, seed):
    """Repair of a directory in which an OLDER table has a damaged data block (detected by its checksum under
    paranoid_checks, the table is rewritten from its readable blocks) and a NEWER table overwrites / deletes some of its
    keys: after ldb_repair + ldb_open the newer versions must win for point lookups and scans."""
    import os, shutil, k2lib, k3lib
    out = vlib.scratch_dir(); k2 = vlib.build_k2(out, 'nothread')
    rng = vlib.Rng(seed ^ 0x5A1F)
    ncase = 8 if tier == 'quick' else 200
    done = 0
    for c in range(ncase):
        db = os.path.join(out, 'st%d' % c)
        nfill = rng.range(120, 260)
        hx = lambda b: b.hex()
        ops = ['open', 'put %s @9:1' % hx(b'm'), 'put %s @9:2' % hx(b'q')]
        ops += ['put %s @%d:%d' % (hx(b'n%04d' % i), rng.range(20, 120), i % 256) for i in range(nfill)]
        ops += ['flush', 'put %s @9:3' % hx(b'm'), 'del %s' % hx(b'q'), 'put %s @9:4' % hx(b'p'), 'flush', 'layout', 'close']
        opts = {'write_buffer': 4194304, 'block_size': 1024, 'paranoid': 1, 'compression': c % 2, 'bloom': 10 if c % 3 == 0 else 0}
        rc, txt, err = k2lib.run_c(k2, db, opts, ops)
        tabs = sorted(f for f in os.listdir(db) if f.endswith('.ldb')) if os.path.isdir(db) else []
        if rc != 0 or len(tabs) < 2:
            shutil.rmtree(db, ignore_errors=True); continue
        path = os.path.join(db, tabs[0]); data = bytearray(open(path, 'rb').read())
        pos = rng.range(len(data) // 6, len(data) // 2)          # inside the data blocks of the OLDER table
        data[pos] ^= 1 << rng.below(8)
        open(path, 'wb').write(bytes(data))
        rc, txt, err = k2lib.run_c(k2, db, opts, ['repair 0', 'get %s -' % hx(b'm'), 'get %s -' % hx(b'q'), 'get %s -' % hx(b'p'), 'scan -', 'layout'], keep=True)
        calls = k2lib.parse_trace(txt)
        shutil.rmtree(db, ignore_errors=True); shutil.rmtree(db + '.lost', ignore_errors=True)
        rep.evaluated(1); done += 1; rep.nontrivial(('salvaged-table', nfill, pos % 7))
        if rc != 0 or len(calls) < 5 or calls[0]['ret'] is None or calls[0]['ret'].split(' ')[0] != '0':
            rep.violation({'kind': 'repair-failed-on-damaged-table', 'detail': (calls[0]['ret'] if calls else err[-300:]), 'history': ops, 'options': opts, 'flipped_byte': pos}); continue
        content, st = k3lib.scan_to_map(calls[4]['ret'])
        bad = []
        if calls[1]['ret'] != 'found @9:3': bad.append('get m returned %s, the newest surviving value is @9:3' % calls[1]['ret'])
        if not calls[2]['ret'].startswith('notfound'): bad.append('get q returned %s, the newest surviving entry is a deletion' % calls[2]['ret'])
        if calls[3]['ret'] != 'found @9:4': bad.append('get p returned %s' % calls[3]['ret'])
        if st != '0' or content.get(b'm') != '@9:3' or b'q' in content or content.get(b'p') != '@9:4':
            bad.append('scan shows m=%s q=%s p=%s status=%s' % (content.get(b'm'), content.get(b'q'), content.get(b'p'), st))
        if bad:
            rep.violation({'kind': 'repair-salvaged-table-shadows-newer-data', 'detail': '; '.join(bad), 'history': ops, 'options': opts,
                           'damaged_table': tabs[0], 'flipped_byte': pos})
    rep.cov['salvaged_table_repairs'] = done

def replay(rep, path):
    return k2check.replay_k2(rep, path)
