"""C19 -- repair recovers all surviving data. Theorems: coq/theories/Properties_C19.v (Repair.v, EngineRead.v).
Tie: K2 histories with the lose-metadata + ldb_repair + ldb_open operation."""
import vlib, k2check

# corpus: the history of finding F1 (stale point lookup after repair: level-0 files are searched newest
# file number first, but numbers do not follow data age once compactions have rewritten old data)
F1 = ({'write_buffer': 65536}, ['open', 'put 61 @3:1', 'compact * *', 'put 61 @3:2', 'put 6b @3:3', 'compact 7a 7a',
      'put 6b @3:4', 'compact 7a 7a', 'compact 61 61', 'layout', 'repair 0', 'get 6b -', 'get 61 -', 'scan -', 'layout'])

def run(rep, tier, seed):
    pr = vlib.coq_check('C19'); rep.add_proof(pr)
    if not pr['ok']:
        rep.violation({'kind': 'proof-broken', 'log': pr['log'][-3000:], 'forbidden': pr['forbidden']}, suffix='no-failing-input-found')
    nh, nops = (32, 110) if tier == 'quick' else (1200, 300)
    res = k2check.run_k2(rep, 'C19', tier, seed, 'c19', nh, nops, extra_histories=[F1])
    rep.cov['repairs'] = sum(r['res'].stats.get('repair', 0) for r in res)
    rep.cov['rule'] = ('histories as for C01 plus: close, lose the metadata (delete MANIFEST+CURRENT / truncate MANIFEST / dangling CURRENT / '
                       'corrupt MANIFEST), ldb_repair, ldb_open, then read every key, scan, and continue with writes and compactions; the model '
                       're-registers every surviving table at level 0 and re-bases the specification on the surviving entries; '
                       'distinct_nontrivial = histories with >= 1 flush and >= 1 non-trivial compaction')

def replay(rep, path):
    return k2check.replay_k2(rep, path)
