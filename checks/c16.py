"""C16 -- table files round-trip under every option and follow the standard format.
Theorems: coq/theories/Properties_C16.v (over Block.v / Filter.v / Snappy.v / TableFormat.v).
Tie: K1 byte-exact differential of lcdb's block builder/reader, bloom filter, filter
block, Snappy codec, table builder and table reader (iterator, internal_get) against the
extracted Coq model -- in both directions: tables built by lcdb are decoded by the model
(the independently written reader; a second independent reader is checks/tablegen.py) and
bytes built by the model are decoded by lcdb (the builders are compared byte for byte, so
the bytes are the same) -- plus property oracles evaluated on the implementation's own
outputs, plus a malformed stream (random bytes and structure-aware mutations) for every
decoder, also run under AddressSanitizer/UBSan (this part also serves C18)."""
import os, sys, json, time
import vlib
from k1util import *
import tablegen as G

def model_cmd():
    # the extracted list functions recurse deeply on long byte strings: raise the stack limit
    return ['/bin/sh', '-c', 'ulimit -s unlimited 2>/dev/null || ulimit -s 4000000 2>/dev/null; exec "$0"', vlib.MODELDRV]

def model_cost(line):
    # rough relative cost of a case for the extracted model (used for load balancing only)
    c = line.split(' ', 1)[0]
    w = {'table_scan': 6, 'table_get': 4, 'table_iter': 3, 'table_entries': 2, 'table_build': 3}.get(c, 1)
    return w * len(line)

def run(rep, tier, seed, proof_id='C16'):
    t_start = time.time()
    rng = vlib.Rng(seed)
    quick = tier == 'quick'
    pr = vlib.coq_check(proof_id)
    rep.add_proof(pr)
    if not pr['ok']:
        rep.violation({'kind': 'proof-broken', 'theorems': pr['theorems'], 'log': pr['log'][-3000:],
                       'forbidden': pr['forbidden'], 'own_axioms': pr['own_axioms']}, suffix='no-failing-input-found')
    out = vlib.scratch_dir()
    tmp = os.path.join(out, 'tmp'); os.makedirs(tmp, exist_ok=True)
    env = {'K1_TMPDIR': tmp}
    k1 = vlib.build_k1(out, 'nothread')
    vlib.ensure_model()
    model = model_cmd()
    hist = {}
    nviol = [0]
    timing = {'coq+build': round(time.time() - t_start, 1)}

    ncase = [0]
    def case_ref(line):
        """replay reference of a case: the line itself, or a side file for long lines"""
        if len(line) <= 18000:
            return {'case': line}
        d = os.path.join(vlib.VERIF, 'replays', 'C16'); os.makedirs(d, exist_ok=True)
        path = os.path.join(d, 'case-%d-%d.txt' % (seed, ncase[0])); ncase[0] += 1
        open(path, 'w').write(line + '\n')
        return {'case': line[:2000] + '...(%d chars, full line in case_file)' % len(line), 'case_file': path}

    def both(lines, what, cshards=8):
        t0 = time.time()
        c = run_balanced(vlib, k1, lines, env=env, shards=cshards)
        # a crashed shard marks every later line of the shard: re-run those alone
        for i in [i for i, o in enumerate(c) if o.startswith('CRASH')][:300]:
            c[i] = vlib.run_lines(k1, [lines[i]], env=env)[0]
        t1 = time.time()
        m = run_balanced(vlib, model, lines, shards=vlib.NCPU, cost=model_cost)
        old = timing.get(what, [0, 0])
        timing[what] = [round(old[0] + t1 - t0, 1), round(old[1] + time.time() - t1, 1)]
        rep.evaluated(len(lines)); hist[what] = hist.get(what, 0) + len(lines)
        nbad = 0
        for line, co, mo in zip(lines, c, m):
            if co != mo:
                nbad += 1
                if nbad <= 3:
                    v = {'kind': 'K1-differential', 'what': what, 'implementation': co[:20000], 'model': mo[:20000]}
                    v.update(case_ref(line))
                    rep.violation(v)
        return c, m

    def oracle(ok, kind, line, got, expected=None):
        if ok: return
        nviol[0] += 1
        if nviol[0] <= 5:
            v = {'kind': 'oracle-' + kind, 'implementation': got[:20000],
                 'expected': (None if expected is None else str(expected)[:20000])}
            v.update(case_ref(line))
            rep.violation(v)

    def bad(o):
        return o.startswith('CRASH') or o.startswith('EXC') or o == 'OOB'

    # ================================================================ stage 1: small codecs
    lines = []; meta = []
    # ---- hash
    for ln in list(range(0, 12)) + [rng.below(300) for _ in range(30 if quick else 600)]:
        lines.append('hash %x %s' % (rng.choice([0, 1, 0xbc9f1d34, 0xffffffff, rng.below(1 << 32)]),
                                     hx(rng.bytes(ln) if rng.chance(3, 4) else bytes([rng.choice([0x80, 0xff, 0x7f])]) * ln)))
        meta.append(('hash',))
    # ---- bloom build / filter block build
    bloom_sets = []
    for _ in range(60 if quick else 1200):
        bits = rng.choice([0, 1, 2, 7, 10, 15, 43, 44, 50, 100, rng.below(64)])
        nk = rng.choice([0, 1, 2, rng.below(20), rng.below(200)])
        keys = sorted(G.gen_user_keys(rng, nk, rng.choice(G.KEY_STYLES)))
        if rng.chance(1, 8): keys = keys + keys[:3]        # duplicates are allowed
        lines.append('bloom_build %x %s' % (bits, ','.join(hx(k) for k in keys) if keys else '.'))
        meta.append(('bloom_build', keys))
    fb_cases = []
    for _ in range(50 if quick else 1000):
        cmp = rng.below(2); bits = rng.choice([1, 10, 50, 7])
        ngroups = rng.choice([0, 1, 2, rng.below(8)])
        off = 0; groups = []
        for _g in range(ngroups):
            ks = sorted(G.gen_user_keys(rng, rng.choice([0, 1, 3, rng.below(30)]), rng.choice(G.KEY_STYLES)))
            if cmp: ks = [G.ikey(k, rng.below(100), 1) for k in ks]
            groups.append((off, ks))
            off += rng.choice([rng.below(300), rng.below(5000), 2048, 2047, 4096, rng.below(20000)])
        lines.append('filter_build %x %x %s' % (cmp, bits, '/'.join('%x;%s' % (o, ','.join(hx(k) for k in ks) if ks else '.') for (o, ks) in groups) if groups else '.'))
        meta.append(('filter_build', cmp, groups))
    # ---- block builder
    blk_cases = []
    for _ in range(80 if quick else 2000):
        cmp = rng.below(2)
        es = G.gen_entries(rng, tier, cmp, n=rng.choice([0, 1, 2, 3, rng.below(20), rng.below(120)]), maxval=rng.choice([10, 200, 3000]))
        interval = rng.choice(G.INTERVALS + [rng.range(1, 40)])
        lines.append('block_build %x %s' % (interval, G.entries_arg(es)))
        meta.append(('block_build', cmp, es, interval))
    # ---- snappy encoder on arbitrary buffers
    for _ in range(60 if quick else 1500):
        c = rng.below(8)
        if c == 0: b = rng.bytes(rng.below(40))
        elif c == 1: b = rng.bytes(rng.below(2000))
        elif c == 2:
            ph = rng.bytes(rng.range(1, 12)); b = ph * rng.below(400)
        elif c == 3: b = bytes(rng.below(3000))
        elif c == 4:
            words = [rng.bytes(rng.range(2, 9)) for _ in range(rng.range(2, 20))]
            b = b''.join(rng.choice(words) for _ in range(rng.below(800)))
        elif c == 5:
            n = rng.choice([15, 16, 17, 18, 255, 256, 257, 2047, 2048, 2049, 65535, 65536, 65537, 65536 + 17, 65536 + 16, 131072])
            b = pattern_bytes(n, rng.below(256)) if rng.chance(1, 2) else (b'abcdefgh' * (n // 8 + 1))[:n]
        elif c == 6:
            # long matches, far offsets, and 4-byte matches followed by non-zero bytes
            blk = rng.bytes(rng.range(4, 70)); gap = rng.bytes(rng.below(3000)); b = blk + gap + blk + rng.bytes(5) + blk[:rng.range(4, len(blk))] + rng.bytes(20)
        else:
            b = (rng.bytes(4) + bytes(3) + rng.bytes(30)) * rng.range(1, 30)
        if not quick and rng.chance(1, 50): b = b * 40
        lines.append('snappy_encode %s' % hx(b)); meta.append(('snappy_encode', b))
    # literal-length boundaries of the emitter (tag forms 60/61/62: 1, 2, 3 length bytes): one literal of
    # every length around 60, 256 and 65536, alone and between two compressible runs
    lit_lens = list(range(56, 66)) + list(range(250, 264)) + ([65534, 65535, 65536, 65537, 65538] if not quick else [65536, 65537])
    for L in lit_lens:
        r = rng.bytes(L)
        for b in ([r, b'a' * 40 + r + b'a' * 40] if L < 60000 else [r]):
            lines.append('snappy_encode %s' % hx(b)); meta.append(('snappy_encode', b))
    c1, m1 = both(lines, 'stage1-codecs')

    # oracles + derived cases
    lines2 = []; meta2 = []
    for line, mt, o in zip(lines, meta, c1):
        if bad(o): continue
        if mt[0] == 'bloom_build':
            f = unhx(o); keys = mt[1]
            rep.nontrivial(('bloom', len(f), len(keys)))
            for k in keys[:40]:
                lines2.append('bloom_match %s %s' % (hx(f), hx(k))); meta2.append(('bloom_member', f, k))
            for _ in range(3):
                k = rng.bytes(rng.below(10))
                lines2.append('bloom_match %s %s' % (hx(f), hx(k))); meta2.append(('bloom_any', f, k))
        elif mt[0] == 'filter_build':
            f = unhx(o); cmp, groups = mt[1], mt[2]
            for (off, ks) in groups:
                for k in ks[:10]:
                    lines2.append('filter_match %x %s %x %s' % (cmp, hx(f), off, hx(k))); meta2.append(('filter_member', f, k))
            for _ in range(3):
                k = rng.bytes(rng.below(10)); k = G.ikey(k, 1, 1) if cmp else k
                lines2.append('filter_match %x %s %x %s' % (cmp, hx(f), rng.below(30000), hx(k))); meta2.append(('filter_any', f, k))
        elif mt[0] == 'block_build':
            cmp, es, interval = mt[1], mt[2], mt[3]
            est, bhex = o.split(' ')
            b = unhx(bhex)
            # Python's independent reader sees exactly the entries
            p = G.parse_block(b)
            oracle(p is not None and [(k, v) for (k, v, _, _) in p['entries']] == [(e[0], e[1]) for e in es],
                   'block-python-reader', line, o)
            oracle(int(est, 16) == len(b), 'block-size-estimate', line, o, len(b))
            rep.nontrivial(('block', len(b), len(es), interval))
            keys = [e[0] for e in es]
            for _ in range(2):
                ops = G.gen_script(rng, keys, cmp, rng.choice([5, 20, 60]))
                lines2.append('block_iter %x %s %s' % (cmp, bhex, G.script_arg(ops))); meta2.append(('block_iter', cmp, es, ops))
            # full walk in both directions
            ops = [('F',)] + [('N',)] * (len(es) + 1) + [('L',)] + [('P',)] * (len(es) + 1)
            lines2.append('block_iter %x %s %s' % (cmp, bhex, G.script_arg(ops))); meta2.append(('block_iter', cmp, es, ops))
            blk_cases.append((cmp, es, b))
        elif mt[0] == 'snappy_encode':
            z = unhx(o)
            oracle(G.snappy_uncompress(z) == mt[1], 'snappy-python-reader', line, o)
            rep.nontrivial(('snappy', len(mt[1]), len(z)))
            lines2.append('snappy_decode %s' % o); meta2.append(('snappy_rt', mt[1]))
    c2, m2 = both(lines2, 'stage1-derived')
    for line, mt, o in zip(lines2, meta2, c2):
        if bad(o): continue
        if mt[0] in ('bloom_member', 'filter_member'):
            oracle(o == '1', 'filter-false-negative', line, o, '1')
        elif mt[0] == 'snappy_rt':
            oracle(o == 'ok ' + hx(mt[1]), 'snappy-roundtrip', line, o)
        elif mt[0] == 'block_iter':
            cmp, es, ops = mt[1], mt[2], mt[3]
            steps, st = o.rsplit(' ', 1)
            short = cmp == 1 and any(op[0] == 'S' and len(op[1]) < 8 for op in ops)
            if not short:
                want = [None if i is None else (es[i][0], es[i][1]) for i in G.ref_cursor(es, cmp, ops)]
                oracle(G.parse_steps(steps) == want and st == 'ok', 'block-cursor', line, o)

    # ================================================================ stage 2: tables
    configs = []
    combos = [(bs, ri, comp, bits, cmp) for bs in G.BLOCK_SIZES for ri in G.INTERVALS for comp in (0, 1)
              for bits in G.FILTER_BITS for cmp in (0, 1)]
    ncfg = 80 if quick else len(combos) + 60
    budget = (5 << 20) if quick else (30 << 20)     # bytes of entries over all tables
    used = 0
    for i in range(ncfg):
        bs, ri, comp, bits, cmp = combos[rng.below(len(combos))] if quick or i >= len(combos) else combos[i]
        if used > budget: n = rng.below(30)
        else: n = None
        if quick and i < 4: n = [0, 1, 2000, 1200][i]
        es = G.gen_entries(rng, tier, cmp, n=n)
        sz = sum(len(e[0]) + len(e[1]) for e in es)
        cap = {64: 30 << 10, 256: 60 << 10, 1024: 150 << 10, 4096: 300 << 10, 65536: 700 << 10}[bs] * (1 if quick else 2)
        if sz > cap and (quick or i < len(combos)):
            # the list-based model re-walks the file for every block: keep blocks x file size modest
            acc = 0; keep = []
            for e in es:
                if acc + len(e[0]) + len(e[1]) > cap and keep: continue
                keep.append(e); acc += len(e[0]) + len(e[1])
            es = keep; sz = acc
        used += sz
        configs.append((bs, ri, comp, bits, cmp, es))
    tables = []
    all_configs = configs
    nbuild = [0]; nread = [0]
    CH = 64
    for ci in range(0, len(all_configs), CH):
        configs = all_configs[ci:ci + CH]
        blines = ['table_build %s %s' % (G.opts_str(bs, ri, comp, bits, cmp), G.entries_arg(es)) for (bs, ri, comp, bits, cmp, es) in configs]
        cb, mb = both(blines, 'table-build-bytes'); nbuild[0] += len(blines)
        tl = []; tm = []
        for cfg, line, o, om in zip(configs, blines, cb, mb):
            bs, ri, comp, bits, cmp, es = cfg
            if bad(o) or o != om: continue
            f = unhx(o)
            pes = [(e[0], e[1]) for e in es]
            rep.nontrivial(('table', bs, ri, comp, bits, cmp, len(es), len(f)))
            # second independent reader
            t = G.parse_table(f)
            oracle(t is not None and G.table_entries(t) == pes, 'table-python-reader', line, o[:2000])
            if t is not None:
                hist['data-blocks'] = hist.get('data-blocks', 0) + len(t['blocks'])
                hist['compressed-blocks'] = hist.get('compressed-blocks', 0) + sum(1 for (_, ty, _) in t['blocks'] if ty == 1)
                oracle((t['filter'] is not None) == (bits > 0), 'table-filter-presence', line, o[:2000])
            if len(f) <= (40 << 10) and len(tables) < 400: tables.append((cfg, f, t))
            keys = [e[0] for e in es]
            def ropts():
                return G.opts_str(bs, ri, comp, bits, cmp, rng.below(2), rng.below(2), rng.below(2), rng.below(2))
            fh = o
            tl.append('table_scan %s %s' % (ropts(), fh)); tm.append(('scan', cfg))
            tl.append('table_entries %s %s' % (ropts(), fh)); tm.append(('entries', cfg))
            # lookups: every present key (sampled for big tables) + absent ones
            npres = 64 if quick else 160
            present = keys if len(keys) <= npres else [rng.choice(keys) for _ in range(npres)]
            targets = present + G.gen_targets(rng, keys, cmp, 40)
            for j in range(0, len(targets), 64):
                ch = targets[j:j + 64]
                tl.append('table_get %s %s %s' % (ropts(), fh, ','.join(hx(k) for k in ch))); tm.append(('get', cfg, ch))
            for _ in range(2):
                ops = G.gen_script(rng, keys, cmp, rng.choice([10, 40, 120]))
                tl.append('table_iter %s %s %s' % (ropts(), fh, G.script_arg(ops))); tm.append(('iter', cfg, ops))
            # seeks between blocks: just after the last key / before the first key of each block
            if t is not None and t['blocks']:
                ops = []
                for (_, _, bp) in t['blocks'][:30]:
                    if bp['entries']:
                        ops.append(('S', G.near_keys(rng, bp['entries'][-1][0], cmp))); ops.append(('N',)); ops.append(('P',)); ops.append(('P',))
                        ops.append(('S', bp['entries'][0][0])); ops.append(('P',)); ops.append(('N',))
                tl.append('table_iter %s %s %s' % (ropts(), fh, G.script_arg(ops))); tm.append(('iter', cfg, ops))
        ct, mt_ = both(tl, 'table-read', cshards=8); nread[0] += len(tl)
        if os.environ.get('C16_DUMP'): open(os.environ['C16_DUMP'], 'w').write('\n'.join(tl) + '\n')
        for line, mt, o in zip(tl, tm, ct):
            if bad(o): continue
            cfg = mt[1]; bs, ri, comp, bits, cmp, es = cfg
            pes = [(e[0], e[1]) for e in es]
            sk = G.sortkey(cmp)
            short_line = line
            if mt[0] == 'scan':
                parts = o.split(' ')
                ok = len(parts) == 4 and parts[1] == 'ok' and parts[3] == 'ok' and \
                    G.parse_entries_out(parts[0]) == pes and G.parse_entries_out(parts[2]) == pes[::-1]
                oracle(ok, 'scan-roundtrip', short_line, o[:2000])
            elif mt[0] == 'entries':
                parts = o.split(' ')
                oracle(len(parts) == 2 and parts[1] == 'ok' and G.parse_entries_out(parts[0]) == pes, 'entries-roundtrip', short_line, o[:2000])
            elif mt[0] == 'get':
                res = o.split(',') if o != '.' else []
                import bisect
                skeys = [sk(k) for (k, _) in pes]
                for k, r in zip(mt[2], res):
                    if cmp == 1 and len(k) < 8: continue
                    ent, st = r.split('/')
                    i = bisect.bisect_left(skeys, sk(k))
                    succ = pes[i] if i < len(pes) else None
                    got = None if ent == '!' else tuple(unhx(x) for x in ent.split('='))
                    if succ is not None and succ[0] == k:
                        ok = st == 'ok' and got == succ                   # present: found, with its value
                    else:
                        ok = st == 'ok' and (got is None or got == succ)  # absent: nothing, or the successor entry (never any other)
                    hist['get-present' if (succ and succ[0] == k) else 'get-absent'] = hist.get('get-present' if (succ and succ[0] == k) else 'get-absent', 0) + 1
                    oracle(ok, 'get', short_line + ' key=' + hx(k), r, succ and (hx(succ[0]), hx(succ[1])[:100]))
            elif mt[0] == 'iter':
                ops = mt[2]
                steps, st = o.rsplit(' ', 1)
                if not (cmp == 1 and any(op[0] == 'S' and len(op[1]) < 8 for op in ops)):
                    want = [None if i is None else pes[i] for i in G.ref_cursor(pes, cmp, ops)]
                    oracle(G.parse_steps(steps) == want and st == 'ok', 'table-cursor', short_line, o[:2000])

    # ================================================================ stage 3: malformed stream (C18)
    ml = []
    nm = 2 if quick else 6
    # blocks
    for _ in range(250 * nm):
        b = G.rand_garbage(rng)
        ml.append('block_iter %x %s %s' % (rng.below(2), hx(b), G.script_arg(G.gen_script(rng, [b[:rng.below(9) + 1]], 0, rng.choice([4, 12])))))
    for (cmp, es, b) in blk_cases:
        keys = [e[0] for e in es]
        for _ in range(3 * nm):
            mb_ = G.mutate_block(rng, b)
            ml.append('block_iter %x %s %s' % (cmp if rng.chance(3, 4) else 1 - cmp, hx(mb_), G.script_arg(G.gen_script(rng, keys, cmp, rng.choice([6, 25])))))
    # filters
    for line, mt, o in zip(lines, meta, c1):
        if bad(o): continue
        if mt[0] == 'filter_build':
            f = unhx(o)
            for _ in range(4 * nm):
                mf = G.mutate_filter_block(rng, f)
                k = rng.bytes(rng.below(10)); k = G.ikey(k, 1, 1) if mt[1] else k
                ml.append('filter_match %x %s %x %s' % (mt[1], hx(mf), rng.choice([0, 2047, 2048, rng.below(40000), 1 << 32, (1 << 64) - 1, rng.next()]), hx(k)))
        elif mt[0] == 'bloom_build':
            f = bytearray(unhx(o))
            if f:
                f[-1] = rng.choice([0, 1, 30, 31, 0xff, f[-1]])
                ml.append('bloom_match %s %s' % (hx(bytes(f[rng.below(len(f)):] if rng.chance(1, 4) else f)), hx(rng.bytes(rng.below(8)))))
    for _ in range(150 * nm):
        g = G.rand_garbage(rng, 60)
        ml.append('filter_match %x %s %x %s' % (0, hx(g), rng.choice([0, 1, 2048, rng.below(1 << 20), rng.next()]), hx(rng.bytes(rng.below(6)))))
        ml.append('bloom_match %s %s' % (hx(G.rand_garbage(rng, 30)), hx(rng.bytes(rng.below(6)))))
    # snappy
    for line, mt, o in zip(lines, meta, c1):
        if bad(o) or mt[0] != 'snappy_encode': continue
        z = unhx(o)
        for _ in range(4 * nm):
            ml.append('snappy_decode %s' % hx(G.mutate_snappy(rng, z)))
    for _ in range(250 * nm):
        g = rng.bytes(rng.below(40)) if rng.chance(1, 2) else G.enc_varint(rng.below(300)) + bytes([rng.choice([0, 1, 2, 3, 0xf0, 0xf4, 0xfc, rng.below(256)]) for _ in range(rng.below(30))])
        ml.append('snappy_decode %s' % hx(g))
    # tables
    small_tables = [x for x in tables if len(x[1]) <= (40 << 10)]
    for (cfg, f, t) in small_tables:
        bs, ri, comp, bits, cmp, es = cfg
        keys = [e[0] for e in es]
        for _ in range((6 if len(f) < 8000 else 3) * nm):
            g = G.mutate_table(rng, f, t)
            if len(g) > (64 << 10): continue
            # cache = 0 in the differential: lcdb keys the block cache by (cache_id, offset) only, so on a
            # forged index block with two handles of equal offset and different sizes a cached read serves the
            # earlier block; the model has no cache.  The cached variants go to the sanitizer-only stream.
            o_ = G.opts_str(bs, ri, comp, bits if rng.chance(5, 6) else (0 if bits else 10), cmp if rng.chance(7, 8) else 1 - cmp,
                            rng.below(2), rng.below(2), 0, rng.below(2))
            c = rng.below(4)
            if c == 0: ml.append('table_scan %s %s' % (o_, hx(g)))
            elif c == 1: ml.append('table_get %s %s %s' % (o_, hx(g), ','.join(hx(k) for k in G.gen_targets(rng, keys, cmp, 8))))
            else: ml.append('table_iter %s %s %s' % (o_, hx(g), G.script_arg(G.gen_script(rng, keys, cmp, rng.choice([8, 30])))))
    for _ in range(120 * nm):
        g = G.rand_garbage(rng, 120)
        if rng.chance(1, 2):   # well-formed footer over garbage
            body = G.rand_garbage(rng, 200)
            vals = [0, 1, len(body), max(len(body) - 5, 0), rng.below(len(body) + 1), rng.choice(G.BOUND64)]
            hs = b''.join(G.enc_varint(rng.choice(vals)) for _ in range(4))
            g = body + hs.ljust(40, b'\x00')[:40] + G.MAGIC.to_bytes(8, 'little')
        o_ = G.opts_str(64, 1, 0, rng.choice([0, 10]), rng.below(2), rng.below(2), rng.below(2), 0, rng.below(2))
        ml.append(rng.choice(['table_scan %s %s' % (o_, hx(g)),
                              'table_get %s %s %s' % (o_, hx(g), hx(rng.bytes(rng.range(8, 12)))),
                              'table_iter %s %s F,N,L,P,S%s,N' % (o_, hx(g), hx(rng.bytes(rng.range(8, 12))))]))
    if len(ml) > 40000:
        # keep the thorough tier inside its time budget: seeded subsample, all command kinds kept
        seen = set(); keep = []
        while len(keep) < 40000:
            i = rng.below(len(ml))
            if i not in seen:
                seen.add(i); keep.append(i)
        keep.sort()
        ml = [ml[i] for i in keep]
    cm, mm = both(ml, 'malformed-differential')
    # the same table cases with the block cache enabled: implementation only (plain and sanitizer builds)
    def with_cache(line):
        t = line.split(' ')
        if not t[0].startswith('table_'): return None
        o = t[1].split(','); o[7] = '1'; t[1] = ','.join(o)
        return ' '.join(t)
    ml_cache = [x for x in (with_cache(l) for l in ml) if x]
    cm_cache = run_balanced(vlib, k1, ml_cache, env=env, shards=8)
    rep.evaluated(len(ml_cache)); hist['malformed-cached-impl-only'] = len(ml_cache)
    hist['cached-differs-from-uncached'] = sum(1 for a, b_ in zip(cm_cache, [c for l, c in zip(ml, cm) if l.startswith('table_')]) if a != b_)
    for line, o in zip(ml_cache, cm_cache):
        if o.startswith('CRASH'):
            o1 = vlib.run_lines(k1, [line], env=env)[0]
            if o1.startswith('CRASH'):
                v = {'kind': 'crash', 'implementation': o1[:4000]}; v.update(case_ref(line)); rep.violation(v)
    if os.environ.get('C16_DUMP_ML'): open(os.environ['C16_DUMP_ML'], 'w').write('\n'.join(ml) + '\n')
    noob = sum(1 for x in mm if x == 'OOB')
    hist['model-OOB-outcomes'] = noob
    # same stream under ASan + UBSan
    try:
        t0 = time.time()
        k1a = vlib.build_k1(out, 'asan')
        timing['asan-build'] = round(time.time() - t0, 1)
    except vlib.BuildError as e:
        k1a = None
        rep.assumptions.append('asan variant did not build: ' + str(e)[:200])
    if k1a:
        aenv = dict(env); aenv['ASAN_OPTIONS'] = 'allocator_may_return_null=1:max_allocation_size_mb=64:detect_leaks=0:abort_on_error=0'
        aenv['UBSAN_OPTIONS'] = 'halt_on_error=1:print_stacktrace=1'
        t0 = time.time()
        ml_all = ml + ml_cache; cm_all = cm + cm_cache
        ca = run_balanced(vlib, k1a, ml_all, env=aenv, shards=vlib.NCPU)
        timing['asan-run'] = round(time.time() - t0, 1)
        rep.evaluated(len(ml_all)); hist['malformed-asan'] = len(ml_all)
        crashes = 0
        suspects = [i for i, o in enumerate(ca) if o.startswith('CRASH')]
        for i in suspects[:300]:
            # a shard stops at its first abort: re-run each unexecuted line alone
            ca[i] = vlib.run_lines(k1a, [ml_all[i]], env=aenv)[0]
        for line, o, oc in zip(ml_all, ca, cm_all):
            if o.startswith('CRASH'):
                crashes += 1
                if crashes <= 3:
                    v = {'kind': 'sanitizer-abort', 'variant': 'asan', 'implementation': o[:4000]}
                    v.update(case_ref(line))
                    rep.violation(v)
            elif o != oc and 'enomem' not in o and 'ioerr' not in o:
                # (allocations above 64 MiB fail in the sanitizer run: ENOMEM / read-failed outcomes are not compared)
                oracle(False, 'asan-vs-plain-output', line, o, oc)
        hist['sanitizer-aborts'] = crashes
    # classification of the malformed outcomes (coverage information)
    for o in cm:
        k = 'mal:' + ('open-error' if o.startswith('open:') else ('corruption' if 'corruption' in o else ('ioerr' if 'ioerr' in o else ('fail' if o == 'fail' else 'accepted'))))
        hist[k] = hist.get(k, 0) + 1

    rep.cov['rule'] = ('cases = hash/bloom/filter-block builds with membership queries, block builds (restart intervals 1..40, 7 key styles, '
                       'both comparators) with iterator scripts, Snappy encode of arbitrary buffers + decode, table builds over the '
                       'block_size x restart_interval x compression x filter_bits x comparator matrix with scan (both directions), '
                       'linear decode, lookups of present and absent keys and iterator scripts under random paranoid/verify/cache/mmap '
                       'settings; malformed stream = random bytes and structure-aware mutations of the valid blocks, filters, Snappy '
                       'streams and tables, run through the model, the plain build and the ASan+UBSan build; distinct_nontrivial counts '
                       'distinct (kind, sizes, options) of valid blocks / filters / Snappy buffers / tables')
    rep.cov['input_distribution'] = hist
    rep.cov['traces_validated_against_impl'] = len(lines) + len(lines2) + nbuild[0] + nread[0] + len(ml)
    rep.cov['timing_s (C, model)'] = timing
    rep.cov['wall_correspondence_s'] = round(time.time() - t_start, 1)
    rep.assumptions += [
        'status codes are compared up to the class {LDB_IOERR, EINVAL, ENOMEM} = "read failed" (mmap and pread report different members)',
        'blocks, keys and values are shorter than 4 GiB (uint32 offsets inside a block are not wrapped in the model)',
        'the block cache and mmap settings are exercised on the C side only; the model has no such state; on malformed tables the cached runs are checked for crashes only (cache key = (cache id, block offset): a forged index block with equal offsets and different sizes is served from the cache)',
        'bloom k = bits*69/100 clamped to [1,30] equals the C double computation for 0 <= bits_per_key < 2^31',
    ]

def replay(rep, path):
    r = json.load(open(path))
    case = open(r['case_file']).read().strip() if r.get('case_file') else r['case']
    if r.get('kind', '').startswith('oracle-get'):
        case = case.split(' key=')[0]
    out = vlib.scratch_dir(); tmp = os.path.join(out, 'tmp'); os.makedirs(tmp, exist_ok=True)
    env = {'K1_TMPDIR': tmp}
    variant = 'asan' if r.get('variant') == 'asan' else 'nothread'
    if variant == 'asan':
        env['ASAN_OPTIONS'] = 'allocator_may_return_null=1:max_allocation_size_mb=64:detect_leaks=0'
    k1 = vlib.build_k1(out, variant); vlib.ensure_model()
    c = vlib.run_lines(k1, [case], env=env); m = vlib.run_lines(model_cmd(), [case])
    print('implementation:', c[0][:300]); print('model         :', m[0][:300])
    if r.get('kind', '').startswith('oracle'):
        print('oracle violation recorded; expected:', str(r.get('expected'))[:300])
        return 1 if c[0] == r.get('implementation', c[0])[:len(c[0])] else 0
    return 0 if c == m else 1
