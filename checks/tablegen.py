"""tablegen.py -- seeded generators, mutators and an independent Python reader for
the SSTable layer (blocks, bloom filters / filter block, Snappy, table files).
Shared by C16 (and reusable by C11 / C18): every random choice comes from the
vlib.Rng passed in.

The Python decoders here are written from the LevelDB table-format description
(not from the Coq model and not from lcdb): they locate structures for the
structure-aware mutations and serve as the reference cursor for the oracles."""
import bisect
from functools import cmp_to_key
from k1util import hx, unhx, pat, pattern_bytes, expand

M32 = (1 << 32) - 1
M64 = (1 << 64) - 1
MAGIC = 0xdb4775248b80fb57
FILTER_KEY = b'filter.leveldb.BuiltinBloomFilter2'

# ------------------------------------------------------------------ crc32c
_CRC_TAB = []
def _crc_init():
    for i in range(256):
        c = i
        for _ in range(8):
            c = (c >> 1) ^ 0x82F63B78 if c & 1 else c >> 1
        _CRC_TAB.append(c)
_crc_init()
def crc32c(data, init=0):
    c = init ^ M32
    for b in data:
        c = _CRC_TAB[(c ^ b) & 255] ^ (c >> 8)
    return c ^ M32
def crc_mask(c):
    return (((c >> 15) | (c << 17)) + 0xa282ead8) & M32
def trailer(contents, ty):
    return bytes([ty]) + crc_mask(crc32c(bytes([ty]), crc32c(contents))).to_bytes(4, 'little')

# ------------------------------------------------------------------ varints
def enc_varint(n):
    out = bytearray()
    while n >= 128:
        out.append((n & 127) | 128); n >>= 7
    out.append(n)
    return bytes(out)
def dec_varint(b, i, width=32):
    maxshift = 28 if width == 32 else 63
    mask = (1 << width) - 1
    res = 0; shift = 0
    while shift <= maxshift and i < len(b):
        c = b[i]; i += 1
        if c & 128:
            res |= ((c & 127) << shift) & mask
        else:
            res |= (c << shift) & mask
            return res, i
        shift += 7
    return None

BOUND32 = [0, 1, 2, 3, 7, 8, 0x7f, 0x80, 0x81, 0xff, 0x100, 0x3fff, 0x4000, 0xffff, 0x10000,
           (1 << 21) - 1, 1 << 21, (1 << 28) - 1, 1 << 28, (1 << 31) - 1, 1 << 31, M32 - 1, M32]
BOUND64 = BOUND32 + [1 << 32, (1 << 32) + 1, (1 << 35) - 1, 1 << 35, (1 << 56) - 1, 1 << 56,
                     (1 << 63) - 1, 1 << 63, M64 - 5, M64 - 4, M64 - 1, M64]

# ------------------------------------------------------------------ comparators
def ikey(user, seq, ty):
    return user + (((seq << 8) | ty) & M64).to_bytes(8, 'little')
def ikey_sortkey(k):
    return (k[:-8], M64 - int.from_bytes(k[-8:], 'little'))
def sortkey(cmp):
    return (lambda k: k) if cmp == 0 else ikey_sortkey

# ------------------------------------------------------------------ independent reader
def snappy_uncompress(b):
    """reference Snappy decoder (format description); None on malformed input"""
    r = dec_varint(b, 0, 32)
    if r is None: return None
    n, i = r
    out = bytearray()
    while i < len(b):
        t = b[i] & 3
        if t == 0:
            ln = b[i] >> 2; i += 1
            if ln >= 60:
                nb = ln - 59
                if i + nb > len(b): return None
                ln = int.from_bytes(b[i:i + nb], 'little'); i += nb
            ln += 1
            if i + ln > len(b): return None
            out += b[i:i + ln]; i += ln
        else:
            if t == 1:
                if i + 2 > len(b): return None
                ln = 4 + ((b[i] >> 2) & 7); off = ((b[i] >> 5) << 8) | b[i + 1]; i += 2
            elif t == 2:
                if i + 3 > len(b): return None
                ln = 1 + (b[i] >> 2); off = b[i + 1] | (b[i + 2] << 8); i += 3
            else:
                if i + 5 > len(b): return None
                ln = 1 + (b[i] >> 2); off = int.from_bytes(b[i + 1:i + 5], 'little'); i += 5
            if off == 0 or off > len(out): return None
            for _ in range(ln):
                out.append(out[-off])
        if len(out) > n: return None
    return bytes(out) if len(out) == n else None

def parse_block(b):
    """valid block -> dict(entries=[(key, value, entry_offset, [header field offsets])],
    restarts_off, num_restarts, restart_points); None if malformed"""
    if len(b) < 4: return None
    n = int.from_bytes(b[-4:], 'little')
    if n > (len(b) - 4) // 4: return None
    roff = len(b) - 4 * (n + 1)
    rps = [int.from_bytes(b[roff + 4 * i: roff + 4 * i + 4], 'little') for i in range(n)]
    ents = []; p = 0; key = b''
    if n == 0:
        return {'entries': [], 'restarts_off': roff, 'num_restarts': 0, 'restart_points': []}
    while p < roff:
        e0 = p; fields = []
        vals = []
        for _ in range(3):
            r = dec_varint(b[:roff], p, 32)
            if r is None: return None
            fields.append(p); vals.append(r[0]); p = r[1]
        sh, ns, vl = vals
        if sh > len(key) or p + ns + vl > roff: return None
        key = key[:sh] + b[p:p + ns]; p += ns
        ents.append((key, b[p:p + vl], e0, fields)); p += vl
    return {'entries': ents, 'restarts_off': roff, 'num_restarts': n, 'restart_points': rps}

def dec_handle(b, i=0):
    r = dec_varint(b, i, 64)
    if r is None: return None
    r2 = dec_varint(b, r[1], 64)
    if r2 is None: return None
    return (r[0], r2[0]), r2[1]

def read_raw_block(f, h):
    """(type, stored bytes, uncompressed bytes or None)"""
    off, size = h
    if off + size + 5 > len(f): return None
    raw = f[off:off + size]; ty = f[off + size]
    if ty == 0: return (0, raw, raw)
    if ty == 1: return (1, raw, snappy_uncompress(raw))
    return (ty, raw, None)

def parse_table(f):
    """independent reader of a well-formed table file.  Returns dict with
    footer handles, index entries [(key, handle)], data blocks [(handle, type, parsed)],
    filter handle; None if not parseable."""
    if len(f) < 48: return None
    foot = f[-48:]
    if int.from_bytes(foot[40:], 'little') != MAGIC: return None
    r = dec_handle(foot, 0)
    if r is None: return None
    mi, p = r
    r = dec_handle(foot, p)
    if r is None: return None
    ih, p2 = r
    t = {'metaindex': mi, 'index': ih, 'footer_handle_end': p2, 'blocks': [], 'filter': None, 'index_entries': []}
    ib = read_raw_block(f, ih)
    if ib is None or ib[2] is None: return None
    ip = parse_block(ib[2])
    if ip is None: return None
    t['index_type'] = ib[0]; t['index_parsed'] = ip
    for (k, v, _, _) in ip['entries']:
        r = dec_handle(v)
        if r is None: return None
        h = r[0]
        rb = read_raw_block(f, h)
        if rb is None or rb[2] is None: return None
        bp = parse_block(rb[2])
        if bp is None: return None
        t['index_entries'].append((k, h))
        t['blocks'].append((h, rb[0], bp))
    mb = read_raw_block(f, mi)
    if mb is not None and mb[2] is not None:
        mp = parse_block(mb[2])
        t['meta_type'] = mb[0]; t['meta_parsed'] = mp
        if mp:
            for (k, v, _, _) in mp['entries']:
                if k == FILTER_KEY:
                    r = dec_handle(v)
                    if r: t['filter'] = r[0]
    return t

def table_entries(t):
    return [(k, v) for (_, _, bp) in t['blocks'] for (k, v, _, _) in bp['entries']]

# ------------------------------------------------------------------ entry generators
def gen_user_keys(rng, n, style):
    keys = set()
    if style == 'seq':
        base = rng.below(1000)
        for i in range(n): keys.add(b'key%06d' % (base + i * rng.range(1, 3)))
    elif style == 'prefix':
        pre = rng.bytes(rng.range(20, 200))
        for i in range(n): keys.add(pre + b'%05d' % rng.below(10 * n + 10))
    elif style == 'ff':
        for i in range(n):
            k = b'\xff' * rng.below(6) + rng.bytes(rng.below(3)) + b'\xff' * rng.below(4)
            keys.add(k + bytes([rng.choice([0, 1, 0xfe, 0xff])]) * rng.below(3))
    elif style == 'tiny':
        for i in range(n): keys.add(rng.bytes(rng.below(3)))
    elif style == 'binary':
        for i in range(n): keys.add(rng.bytes(rng.range(1, 24)))
    elif style == 'nested':   # every key is a prefix of the next
        k = b''
        for i in range(n):
            k = k + bytes([rng.choice([0, 0x61, 0xff, rng.below(256)])]); keys.add(k)
    else:  # mixed
        for i in range(n):
            c = rng.below(5)
            if c == 0: keys.add(b'user%04d' % rng.below(5 * n + 5))
            elif c == 1: keys.add(b'a' * rng.below(40) + rng.bytes(2))
            elif c == 2: keys.add(b'\xff' * rng.range(1, 5) + rng.bytes(rng.below(2)))
            elif c == 3: keys.add(rng.bytes(rng.below(12)))
            else: keys.add(b'p/' + b'x' * rng.below(100) + b'/%d' % rng.below(50))
    return keys

KEY_STYLES = ['seq', 'prefix', 'ff', 'tiny', 'binary', 'nested', 'mixed']

def gen_value(rng, maxlen, big_ok):
    """returns (argument string, bytes)"""
    c = rng.below(20)
    if c < 2: ln = 0
    elif c < 10: ln = rng.below(40)
    elif c < 16: ln = rng.range(40, 400)
    elif c < 19 or not big_ok: ln = rng.range(400, 3000)
    else: ln = rng.choice([rng.range(3000, maxlen), maxlen, 65535, 65536, 65537][:3 if maxlen < 65537 else 5])
    ln = min(ln, maxlen)
    kind = rng.below(4)
    if ln == 0: return '-', b''
    if kind == 0:      # incompressible
        b = rng.bytes(ln); return hx(b), b
    if kind == 1:      # highly compressible: short phrase repeated
        ph = rng.bytes(rng.range(1, 9)); b = (ph * (ln // len(ph) + 1))[:ln]
        if ln > 600:
            s = rng.below(256); return pat(ln, s), pattern_bytes(ln, s)
        return hx(b), b
    if kind == 2:      # zeros / single byte
        b = bytes([rng.choice([0, 0x20, 0xff])]) * ln; return hx(b), b
    s = rng.below(256)
    return pat(ln, s), pattern_bytes(ln, s)

def gen_entries(rng, tier, cmp, n=None, style=None, maxval=None):
    """sorted, distinct entry list under comparator cmp (0 bytewise, 1 internal keys).
    Returns [(key bytes, value bytes, value argument string)]."""
    quick = tier == 'quick'
    if n is None:
        c = rng.below(12)
        if c == 0: n = 0
        elif c == 1: n = 1
        elif c < 6: n = rng.range(2, 40)
        elif c < 10: n = rng.range(40, 400)
        else: n = rng.range(400, 2000 if quick else (50000 if rng.chance(1, 6) else 8000))
    if style is None: style = rng.choice(KEY_STYLES)
    if maxval is None: maxval = (65536 + 40) if quick else (1 << 20)
    users = gen_user_keys(rng, n, style)
    if cmp == 0:
        if n > 0 and rng.chance(1, 4): users.add(b'')
        keys = sorted(users)
    else:
        ks = set()
        for u in users:
            ntags = 1 if rng.chance(2, 3) else rng.range(2, 4)
            for _ in range(ntags):
                seq = rng.choice([rng.below(100), rng.below(1 << 20), (1 << 56) - 1, 0])
                ks.add(ikey(u, seq, rng.below(2)))
        keys = sorted(ks, key=ikey_sortkey)
    big_budget = 2 if n > 50 else 4
    out = []
    small = rng.chance(1, 3)          # some tables have only small values (many entries per block)
    for k in keys:
        if small:
            ln = rng.below(12); b = rng.bytes(ln) if rng.chance(1, 2) else b'v' * ln
            out.append((k, b, hx(b)))
        else:
            arg, b = gen_value(rng, maxval, big_budget > 0 and rng.chance(1, 10))
            if len(b) > 3000: big_budget -= 1
            out.append((k, b, arg))
    return out

BLOCK_SIZES = [64, 256, 1024, 4096, 65536]
INTERVALS = [1, 2, 3, 16, 17]
FILTER_BITS = [0, 1, 10, 50]

def opts_str(bs, ri, comp, bits, cmp, paranoid=0, verify=0, cache=0, mmap=0):
    return '%x,%x,%x,%x,%x,%x,%x,%x,%x' % (bs, ri, comp, bits, cmp, paranoid, verify, cache, mmap)

def entries_arg(es):
    return ','.join('%s=%s' % (hx(e[0]), e[2] if len(e) > 2 else hx(e[1])) for e in es) if es else '.'

def parse_entries_out(s):
    if s == '.': return []
    out = []
    for kv in s.split(','):
        k, v = kv.split('=')
        out.append((unhx(k), unhx(v)))
    return out

# ------------------------------------------------------------------ targets / scripts / reference cursor
def near_keys(rng, k, cmp):
    """keys just before / after k"""
    if cmp == 1:
        u = k[:-8]; tag = int.from_bytes(k[-8:], 'little')
        c = rng.below(5)
        if c == 0: return ikey(u, min((tag >> 8) + 1, (1 << 56) - 1), tag & 1)
        if c == 1: return ikey(u, max((tag >> 8) - 1, 0), 1)
        if c == 2: return ikey(u, (1 << 56) - 1, 1)
        if c == 3: return ikey(u + b'\x00', tag >> 8, 1)
        return ikey(u[:-1] if u else u, 5, 1)
    c = rng.below(5)
    if c == 0: return k + b'\x00'
    if c == 1: return k[:-1] if k else k
    if c == 2 and k: return k[:-1] + bytes([(k[-1] + 1) & 255])
    if c == 3 and k: return k[:-1] + bytes([(k[-1] - 1) & 255]) + b'\xff'
    return k + b'\xff'

def gen_targets(rng, keys, cmp, n):
    """seek / get targets: present, absent neighbours, before-first, after-last, random"""
    ts = []
    for _ in range(n):
        c = rng.below(10)
        if keys and c < 4: ts.append(rng.choice(keys))
        elif keys and c < 7: ts.append(near_keys(rng, rng.choice(keys), cmp))
        elif keys and c == 7: ts.append(near_keys(rng, keys[0], cmp) if rng.chance(1, 2) else (b'' if cmp == 0 else ikey(b'', (1 << 56) - 1, 1)))
        elif keys and c == 8: ts.append(near_keys(rng, keys[-1], cmp) if rng.chance(1, 2) else (b'\xff' * 9 if cmp == 0 else ikey(b'\xff' * 9, 0, 0)))
        else:
            b = rng.bytes(rng.below(12))
            ts.append(b if cmp == 0 else ikey(b, rng.below(1000), rng.below(2)))
    return ts

def gen_script(rng, keys, cmp, n):
    """iterator script with direction changes; returns list of ops ('F',), ('S', target) ..."""
    ops = []
    while len(ops) < n:
        c = rng.below(12)
        if c == 0: ops.append(('F',))
        elif c == 1: ops.append(('L',))
        elif c < 5: ops.append(('S', gen_targets(rng, keys, cmp, 1)[0]))
        elif c < 9:
            for _ in range(rng.range(1, 6)): ops.append(('N',))
        else:
            for _ in range(rng.range(1, 6)): ops.append(('P',))
    return ops[:n]

def script_arg(ops):
    return ','.join(o[0] + (hx(o[1]) if o[0] == 'S' else '') for o in ops) if ops else '.'

def ref_cursor(entries, cmp, ops):
    """reference semantics of an iterator over the sorted entry list: list of
    observations (index or None) after each op"""
    sk = sortkey(cmp); skeys = [sk(e[0]) for e in entries]
    pos = None; obs = []
    for o in ops:
        if o[0] == 'F': pos = 0 if entries else None
        elif o[0] == 'L': pos = len(entries) - 1 if entries else None
        elif o[0] == 'S':
            i = bisect.bisect_left(skeys, sk(o[1])); pos = i if i < len(entries) else None
        elif o[0] == 'N':
            if pos is not None: pos = pos + 1 if pos + 1 < len(entries) else None
        elif o[0] == 'P':
            if pos is not None: pos = pos - 1 if pos > 0 else None
        obs.append(pos)
    return obs

def parse_steps(s):
    """'k=v,!,...' -> list of (k, v) or None"""
    if s == '.': return []
    out = []
    for t in s.split(','):
        if t == '!': out.append(None)
        else:
            k, v = t.split('='); out.append((unhx(k), unhx(v)))
    return out

# ------------------------------------------------------------------ malformed inputs
def rand_garbage(rng, maxlen=200):
    c = rng.below(6)
    if c == 0: return rng.bytes(rng.below(maxlen))
    if c == 1: return bytes(rng.below(40))
    if c == 2: return rng.bytes(rng.below(20)) + bytes([rng.below(4), 0, 0, 0])        # small restart count
    if c == 3: return bytes([rng.below(200) for _ in range(rng.below(60))]) + (rng.below(8)).to_bytes(4, 'little')
    if c == 4: return rng.bytes(rng.below(8))
    return bytes([rng.choice([0, 1, 0x7f, 0x80, 0xff]) for _ in range(rng.below(50))])

def put32(b, off, v):
    b = bytearray(b)
    if 0 <= off and off + 4 <= len(b): b[off:off + 4] = (v & M32).to_bytes(4, 'little')
    return bytes(b)

def mutate_block(rng, b):
    """structure-aware mutation of a valid block"""
    p = parse_block(b)
    c = rng.below(10)
    if p is None or c == 0:
        b = bytearray(b)
        if b: b[rng.below(len(b))] = rng.choice([0, 1, 0x7f, 0x80, 0xff, rng.below(256)])
        return bytes(b)
    if c == 1:   # num_restarts
        return put32(b, len(b) - 4, rng.choice(BOUND32 + [p['num_restarts'] + 1, max(p['num_restarts'] - 1, 0), (len(b) - 4) // 4, (len(b) - 4) // 4 + 1]))
    if c == 2 and p['num_restarts']:   # a restart offset
        i = rng.below(p['num_restarts'])
        return put32(b, p['restarts_off'] + 4 * i, rng.choice(BOUND32 + [p['restarts_off'], p['restarts_off'] - 1, p['restarts_off'] + 1, len(b), rng.below(len(b) + 1)]))
    if c <= 6 and p['entries']:   # an entry header varint (shared / non_shared / value_length)
        e = rng.choice(p['entries']); fi = rng.below(3); fo = e[3][fi]
        end = e[3][fi + 1] if fi < 2 else dec_varint(b, fo, 32)[1]
        v = rng.choice(BOUND32 + [len(b), p['restarts_off'] - fo, len(e[0]), len(e[0]) + 1])
        enc = enc_varint(v & M32)
        return b[:fo] + enc + b[end:]
    if c == 7:   # truncate
        return b[:rng.below(len(b) + 1)]
    if c == 8:   # overlong varint in place of the first header byte
        if p['entries']:
            e = rng.choice(p['entries']); fo = e[3][rng.below(3)]
            return b[:fo] + rng.choice([b'\x80\x80\x80\x80\x00', b'\xff\xff\xff\xff\x0f', b'\xff\xff\xff\xff\x7f', b'\x80\x80\x80\x80\x80\x01', b'\x80']) + b[fo + 1:]
    b2 = bytearray(b)
    for _ in range(rng.range(1, 4)):
        if b2: b2[rng.below(len(b2))] ^= 1 << rng.below(8)
    return bytes(b2)

def mutate_filter_block(rng, f):
    n = len(f); c = rng.below(8)
    if n < 5 or c == 0:
        b = bytearray(f)
        if b: b[rng.below(len(b))] = rng.choice([0, 1, 0x7f, 0x80, 0xff, rng.below(256)])
        return bytes(b)
    if c == 1:   # base_lg
        return f[:-1] + bytes([rng.choice([0, 1, 10, 11, 12, 31, 32, 63, 64, 0x7f, 0x80, 0xff])])
    if c == 2:   # array offset
        return put32(f, n - 5, rng.choice(BOUND32 + [n - 5, n - 4, n - 6, n, rng.below(n + 1)]))
    last = int.from_bytes(f[n - 5:n - 1], 'little')
    if c <= 4 and last <= n - 5 and (n - 5 - last) >= 4:   # a filter offset
        i = rng.below((n - 5 - last) // 4)
        return put32(f, last + 4 * i, rng.choice(BOUND32 + [last, last + 1, last - 1, n, rng.below(n + 1)]))
    if c == 5: return f[:rng.below(n + 1)]
    if c == 6 and last >= 1:   # the k byte of a filter
        b = bytearray(f); b[rng.below(last)] = rng.choice([0, 1, 30, 31, 0xff]); return bytes(b)
    b = bytearray(f); b[rng.below(n)] ^= 1 << rng.below(8); return bytes(b)

def mutate_snappy(rng, s):
    c = rng.below(8); b = bytearray(s)
    if not b: return rng.bytes(rng.below(6))
    if c == 0: b[rng.below(len(b))] = rng.below(256)
    elif c == 1:   # length prefix
        r = dec_varint(s, 0, 32); v = rng.choice(BOUND32 + ([r[0] + 1, max(r[0] - 1, 0)] if r else []))
        return enc_varint(v) + (s[r[1]:] if r else s)
    elif c == 2: return s[:rng.below(len(s) + 1)]
    elif c == 3:   # a tag byte somewhere
        b[rng.below(len(b))] = rng.choice([0xf0, 0xf4, 0xf8, 0xfc, 0x01, 0x02, 0x03, 0xff, 0xfe, 0x00, 0xec])
    elif c == 4:   # splice a copy with a chosen offset
        i = rng.below(len(b) + 1); off = rng.choice([0, 1, 2, 0xffff, 0x7fff, 60])
        ins = rng.choice([bytes([0x02 | (rng.below(64) << 2), off & 255, (off >> 8) & 255]),
                          bytes([0x01 | (rng.below(8) << 2) | (rng.below(8) << 5), off & 255]),
                          bytes([0x03 | (rng.below(64) << 2)]) + (rng.choice(BOUND32)).to_bytes(4, 'little')])
        return bytes(b[:i]) + ins + bytes(b[i:])
    elif c == 5:   # literal with a long length
        i = rng.below(len(b) + 1)
        ins = rng.choice([b'\xf0' + bytes([rng.below(256)]), b'\xf4\xff\xff', b'\xf8\xff\xff\xff', b'\xfc\xff\xff\xff\x7f', b'\xfc\xfe\xff\xff\x7f', b'\xfc\xff\xff\xff\xff'])
        return bytes(b[:i]) + ins + bytes(b[i:])
    else:
        for _ in range(rng.range(1, 3)): b[rng.below(len(b))] ^= 1 << rng.below(8)
    return bytes(b)

def fix_crc(f, h):
    """recompute the trailer CRC of the block at handle h (keeps the stored type byte)"""
    off, size = h
    if off + size + 5 > len(f): return f
    crc = crc_mask(crc32c(f[off:off + size + 1]))
    return f[:off + size + 1] + crc.to_bytes(4, 'little') + f[off + size + 5:]

def mutate_table(rng, f, t=None):
    """structure-aware mutation of a valid table file; t = parse_table(f) (or None)"""
    n = len(f)
    if t is None: t = parse_table(f)
    c = rng.below(14)
    if t is None or c == 0:
        b = bytearray(f)
        if b: b[rng.below(n)] = rng.choice([0, 1, 0x7f, 0x80, 0xff, rng.below(256)])
        return bytes(b)
    if c == 1:   # footer magic
        b = bytearray(f); b[n - 8 + rng.below(8)] ^= 1 << rng.below(8); return bytes(b)
    if c == 2:   # footer handles replaced by boundary values
        vals = BOUND64 + [n, n - 48, n - 5, n - 53, t['index'][0], t['index'][1], t['index'][1] + 1, t['index'][1] - 1]
        mi = (rng.choice(vals), rng.choice(vals)) if rng.chance(1, 2) else t['metaindex']
        ih = (rng.choice(vals), rng.choice(vals)) if mi == t['metaindex'] or rng.chance(1, 2) else t['index']
        hs = enc_varint(mi[0]) + enc_varint(mi[1]) + enc_varint(ih[0]) + enc_varint(ih[1])
        return f[:n - 48] + hs.ljust(40, b'\x00')[:40] + f[n - 8:]
    if c == 3:   # truncate / extend
        k = rng.choice([rng.below(n + 1), n - 1, n - 8, n - 47, n - 48, n - 49, 47, 48, 0])
        return f[:max(k, 0)] if rng.chance(3, 4) else f + rng.bytes(rng.below(60))
    allh = [t['index'], t['metaindex']] + [h for (h, _, _) in t['blocks']] + ([t['filter']] if t['filter'] else [])
    if c == 4:   # trailer type byte
        h = rng.choice(allh); b = bytearray(f); b[h[0] + h[1]] = rng.choice([0, 1, 2, 3, 0x7f, 0x80, 0xff])
        g = bytes(b)
        return fix_crc(g, h) if rng.chance(1, 2) else g
    if c == 5:   # trailer crc
        h = rng.choice(allh); b = bytearray(f); b[h[0] + h[1] + 1 + rng.below(4)] ^= 1 << rng.below(8); return bytes(b)
    if c in (6, 7) and t['index_type'] == 0 and t['index_entries']:
        # a handle inside the index block replaced by boundary values (crc fixed up half of the time)
        ip = t['index_parsed']; e = rng.choice(ip['entries']); voff = e[2]
        hdr_end = dec_varint(f, t['index'][0] + e[3][2], 32)[1]
        vstart = hdr_end + (len(e[0]) - dec_varint(f, t['index'][0] + e[3][0], 32)[0])
        old = e[1]
        vals = BOUND64 + [n, n - 48, rng.below(n + 1)]
        o0, s0 = dec_handle(old)[0]
        new = enc_varint(rng.choice(vals + [o0])) + enc_varint(rng.choice(vals + [s0]))
        new = (new + b'\x00' * len(old))[:len(old)] if len(new) <= len(old) else new[:len(old)]
        g = f[:vstart] + new + f[vstart + len(old):]
        return fix_crc(g, t['index']) if rng.chance(2, 3) else g
    if c in (8, 9, 10):   # mutate inside a data / index / metaindex block, crc fixed up
        cands = [(h, ty) for (h, ty, _) in t['blocks']] + [(t['index'], t['index_type'])]
        if 'meta_type' in t: cands.append((t['metaindex'], t['meta_type']))
        h, ty = rng.choice(cands)
        blk = f[h[0]:h[0] + h[1]]
        nb = mutate_block(rng, blk) if ty == 0 else mutate_snappy(rng, blk)
        if len(nb) != len(blk):
            nb = (nb + blk)[:len(blk)] if len(nb) < len(blk) else nb[:len(blk)]
        g = f[:h[0]] + nb + f[h[0] + h[1]:]
        return fix_crc(g, h) if rng.chance(3, 4) else g
    if c in (11, 12) and t['filter']:
        h = t['filter']; blk = f[h[0]:h[0] + h[1]]
        nb = mutate_filter_block(rng, blk)
        nb = (nb + blk)[:len(blk)] if len(nb) < len(blk) else nb[:len(blk)]
        g = f[:h[0]] + nb + f[h[0] + h[1]:]
        return fix_crc(g, h) if rng.chance(3, 4) else g
    if c == 13 and 'meta_parsed' in t and t.get('meta_type') == 0 and t['filter']:
        # filter handle inside the metaindex block
        mp = t['meta_parsed']; e = mp['entries'][0]
        base = t['metaindex'][0]
        hdr_end = dec_varint(f, base + e[3][2], 32)[1]
        vstart = hdr_end + len(e[0])
        old = e[1]; vals = BOUND64 + [n, n - 48, rng.below(n + 1)]
        new = enc_varint(rng.choice(vals)) + enc_varint(rng.choice(vals))
        new = (new + b'\x00' * len(old))[:len(old)]
        g = f[:vstart] + new + f[vstart + len(old):]
        return fix_crc(g, t['metaindex']) if rng.chance(2, 3) else g
    b = bytearray(f)
    s = rng.below(n); b[s:s + 512] = bytes(min(512, n - s)) if rng.chance(1, 2) else rng.bytes(min(16, n - s))
    return bytes(b)[:n] if rng.chance(1, 2) else bytes(b)
