"""k8lib.py -- shared machinery of the concurrency checks C08 / C09 (and C04(b)).

build      : harness/k8.c against the pthread build of /repo, with link-time interposition
scenarios  : seeded per-thread operation lists; every written value is unique (tag), every batch
             writes a unique marker key
run        : one (scenario, schedule) -> parsed history, group-commit records, abstract states
oracles    : linearizability (white-box publish order + black-box per-key WGL search),
             batch atomicity / snapshot consistency, monotone reads, final state, liveness"""
import os, subprocess, shutil, time, bisect, sys
import vlib

WRAPS = ['pthread_mutex_lock', 'pthread_mutex_unlock', 'pthread_cond_wait', 'pthread_cond_signal',
         'pthread_cond_broadcast', 'pthread_create', 'ldb_batch_set_sequence',
         'write', 'read', 'pread', 'fsync', 'fdatasync', 'rename', 'unlink', 'open']

def build_k8(out, variant='pthread', lib=None):
    if lib is None:
        lib = vlib.build_lib(out, variant)
    return vlib.build_bin(out, variant, 'k8', ['k8.c'], lib, extra_cflags=['-U_FORTIFY_SOURCE'],
                          extra_ld=['-Wl,' + ','.join('--wrap=' + w for w in WRAPS)])

INF = 1 << 62

# ------------------------------------------------------------------ scenarios
class Scenario:
    def __init__(self):
        self.threads = []      # list of lists of op strings
        self.keys = []         # payload keys
        self.markers = []      # marker keys (one per batch)
        self.params = {}       # harness parameters (write_buffer ...)
        self.profile = ''
    def text(self):
        out = []
        for t, ops in enumerate(self.threads):
            out.append('T %d' % t)
            out += ops
        return '\n'.join(out) + '\n'
    def allkeys(self):
        return self.keys + self.markers
    def to_json(self):
        return {'profile': self.profile, 'threads': self.threads, 'keys': self.keys, 'markers': self.markers, 'params': self.params}
    @staticmethod
    def from_json(j):
        s = Scenario(); s.profile = j.get('profile', ''); s.threads = j['threads']; s.keys = j['keys']
        s.markers = j['markers']; s.params = j.get('params', {}); return s

def _vlen(rng, big):
    r = rng.below(100)
    if r < 100 - 3 * big: return rng.range(8, 200)
    if r < 100 - big: return rng.range(1000, 9000)
    return rng.range(20000, 40000)

def gen_scenario(rng, profile='c08', nthreads=None, nops=None):
    """profiles: c08 (mixed), writers (group commit), stall (big values, tiny buffer), manual (compactions
    concurrent with writers), backup, closebg (close while a compaction is scheduled), readers"""
    sc = Scenario(); sc.profile = profile
    nt = nthreads or {'c08': rng.range(2, 8), 'writers': rng.range(4, 8), 'stall': rng.range(2, 5), 'manual': rng.range(3, 6),
                      'backup': rng.range(3, 5), 'closebg': rng.range(2, 4), 'readers': rng.range(3, 8)}[profile]
    no = nops or {'c08': rng.range(10, 28), 'writers': rng.range(20, 45), 'stall': rng.range(14, 30), 'manual': rng.range(10, 24),
                  'backup': rng.range(10, 20), 'closebg': rng.range(8, 16), 'readers': rng.range(12, 30)}[profile]
    nk = rng.range(2, 8)
    sc.keys = ['k%02d' % i for i in range(nk)]
    big = {'c08': 8, 'writers': 1, 'stall': 30, 'manual': 12, 'backup': 10, 'closebg': 25, 'readers': 6}[profile]
    W = {   # put del batch get snapgroup iterscan flush crange compact backup
        'c08':     (30, 8, 14, 20, 9, 6, 2, 1, 1, 0),
        'writers': (55, 10, 25, 6, 2, 1, 1, 0, 0, 0),
        'stall':   (60, 5, 15, 8, 3, 3, 3, 1, 1, 0),
        'manual':  (35, 6, 12, 12, 4, 4, 8, 10, 8, 0),
        'backup':  (40, 6, 12, 12, 4, 4, 3, 2, 1, 12),
        'closebg': (60, 5, 15, 8, 2, 2, 4, 2, 1, 0),
        'readers': (18, 5, 10, 30, 18, 14, 2, 1, 1, 0),
    }[profile]
    tot = sum(W)
    nbk = [0]
    for t in range(nt):
        ops = []; cnt = [0]
        def tag():
            cnt[0] += 1; return 't%d_%d' % (t, cnt[0])
        free_slots = [0, 1, 2]
        while len(ops) < no:
            r = rng.below(tot); acc = 0; kind = 0
            for kind, w in enumerate(W):
                acc += w
                if r < acc: break
            sync = ' sync' if rng.chance(1, 6) else ''
            if kind == 0:
                vl = _vlen(rng, big)
                # a write above the group-commit size cap (128 KiB + leader's size): it can never be merged into a small leader's group
                if profile in ('writers', 'c08', 'stall') and rng.chance(1, 14): vl = rng.range(135000, 220000)
                ops.append('put %s %s %d%s' % (rng.choice(sc.keys), tag(), vl, sync))
            elif kind == 1:
                ops.append('del %s%s' % (rng.choice(sc.keys), sync))
            elif kind == 2:
                m = 'm%d_%d' % (t, len([o for o in ops if o.startswith('batch')]))
                sc.markers.append(m)
                items = []
                for _ in range(rng.range(1, 4)):
                    k = rng.choice(sc.keys)
                    if rng.chance(1, 5): items.append('d:%s' % k)
                    else: items.append('p:%s:%s:%d' % (k, tag(), _vlen(rng, big // 2)))
                items.insert(rng.below(len(items) + 1), 'p:%s:%s:%d' % (m, tag(), rng.range(8, 40)))
                ops.append('batch %s%s' % (','.join(items), sync))
            elif kind == 3:
                ops.append('get %s' % rng.choice(sc.keys))
            elif kind == 4:
                s = rng.below(3)
                ops.append('snap %d' % s)
                inter = rng.range(0, 2)
                for _ in range(inter):
                    ops.append('put %s %s %d' % (rng.choice(sc.keys), tag(), _vlen(rng, big)))
                ops.append('@sgets %d' % s)          # expanded below when all markers are known
                if rng.chance(1, 3):
                    ops.append('iter %d %d' % (s, s)); ops.append('iscan %d' % s)
                ops.append('rel %d' % s)
            elif kind == 5:
                i = 3 + rng.below(3)
                ops.append('iter %d -' % i)
                for _ in range(rng.range(0, 2)):
                    ops.append('put %s %s %d' % (rng.choice(sc.keys), tag(), _vlen(rng, big)))
                ops.append('iscan %d' % i)
            elif kind == 6:
                ops.append('flush')
            elif kind == 7:
                ops.append('crange %d - -' % rng.below(3))
            elif kind == 8:
                if rng.chance(1, 2): ops.append('compact - -')
                else:
                    a, b = sorted([rng.choice(sc.keys), rng.choice(sc.keys)]); ops.append('compact %s %s' % (a, b))
            elif kind == 9:
                nbk[0] += 1; ops.append('backup b%d' % nbk[0])
        sc.threads.append(ops)
    # expand snapshot read groups: payload keys + marker keys of batches of any thread
    for t in range(nt):
        out = []
        for o in sc.threads[t]:
            if o.startswith('@sgets'):
                s = o.split()[1]
                ks = []
                for _ in range(rng.range(2, 5)):
                    ks.append(rng.choice(sc.keys))
                if sc.markers:
                    for _ in range(rng.range(1, 4)):
                        ks.append(rng.choice(sc.markers))
                for k in ks: out.append('sget %s %s' % (s, k))
            else:
                out.append(o)
        sc.threads[t] = out
    sc.params = {'write_buffer': 65536}
    return sc

def gen_schedule(rng, abs_trace=False):
    mode = rng.choice([1, 1, 2, 2, 3, 3, 0])
    p = {'seed': rng.below(1 << 40) + 1, 'mode': mode, 'yield': rng.choice([20, 60, 150, 300]),
         'sleep': rng.choice([0, 5, 15, 40]), 'spur': rng.choice([0, 0, 20, 100]),
         'pct_d': rng.range(2, 5), 'pct_k': rng.choice([300, 1000, 4000]), 'abs': 1 if abs_trace else 0}
    return p

# ------------------------------------------------------------------ run + parse
class Op:
    __slots__ = ('tid', 'opid', 'inv', 'ret', 'text', 'res', 'a')
    def __init__(self, tid, opid, inv, text):
        self.tid = tid; self.opid = opid; self.inv = inv; self.ret = None; self.text = text; self.res = None
        self.a = text.split(' ')
    def kind(self): return self.a[0]

class Run:
    def __init__(self):
        self.rc = None; self.ops = {}; self.groups = []; self.abs = []; self.final = None; self.finalget = None
        self.reopen = None; self.joined = None; self.closed = False; self.done = None; self.stuck = []
        self.raw_tail = ''; self.wall = 0.0; self.stderr = ''; self.timeout = False; self.backups = []

def parse_scan(s):
    """'k=tag:len,k=tag:len status=0' -> (dict key -> (tag, len), status)"""
    body, _, st = s.rpartition(' status=')
    d = {}
    if body != '.' and body != '':
        for it in body.split(','):
            k, _, v = it.partition('=')
            d[k] = parse_val(v)
    return d, int(st) if st.lstrip('-').isdigit() else -999

def parse_val(v):
    if v == 'notfound': return None
    if v.startswith('corrupt') or v.startswith('err'): return ('!' + v, 0)
    tag, _, ln = v.partition(':')
    return (tag, int(ln))

def run_k8(exe, base, idx, sc, sched, timeout=180, extra=None):
    d = os.path.join(base, 'r%d' % idx)
    shutil.rmtree(d, ignore_errors=True); os.makedirs(d)
    scf = os.path.join(d, 'scenario.txt')
    open(scf, 'w').write(sc.text())
    args = [exe, os.path.join(d, 'db'), scf, 'keys=' + ','.join(sc.allkeys())]
    for k, v in list(sc.params.items()) + list(sched.items()) + list((extra or {}).items()):
        args.append('%s=%s' % (k, v))
    t0 = time.time()
    run = Run()
    try:
        r = subprocess.run(args, capture_output=True, timeout=timeout)
        run.rc = r.returncode; out = r.stdout.decode('latin1'); run.stderr = r.stderr.decode('latin1')[-800:]
    except subprocess.TimeoutExpired as e:
        run.rc = -9; run.timeout = True; out = (e.stdout or b'').decode('latin1')
    run.wall = time.time() - t0
    shutil.rmtree(d, ignore_errors=True)
    parse_output(run, out)
    return run

def parse_output(run, out):
    lines = out.split('\n')
    run.raw_tail = '\n'.join(lines[-12:])
    for ln in lines:
        if not ln: continue
        c = ln[0]
        if c == 'I' and ln.startswith('INV '):
            a = ln.split(' ', 4)
            run.ops[(int(a[1]), int(a[2]))] = Op(int(a[1]), int(a[2]), int(a[3]), a[4])
        elif c == 'R' and ln.startswith('RET '):
            a = ln.split(' ', 4)
            o = run.ops.get((int(a[1]), int(a[2])))
            if o is not None: o.ret = int(a[3]); o.res = a[4] if len(a) > 4 else ''
        elif c == 'B' and ln.startswith('BACKUP '):
            a = ln.split(' ', 4)
            run.backups.append({'tid': int(a[1]), 'opid': int(a[2]), 'rc': int(a[3].split('=')[1]), 'scan': a[4] if len(a) > 4 else ''})
        elif c == 'R' and ln.startswith('REOPEN'):
            run.reopen = ln[7:]
        elif c == 'G' and ln.startswith('GRP '):
            a = ln.split(' ')
            g = {'leader': int(a[2].split('=')[1]), 'first': int(a[3].split('=')[1], 16), 'n': int(a[4].split('=')[1]), 'members': []}
            ms = a[5].split('=')[1]
            if ms:
                for m in ms.split(','):
                    f = m.split(':'); g['members'].append((int(f[0]), int(f[1]), int(f[2])))
                    g.setdefault('sync', []).append(int(f[3]) if len(f) > 3 else 0)
            for x in a[6:]:
                if x.startswith('lsc='): g['lsc'] = int(x[4:])
                elif x.startswith('queue='): g['queue'] = [tuple(t.split(':')) for t in x[6:].split(',') if t]
            run.groups.append(g)
        elif c in 'AE' and (ln.startswith('A ') or ln.startswith('E ')):
            run.abs.append(ln)
        elif c == 'F' and ln.startswith('FINALGET '):
            run.finalget = ln[9:]
        elif c == 'F' and ln.startswith('FINAL '):
            run.final = ln[6:]
        elif c == 'J' and ln.startswith('JOINED'):
            run.joined = int(ln.split(' ')[1])
            for x in ln.split(' ')[2:]:
                if x.startswith('lsc='): run.joined_lsc = int(x[4:])
        elif c == 'C' and ln == 'CLOSED':
            run.closed = True
        elif c == 'D' and ln.startswith('DONE'):
            run.done = dict(x.split('=') for x in ln.split(' ')[1:])
        elif c == 'S' and ln.startswith('STUCK'):
            run.stuck.append(ln)

# ------------------------------------------------------------------ history model
def write_entries(op):
    """entries of a write op: list of (key, tag|None, len)"""
    a = op.a
    if a[0] == 'put': return [(a[1], a[2], max(int(a[3]), len(a[2]) + 1))]
    if a[0] == 'del': return [(a[1], None, 0)]
    if a[0] == 'batch':
        es = []
        for it in a[1].split(','):
            f = it.split(':')
            if f[0] == 'p': es.append((f[1], f[2], max(int(f[3]), len(f[2]) + 1)))
            else: es.append((f[1], None, 0))
        return es
    return None

class View:
    """a read point: reads {key: (tag,len)|None} that must all be explained by one state"""
    __slots__ = ('name', 'start', 'end', 'reads', 'tid', 'seq', 'full', 'latest')
    def __init__(self, name, start, end, tid, seq=None, full=False, latest=True):
        self.name = name; self.start = start; self.end = end; self.reads = []; self.tid = tid; self.seq = seq
        self.full = full; self.latest = latest

def build_views(run, sc, problems):
    """group the read operations of a history into views (get / snapshot / iterator / final)"""
    views = []
    allkeys = sc.allkeys()
    by_tid = {}
    for (tid, opid), o in run.ops.items():
        by_tid.setdefault(tid, []).append(o)
    for tid, ops in by_tid.items():
        if tid >= 99: continue
        ops.sort(key=lambda o: o.opid)
        snaps = {}; iters = {}
        for o in ops:
            k = o.kind()
            if o.ret is None: continue
            if k == 'get':
                v = View('get %d.%d' % (tid, o.opid), o.inv, o.ret, tid)
                v.reads.append((o.a[1], parse_val(o.res), o)); views.append(v)
            elif k == 'snap':
                sq = int(o.res.split('=')[1], 16) if o.res.startswith('seq=') else None
                v = View('snap %d.%d' % (tid, o.opid), o.inv, o.ret, tid, seq=sq, latest=False)
                snaps[o.a[1]] = v; views.append(v)
            elif k == 'sget':
                v = snaps.get(o.a[1])
                if v is not None: v.reads.append((o.a[2], parse_val(o.res), o))
            elif k == 'rel':
                snaps.pop(o.a[1], None)
            elif k == 'iter':
                if o.a[2] == '-':
                    v = View('iter %d.%d' % (tid, o.opid), o.inv, o.ret, tid, latest=True); views.append(v)
                else:
                    v = snaps.get(o.a[2])
                iters[o.a[1]] = v
            elif k == 'iscan':
                v = iters.pop(o.a[1], None)
                if v is not None and o.res != 'noiter':
                    d, st = parse_scan(o.res)
                    if st != 0: problems.append({'kind': 'api-error', 'op': o.text, 'result': o.res[-80:]})
                    for key in allkeys:
                        v.reads.append((key, d.get(key), o))
                    for key in d:
                        if key not in allkeys: problems.append({'kind': 'invented-key', 'key': key, 'op': o.text})
                    v.full = True
    if run.final is not None and run.joined is not None:
        v = View('final', run.joined + 0.5, INF, 99, full=True)
        d, st = parse_scan(run.final)
        if st != 0: problems.append({'kind': 'api-error', 'op': 'final scan', 'result': run.final[-80:]})
        for key in allkeys: v.reads.append((key, d.get(key), None))
        for key in d:
            if key not in allkeys: problems.append({'kind': 'invented-key', 'key': key, 'op': 'final'})
        if run.finalget:
            for it in run.finalget.split(','):
                k, _, val = it.partition('=')
                if k: v.reads.append((k, parse_val(val), None))
        views.append(v)
    return views

def _isect(A, B):
    out = []; i = j = 0
    while i < len(A) and j < len(B):
        lo = max(A[i][0], B[j][0]); hi = min(A[i][1], B[j][1])
        if lo <= hi: out.append((lo, hi))
        if A[i][1] < B[j][1]: i += 1
        else: j += 1
    return out

def check_linearizable_publish_order(run, sc, stats):
    """Complete decision of linearizability of the observed history GIVEN the publish order of the
    writes (white box: sequence numbers assigned by the group-commit leader).  Returns problems."""
    problems = []
    writes = []      # (op, entries, first, last)
    seq_of = {}
    gi_of = {}
    expect = None
    bounds = [0]     # group boundaries (read points the implementation can expose)
    for gi, g in enumerate(run.groups):
        if expect is not None and g['first'] != expect:
            problems.append({'kind': 'publish-order-gap', 'group': gi, 'first': g['first'], 'expected': expect})
        s = g['first']
        if g['members'] and g['members'][0][0] != g['leader']:
            problems.append({'kind': 'group-leader-not-first', 'group': g})
        if sum(m[2] for m in g['members']) != g['n']:
            problems.append({'kind': 'group-count-mismatch', 'group': g})
        for (t, o, cnt) in g['members']:
            if (t, o) in seq_of: problems.append({'kind': 'write-in-two-groups', 'op': (t, o)})
            seq_of[(t, o)] = s; gi_of[(t, o)] = gi; s += cnt
        expect = g['first'] + g['n']
        bounds.append(expect - 1)
    stats['groups'] = stats.get('groups', 0) + len(run.groups)
    stats['groups_merged'] = stats.get('groups_merged', 0) + sum(1 for g in run.groups if len(g['members']) > 1)
    keyhist = {}     # key -> sorted list of (seq, tag|None, len)
    tagmap = {}
    opbounds = [0]
    for (tid, opid), o in run.ops.items():
        es = write_entries(o)
        if es is None: continue
        if o.ret is None: continue
        if o.res != '0':
            problems.append({'kind': 'api-error', 'op': o.text, 'result': o.res}); continue
        if (tid, opid) not in seq_of:
            problems.append({'kind': 'acked-write-without-sequence', 'op': o.text}); continue
        f = seq_of[(tid, opid)]
        writes.append((o, es, f, f + len(es) - 1))
        opbounds.append(f + len(es) - 1)
        for j, (k, tag, ln) in enumerate(es):
            keyhist.setdefault(k, []).append((f + j, tag, ln))
            if tag is not None:
                if tag in tagmap: problems.append({'kind': 'scenario-tag-not-unique', 'tag': tag})
                tagmap[tag] = (k, f + j, ln, o)
    for k in keyhist: keyhist[k].sort(key=lambda e: e[0])
    keyseqs = dict((k, [e[0] for e in h]) for k, h in keyhist.items())
    # real-time order between writes
    ws = sorted(writes, key=lambda w: w[0].inv)
    rets = sorted(writes, key=lambda w: w[0].ret)
    ri = 0; maxlast = 0; maxw = None
    for w in ws:
        while ri < len(rets) and rets[ri][0].ret < w[0].inv:
            if rets[ri][3] > maxlast: maxlast = rets[ri][3]; maxw = rets[ri]
            ri += 1
        if w[2] <= maxlast:
            problems.append({'kind': 'write-order-violates-real-time', 'earlier': maxw[0].text, 'earlier_seq': maxw[3], 'later': w[0].text, 'later_seq': w[2]})
    # views
    views = build_views(run, sc, problems)
    views.sort(key=lambda v: v.start)
    inv_sorted = sorted(writes, key=lambda w: w[0].inv)
    inv_keys = [w[0].inv for w in inv_sorted]
    # suffix min of first seq over writes sorted by inv
    sufmin = [INF] * (len(inv_sorted) + 1)
    for i in range(len(inv_sorted) - 1, -1, -1):
        sufmin[i] = min(sufmin[i + 1], inv_sorted[i][2])
    ret_keys = [w[0].ret for w in rets]
    premax = [0] * (len(rets) + 1)
    for i, w in enumerate(rets): premax[i + 1] = max(premax[i], w[3])
    done_views = []   # (end, p) of assigned views, for the monotonicity constraint
    import heapq
    pend = []; prevmax = 0
    bounds_sorted = sorted(set(bounds))
    opb = set(opbounds)
    for v in views:
        while pend and pend[0][0] < v.start:
            e, p = heapq.heappop(pend)
            if p > prevmax: prevmax = p
        L = max(premax[bisect.bisect_left(ret_keys, v.start)], prevmax)
        U = sufmin[bisect.bisect_right(inv_keys, v.end)] - 1
        allowed = [(0, INF)]
        bad = None
        for (k, val, o) in v.reads:
            hist = keyhist.get(k, [])
            if val is not None and val[0].startswith('!'):
                bad = {'kind': 'corrupt-or-error-read', 'view': v.name, 'key': k, 'value': val[0]}; break
            if val is None:
                iv = []
                if not hist: iv = [(0, INF)]
                else:
                    iv.append((0, hist[0][0] - 1))
                    for i, (s, tag, ln) in enumerate(hist):
                        if tag is None:
                            iv.append((s, (hist[i + 1][0] - 1) if i + 1 < len(hist) else INF))
            else:
                tag, ln = val
                tm = tagmap.get(tag)
                if tm is None or tm[0] != k:
                    bad = {'kind': 'read-of-never-written-value', 'view': v.name, 'key': k, 'value': tag}; break
                if tm[2] != ln:
                    bad = {'kind': 'value-length-differs', 'view': v.name, 'key': k, 'value': tag, 'len': ln, 'written': tm[2]}; break
                s = tm[1]
                i = bisect.bisect_right(keyseqs[k], s)
                iv = [(s, (hist[i][0] - 1) if i < len(hist) else INF)]
            allowed = _isect(allowed, iv)
            if not allowed:
                bad = {'kind': 'view-not-a-single-point', 'view': v.name, 'reads': [(k2, (x[0] if x else None)) for (k2, x, _) in v.reads][:40],
                       'explain': 'no sequence number explains all reads of this snapshot/iterator/get together'}
                break
        if bad is None and v.seq is not None:
            a2 = _isect(allowed, [(v.seq, v.seq)])
            if not a2:
                bad = {'kind': 'snapshot-sequence-disagrees', 'view': v.name, 'snapshot_seq': v.seq, 'allowed': allowed[:6]}
            allowed = a2
        p = None
        if bad is None:
            lo = L
            # smallest group boundary >= lo inside allowed
            for (a, b) in allowed:
                x = max(a, lo)
                i = bisect.bisect_left(bounds_sorted, x)
                if i < len(bounds_sorted) and bounds_sorted[i] <= min(b, U):
                    p = bounds_sorted[i]; break
            if p is None:
                # explain: which constraint fails
                bad = {'kind': 'no-linearization-point', 'view': v.name, 'allowed_by_values': allowed[:8], 'lower_bound_real_time': L,
                       'upper_bound_real_time': U if U < INF else 'inf',
                       'reads': [(k2, (x[0] if x else None)) for (k2, x, _) in v.reads][:40]}
        if bad is not None:
            bad['interval'] = (v.start, v.end if v.end < INF else 'inf'); problems.append(bad)
            p = L
        else:
            stats['views'] = stats.get('views', 0) + 1
            stats['reads'] = stats.get('reads', 0) + len(v.reads)
            if p not in opb: problems.append({'kind': 'read-point-not-a-batch-boundary', 'view': v.name, 'point': p})
            if v.name == 'final' and p != bounds_sorted[-1]:
                problems.append({'kind': 'final-state-misses-acked-writes', 'point': p, 'last': bounds_sorted[-1]})
        if v.end < INF: heapq.heappush(pend, (v.end, p))
    stats['writes'] = stats.get('writes', 0) + len(writes)
    return problems, {'seq_of': seq_of, 'keyhist': keyhist, 'tagmap': tagmap, 'views': views, 'writes': writes}

# ------------------------------------------------------------------ black-box: per-key WGL search
def check_per_key_wgl(run, sc, views, stats, budget=150000):
    """Wing&Gong / Lowe style search, per key (register with unique written values), using only the
    invoke/return history (no white-box information)."""
    problems = []
    per = {}
    for (tid, opid), o in run.ops.items():
        es = write_entries(o)
        if es is None or o.ret is None or o.res != '0': continue
        last = {}
        for (k, tag, ln) in es: last[k] = tag
        shadowed = {}
        for (k, tag, ln) in es:
            if tag is not None and last[k] != tag: shadowed[tag] = k
        for k, tag in last.items():
            per.setdefault(k, []).append((o.inv, o.ret, 'w', tag, o.text))
        for tag, k in shadowed.items():
            per.setdefault(k, []).append((o.inv, o.ret, 'x', tag, o.text))
    for v in views:
        for (k, val, o) in v.reads:
            per.setdefault(k, []).append((v.start, v.end, 'r', val[0] if val else None, v.name))
    for k, ops in per.items():
        hidden = set(t for (_, _, kd, t, _) in ops if kd == 'x')
        ops = [o for o in ops if o[2] != 'x']
        for o in ops:
            if o[2] == 'r' and o[3] in hidden:
                problems.append({'kind': 'read-of-value-overwritten-inside-its-batch', 'key': k, 'value': o[3], 'view': o[4]})
        ops.sort(key=lambda o: (o[0], o[1]))
        n = len(ops)
        if n == 0: continue
        # collapse: reads of a value never written cannot be linearized
        written = set(o[3] for o in ops if o[2] == 'w')
        impossible = [o for o in ops if o[2] == 'r' and o[3] is not None and o[3] not in written]
        if impossible:
            problems.append({'kind': 'wgl-read-of-unknown-value', 'key': k, 'value': impossible[0][3]}); continue
        invs = [o[0] for o in ops]; rets = [o[1] for o in ops]
        seen = set(); nodes = [0]
        full = (1 << n) - 1
        sys.setrecursionlimit(max(10000, n * 4 + 1000))
        def search(mask, cur):
            if mask == full: return True
            key = (mask, cur)
            if key in seen: return False
            nodes[0] += 1
            if nodes[0] > budget: raise OverflowError()
            # minimal ops: not done, inv < min ret of not-done
            mr = INF
            for i in range(n):
                if not (mask >> i) & 1 and rets[i] < mr: mr = rets[i]
            # try reads first (they do not change the state)
            progressed = False
            m2 = mask
            for i in range(n):
                if (m2 >> i) & 1: continue
                if invs[i] > mr: break
                if ops[i][2] == 'r' and ops[i][3] == cur:
                    m2 |= 1 << i; progressed = True
            if progressed:
                # linearizing a matching read immediately is always safe (it commutes)
                r = search(m2, cur)
                if not r: seen.add(key)
                return r
            for i in range(n):
                if (mask >> i) & 1: continue
                if invs[i] > mr: break
                if ops[i][2] == 'w':
                    if search(mask | (1 << i), ops[i][3]): return True
            seen.add(key)
            return False
        try:
            ok = search(0, None)
            stats['wgl_keys'] = stats.get('wgl_keys', 0) + 1
            stats['wgl_ops'] = stats.get('wgl_ops', 0) + n
            stats['wgl_nodes'] = stats.get('wgl_nodes', 0) + nodes[0]
            if not ok:
                problems.append({'kind': 'per-key-history-not-linearizable', 'key': k,
                                 'ops': [(a, b if b < INF else 'inf', kd, t, txt[:60]) for (a, b, kd, t, txt) in ops][:80]})
        except OverflowError:
            stats['wgl_inconclusive'] = stats.get('wgl_inconclusive', 0) + 1
    return problems

# ------------------------------------------------------------------ black-box: batch atomicity / snapshot chain
def check_batches_blackbox(run, sc, views, stats):
    problems = []
    batches = {}     # marker -> (op, entries, lastmap)
    writer_of = {}   # tag -> op
    dels = {}        # key -> list of ops deleting it
    for (tid, opid), o in run.ops.items():
        es = write_entries(o)
        if es is None or o.ret is None or o.res != '0': continue
        last = {}
        for (k, tag, ln) in es:
            last[k] = tag
            if tag is not None: writer_of[tag] = o
            else: dels.setdefault(k, []).append(o)
        if o.kind() == 'batch':
            mk = [k for (k, tag, ln) in es if k.startswith('m')]
            if mk: batches[mk[0]] = (o, es, last)
    vis_sets = []
    for v in views:
        rd = {}
        for (k, val, o) in v.reads: rd[k] = val
        vis = {}
        for m, (bo, es, last) in batches.items():
            if m not in rd: continue
            visible = rd[m] is not None
            vis[m] = visible
            for k, tag in last.items():
                if k == m or k not in rd: continue
                got = rd[k][0] if rd[k] else None
                stats['batch_atomicity_checks'] = stats.get('batch_atomicity_checks', 0) + 1
                if not visible:
                    if tag is not None and got == tag:
                        problems.append({'kind': 'batch-partially-visible', 'view': v.name, 'batch': bo.text[:200], 'key': k,
                                         'explain': 'payload visible but marker not'})
                else:
                    if got == tag: continue
                    if got is None:
                        # some delete of k that is not real-time-before the batch must exist
                        if not any(d.ret > bo.inv for d in dels.get(k, []) if d is not bo):
                            problems.append({'kind': 'batch-partially-visible', 'view': v.name, 'batch': bo.text[:200], 'key': k,
                                             'explain': 'marker visible, payload key missing and no later delete exists'})
                    else:
                        w = writer_of.get(got)
                        if w is not None and w is not bo and w.ret < bo.inv:
                            problems.append({'kind': 'batch-partially-visible', 'view': v.name, 'batch': bo.text[:200], 'key': k,
                                             'explain': 'marker visible but key shows a value written strictly before the batch', 'value': got})
        if vis: vis_sets.append((v, vis))
    # consistent total order: visible sets (restricted to commonly read markers) form a chain
    for i in range(len(vis_sets)):
        vi, a = vis_sets[i]
        for j in range(i + 1, len(vis_sets)):
            vj, b = vis_sets[j]
            common = [m for m in a if m in b]
            if len(common) < 2: continue
            a_not_b = [m for m in common if a[m] and not b[m]]
            b_not_a = [m for m in common if b[m] and not a[m]]
            stats['chain_pairs'] = stats.get('chain_pairs', 0) + 1
            if a_not_b and b_not_a:
                problems.append({'kind': 'snapshots-disagree-on-batch-order', 'views': [vi.name, vj.name],
                                 'only_first': a_not_b[:4], 'only_second': b_not_a[:4]})
    return problems

def check_monotone_reads(run, lin, stats):
    """reads of one key by one thread (at the latest state) never go backwards in publish order"""
    problems = []
    tagmap = lin['tagmap']; keyhist = lin['keyhist']
    last = {}
    for v in sorted(lin['views'], key=lambda v: v.start):
        if not v.latest or v.tid >= 99: continue
        for (k, val, o) in v.reads:
            if val is None or val[0] not in tagmap: continue
            s = tagmap[val[0]][1]
            key = (v.tid, k)
            if key in last:
                stats['monotone_pairs'] = stats.get('monotone_pairs', 0) + 1
                if s < last[key][0]:
                    problems.append({'kind': 'read-went-backwards', 'thread': v.tid, 'key': k, 'first': last[key][1], 'then': val[0]})
            if key not in last or s > last[key][0]: last[key] = (s, val[0])
    return problems

def check_final(run, sc):
    problems = []
    if run.final is not None and run.reopen is not None and run.final != run.reopen:
        problems.append({'kind': 'state-after-reopen-differs', 'final': run.final[:300], 'reopen': run.reopen[:300]})
    if run.final is not None and run.finalget:
        d, _ = parse_scan(run.final)
        for it in run.finalget.split(','):
            k, _, val = it.partition('=')
            if k and parse_val(val) != d.get(k):
                problems.append({'kind': 'final-get-differs-from-final-scan', 'key': k, 'get': val, 'scan': d.get(k)})
    return problems

def check_backups(run, sc, stats):
    """C20 under concurrency: every ldb_backup that returned OK must be an openable database whose contents are the
    state of the source at ONE point of the publish order between the backup's invocation and its return: after all
    the groups every member of which had returned before the backup was invoked, and before any group every member
    of which was invoked after the backup returned."""
    problems = []
    if not run.backups: return problems
    seqmap = []      # per group: list of (op, entries)
    for g in run.groups:
        mem = []
        for (t, o, cnt) in g['members']:
            op = run.ops.get((t, o))
            if op is None: mem = None; break
            mem.append(op)
        if mem is None: return problems          # incomplete trace: judged by the other oracles
        seqmap.append(mem)
    # states after each prefix of groups
    states = [dict()]
    cur = {}
    for mem in seqmap:
        for op in mem:
            for (k, tag, ln) in (write_entries(op) or []):
                if tag is None: cur.pop(k, None)
                else: cur[k] = (tag, ln)
        states.append(dict(cur))
    for b in run.backups:
        op = run.ops.get((b['tid'], b['opid']))
        if op is None or op.ret is None: continue
        stats['backups_checked'] = stats.get('backups_checked', 0) + 1
        if b['rc'] != 0:
            problems.append({'kind': 'backup-does-not-open', 'backup_op': (b['tid'], b['opid']), 'open_rc': b['rc'],
                             'detail': 'ldb_backup returned OK while other threads were writing / compacting, but the backup directory does not open'})
            continue
        got, st = parse_scan(b['scan'])
        if st != 0:
            problems.append({'kind': 'backup-does-not-open', 'backup_op': (b['tid'], b['opid']), 'detail': 'scan of the backup ended with status %s' % st}); continue
        pmin = 0; pmax = len(seqmap)
        for i, mem in enumerate(seqmap):
            if all(m.ret is not None and m.ret < op.inv for m in mem): pmin = max(pmin, i + 1)
        for i, mem in enumerate(seqmap):
            if all(m.inv > op.ret for m in mem): pmax = min(pmax, i); break
        if not any(states[p] == got for p in range(pmin, max(pmin, pmax) + 1)):
            problems.append({'kind': 'backup-contents-not-a-point-in-time', 'backup_op': (b['tid'], b['opid']), 'prefix_range': [pmin, pmax],
                             'backup': {k: v for k, v in sorted(got.items())[:30]}})
    return problems

def check_group_sync(run, sc, stats):
    """C02 under group commit: a group that contains a sync=1 writer must be followed by an fsync of the
    write-ahead log before the next group is built (only the leader of a group touches the log, so the log
    fsyncs counted between two consecutive group builds are that leader's)."""
    problems = []
    gs = run.groups
    for i, g in enumerate(gs):
        if 'lsc' not in g or not any(g.get('sync', [])): continue
        nxt = gs[i + 1].get('lsc') if i + 1 < len(gs) else getattr(run, 'joined_lsc', None)
        if nxt is None: continue
        stats['sync_groups'] = stats.get('sync_groups', 0) + 1
        if len(g['members']) > 1: stats['sync_groups_multi'] = stats.get('sync_groups_multi', 0) + 1
        # the group's writes must have been acknowledged OK for the demand to apply
        oks = [run.ops.get((t, o)) for (t, o, c) in g['members']]
        if any(o is None or o.res is None or not str(o.res).startswith('0') for o in oks): continue
        if nxt <= g['lsc']:
            problems.append({'kind': 'sync-write-acknowledged-without-log-fsync', 'group': i, 'leader': g['leader'], 'members': g['members'],
                             'sync_flags': g.get('sync'), 'log_fsyncs_before': g['lsc'], 'log_fsyncs_at_next_group': nxt})
    return problems

def check_group_model(run, model_exe, stats):
    """Every group commit observed (the writer queue as the leader saw it: batch sizes, sync flags, flush requests)
    is replayed on the model of ldb_build_batch_group (Group.v): the members merged must be the model's."""
    problems = []
    gs = [g for g in run.groups if g.get('queue')]
    if not gs or not model_exe: return problems
    lines = ['group_case ' + ','.join('%s:%s:%s' % (sz, sy, b) for (t, sz, sy, b) in g['queue']) for g in gs]
    outs = vlib.run_lines(model_exe, lines)
    for g, o in zip(gs, outs):
        stats['groups_vs_model'] = stats.get('groups_vs_model', 0) + 1
        try: n = int(o.split(' ')[0].split('=')[1])
        except Exception:
            problems.append({'kind': 'group-model-error', 'detail': o[:200]}); continue
        want = [int(t) for (t, sz, sy, b) in g['queue'][:n] if b == '1']
        got = [m[0] for m in g['members']]
        if len(want) > 1: stats['groups_vs_model_multi'] = stats.get('groups_vs_model_multi', 0) + 1
        if want != got:
            # not the replica's choice (e.g. a different size cap): judge the observed group by the GUARD the theorems need
            # (Lts.group_ok: the leader plus the batches of a prefix of the queue; a sync member only under a sync leader)
            withb = [(int(t), sy) for (t, sz, sy, b) in g['queue'] if b == '1']
            prefix_ok = len(got) >= 1 and got == [t for t, _ in withb[:len(got)]] and g['queue'] and int(g['queue'][0][0]) == got[0]
            lsync = g['queue'][0][2] == '1' if g['queue'] else False
            sync_ok = all(sy != '1' or lsync for _, sy in withb[:len(got)])
            if prefix_ok and sync_ok:
                stats['group_policy_divergence'] = stats.get('group_policy_divergence', 0) + 1
            else:
                problems.append({'kind': 'group-violates-guard', 'queue': g['queue'], 'merged_by_implementation': got, 'merged_by_model': want,
                                 'detail': 'ldb_build_batch_group merged writers %s: not the leader plus the batches of a prefix of the queue, or a sync writer under a non-sync leader (model: %s)' % (got, want)})
    return problems

def check_c08_run(run, sc, stats):
    problems, lin = check_linearizable_publish_order(run, sc, stats)
    problems += check_per_key_wgl(run, sc, lin['views'], stats)
    problems += check_batches_blackbox(run, sc, lin['views'], stats)
    problems += check_monotone_reads(run, lin, stats)
    problems += check_final(run, sc)
    problems += check_backups(run, sc, stats)
    return problems

def check_liveness(run, sc, faults=False):
    """C09: the run ended by itself, every invoked operation returned, close returned"""
    problems = []
    if run.stuck or run.rc == 3:
        problems.append({'kind': 'stuck', 'report': run.stuck[:16]})
    elif run.timeout:
        problems.append({'kind': 'timeout-without-watchdog-report', 'tail': run.raw_tail[-600:]})
    elif run.rc != 0:
        problems.append({'kind': 'harness-crash', 'rc': run.rc, 'stderr': run.stderr[-600:], 'tail': run.raw_tail[-400:]})
    else:
        n_expected = sum(1 for ops in sc.threads for o in ops if not o.startswith('sleep'))
        n_inv = sum(1 for (t, _) in run.ops if t < 99)
        if n_inv != n_expected:
            problems.append({'kind': 'operations-missing', 'invoked': n_inv, 'expected': n_expected})
        for key, o in run.ops.items():
            if o.ret is None:
                problems.append({'kind': 'operation-never-returned', 'op': o.text, 'tid': o.tid})
        if not run.closed or (99, 0) not in run.ops or run.ops[(99, 0)].ret is None:
            problems.append({'kind': 'close-did-not-return'})
        for key, o in run.ops.items():
            if not faults and o.kind() in ('put', 'del', 'batch', 'flush', 'backup') and o.res not in ('0', None):
                problems.append({'kind': 'api-error', 'op': o.text[:100], 'result': o.res})
    return problems
