"""C03 -- a process crash loses nothing that was acknowledged.
Theorems: coq/theories/Properties_C03.v. Tie: K3 byte-exact written image at every syscall boundary."""
import vlib, k3check

OPTS = [{'write_buffer': 65536, 'reuse_logs': 0}, {'write_buffer': 65536, 'reuse_logs': 0, 'paranoid': 1},
        {'write_buffer': 262144, 'reuse_logs': 0, 'compression': 1}, {'write_buffer': 65536, 'reuse_logs': 1}, {'write_buffer': 65536, 'reuse_logs': 1, 'paranoid': 1}]

def known_sig(r, p):
    if r['opts'].get('reuse_logs') == 1 and p['kind'] in ('followup-contents', 'reopen-after-recovery-failed', 'contract', 'open-failed'):
        return 'C05:reuse_logs-append-after-torn-tail'
    return None

def run(rep, tier, seed):
    pr = vlib.coq_check('C03')
    pr2 = vlib.coq_check('C03b')      # the buffered writable file: every record reaches write(2) before add_record returns
    pr['theorems'] += pr2['theorems']; pr['ok'] = pr['ok'] and pr2['ok']; pr['closed_count'] = pr.get('closed_count', 0) + pr2.get('closed_count', 0)
    pr['axioms'] = sorted(set(pr['axioms']) | set(pr2['axioms'])); pr['log'] += pr2['log']; pr['file'] += ' + coq/theories/Properties_C03b.v'
    rep.add_proof(pr)
    if not pr['ok']:
        rep.violation({'kind': 'proof-broken', 'log': pr['log'][-3000:], 'forbidden': pr['forbidden']}, suffix='no-failing-input-found')
    nh, nops, mp = (8, 30, 150) if tier == 'quick' else (96, 60, 100000)
    k3check.run_crash(rep, 'C03', tier, seed, ['written'], nh, nops, mp, OPTS, known_sig=known_sig, nested=(40 if tier == 'quick' else 6))
    k3check.log_gc_race_segment(rep, tier, seed + 77, label='threaded-build-log-unlink-image')      # pthread build: images taken at every log unlink while the client keeps writing
    import extra_wfile
    extra_wfile.run_segment(rep, tier, seed)      # predicted write(2)/fsync sequence of the WFile model vs the traced calls
    rep.cov['rule'] = ('write histories (batches with marker keys, mixed sync flags, flush/compact/reopen) run under libc interposition; '
                       'for every (sampled in quick) syscall boundary the byte-exact image of everything that reached write(2) is '
                       'materialised and the real ldb_open + full scan is compared with the contract: contents = all acknowledged batches in order '
                       '(+ possibly the one in flight); plus, on the pthread build, a directory copy at every write-ahead-log unlink of a continuously writing client is recovered and must show every write acknowledged before the unlink; distinct_nontrivial = distinct crash images recovered')

def replay(rep, path):
    return k3check.replay_crash(rep, path)
