"""C07 -- K2-tied property (see DESIGN.md section 6 C07). Theorems: coq/theories/Properties_C07.v."""
import vlib, k2check

RULES = {
 'C06': 'histories with up to dozens of simultaneously live snapshots taken/released at random points, per-level compactions while held; every get/scan at a snapshot is compared with the frozen sorted-map view',
 'C07': 'random iterator scripts (first/last/seek/seek_ge/gt/le/lt/next/prev, direction changes at every position, targets present/absent/before-first/after-last/empty) on states spread over memtable, level-0 and deeper levels, one-shot and long-lived iterators that stay open across later writes, flushes and compactions; oracle = cursor over the sorted live view',
 'C13': 'histories with long-lived iterators and snapshots across flushes/compactions/reopen; at every quiescent layout point the directory listing is compared with the live file set; every file number created must be fresh',
 'C14': 'histories with manual compaction of arbitrary levels/ranges, flushes, reopen; after every structural change the reported layout is compared with the model layout, the executable invariant inv_b is evaluated on the model state rebuilt from the observed edits and decoded tables, and recorded smallest/largest keys are compared with decoded content',
}

def run(rep, tier, seed):
    pr = vlib.coq_check('C07'); rep.add_proof(pr)
    if not pr['ok']:
        rep.violation({'kind': 'proof-broken', 'log': pr['log'][-3000:], 'forbidden': pr['forbidden']}, suffix='no-failing-input-found')
    nh, nops = (32, 90) if tier == 'quick' else (1200, 300)
    import histgen
    many_tables_segment(rep, tier, seed)
    k2check.run_k2(rep, 'C07', tier, seed, 'c07', nh, nops, extra_histories=[histgen.huge_value_history()] + [histgen.corpus_histories()[i] for i in (3, 7)])
    rep.cov['rule'] = RULES['C07'] + '; distinct_nontrivial = histories with >= 1 flush and >= 1 non-trivial compaction'

def many_tables_segment(rep, tier, seed):
    """More table files than the environment keeps open permanently (50 read-only descriptors; mmap off): every block read
    of the others opens and closes a temporary descriptor. Reads, scans and seeks over all of them must stay complete and
    correct round after round, and the number of open descriptors must not grow from one round to the next."""
    import os, k2lib, k3lib
    out = vlib.scratch_dir(); k2 = vlib.build_k2(out, 'nothread')
    rng = vlib.Rng(seed ^ 0x7AB1)
    n = 70 if tier == 'quick' else 120
    keys = [b't%04d' % i for i in range(n)]
    ops = ['open']
    for i, k in enumerate(keys):
        ops += ['put %s @%d:%d' % (k.hex(), rng.range(30, 90), i % 256), 'compact %s %s' % (k.hex(), k.hex())]
    ops.append('layout')
    rounds = 3 if tier == 'quick' else 12
    marks = []
    for r in range(rounds):
        ops += ['get %s -' % k.hex() for k in keys] + ['scan -', 'rscan -', 'iter - ' + ','.join('S%s' % keys[(7 * j + r) % n].hex() for j in range(12))]
        marks.append(len(ops)); ops.append('fds')
    opts = {'write_buffer': 65536, 'mmap': 0, 'cache': 0, 'max_open_files': 1000, 'bloom': 10, 'nofile': 256}    # 256 / 5 = 51 permanent read-only descriptors
    rc, txt, err = k2lib.run_c(k2, os.path.join(out, 'mt'), opts, ops)
    calls = k2lib.parse_trace(txt)
    rep.evaluated(len(calls)); rep.nontrivial(('many-tables', n, rounds))
    probs = []
    if rc != 0 or len(calls) < len(ops): probs.append('run ended early (rc=%s, %d of %d calls)' % (rc, len(calls), len(ops)))
    else:
        for c, o in zip(calls, ops):
            a = o.split(' ')
            if a[0] == 'get' and not str(c['ret']).startswith('found'): probs.append('%s returned %s' % (o, c['ret'])); break
            if a[0] in ('scan', 'rscan', 'iter') and not str(c['ret']).endswith('status=0'): probs.append('%s ended with %s' % (o[:40], str(c['ret'])[-40:])); break
            if a[0] == 'scan' and len(k2lib.parse_view(c['ret'].rsplit(' status=', 1)[0])) != n: probs.append('scan returned %d of %d keys' % (len(k2lib.parse_view(c['ret'].rsplit(' status=', 1)[0])), n)); break
        fds = [int(calls[m]['ret']) for m in marks]
        rep.cov['many_tables_open_descriptors_per_round'] = fds
        if fds[-1] > fds[0]: probs.append('open descriptors grow from round to round: %s' % fds)
    for pb in probs[:2]:
        rep.violation({'kind': 'many-tables-reads', 'detail': pb, 'options': opts, 'history': ops[:8] + ['...'] + ops[-6:], 'tables': n})

def replay(rep, path):
    return k2check.replay_k2(rep, path)
