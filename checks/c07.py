"""C07 -- K2-tied property (see DESIGN.md section 6 C07). Theorems: coq/theories/Properties_C07.v."""
import vlib, k2check

RULES = {
 'C06': 'histories with up to dozens of simultaneously live snapshots taken/released at random points, per-level compactions while held; every get/scan at a snapshot is compared with the frozen sorted-map view',
 'C07': 'random iterator scripts (first/last/seek/seek_ge/gt/le/lt/next/prev, direction changes at every position, targets present/absent/before-first/after-last/empty) on states spread over memtable, level-0 and deeper levels, one-shot and long-lived iterators that stay open across later writes, flushes and compactions; oracle = cursor over the sorted live view',
 'C13': 'histories with long-lived iterators and snapshots across flushes/compactions/reopen; at every quiescent layout point the directory listing is compared with the live file set; every file number created must be fresh',
 'C14': 'histories with manual compaction of arbitrary levels/ranges, flushes, reopen; after every structural change the reported layout is compared with the model layout, the executable invariant inv_b is evaluated on the model state rebuilt from the observed edits and decoded tables, and recorded smallest/largest keys are compared with decoded content',
}

def run(rep, tier, seed):
    pr = vlib.coq_check('C07'); rep.add_proof(pr)
    if not pr['ok']:
        rep.violation({'kind': 'proof-broken', 'log': pr['log'][-3000:], 'forbidden': pr['forbidden']}, suffix='no-failing-input-found')
    nh, nops = (32, 90) if tier == 'quick' else (1200, 300)
    import histgen
    k2check.run_k2(rep, 'C07', tier, seed, 'c07', nh, nops, extra_histories=[histgen.huge_value_history()] + [histgen.corpus_histories()[i] for i in (3, 7)])
    rep.cov['rule'] = RULES['C07'] + '; distinct_nontrivial = histories with >= 1 flush and >= 1 non-trivial compaction'

def replay(rep, path):
    return k2check.replay_k2(rep, path)
