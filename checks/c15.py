"""C15 -- write-ahead-log framing is exact, standard and torn-tail tolerant.
Theorems: coq/theories/Properties_C15.v (over LogFormat.v / Crc32c.v).
Tie: K1 byte-exact differential of lcdb's log writer/reader/CRC against the extracted model,
plus property oracles evaluated on the implementation's own outputs."""
import os, sys, json
import vlib
from k1util import *

B = 32768

def gen_write_cases(rng, tier):
    cases = []
    nb = 220 if tier == 'quick' else 4000
    # (1) small records placed at every interesting block offset via the initial length
    edge_offs = [0, 1, 6, 7, 8, B - 15, B - 14, B - 13, B - 8, B - 7, B - 6, B - 5, B - 1, B, B + 1, 3 * B - 7, 3 * B - 6]
    for off in edge_offs:
        for ln in [0, 1, 5, 6, 7, 8, 20]:
            cases.append('logwrite %x %s' % (off, pat(ln, rng.below(256))))
    for _ in range(nb):
        off = rng.choice([rng.below(B), B - rng.below(40), rng.below(1 << 20), rng.below(40)])
        k = rng.range(1, 6)
        recs = []
        for _ in range(k):
            c = rng.below(10)
            if c < 5: ln = rng.below(40)
            elif c < 8: ln = rng.below(300)
            elif c < 9: ln = 0
            else: ln = rng.range(B - 40, B + 40) if rng.chance(1, 4) else rng.below(3000)
            recs.append(pat(ln, rng.below(256)) if ln > 24 or rng.chance(1, 2) else hx(rng.bytes(ln)))
        cases.append('logwrite %x %s' % (off, ','.join(recs)))
    # (2) big records around block multiples, all from offset classes
    big = [B - 7, B - 6, B - 8, 2 * B - 14, 2 * B - 13, 2 * B - 15, 3 * B - 21, 3 * B + 16, 65535, 65536, 65529, 65545]
    if tier != 'quick':
        big += [rng.below(3 * B + 17) for _ in range(300)] + [1 << 20]
    for ln in big:
        cases.append('logwrite %x %s,%s' % (rng.choice([0, 7, B - 7, B - 9, rng.below(B)]), pat(ln, rng.below(256)), pat(3, 1)))
    if tier != 'quick':
        # every length 0..3*B+16 at offset 0 in strides, every block offset class for short records
        for ln in range(0, 3 * B + 17, 97):
            cases.append('logwrite %x %s' % (rng.below(B), pat(ln, ln & 255)))
        for off in range(B - 64, B + 1):
            for ln in (0, 1, 30, 70):
                cases.append('logwrite %x %s,%s' % (off, pat(ln, 7), pat(2, 9)))
    return cases

def py_records(case):
    """records (bytes) of a logwrite case"""
    _, off, recs = case.split(' ')
    return int(off, 16), [expand(r) for r in (recs.split(',') if recs != '.' else [])]

def parse_events(line):
    recs, drops = [], []
    if line.strip() == '.':
        return recs, drops
    for t in line.split(' '):
        if t.startswith('R'):
            recs.append(unhx(t[1:]))
        elif t.startswith('D'):
            drops.append(int(t[1:], 16))
    return recs, drops

def walk_headers(data):
    """Physical layout of a log image (no CRC check): list of (block_index, pos_in_file, type, length)."""
    out = []
    for bi in range(0, len(data), B):
        blk = data[bi:bi + B]; p = 0
        while len(blk) - p >= 7:
            ln = blk[p + 4] | (blk[p + 5] << 8); ty = blk[p + 6]
            out.append((bi // B, bi + p, ty, ln))
            if p + 7 + ln > len(blk):
                break
            p += 7 + ln
    return out

def classify_silent_loss(orig, alt, pos):
    """Why may a single alteration at [pos] lose records without a report?"""
    nblocks = (len(orig) + B - 1) // B
    bi = pos // B
    # find the header region containing pos in the ORIGINAL layout
    for (b, p, ty, ln) in walk_headers(orig):
        if p <= pos < p + 7 + ln:
            a_ln = alt[p + 4] | (alt[p + 5] << 8); a_ty = alt[p + 6]
            if a_ty == 0 and a_ln == 0:
                return 'zero-type-zero-length-header-silent'
            blk_end = min((b + 1) * B, len(alt))
            if p + 7 + a_ln > blk_end and b == nblocks - 1 and len(alt) % B != 0:
                return 'allowed:length-runs-past-eof-like-a-cut'
            if p + 7 + a_ln > blk_end and b == nblocks - 1:
                return 'allowed:length-runs-past-eof-like-a-cut'
            return 'silent-loss'
    return 'allowed:trailer-or-beyond'

def run(rep, tier, seed):
    rng = vlib.Rng(seed)
    pr = vlib.coq_check('C15')
    rep.add_proof(pr)
    if not pr['ok']:
        rep.violation({'kind': 'proof-broken', 'theorems': pr['theorems'], 'log': pr['log'][-3000:],
                       'forbidden': pr['forbidden'], 'own_axioms': pr['own_axioms']}, suffix='no-failing-input-found')
    out = vlib.scratch_dir()
    k1 = vlib.build_k1(out, 'nothread')
    model = vlib.ensure_model()
    hist = {}
    def both(cases, what):
        c = vlib.run_lines(k1, cases, shards=4)
        m = vlib.run_lines(model, cases, shards=vlib.NCPU)
        rep.evaluated(len(cases)); hist[what] = hist.get(what, 0) + len(cases)
        bad = vlib.diff_cases(rep, cases, c, m, what)
        return c, m, bad

    # ---- CRC-32C against the bit-serial reference: all lengths/alignments + masks
    crc_cases = []
    maxlen = 300 if tier == 'quick' else 4096
    for ln in list(range(0, 70)) + [rng.below(maxlen) for _ in range(60 if tier == 'quick' else 1500)]:
        for al in ([0, 1, 3, 7] if tier == 'quick' else range(16)):
            crc_cases.append('crc_al %x %s' % (al, hx(rng.bytes(ln))))
    crc_cases += ['crc %s' % pat(rng.below(70000), rng.below(256)) for _ in range(4 if tier == 'quick' else 60)]
    crc_cases += ['crc 313233343536373839', 'crc -']
    for _ in range(100):
        v = rng.choice([0, 1, 0xffffffff, 0x80000000, 0x7fff, 0x8000, rng.below(1 << 32)])
        crc_cases += ['crc_mask %x' % v, 'crc_unmask %x' % v, 'crc_extend %x %s' % (v, hx(rng.bytes(rng.below(40))))]
    both(crc_cases, 'crc32c')

    # ---- writer, byte exact
    wcases = gen_write_cases(rng, tier)
    c_w, m_w, bad = both(wcases, 'log-writer-bytes')
    for i in (0, len(wcases) // 2):
        rep.sample({'case': wcases[i], 'bytes_len': len(c_w[i]) // 2})

    # ---- reader on (prefix ++ written) images: round trip, cuts, alterations, garbage
    rcases = []; meta = []
    for i, wc in enumerate(wcases):
        if c_w[i].startswith('CRASH') or c_w[i] != m_w[i]:
            continue
        off, recs = py_records(wc)
        body = unhx(c_w[i])
        o = off % B
        if o == 0:
            base = []
        elif o < 7:
            continue
        else:
            base = [bytes([(j * 5 + 1) & 255 for j in range(o - 7)])]   # one FULL record filling [0, o)
        meta.append((i, off, recs, body, base))
    # prefixes are produced by the implementation itself (so the image is a real log)
    pre_cases = ['logwrite 0 %s' % hx(m[4][0]) for m in meta if m[4]]
    pre_out = vlib.run_lines(k1, pre_cases) if pre_cases else []
    pi = 0
    images = []
    for (i, off, recs, body, base) in meta:
        if base:
            pre = unhx(pre_out[pi]); pi += 1
            if len(pre) != off % B:
                continue
            images.append((base + recs, pre + body))
        else:
            images.append((recs, body))
    nt = 0
    tags = []
    budget = 6 << 20 if tier == 'quick' else 200 << 20
    used = 0
    for (recs, img) in images:
        if used > budget:
            break
        rcases.append('logread 1 %s' % hx(img)); tags.append(('roundtrip', recs, img, None)); used += len(img)
        # cuts: record boundaries +-1, block boundaries +-8, random
        cuts = set()
        n = len(img)
        for (b, p, ty, ln) in walk_headers(img):
            for d in (-1, 0, 1, 6, 7, 8):
                cuts.add(p + d)
            cuts.add(p + 7 + ln - 1)
        for k in range(B, n + 1, B):
            for d in range(-8, 9):
                cuts.add(k + d)
        cuts = sorted(c for c in cuts if 0 <= c < n)
        if len(cuts) > (6 if n > 4000 else 14):
            cuts = [rng.choice(cuts) for _ in range(6 if n > 4000 else 14)]
        cuts += [rng.below(n + 1) for _ in range(2)]
        for c in cuts:
            if n > 20000 and tier == 'quick' and rng.chance(2, 3):
                continue
            rcases.append('logread 1 %s' % hx(img[:c])); tags.append(('cut', recs, img, c)); used += c
        # alterations
        if n > 0 and (n < 20000 or rng.chance(1, 3)):
            for _ in range(6 if n < 4000 else 2):
                pos = rng.below(n); kind = rng.below(5)
                alt = bytearray(img)
                if kind <= 1: alt[pos] ^= 1 << rng.below(8)
                elif kind == 2: alt[pos] = 0
                elif kind == 3: alt[pos] = 0xff
                else:
                    s = (pos // 512) * 512
                    alt[s:s + 512] = bytes(min(512, n - s))
                if bytes(alt) == img:
                    continue
                rcases.append('logread 1 %s' % hx(bytes(alt))); tags.append(('alter' if kind < 4 else 'sector', recs, img, (pos, bytes(alt)))); used += n
                if rng.chance(1, 6):
                    rcases.append('logread 0 %s' % hx(bytes(alt))); tags.append(('nochecksum', recs, img, None)); used += n
    # alterations aimed at headers (type / length bytes), where the case splits of the proof are
    for (recs, img) in images[:200 if tier == 'quick' else 2000]:
        hs = walk_headers(img)
        if not hs or len(img) > 3000:
            continue
        (b, p, ty, ln) = rng.choice(hs)
        for (field, val) in ((6, 0), (6, img[p + 6] ^ 1), (4, img[p + 4] ^ 1), (5, img[p + 5] ^ 128), (4, 0)):
            alt = bytearray(img); alt[p + field] = val
            if bytes(alt) != img:
                rcases.append('logread 1 %s' % hx(bytes(alt))); tags.append(('alter', recs, img, (p + field, bytes(alt))))
    # whole-header zeroing (what a preallocated / zero-filled region looks like), aimed at the fragments of
    # multi-block records: the reader must not carry a fragment chain across such a hole
    nz = 0
    for (recs, img) in images:
        hs = walk_headers(img)
        frag_heads = [h for h in hs if h[2] in (3, 4)]           # MIDDLE / LAST fragments
        if not frag_heads or nz >= (40 if tier == 'quick' else 1500):
            continue
        for (b, p, ty, ln) in frag_heads[:3]:
            for width in (7, 3):
                alt = bytearray(img)
                if width == 7: alt[p:p + 7] = bytes(7)
                else: alt[p + 4:p + 7] = bytes(3)
                rcases.append('logread 1 %s' % hx(bytes(alt))); tags.append(('zerohdr', recs, img, (p, bytes(alt)))); nz += 1
    for (recs, img) in images[:100 if tier == 'quick' else 2000]:
        hs = walk_headers(img)
        if len(hs) < 2 or len(img) > 3000:
            continue
        (b, p, ty, ln) = rng.choice(hs)
        alt = bytearray(img); alt[p:p + 7] = bytes(7)
        rcases.append('logread 1 %s' % hx(bytes(alt))); tags.append(('zerohdr', recs, img, (p, bytes(alt))))
    # garbage and splices
    for _ in range(150 if tier == 'quick' else 5000):
        k = rng.below(4)
        if k == 0: g = rng.bytes(rng.below(200))
        elif k == 1 and images:
            a = rng.choice(images)[1]; b2 = rng.choice(images)[1]
            g = (a[:rng.below(len(a) + 1)] + b2[rng.below(len(b2) + 1):])[:70000]
        elif k == 2: g = bytes(rng.below(40)) + rng.bytes(rng.below(30))
        else: g = rng.bytes(4) + bytes([rng.below(9), rng.below(2), rng.below(7)]) + rng.bytes(rng.below(20))
        rcases.append('logread %d %s' % (rng.below(2), hx(g))); tags.append(('garbage', None, g, None))
    c_r, m_r, bad = both(rcases, 'log-reader-events')

    # ---- property oracles on the implementation's own answers
    nviol = 0
    for case, tag, out_c in zip(rcases, tags, c_r):
        kind, recs, img, extra = tag
        hist['oracle-' + kind] = hist.get('oracle-' + kind, 0) + 1
        if out_c.startswith('CRASH') or out_c.startswith('EXC'):
            continue  # already reported by the diff
        got, drops = parse_events(out_c)
        if kind == 'roundtrip':
            rep.nontrivial(('rt', len(img), len(recs)))
            if got != recs or drops:
                rep.violation({'kind': 'oracle-roundtrip', 'case': case[:20000], 'implementation': out_c[:2000],
                               'expected_records': [hx(r) for r in recs][:50]})
        elif kind == 'cut':
            rep.nontrivial(('cut', len(img), extra))
            ok = drops == [] and got == recs[:len(got)]
            if ok:
                # exactly the records wholly before the cut: recompute end offsets from the physical layout
                ends = []; acc = 0
                hs = walk_headers(img)
                # end offset of each logical record = end of its FULL/LAST fragment
                for (b, p, ty, ln) in hs:
                    if ty in (1, 4):
                        ends.append(p + 7 + ln)
                want = sum(1 for e in ends if e <= extra)
                ok = (len(got) == want)
            if not ok:
                rep.violation({'kind': 'oracle-cut', 'cut': extra, 'case': case[:20000], 'implementation': out_c[:2000]})
        elif kind in ('alter', 'sector', 'garbage', 'nochecksum', 'zerohdr'):
            if kind in ('alter', 'sector', 'zerohdr'):
                pos, alt = extra
                rep.nontrivial((kind, len(img), pos))
                # never a record that was not written
                invented = [r for r in got if r not in recs]
                if invented:
                    rep.violation({'kind': 'oracle-invented-record', 'case': case[:20000], 'implementation': out_c[:2000]})
                elif kind == 'alter' and got != recs and not drops:
                    why = classify_silent_loss(img, alt, pos)
                    if not why.startswith('allowed:'):
                        rep.violation({'kind': 'oracle-silent-loss', 'why': why, 'position': pos, 'case': case[:20000],
                                       'implementation': out_c[:2000]}, signature='C15:' + why)
                    else:
                        hist['silent-allowed'] = hist.get('silent-allowed', 0) + 1
    rep.cov['rule'] = ('cases = CRC inputs (all lengths 0..69 x alignments, random longer), log-writer cases (initial offsets around '
                       'block boundaries x record lengths 0..3*32768+16), reader cases derived from the written images (round trip, cut at '
                       'record/block boundaries +-k and random offsets, bit flips / byte overwrites / zeroed sectors, header-targeted '
                       'alterations, garbage and splices); distinct_nontrivial counts distinct (kind, image length, cut-or-alter position) '
                       'of reader cases on real log images')
    rep.cov['input_distribution'] = hist
    rep.cov['traces_validated_against_impl'] = len(rcases) + len(wcases) + len(crc_cases)
    rep.assumptions += ['CRC-32C collision freedom is not assumed by any C15 theorem except where stated (crc_faithful)',
                        'log reader modelled for initial_offset = 0 (the only value lcdb passes)']

def replay(rep, path):
    r = json.load(open(path))
    out = vlib.scratch_dir(); k1 = vlib.build_k1(out); model = vlib.ensure_model()
    c = vlib.run_lines(k1, [r['case']]); m = vlib.run_lines(model, [r['case']])
    print('implementation:', c[0][:300]); print('model         :', m[0][:300])
    return 0 if c == m else 1
