"""C08 -- concurrent operations are linearizable (and C04(b): batches stay atomic under group commit).
Theorems: coq/theories/Properties_C08.v (Lts.v / LtsProofs.v).  Tie: K3-style interposition on the
pthread build (harness/k8.c): real multi-threaded runs under perturbed schedules; every history is
decided against the sorted-map specification."""
import vlib, k8check

def run(rep, tier, seed):
    pr = vlib.coq_check('C08'); rep.add_proof(pr)
    if not pr['ok']:
        rep.violation({'kind': 'proof-broken', 'log': pr['log'][-3000:], 'forbidden': pr['forbidden']}, suffix='no-failing-input-found')
    k8check.run_c08(rep, tier, seed)

def replay(rep, path):
    return k8check.replay(rep, path, 'C08')
