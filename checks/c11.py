"""C11 -- corrupted files are detected, never turned into wrong answers.
Tie: fault enumeration on generated databases (closed cleanly): for (sampled in quick / every in
thorough) byte position of every table / log / MANIFEST / CURRENT file x alterations (bit flips,
0x00, 0xFF, truncation at that offset, zero-filled 512 B sector), open with paranoid_checks +
verify_checksums, look up every key and scan both ways; each answer must be correct or an error."""
import os, shutil, subprocess, json
from concurrent.futures import ThreadPoolExecutor
import vlib, k2lib, k3lib

def build_db(k2, dbdir, rng, opts, heavy):
    keys = [b'a', b'b', b'ab', b'ba', b'\xffk', b'', b'q' * 30] + [b'k%03d' % i for i in range(40 if heavy else 12)]
    ops = ['open']; batches = []
    def batch():
        bi = len(batches); ups = [(b'm%05d' % bi, '@%d:%d' % (rng.range(1, 40), bi % 256))]
        for _ in range(rng.range(1, 6)):
            k = rng.choice(keys)
            if rng.chance(1, 8): ups.append((k, None))
            else: ups.append((k, '@%d:%d' % (rng.range(1, 3000 if heavy else 300), rng.below(256))))
        ops.append('batch %s 0' % ','.join(('p%s:%s' % (k3lib.khex(k), v)) if v is not None else ('d%s' % k3lib.khex(k)) for k, v in ups))
        batches.append({'op_index': len(ops) - 1, 'sync': False, 'updates': ups})
    for phase in range(3):
        for _ in range(rng.range(6, 14)): batch()
        ops.append('flush')
        if phase == 1: ops.append('crange 0 * *')
    for _ in range(rng.range(3, 8)): batch()          # stays in the log
    # one batch whose record spans several 32 KiB log blocks (FIRST / MIDDLE / LAST fragments)
    bi = len(batches); ups = [(b'm%05d' % bi, '@9:%d' % (bi % 256)), (b'big1', '@40000:7'), (b'big2', '@70000:9')]
    ops.append('batch %s 0' % ','.join('p%s:%s' % (k3lib.khex(k), v) for k, v in ups))
    batches.append({'op_index': len(ops) - 1, 'sync': False, 'updates': ups})
    for _ in range(2): batch()
    ops.append('layout')
    rc, out, err = k2lib.run_c(k2, dbdir, opts, ops)
    calls = k2lib.parse_trace(out)
    content = k3lib.apply_batches(batches, range(len(batches)))
    allkeys = sorted(set(k for b in batches for k, _ in b['updates']))
    return content, allkeys, batches, calls[-1]['dir'] if calls else []

def mutate(data, pos, kind, rng):
    b = bytearray(data)
    if kind == 'flip': b[pos] ^= 1 << rng.below(8)
    elif kind == 'zero': b[pos] = 0
    elif kind == 'ff': b[pos] = 0xff
    elif kind == 'trunc': b = b[:pos]
    elif kind == 'zero7': b[pos:pos + 7] = bytes(min(7, len(b) - pos))
    elif kind == 'sector':
        s = (pos // 512) * 512; b[s:s + 512] = bytes(min(512, len(b) - s))
    return bytes(b)

def one_case(args):
    k2, src, work, opts, fname, pos, kind, seed, content, allkeys, batches = args
    rng = vlib.Rng(seed)
    if os.path.exists(work): shutil.rmtree(work)
    shutil.copytree(src, work)     # private copies: recovery of a damaged MANIFEST may truncate or unlink any file
    p = os.path.join(work, fname)
    data = open(p, 'rb').read()
    new = mutate(data, pos, kind, rng)
    if new == data:
        shutil.rmtree(work, ignore_errors=True); return None
    open(p, 'wb').write(new)
    ops = ['open'] + ['get %s -' % k3lib.khex(k) for k in allkeys] + ['scan -', 'rscan -']
    # seeks to present keys: an iterator that skips a damaged block must not come to rest on a later entry with status OK
    seek_keys = [k for k in allkeys if k in content and len(k) > 0]
    seek_keys = seek_keys[::max(1, len(seek_keys) // 16)][:16]
    ops += ['iter - S%s' % k3lib.khex(k) for k in seek_keys]
    try:
        r = subprocess.run([k2, work] + ['%s=%s' % kv for kv in sorted(opts.items())], input=('\n'.join(ops) + '\n').encode(),
                           capture_output=True, timeout=60)
        out = r.stdout.decode('latin1'); rc = r.returncode
    except subprocess.TimeoutExpired:
        out = ''; rc = -999
    shutil.rmtree(work, ignore_errors=True)
    calls = k2lib.parse_trace(out)
    where = {'file': fname, 'pos': pos, 'alteration': kind, 'size': len(data)}
    res = {'where': where, 'problems': [], 'open_failed': False, 'errors': 0, 'detected': False}
    if rc != 0 or not calls or calls[0]['ret'] is None:
        res['problems'].append(dict(where, kind='crash-or-hang', detail='rc=%d' % rc)); return res
    if calls[0]['ret'].split(' ')[0] != '0':
        res['open_failed'] = True; res['detected'] = True; return res
    is_table = fname.endswith('.ldb') or fname.endswith('.sst')
    if is_table:
        expect = content
    else:
        # log / MANIFEST / CURRENT damage may cost records: contents must still be whole batches in order
        expect = None
    got_map = {}
    for c, opline in zip(calls[1:], ops[1:]):
        a = opline.split(' ')
        if c['ret'] is None:
            res['problems'].append(dict(where, kind='crash-or-hang', detail='no result for ' + opline[:40])); break
        if a[0] == 'get':
            k = bytes.fromhex(a[1]) if a[1] != '-' else b''
            if c['ret'].startswith('err'): res['errors'] += 1; res['detected'] = True; continue
            v = c['ret'].split(' ', 1)[1] if c['ret'].startswith('found') else None
            got_map[k] = v
            if expect is not None and expect.get(k) != v:
                res['problems'].append(dict(where, kind='wrong-answer', detail='get %s returned %s, correct %s' % (a[1], c['ret'], expect.get(k))))
        elif a[0] == 'iter':
            body, status = c['ret'].rsplit(' status=', 1)
            if status != '0':
                res['errors'] += 1; res['detected'] = True
            elif expect is not None:
                want_k = a[2][1:]
                got_k = body.split(':', 1)[0] if body not in ('!', '') else None
                k = bytes.fromhex(want_k)
                if got_k != want_k or (body.split(':', 1)[1] if ':' in body else None) != expect.get(k):
                    res['problems'].append(dict(where, kind='silent-wrong-seek', detail='seek(%s) came to rest on %s with status OK; the key is present with value %s' % (want_k, body[:80], expect.get(k))))
        else:
            body, status = c['ret'].rsplit(' status=', 1)
            ents = k2lib.parse_view(body)
            if a[0] == 'rscan': ents = list(reversed(ents))
            if status != '0':
                res['errors'] += 1; res['detected'] = True
                # the scan as a whole reports an error: entries yielded before it are not a result
            else:
                m = dict(ents)
                if expect is not None and m != expect:
                    bad = [k.hex() for k in set(m) | set(expect) if m.get(k) != expect.get(k)][:5]
                    res['problems'].append(dict(where, kind='silent-wrong-scan', detail='%s differs at keys %s with status OK' % (a[0], bad)))
                if expect is None:
                    present = {i for i, b in enumerate(batches) if b['updates'][0][0] in m}
                    if k3lib.apply_batches(batches, present) != m:
                        res['problems'].append(dict(where, kind='not-whole-batches', detail='after %s damage the contents are not an in-order application of whole batches' % fname))
    return res

def run(rep, tier, seed):
    pr = vlib.coq_check('C11'); rep.add_proof(pr)
    if not pr['ok']:
        rep.violation({'kind': 'proof-broken', 'log': pr['log'][-3000:], 'forbidden': pr['forbidden']}, suffix='no-failing-input-found')
    out = vlib.scratch_dir(); k2 = vlib.build_k2(out, 'nothread')
    rng = vlib.Rng(seed ^ 0xC11)
    ndb = 2 if tier == 'quick' else 5
    jobs = []; hist = {}
    for d in range(ndb):
        opts = {'write_buffer': 4194304, 'block_size': 1024, 'paranoid': 1, 'verify': 1, 'bloom': 10 if d % 2 == 0 else 0,
                'compression': 1 if d % 3 == 2 else 0, 'mmap': d % 2, 'cache': 0}
        src = os.path.join(out, 'src%d' % d)
        content, allkeys, batches, names = build_db(k2, src, rng, dict(opts, paranoid=0, verify=0), heavy=(d % 2 == 1))
        files = [n for n in sorted(os.listdir(src)) if n not in ('LOCK', 'LOG', 'LOG.old')]
        per_file = {}
        for n in files:
            size = os.path.getsize(os.path.join(src, n))
            if tier == 'quick':
                budget = 200 if n.endswith('.ldb') else 70
                # the last 64 bytes (footer / trailer region) and the first bytes are always included
                pos = set(range(max(0, size - 64), size)) | set(range(0, min(size, 16)))
                while len(pos) < min(size, budget): pos.add(rng.below(size))
                pos = sorted(pos)
            else:
                pos = list(range(size))
            per_file[n] = len(pos)
            if n.endswith('.log'):
                # whole sectors / headers zeroed exactly at the block boundaries inside the multi-block record
                for b in range(32768, size, 32768):
                    for kd in ('sector', 'zero7'):
                        jobs.append((k2, src, os.path.join(out, 'w%d' % len(jobs)), opts, n, b, kd, rng.next(), content, allkeys, batches))
                        hist[kd] = hist.get(kd, 0) + 1
                # the same with paranoid_checks off (records may be lost, but whole batches only)
                for b in range(32768, size, 32768):
                    jobs.append((k2, src, os.path.join(out, 'w%d' % len(jobs)), dict(opts, paranoid=0), n, b, 'sector', rng.next(), content, allkeys, batches))
            for p in pos:
                kinds = ['flip', rng.choice(['zero', 'ff'])] if tier == 'quick' else ['flip', 'flip', 'zero', 'ff']
                if rng.chance(1, 6) or tier != 'quick': kinds.append('trunc')
                if rng.chance(1, 10) or (tier != 'quick' and p % 512 == 0): kinds.append('sector')
                for kd in kinds:
                    jobs.append((k2, src, os.path.join(out, 'w%d' % len(jobs)), opts, n, p, kd, rng.next(), content, allkeys, batches))
                    hist[kd] = hist.get(kd, 0) + 1
        rep.sample({'database': d, 'options': opts, 'files': per_file, 'keys': len(allkeys), 'batches': len(batches)})
    with ThreadPoolExecutor(vlib.NCPU) as ex:
        results = list(ex.map(one_case, jobs))
    detected = 0; undetected_correct = 0; openfail = 0; reported = 0
    by_file = {}
    for job, r in zip(jobs, results):
        if r is None: continue
        rep.evaluated(1)
        kindf = 'table' if job[4].endswith('.ldb') else ('log' if job[4].endswith('.log') else job[4].split('-')[0])
        by_file[kindf] = by_file.get(kindf, 0) + 1
        if r['detected']: detected += 1; rep.nontrivial((job[4], job[5], job[6]))
        else: undetected_correct += 1
        if r['open_failed']: openfail += 1
        for p in r['problems']:
            if reported < 3:
                reported += 1
                rep.violation({'kind': 'fault-' + p['kind'], 'problem': p, 'options': job[3], 'database_seed': seed})
    rep.cov['alterations'] = hist
    rep.cov['by_file_kind'] = by_file
    rep.cov['detected_as_error'] = detected
    rep.cov['harmless_all_answers_correct'] = undetected_correct
    rep.cov['open_refused'] = openfail
    rep.cov['exhaustive'] = (tier != 'quick')
    rep.cov['rule'] = ('generated multi-level databases with bloom/no bloom, snappy/none, mmap/pread; every (sampled in quick, incl. the whole footer '
                       'region) byte position of every table, log, MANIFEST and CURRENT file x {bit flip, 0x00/0xFF, truncation, zeroed 512 B sector}; '
                       'paranoid_checks + verify_checksums; every key looked up, full scan both ways; answers must be correct or errors; '
                       'distinct_nontrivial = alterations that were detected (error or refused open)')
    rep.assumptions.append('CRC-32C collisions / look-alike blocks are outside what a deterministic check can exclude (hypothesis crc_faithful in the theorems)')

def replay(rep, path):
    print(open(path).read()[:3000]); return 1
