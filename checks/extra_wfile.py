"""extra_wfile -- tie for the buffered writable file (C03 / C02 rule R7 "every log record is
pushed to the OS before the write returns"; theorems coq/theories/Properties_C03b.v, model
coq/theories/WFile.v, model-driver command `wfile_calls`, ocaml/cmd_wfile.ml).

For real write histories run under the libc interposition of harness/iowrap.h (k3), every file
lcdb writes through ldb_wfile_t is taken in turn:
  *.log, MANIFEST-*  the final bytes (shadow copy) are walked block by block (32 KiB blocks, 7-byte
                     headers, zero trailers) into logical records; the model is fed `o<initial block
                     offset> r<len> r<len> ...` -- the extracted add_record_ops fragments each record
                     itself and drives the extracted wf_exec (= wf_run; header append, payload append, flush;
                     trailer padding append without a flush)
  *.ldb              the table is parsed (footer -> index -> data block handles, metaindex -> filter);
                     the model is fed the appends of table_builder.c: per data block a<size> a5 f,
                     then filter / metaindex / index blocks a<size> a5 each, footer a48
  *.dbtmp (CURRENT)  ldb_write_file: a<size>
plus `s` (ldb_wfile_sync) wherever the trace shows an fsync of that descriptor -- located by the
number of bytes that had reached write(2) at that moment, which must be an operation boundary of the
file (for logs/MANIFESTs: a RECORD boundary, i.e. no fsync ever covers a partially written record) --
and `c` (ldb_wfile_close) when the trace shows the close.  (A close(2) may also come from ldb_wfile_destroy, which does
NOT flush -- db->logfile in ldb_close, the MANIFEST in ldb_versions_destroy; the model's close = flush + close, so agreement
on such a file shows that there was nothing left to flush, as Properties_C03b.C03_record_reaches_os_before_return says.)
Not reachable through the database API, hence not exercised here: ldb_wfile_append of 0 bytes, writes above 2^30 bytes.
The model's answer (sequence of write(2) sizes, fsyncs, MANIFEST directory fsyncs, close) must equal
the per-descriptor sequence of W / S / D / X events of the trace.

run_segment(rep, tier, seed) -> number of disagreements; each is reported through rep.violation."""
import os, sys, shutil
from concurrent.futures import ThreadPoolExecutor
sys.path.insert(0, os.path.join(os.path.dirname(os.path.dirname(os.path.abspath(__file__))), 'bin'))
import vlib, k3lib, tablegen

BLOCK = 32768; HEADER = 7
T_FULL, T_FIRST, T_MIDDLE, T_LAST = 1, 2, 3, 4

OPTS = [{'write_buffer': 65536, 'reuse_logs': 0},
        {'write_buffer': 65536, 'reuse_logs': 1},
        {'write_buffer': 262144, 'reuse_logs': 0, 'compression': 1},
        {'write_buffer': 1048576, 'reuse_logs': 1, 'paranoid': 1},
        {'write_buffer': 65536, 'reuse_logs': 0, 'bloom': 10},
        {'write_buffer': 4194304, 'reuse_logs': 0, 'block_size': 65536}]

def file_kind(name):
    base = name.rsplit('/', 1)[-1]
    if base.startswith('MANIFEST'): return 'manifest'
    if base.endswith('.log'): return 'log'
    if base.endswith('.ldb') or base.endswith('.sst'): return 'table'
    if base.endswith('.dbtmp'): return 'dbtmp'
    return None

# ------------------------------------------------------------------ observed side
def observed_per_file(evs):
    """-> {id: {'name', 'mode', 'base', 'toks': [...], 'sync_at': [bytes written when each S happened], 'closed': bool}}"""
    files = {}
    n = len(evs)
    for i, e in enumerate(evs):
        k = e['k']
        if k == 'C':
            files[e['id']] = {'name': e['name'], 'mode': e['mode'], 'base': e['size'], 'toks': [], 'sync_at': [],
                              'written': 0, 'closed': False, 'partial': False}
        elif k == 'W' and e['id'] in files:
            f = files[e['id']]; f['toks'].append('w%d' % e['len']); f['written'] += e['len']
            if e.get('partial'): f['partial'] = True
        elif k == 'S' and e['id'] in files:
            f = files[e['id']]; f['toks'].append('S'); f['sync_at'].append(f['written'])
        elif k == 'X' and e['id'] in files:
            f = files[e['id']]; f['toks'].append('X'); f['closed'] = True
        elif k == 'D':
            # a directory fsync belongs to a MANIFEST's ldb_wfile_sync iff it is followed, with only writes to that
            # MANIFEST in between, by the fsync of that MANIFEST (ldb_wfile_sync0: sync_dir, flush, fsync)
            j = i + 1; fid = None
            while j < n and evs[j]['k'] == 'W' and (fid is None or evs[j]['id'] == fid):
                fid = evs[j]['id']; j += 1
            if j < n and evs[j]['k'] == 'S' and (fid is None or evs[j]['id'] == fid):
                fid = evs[j]['id']
                if fid in files and file_kind(files[fid]['name']) == 'manifest':
                    files[fid]['toks'].append('D')
    return files

# ------------------------------------------------------------------ operation sequences
def log_ops(content, base):
    """walk the log format from file offset [base]; -> (ops [(token, bytes appended)], record boundaries as byte counts
    relative to base, features) or (None, reason)"""
    ops = [('o%d' % (base % BLOCK), 0)]
    pos = base; n = len(content); cur = None; feats = set(); bounds = {0}
    while pos < n:
        off = pos % BLOCK; leftover = BLOCK - off
        if leftover < HEADER:
            if content[pos:pos + leftover].strip(b'\0') or pos + leftover > n:
                return None, 'non-zero or truncated block trailer at %d' % pos
            pos += leftover; feats.add('trailer-pad')
            if pos >= n:
                return None, 'log ends with a block trailer at %d (padding is only written in front of a record)' % pos
        if pos + HEADER > n: return None, 'truncated header at %d' % pos
        ln = content[pos + 4] | (content[pos + 5] << 8); ty = content[pos + 6]
        if pos + HEADER + ln > n: return None, 'truncated fragment at %d' % pos
        if (pos % BLOCK) + HEADER + ln > BLOCK: return None, 'fragment crosses a block boundary at %d' % pos
        pos += HEADER + ln
        if ty == T_FULL:
            if cur is not None: return None, 'FULL inside a fragmented record at %d' % pos
            ops.append(('r%d' % ln, pos - base)); bounds.add(pos - base)
        elif ty == T_FIRST:
            if cur is not None: return None, 'FIRST inside a fragmented record at %d' % pos
            cur = ln; feats.add('fragmented')
        elif ty == T_MIDDLE:
            if cur is None: return None, 'MIDDLE outside a record at %d' % pos
            cur += ln; feats.add('middle')
        elif ty == T_LAST:
            if cur is None: return None, 'LAST outside a record at %d' % pos
            ops.append(('r%d' % (cur + ln), pos - base)); cur = None; bounds.add(pos - base)
        else:
            return None, 'fragment type %d at %d' % (ty, pos)
    if cur is not None: return None, 'log ends inside a fragmented record'
    return (ops, bounds, feats), None

def table_ops(content):
    t = tablegen.parse_table(content)
    if t is None: return None, 'table does not parse'
    blocks = [('data', h) for (_, h) in t['index_entries']]
    if t['filter'] is not None: blocks.append(('filter', t['filter']))
    blocks.append(('meta', t['metaindex'])); blocks.append(('index', t['index']))
    ops = []; pos = 0; feats = set()
    for what, (off, size) in blocks:
        if off != pos: return None, '%s block at %d, expected %d (blocks do not tile the file)' % (what, off, pos)
        ops.append(('a%d' % size, pos + size)); ops.append(('a5', pos + size + 5))
        pos += size + 5
        if what == 'data': ops.append(('f', pos))
        if what == 'filter': feats.add('filter')
        if size >= 65536: feats.add('block>=64K')
        if size >= 131072: feats.add('block>=128K')
    if pos + 48 != len(content): return None, 'footer at %d, file has %d bytes' % (pos, len(content))
    ops.append(('a48', pos + 48))
    return (ops, None, feats), None

def place_syncs(ops, sync_at, bounds, closed):
    """insert an `s` after the last operation whose cumulative byte count equals the number of bytes written when the
    fsync was observed; -> (tokens, error)"""
    cum = [c for (_, c) in ops]
    toks = [t for (t, _) in ops]
    ins = {}       # index after which -> count
    for x in sync_at:
        if bounds is not None and x not in bounds:
            return None, 'fsync after %d bytes had reached write(2): not a record boundary of the file' % x
        idx = None
        for i, c in enumerate(cum):
            if c == x: idx = i
        if idx is None:
            if x == 0: idx = -1
            else: return None, 'fsync after %d bytes had reached write(2): not an operation boundary of the file' % x
        ins[idx] = ins.get(idx, 0) + 1
    out = ['s'] * ins.get(-1, 0)
    for i, t in enumerate(toks):
        out.append(t); out += ['s'] * ins.get(i, 0)
    if closed: out.append('c')
    return out, None

# ------------------------------------------------------------------ one history
def gather_history(k3, work, opts, ops, seed):
    """run the history under k3 (thread-safe: does not touch the report);
    -> (problems found without the model [replay objects], [(model line, meta)], number of files not written through ldb_wfile_t)"""
    rc, out, err, evs, shadow = k3lib.run_traced(k3, os.path.join(work, 'db'), opts, ops, work)
    if rc != 0:
        return [{'kind': 'wfile-harness-crash', 'options': opts, 'history': ops, 'detail': err[-500:]}], [], 0
    files = observed_per_file(evs)
    pending = []; problems = []; nskip = 0
    for fid in sorted(files):
        f = files[fid]; kind = file_kind(f['name'])
        if kind is None:
            nskip += 1; continue      # LOG, LOCK
        try:
            content = open(os.path.join(shadow, str(fid)), 'rb').read()
        except OSError:
            content = b''
        base = f['base'] if f['mode'] == 'a' else 0
        if len(content) - base != f['written']:
            problems.append({'kind': 'wfile-shadow-size', 'file': f['name'], 'options': opts, 'history': ops,
                           'detail': 'shadow has %d bytes after base %d, trace wrote %d' % (len(content), base, f['written'])})
            continue
        if kind in ('log', 'manifest'):
            r, why = log_ops(content, base)
        elif kind == 'table':
            r, why = table_ops(content)
        else:
            r, why = ([('a%d' % len(content), len(content))], None, set()), None
        if r is None:
            problems.append({'kind': 'wfile-unparseable', 'file': f['name'], 'file_kind': kind, 'options': opts, 'history': ops, 'detail': why})
            continue
        fops, bounds, feats = r
        toks, why = place_syncs(fops, f['sync_at'], bounds, f['closed'])
        if toks is None:
            problems.append({'kind': 'wfile-fsync-position', 'file': f['name'], 'file_kind': kind, 'options': opts, 'history': ops,
                           'observed': ' '.join(f['toks'])[:20000], 'detail': why})
            continue
        line = 'wfile_calls %s %s' % ('m' if kind == 'manifest' else 'f', ' '.join(toks))
        pending.append((line, {'f': f, 'kind': kind, 'feats': feats, 'opts': opts, 'ops': ops, 'seed': seed}))
    shutil.rmtree(work, ignore_errors=True)
    return problems, pending, nskip

def compare(rep, pending, m_out):
    bad = 0; sampled = False
    for (line, m), mo in zip(pending, m_out):
        f, kind, feats = m['f'], m['kind'], m['feats']
        rep.evaluated(1); rep.count('wfile_files_' + kind)
        obs = ' '.join(f['toks']) if f['toks'] else '.'
        pred = mo.split(' | ')[0]
        tail = mo.split(' | ')[1] if ' | ' in mo else ''
        sizes = [int(t[1:]) for t in f['toks'] if t[0] == 'w']
        rep.count('wfile_write_calls_compared', len(sizes))
        rep.count('wfile_fsyncs_compared', sum(1 for t in f['toks'] if t == 'S'))
        if any(x == 65536 for x in sizes): feats.add('full-buffer-flush')
        if any(x > 65536 for x in sizes): feats.add('direct-write')
        if f['mode'] == 'a' and f['base'] > 0: feats.add('reopened-for-append')
        if 'D' in f['toks']: feats.add('dir-fsync')
        rep.nontrivial(('wfile', kind, tuple(sorted(feats)), min(len(sizes), 8)))
        for ft in feats: rep.count('wfile_feature_' + ft)
        # besides the call sequence: nothing may be left in the model's buffer at the end of the file's life (closed or not:
        # the process has exited, what the model still buffers would never have reached the OS)
        if pred != obs or not tail.startswith('buf=0 '):
            bad += 1
            rep.violation({'kind': 'wfile-calls-differ', 'file': f['name'], 'file_kind': kind, 'options': m['opts'], 'history': m['ops'],
                           'history_seed': m['seed'], 'case': line[:20000], 'implementation': obs[:20000], 'model': mo[:20000],
                           'correspondence_that_no_longer_checks': 'WFile.v (64 KiB buffered writable file) vs the traced write(2)/fsync calls of ldb_wfile_*: theorems Properties_C03b.*; the crash-image segment of this check is the search for a failing input'},
                          suffix=('no-failing-input-found' if tail.startswith('buf=0 ') else ''))
        elif not sampled and kind == 'log' and 60 < len(line) < 300:
            sampled = True; rep.sample('%s: %s => %s' % (f['name'], line, mo))
    return bad

def report_gathered(rep, problems, nskip):
    for pr in problems: rep.violation(pr)
    rep.count('wfile_files_not_through_wfile', nskip)
    return len(problems)

def check_history(rep, model, k3, work, opts, ops, seed):
    problems, pending, nskip = gather_history(k3, work, opts, ops, seed)
    bad = report_gathered(rep, problems, nskip)
    m_out = vlib.run_lines(model, [l for l, _ in pending]) if pending else []
    return bad + compare(rep, pending, m_out)

def replay(rep, path):
    """re-run the history of a recorded wfile-* violation and print what differs"""
    import json
    r = json.load(open(path))
    out = vlib.scratch_dir(); lib = vlib.build_lib(out, 'nothread'); k3 = vlib.build_k3(out, 'nothread', lib=lib)
    model = vlib.ensure_model()
    work = os.path.join(out, 'rp'); os.makedirs(work, exist_ok=True)
    print('kind=%s file=%s detail=%s' % (r.get('kind'), r.get('file'), r.get('detail', '')))
    if 'case' in r:
        print('model input   :', r['case'][:2000]); print('implementation:', r['implementation'][:2000]); print('model         :', r['model'][:2000])
    bad = check_history(rep, model, k3, work, r['options'], r['history'], r.get('history_seed', 0))
    print('replayed: %d disagreement(s)' % bad)
    return 1 if bad else 0

def big_ops(rng, j):
    """a few large values so that table blocks exceed one and two buffer sizes (direct-write path of ldb_wfile_append0)
    and log records span several 32 KiB blocks"""
    out = []
    for t in range(3):
        ln = rng.choice([66000, 70000, 131072 + 200, 140000, 200000, 300000, 65536 - 30, 32768 - 7 - 12 - 20])
        out.append('batch p%s:@%d:%d %d' % (k3lib.khex(b'big%02d%d' % (j, t)), ln, rng.below(256), 1 if rng.chance(1, 2) else 0))
        if rng.chance(1, 2): out.append('flush')
    return out

def pad_history():
    """fixed history: first record of a fresh log leaves 7, 6, ..., 1, 0 bytes in its block (and one that does not fit), so
    that the next record starts with a zero-length FIRST fragment / a zero trailer of 6..1 bytes / a fresh block"""
    ops = ['open']
    for v in (32733, 32734, 32735, 32736, 32737, 32738, 32739, 32740, 32741):
        # record = 12 (batch header) + 1 + 1 + 4 (key) + 3 (varint of v) + v bytes; block offset afterwards = 7 + that
        ops += ['batch p70616431:@%d:1 0' % v, 'batch p62:@5:2 1', 'batch p63:@40000:3 0', 'flush']
    return ops

def run_segment(rep, tier, seed):
    out = vlib.scratch_dir()
    lib = vlib.build_lib(out, 'nothread')
    k3 = vlib.build_k3(out, 'nothread', lib=lib)
    model = vlib.ensure_model()
    rng = vlib.Rng(seed ^ 0x3F11E)
    nh, nops = (6, 40) if tier == 'quick' else (60, 80)
    bad = 0; jobs = []
    for i in range(nh):
        opts = dict(OPTS[i % len(OPTS)])
        hs = rng.next(); hr = vlib.Rng(hs)
        ops, _ = k3lib.gen_write_history(hr, nops=nops, big_batches=(i % 2 == 1))
        # splice the large values into the middle and the end of the history
        mid = len(ops) // 2
        ops = ops[:mid] + big_ops(hr, 2 * i) + ops[mid:] + big_ops(hr, 2 * i + 1) + ['flush', 'compact * *', 'reopen', 'batch p7a:@5:1 1']
        jobs.append((opts, ops, hs))
    jobs.append(({'write_buffer': 4194304, 'reuse_logs': 0}, pad_history(), 0))
    def one(a):
        i, (opts, ops, hs) = a
        work = os.path.join(out, 'wf%d' % i); os.makedirs(work, exist_ok=True)
        return gather_history(k3, work, opts, ops, hs)
    with ThreadPoolExecutor(min(vlib.NCPU, 8)) as ex:
        gathered = list(ex.map(one, enumerate(jobs)))
    pending = []
    for problems, p, nskip in gathered:
        bad += report_gathered(rep, problems, nskip); pending += p
    m_out = vlib.run_lines(model, [l for l, _ in pending], shards=min(vlib.NCPU, 8)) if pending else []
    bad += compare(rep, pending, m_out)
    rep.count('wfile_histories', nh + 1)
    rep.count('wfile_disagreements', bad)
    return bad

if __name__ == '__main__':
    tier = vlib.tier_from_args(sys.argv); seed = vlib.seed_from_env()
    rep = vlib.Report('C03', tier, seed)
    n = run_segment(rep, tier, seed)
    import json
    print(json.dumps({k: v for k, v in rep.cov.items() if k != 'samples'}, indent=1))
    for s in rep.cov['samples']: print('sample:', s)
    print('disagreements:', n, 'violations:', len(rep.violations))
    sys.exit(1 if n else 0)
