"""C09 -- no deadlock, lost wake-up or stuck call under any schedule.
Theorems: coq/theories/Properties_C09.v (Lts.v / LtsProofs.v).  Tie: harness/k8.c runs with a watchdog."""
import vlib, k8check

def run(rep, tier, seed):
    pr = vlib.coq_check('C09'); rep.add_proof(pr)
    if not pr['ok']:
        rep.violation({'kind': 'proof-broken', 'log': pr['log'][-3000:], 'forbidden': pr['forbidden']}, suffix='no-failing-input-found')
    k8check.run_c09(rep, tier, seed)

def replay(rep, path):
    return k8check.replay(rep, path, 'C09')
