"""C01 -- reads return the latest write, whatever the engine did in between.
Theorems: coq/theories/Properties_C01.v (Engine.v). Tie: K2 histories."""
import vlib, k2check

def run(rep, tier, seed):
    pr = vlib.coq_check('C01')
    pr2 = vlib.coq_check('C01b')      # lcdb's own input selection always yields guarded steps (Policy.v)
    pr['theorems'] += pr2['theorems']; pr['ok'] = pr['ok'] and pr2['ok']; pr['closed_count'] = pr.get('closed_count', 0) + pr2.get('closed_count', 0)
    pr['axioms'] = sorted(set(pr['axioms']) | set(pr2['axioms'])); pr['log'] += pr2['log']; pr['file'] += ' + coq/theories/Properties_C01b.v'
    pr3 = vlib.coq_check('C01c')      # LRU cache transparent/bounded, skiplist = sorted list, memtable_get = seek (Cache.v, Skiplist.v, Memtable.v)
    pr['theorems'] += pr3['theorems']; pr['ok'] = pr['ok'] and pr3['ok']; pr['closed_count'] = pr.get('closed_count', 0) + pr3.get('closed_count', 0)
    pr['axioms'] = sorted(set(pr['axioms']) | set(pr3['axioms'])); pr['log'] += pr3['log']; pr['file'] += ' + coq/theories/Properties_C01c.v'
    rep.add_proof(pr)
    if not pr['ok']:
        rep.violation({'kind': 'proof-broken', 'log': pr['log'][-3000:], 'forbidden': pr['forbidden']}, suffix='no-failing-input-found')
    nh, nops = (32, 90) if tier == 'quick' else (1200, 300)
    import histgen
    k2check.run_k2(rep, 'C01', tier, seed, 'c01', nh, nops, extra_histories=[histgen.straddle_history(40, 0), histgen.straddle_history(24, 1), histgen.straddle_history(24, 2)] + histgen.corpus_histories())
    import extra_c01
    extra_c01.run_extra(rep, tier, seed)      # K1 ties of the LRU cache, the skiplist (incl. PRNG heights) and the memtable
    rep.cov['rule'] = ('histories of put/del/batch/get/has/snapshot/flush/compact-range/compact/reopen/scan/iterate over colliding keys, '
                       'values 0 B..70 KiB(+1 MiB), random option configurations; every observed version edit is replayed on the Coq engine '
                       'model as a guarded step and every read is compared with the model get and the sorted-map spec; '
                       'distinct_nontrivial = histories with >= 1 flush and >= 1 non-trivial compaction')

def replay(rep, path):
    return k2check.replay_k2(rep, path)
