"""metagen.py -- generators and independent Python codecs for the metadata formats
(write batch, internal keys, version edits, file names).  Shared by C17 (and
reusable by C04 / C18): every random choice comes from the vlib.Rng passed in.

The Python encoders/decoders here are written from the LevelDB format
description (not from the Coq model): they serve as the independent decoder of
the MANIFEST record layout."""
from k1util import hx, unhx

M32 = (1 << 32) - 1
M64 = (1 << 64) - 1
MAX_SEQ = (1 << 56) - 1
NUM_LEVELS = 7

# ------------------------------------------------------------------ varints
def enc_varint(n):
    out = bytearray()
    while n >= 128:
        out.append((n & 127) | 128); n >>= 7
    out.append(n)
    return bytes(out)

def dec_varint(b, i, width):
    """LevelDB GetVarint32/64 as implemented by lcdb: at most 5 (10) bytes, the
    shifted byte is truncated to the result width.  Returns (value, next) or None."""
    maxshift = 28 if width == 32 else 63
    mask = (1 << width) - 1
    res = 0; shift = 0
    while shift <= maxshift and i < len(b):
        c = b[i]; i += 1
        if c & 128:
            res |= ((c & 127) << shift) & mask
        else:
            res |= (c << shift) & mask
            return res, i
        shift += 7
    return None

def enc_slice(s):
    return enc_varint(len(s)) + s

def dec_slice(b, i):
    r = dec_varint(b, i, 32)
    if r is None: return None
    n, i = r
    if len(b) - i < n: return None
    return b[i:i + n], i + n

def boundary_values(width):
    vals = {0, 1, 2, 127, 128, 129, 255, 256, (1 << 31) - 1, 1 << 31, M32}
    for k in range(1, 10):
        if 7 * k <= width:
            vals |= {(1 << (7 * k)) - 1, (1 << (7 * k)) % (1 << width), ((1 << (7 * k)) + 1) % (1 << width)}
    if width == 64:
        vals |= {1 << 32, (1 << 32) + 1, (1 << 56) - 1, 1 << 56, (1 << 63) - 1, 1 << 63, M64 - 1, M64}
    return sorted(v for v in vals if v < (1 << width))

def rand_u64(rng):
    c = rng.below(10)
    if c < 5: return rng.choice(boundary_values(64))
    if c < 7: return rng.below(1 << rng.range(1, 64))
    if c < 8: return rng.below(1000)
    return rng.next()

def rand_u32(rng):
    c = rng.below(10)
    if c < 5: return rng.choice(boundary_values(32))
    if c < 8: return rng.below(1 << rng.range(1, 32))
    return rng.below(1 << 32)

# ------------------------------------------------------------------ internal keys
def ikey(user, seq, ty):
    return user + (((seq << 8) | ty) & M64).to_bytes(8, 'little')

def ikey_cmp(a, b):
    """internal-key order under the bytewise user comparator: -1 / 0 / 1"""
    ua, ub = a[:-8], b[:-8]
    if ua != ub:
        return -1 if ua < ub else 1
    ta = int.from_bytes(a[-8:], 'little'); tb = int.from_bytes(b[-8:], 'little')
    return -1 if ta > tb else (1 if ta < tb else 0)

def rand_user_key(rng, maxlen=24):
    c = rng.below(10)
    if c < 1: return b''
    if c < 3: return bytes([rng.choice([0, 1, 0x61, 0xfe, 0xff])]) * rng.range(1, 6)
    if c < 5: return bytes(rng.choice([0x61, 0x62, 0xff, 0x00, 0xfe]) for _ in range(rng.range(1, 6)))
    return rng.bytes(rng.range(1, maxlen))

def rand_ikey(rng, maxlen=24):
    """>= 8 bytes, usually a well-formed internal key, sometimes arbitrary bytes"""
    c = rng.below(10)
    if c < 6:
        seq = rng.choice([0, 1, MAX_SEQ, MAX_SEQ - 1, rng.below(1 << 56), rng.below(1000)])
        return ikey(rand_user_key(rng, maxlen), seq, rng.below(2))
    if c < 7: return rng.bytes(8)
    if c < 8: return rng.bytes(rng.choice([119, 120, 121, 127, 128, 129]))   # slice length varint boundary (with +8)
    return rng.bytes(rng.range(8, 8 + maxlen))

# ------------------------------------------------------------------ write batch
def gen_ops(rng, n, maxlen=20):
    ops = []
    for _ in range(n):
        c = rng.below(12)
        if c < 1: k = b''
        elif c < 2: k = rng.bytes(rng.choice([127, 128, 129]))
        else: k = rng.bytes(rng.range(1, maxlen))
        if rng.chance(2, 3):
            d = rng.below(12)
            if d < 1: v = b''
            elif d < 2: v = rng.bytes(rng.choice([127, 128, 129] if rng.chance(9, 10) else [16383, 16384, 16385]))
            else: v = rng.bytes(rng.range(0, 3 * maxlen))
            ops.append(('p', k, v))
        else:
            ops.append(('d', k))
    return ops

def op_str(o):
    return ('p%s:%s' % (hx(o[1]), hx(o[2]))) if o[0] == 'p' else ('d%s' % hx(o[1]))

def ops_arg(ops):
    return ','.join(op_str(o) for o in ops) if ops else '.'

def parse_ops(s):
    if s == '.': return []
    out = []
    for t in s.split(','):
        if t[0] == 'p':
            k, v = t[1:].split(':'); out.append(('p', unhx(k), unhx(v)))
        else:
            out.append(('d', unhx(t[1:])))
    return out

def batch_encode(seq, ops, count=None):
    body = b''
    for o in ops:
        body += (b'\x01' + enc_slice(o[1]) + enc_slice(o[2])) if o[0] == 'p' else (b'\x00' + enc_slice(o[1]))
    n = len(ops) if count is None else count
    return (seq & M64).to_bytes(8, 'little') + (n & M32).to_bytes(4, 'little') + body

def batch_decode(b):
    """independent decoder: (ok, ops delivered before the error was found)"""
    if len(b) < 12: return False, []
    i = 12; ops = []
    while i < len(b):
        tag = b[i]; i += 1
        if tag == 1:
            r = dec_slice(b, i)
            if r is None: return False, ops
            k, i = r
            r = dec_slice(b, i)
            if r is None: return False, ops
            v, i = r
            ops.append(('p', k, v))
        elif tag == 0:
            r = dec_slice(b, i)
            if r is None: return False, ops
            k, i = r
            ops.append(('d', k))
        else:
            return False, ops
    return len(ops) == int.from_bytes(b[8:12], 'little'), ops

def batch_cases(rng, tier):
    """Stage-1 cases: [(line, meta)] with meta = {'kind': 'batch_build', 'seq':, 'ops':}.
    The batch images for the stage-2 cases (iterate / append / truncations) are
    derived from the implementation's answers by batch_followups()."""
    out = []
    n = 120 if tier == 'quick' else 3000
    out.append(('batch_build 0 .', {'kind': 'batch_build', 'seq': 0, 'ops': []}))
    for i in range(n):
        c = rng.below(10)
        k = 0 if c < 1 else (rng.range(1, 4) if c < 6 else rng.range(1, 30))
        if tier != 'quick' and rng.chance(1, 200): k = rng.range(200, 2000)
        ops = gen_ops(rng, k)
        seq = rng.choice([0, 1, MAX_SEQ, M64, rng.below(1 << 56), rng.below(1 << 20)])
        out.append(('batch_build %x %s' % (seq, ops_arg(ops)), {'kind': 'batch_build', 'seq': seq, 'ops': ops}))
    return out

def batch_followups(rng, tier, built):
    """built: [(meta, image bytes)] from the implementation.  Returns [(line, meta)]."""
    out = []
    imgs = [img for (_, img) in built]
    for (m, img) in built:
        out.append(('batch_iter %s' % hx(img), {'kind': 'iter_built', 'ops': m['ops'], 'img': img}))
        out.append(('batch_hdr %s' % hx(img), {'kind': 'hdr_built', 'seq': m['seq'], 'n': len(m['ops'])}))
        n = len(img)
        small = n <= (200 if tier == 'quick' else 600)
        cuts = range(0, n) if small else sorted(set(rng.below(n) for _ in range(12)))
        if tier == 'quick' and small and n > 60 and rng.chance(1, 2):
            cuts = sorted(set(rng.below(n) for _ in range(20)))
        for c in cuts:
            out.append(('batch_iter %s' % hx(img[:c]), {'kind': 'iter_cut', 'cut': c}))
        # header count off by one / huge; tag alterations; random tail
        for cnt in {(len(m['ops']) + 1) & M32, (len(m['ops']) - 1) & M32, M32, 1 << 31}:
            alt = img[:8] + cnt.to_bytes(4, 'little') + img[12:]
            if alt != img:
                out.append(('batch_iter %s' % hx(alt), {'kind': 'iter_count', 'img': alt}))
        if n > 12:
            for _ in range(3):
                alt = bytearray(img); p = rng.range(12, n - 1)
                alt[p] = rng.choice([0, 1, 2, 0x7f, 0x80, 0xff, alt[p] ^ (1 << rng.below(8))])
                out.append(('batch_iter %s' % hx(bytes(alt)), {'kind': 'iter_alter', 'img': bytes(alt)}))
        t = img + rng.bytes(rng.range(1, 6))
        out.append(('batch_iter %s' % hx(t), {'kind': 'iter_tail', 'img': t}))
        out.append(('batch_setseq %s %x' % (hx(img), rng.choice([0, M64, MAX_SEQ, rng.next()])), {'kind': 'setseq', 'img': img}))
    for _ in range(len(built)):
        (ma, a) = rng.choice(built); (mb, b) = rng.choice(built)
        out.append(('batch_append %s %s' % (hx(a), hx(b)), {'kind': 'append', 'a': ma, 'b': mb, 'ia': a, 'ib': b}))
    # count wrap on append: headers with large counts
    for _ in range(20):
        a = batch_encode(rng.next(), gen_ops(rng, 2), count=rng.choice([M32, M32 - 1, 1 << 31]))
        b = batch_encode(rng.next(), gen_ops(rng, 2), count=rng.choice([1, 2, M32, 1 << 31]))
        out.append(('batch_append %s %s' % (hx(a), hx(b)), {'kind': 'append_wrap', 'ia': a, 'ib': b}))
    for _ in range(100 if tier == 'quick' else 3000):
        c = rng.below(4)
        if c == 0: g = rng.bytes(rng.below(30))
        elif c == 1: g = bytes(12) + bytes(rng.choice([0, 1, 1, 0, 2, 5, 0x80, 0xff]) for _ in range(rng.below(12)))
        elif c == 2: g = rng.bytes(12) + bytes([rng.below(2)]) + rng.bytes(rng.below(12))
        else: g = rng.bytes(8) + bytes([rng.below(4), 0, 0, 0]) + bytes(rng.below(3) for _ in range(rng.below(10)))
        out.append(('batch_iter %s' % hx(g), {'kind': 'iter_garbage', 'img': g}))
    return out

# ------------------------------------------------------------------ version edits
# An edit under construction is the list of API calls (spec items), in call order:
#   ('c', name) ('l', n) ('p', n) ('n', n) ('s', n) ('k', level, key) ('d', level, number)
#   ('a', level, number, size, smallest, largest)
def item_str(it):
    t = it[0]
    if t == 'c': return 'c' + hx(it[1])
    if t in 'lpns': return '%s%x' % (t, it[1])
    if t == 'k': return 'k%x:%s' % (it[1], hx(it[2]))
    if t == 'd': return 'd%x:%x' % (it[1], it[2])
    return 'a%x:%x:%x:%s:%s' % (it[1], it[2], it[3], hx(it[4]), hx(it[5]))

def spec_arg(items):
    return ','.join(item_str(i) for i in items) if items else '.'

def canon_edit(items):
    """the edit the calls produce: last scalar wins, vectors in call order, deleted
    files as a set ordered by (level, number)"""
    e = {'c': None, 'l': None, 'p': None, 'n': None, 's': None, 'cp': [], 'del': set(), 'new': []}
    for it in items:
        t = it[0]
        if t in 'clpns': e[t] = it[1]
        elif t == 'k': e['cp'].append((it[1], it[2]))
        elif t == 'd': e['del'].add((it[1], it[2]))
        else: e['new'].append(tuple(it[1:]))
    e['del'] = sorted(e['del'])
    return e

def dump_edit(e):
    def num(x): return 'none' if x is None else '%x' % x
    def lst(l, f): return ','.join(f(x) for x in l) if l else '.'
    return 'c=%s l=%s p=%s n=%s s=%s cp=%s del=%s new=%s' % (
        'none' if e['c'] is None else hx(e['c']), num(e['l']), num(e['p']), num(e['n']), num(e['s']),
        lst(e['cp'], lambda x: '%x:%s' % (x[0], hx(x[1]))),
        lst(e['del'], lambda x: '%x:%x' % x),
        lst(e['new'], lambda x: '%x:%x:%x:%s:%s' % (x[0], x[1], x[2], hx(x[3]), hx(x[4]))))

def encode_edit(e):
    """standard VersionEdit::EncodeTo layout"""
    out = b''
    if e['c'] is not None: out += enc_varint(1) + enc_slice(e['c'])
    if e['l'] is not None: out += enc_varint(2) + enc_varint(e['l'])
    if e['p'] is not None: out += enc_varint(9) + enc_varint(e['p'])
    if e['n'] is not None: out += enc_varint(3) + enc_varint(e['n'])
    if e['s'] is not None: out += enc_varint(4) + enc_varint(e['s'])
    for (lv, k) in e['cp']: out += enc_varint(5) + enc_varint(lv) + enc_slice(k)
    for (lv, n) in e['del']: out += enc_varint(6) + enc_varint(lv) + enc_varint(n)
    for (lv, n, z, a, b) in e['new']:
        out += enc_varint(7) + enc_varint(lv) + enc_varint(n) + enc_varint(z) + enc_slice(a) + enc_slice(b)
    return out

def decode_edit(b):
    """independent decoder (VersionEdit::DecodeFrom + lcdb's key-length check);
    returns the edit dict or None"""
    e = {'c': None, 'l': None, 'p': None, 'n': None, 's': None, 'cp': [], 'del': set(), 'new': []}
    i = 0
    def level(i):
        r = dec_varint(b, i, 32)
        if r is None or r[0] >= NUM_LEVELS: return None
        return r
    while i < len(b):
        r = dec_varint(b, i, 32)
        if r is None: return None
        tag, i = r
        if tag == 1:
            r = dec_slice(b, i)
            if r is None: return None
            e['c'], i = r
        elif tag in (2, 9, 3, 4):
            r = dec_varint(b, i, 64)
            if r is None: return None
            e[{2: 'l', 9: 'p', 3: 'n', 4: 's'}[tag]], i = r
        elif tag == 5:
            r = level(i)
            if r is None: return None
            lv, i = r
            r = dec_slice(b, i)
            if r is None: return None
            k, i = r
            if len(k) < 8: return None
            e['cp'].append((lv, k))
        elif tag == 6:
            r = level(i)
            if r is None: return None
            lv, i = r
            r = dec_varint(b, i, 64)
            if r is None: return None
            n, i = r
            e['del'].add((lv, n))
        elif tag == 7:
            r = level(i)
            if r is None: return None
            lv, i = r
            r = dec_varint(b, i, 64)
            if r is None: return None
            n, i = r
            r = dec_varint(b, i, 64)
            if r is None: return None
            z, i = r
            r = dec_slice(b, i)
            if r is None: return None
            sm, i = r
            r = dec_slice(b, i)
            if r is None: return None
            lg, i = r
            if len(sm) < 8 or len(lg) < 8: return None
            e['new'].append((lv, n, z, sm, lg))
        else:
            return None
    e['del'] = sorted(e['del'])
    return e

def record_ends(e):
    """offsets of the record boundaries of encode_edit(e) (prefixes that decode)"""
    ends = [0]; pos = 0
    def add(x):
        nonlocal pos
        pos += len(x); ends.append(pos)
    if e['c'] is not None: add(enc_varint(1) + enc_slice(e['c']))
    for (t, tag) in (('l', 2), ('p', 9), ('n', 3), ('s', 4)):
        if e[t] is not None: add(enc_varint(tag) + enc_varint(e[t]))
    for (lv, k) in e['cp']: add(enc_varint(5) + enc_varint(lv) + enc_slice(k))
    for (lv, n) in e['del']: add(enc_varint(6) + enc_varint(lv) + enc_varint(n))
    for (lv, n, z, a, b) in e['new']:
        add(enc_varint(7) + enc_varint(lv) + enc_varint(n) + enc_varint(z) + enc_slice(a) + enc_slice(b))
    return ends

def rand_name(rng):
    c = rng.below(8)
    if c < 3: return b'leveldb.BytewiseComparator'
    if c < 4: return b''
    if c < 5: return bytes(rng.range(1, 255) for _ in range(rng.choice([127, 128, 129])))
    return bytes(rng.range(1, 255) for _ in range(rng.range(1, 40)))      # no NUL: set through a C string

def gen_edit_items(rng, nfiles=None, valid=True):
    """A list of API calls.  valid=True: levels 0..6 and keys >= 8 bytes, so the
    encoding must decode; otherwise some level >= 7 or short key is planted."""
    items = []
    if rng.chance(1, 2): items.append(('c', rand_name(rng)))
    for t in 'lpns':
        if rng.chance(1, 2): items.append((t, rand_u64(rng)))
        if rng.chance(1, 12): items.append((t, rand_u64(rng)))        # set twice: last wins
    for _ in range(rng.choice([0, 0, 1, 2, 7])):
        items.append(('k', rng.below(NUM_LEVELS), rand_ikey(rng)))
    nd = rng.choice([0, 0, 1, 3, 10]) if nfiles is None else rng.below(nfiles + 1)
    base = rand_u64(rng)
    for _ in range(nd):
        c = rng.below(4)
        num = rand_u64(rng) if c == 0 else ((base + rng.below(8)) & M64 if c == 1 else rng.below(50))
        items.append(('d', rng.below(NUM_LEVELS), num))
    nn = rng.choice([0, 0, 1, 2, 8]) if nfiles is None else nfiles
    for _ in range(nn):
        items.append(('a', rng.below(NUM_LEVELS), rand_u64(rng), rand_u64(rng), rand_ikey(rng), rand_ikey(rng)))
    if rng.chance(1, 3):
        # calls in arbitrary order (the encoding order is fixed by export)
        for i in range(len(items) - 1, 0, -1):
            j = rng.below(i + 1); items[i], items[j] = items[j], items[i]
    if not valid:
        c = rng.below(4)
        lv = rng.choice([7, 8, 127, 128, 1000, 0x7fffff])
        if c == 0: items.append(('k', lv, rand_ikey(rng)))
        elif c == 1: items.append(('d', lv, rand_u64(rng)))
        elif c == 2: items.append(('a', lv, rand_u64(rng), rand_u64(rng), rand_ikey(rng), rand_ikey(rng)))
        else:
            short = rng.bytes(rng.below(8))
            items.append(rng.choice([('k', 1, short), ('a', 2, 5, 6, short, rand_ikey(rng)), ('a', 2, 5, 6, rand_ikey(rng), short)]))
        if rng.chance(1, 2):
            j = rng.below(len(items)); items[-1], items[j] = items[j], items[-1]
    return items

def edit_build_cases(rng, tier):
    """[(line, meta)]: edit_build / edit_build_dump through the C API"""
    out = []
    def add(items, valid):
        s = spec_arg(items)
        out.append(('edit_build %s' % s, {'kind': 'edit_build', 'items': items, 'valid': valid}))
        out.append(('edit_build_dump %s' % s, {'kind': 'edit_build_dump', 'items': items, 'valid': valid}))
    add([], True)
    # each scalar field alone at every varint boundary value; every level
    for t in 'lpns':
        for v in boundary_values(64):
            add([(t, v)], True)
    for lv in range(NUM_LEVELS):
        add([('k', lv, rand_ikey(rng))], True)
        add([('d', lv, rand_u64(rng))], True)
        add([('a', lv, rand_u64(rng), rand_u64(rng), rand_ikey(rng), rand_ikey(rng))], True)
    for v in boundary_values(64)[::3]:
        add([('d', rng.below(7), v), ('a', rng.below(7), v, (v * 3) & M64, rand_ikey(rng), rand_ikey(rng))], True)
    # every subset of present/absent scalar fields
    for mask in range(32):
        items = []
        if mask & 1: items.append(('c', rand_name(rng)))
        for bit, t in ((2, 'l'), (4, 'p'), (8, 'n'), (16, 's')):
            if mask & bit: items.append((t, rand_u64(rng)))
        add(items, True)
    n = 250 if tier == 'quick' else 6000
    for _ in range(n):
        add(gen_edit_items(rng), True)
    for _ in range(40 if tier == 'quick' else 800):
        add(gen_edit_items(rng, valid=False), False)
    # many files
    sizes = [60, 300] if tier == 'quick' else [60, 300, 1000, 2000, 3000] + [rng.range(100, 800) for _ in range(12)]
    for nf in sizes:
        add(gen_edit_items(rng, nfiles=nf), True)
    return out

def edit_followups(rng, tier, built):
    """built: [(meta, encoding bytes)] produced by the implementation for the
    edit_build cases.  Returns [(line, meta)] for edit_import / edit_roundtrip:
    the encodings themselves, every truncation, tag / level / varint alterations."""
    out = []
    for (m, enc) in built:
        e = canon_edit(m['items'])
        out.append(('edit_import %s' % hx(enc), {'kind': 'import_built', 'edit': e, 'valid': m['valid'], 'enc': enc}))
        out.append(('edit_roundtrip %s' % hx(enc), {'kind': 'roundtrip_built', 'edit': e, 'valid': m['valid'], 'enc': enc}))
        n = len(enc)
        if not m['valid'] or n == 0:
            continue
        limit = 260 if tier == 'quick' else 1200
        if n <= limit:
            cuts = list(range(0, n))
            if tier == 'quick' and n > 90:
                ends = set(record_ends(e))
                cuts = sorted(set(c for c in cuts if c in ends or (c + 1) in ends or (c - 1) in ends) |
                              set(rng.below(n) for _ in range(25)))
        else:
            # (the model's slice_read measures the whole remaining input, so one import costs O(n^2))
            ends = record_ends(e); k = 6 if n < 20000 else (2 if n < 100000 else 1)
            cuts = sorted(set([rng.choice(ends) + d for d in (-1, 0, 1) for _ in range(k)] + [rng.below(n) for _ in range(k)]))
            cuts = [c for c in cuts if 0 <= c < n]
        for c in cuts:
            out.append(('edit_import %s' % hx(enc[:c]), {'kind': 'import_cut', 'cut': c}))     # bytes: second token of the line
        if n <= 4000:
            ends = record_ends(e)
            for _ in range(4):
                # alter a tag byte / a level byte / splice an over-long varint / flip a byte
                p = rng.choice(ends[:-1]) if len(ends) > 1 else 0
                alt = bytearray(enc); c = rng.below(6)
                if c == 0: alt[p] = rng.choice([0, 8, 10, 11, 0x7f, 0xff])
                elif c == 1 and p + 1 < n: alt[p + 1] = rng.choice([7, 8, 0x7f, 0x80, 0xff])
                elif c == 2: alt[p:p + 1] = bytes([alt[p] | 0x80, 0])                # non-minimal tag varint
                elif c == 3: alt[p:p + 1] = bytes([alt[p] | 0x80, 0x80, 0x80, 0x80, 0x80, 0])   # 6-byte varint32
                elif c == 4:
                    q = rng.below(n); alt[q] ^= 1 << rng.below(8)
                else:
                    q = rng.below(n); alt[q:q] = rng.bytes(rng.range(1, 3))
                if bytes(alt) != enc:
                    out.append(('edit_import %s' % hx(bytes(alt)), {'kind': 'import_alter', 'enc': bytes(alt)}))
                    out.append(('edit_roundtrip %s' % hx(bytes(alt)), {'kind': 'roundtrip_alter', 'enc': bytes(alt)}))
        if rng.chance(1, 3) and n < 2000:
            tail = rng.choice([b'\x00', b'\x08', b'\x02', b'\x02\x80', b'\x06\x07\x01', b'\x05\x00\x07abcdefg', rng.bytes(rng.range(1, 4))])
            out.append(('edit_import %s' % hx(enc + tail), {'kind': 'import_tail', 'enc': enc + tail}))
    return out

def edit_garbage_cases(rng, tier):
    """malformed stream that does not depend on the implementation's output"""
    out = []
    def add(g, kind='import_garbage'):
        out.append(('edit_import %s' % hx(g), {'kind': kind, 'enc': g}))
        if rng.chance(1, 3):
            out.append(('edit_roundtrip %s' % hx(g), {'kind': 'roundtrip_garbage', 'enc': g}))
    # every tag value 0..12 with assorted payloads, 128-based over-long forms
    for tag in list(range(0, 13)) + [0x7f, 0x80, 0xff]:
        for payload in (b'', b'\x00', b'\x05', b'\x07', b'\x06\x01', b'\x00\x08abcdefgh', b'\x00\x01\x02\x08abcdefgh\x08ABCDEFGH',
                        b'\x80', b'\xff\xff\xff\xff\xff\xff\xff\xff\xff\x01', b'\xff\xff\xff\xff\xff\xff\xff\xff\xff\x7f',
                        b'\xff\xff\xff\xff\xff\xff\xff\xff\xff\xff\x01', b'\x80\x80\x80\x80\x00', b'\x80\x80\x80\x80\x80\x00'):
            add(bytes([tag]) + payload)
            add(bytes([tag | 0x80, 0]) + payload)
    # levels 0..9 in each level-bearing record, encoded minimally and over-long
    for lv in range(0, 10):
        for lvenc in (bytes([lv]), bytes([lv | 0x80, 0]), bytes([lv | 0x80, 0x80, 0x80, 0x80, 0x10]), bytes([lv | 0x80, 0x80, 0x80, 0x80, 0x70])):
            add(b'\x05' + lvenc + b'\x08abcdefgh')
            add(b'\x06' + lvenc + b'\x09')
            add(b'\x07' + lvenc + b'\x09\x0a\x08abcdefgh\x08ABCDEFGH')
    # key lengths around 8
    for kl in range(0, 12):
        k = bytes(range(65, 65 + kl))
        add(b'\x05\x01' + enc_slice(k))
        add(b'\x07\x01\x02\x03' + enc_slice(k) + enc_slice(b'ABCDEFGH'))
        add(b'\x07\x01\x02\x03' + enc_slice(b'ABCDEFGH') + enc_slice(k))
    # varint64 of every length incl. 10 and 11 bytes, final-byte overflow bits
    for nb in range(1, 12):
        for last in (0, 1, 2, 0x7f):
            add(b'\x02' + b'\xff' * (nb - 1) + bytes([last]))
            add(b'\x04' + b'\x80' * (nb - 1) + bytes([last]))
    # slice lengths larger than the rest
    for ln in (1, 2, 127, 128, 0x3fff, 0x4000, M32, 1 << 31):
        add(b'\x01' + enc_varint(ln))
        add(b'\x01' + enc_varint(ln) + b'x')
    for _ in range(300 if tier == 'quick' else 20000):
        c = rng.below(4)
        if c == 0: g = rng.bytes(rng.below(24))
        elif c == 1: g = bytes(rng.choice([0, 1, 2, 3, 4, 5, 6, 7, 8, 9, 0x80, 0xff]) for _ in range(rng.below(16)))
        elif c == 2: g = bytes([rng.range(1, 9)]) + rng.bytes(rng.below(14))
        else:
            g = b''
            for _ in range(rng.range(1, 5)):
                g += encode_edit(canon_edit(gen_edit_items(rng)))[:rng.below(40)]
        add(g)
    return out

# ------------------------------------------------------------------ file names
FT_LOG, FT_LOCK, FT_TABLE, FT_DESC, FT_CURRENT, FT_TEMP, FT_INFO = range(7)
KIND_TYPE = {0: FT_LOG, 1: FT_TABLE, 2: FT_TABLE, 3: FT_DESC, 4: FT_TEMP, 5: FT_CURRENT, 6: FT_LOCK, 7: FT_INFO, 8: FT_INFO}

def make_name(kind, n):
    d = b'%06d' % n
    return {0: d + b'.log', 1: d + b'.ldb', 2: d + b'.sst', 3: b'MANIFEST-' + d, 4: d + b'.dbtmp',
            5: b'CURRENT', 6: b'LOCK', 7: b'LOG', 8: b'LOG.old'}[kind]

def parse_filename(name):
    """independent parser of LevelDB's ParseFileName as ported by lcdb (adds .dbtmp
    handled like LevelDB; number = decimal uint64 without overflow)."""
    z = name.find(b'\0')
    if z >= 0: name = name[:z]
    def number(s):
        i = 0; x = 0
        while i < len(s) and 48 <= s[i] <= 57:
            x = x * 10 + (s[i] - 48)
            if x > M64: return None
            i += 1
        if i == 0: return None
        return x, s[i:]
    if name == b'CURRENT': return (FT_CURRENT, 0)
    if name == b'LOCK': return (FT_LOCK, 0)
    if name in (b'LOG', b'LOG.old'): return (FT_INFO, 0)
    if name.startswith(b'MANIFEST-'):
        r = number(name[9:])
        if r is None or r[1] != b'': return None
        return (FT_DESC, r[0])
    r = number(name)
    if r is None: return None
    x, suf = r
    if suf == b'.log': return (FT_LOG, x)
    if suf in (b'.sst', b'.ldb'): return (FT_TABLE, x)
    if suf == b'.dbtmp': return (FT_TEMP, x)
    return None

def filename_cases(rng, tier):
    """[(line, meta)]"""
    out = []
    nums = sorted(set(boundary_values(64) + [10 ** k for k in range(0, 20)] + [10 ** k - 1 for k in range(1, 21) if 10 ** k - 1 <= M64] +
                      [99999, 100000, 999999, 1000000, M64 // 10, M64 // 10 + 1, M64 - 5, M64 - 4] + [rand_u64(rng) for _ in range(30 if tier == 'quick' else 2000)]))
    names = []; made = []
    for n in nums:
        for kind in range(9):
            if kind >= 5 and n != nums[0]:
                continue
            out.append(('make_name %x %x' % (kind, n), {'kind': 'make_name', 'k': kind, 'n': n}))
            made.append((make_name(kind, n), kind, n))
    # numbers around the uint64 overflow limit, leading zeros, empty numbers
    digs = ['', '0', '00', '000000', '5', '05', '18446744073709551615', '18446744073709551616', '18446744073709551614',
            '18446744073709551620', '1844674407370955161', '1844674407370955162', '18446744073709551609', '18446744073709551610',
            '018446744073709551615', '0018446744073709551616', '28446744073709551615', '99999999999999999999',
            '184467440737095516150', '100000000000000000000', '9' * 30, '0' * 30 + '7', '12a', 'a12', '-1', '+1', ' 1', '1 ']
    sufs = ['.log', '.sst', '.ldb', '.dbtmp', '.LOG', '.lo', '.logx', '', '.', '.log.', '.sst2', '.dbtmpx', '.old', 'log']
    for d in digs:
        for s in sufs:
            names.append((d + s).encode())
        names.append(('MANIFEST-' + d).encode())
        names.append(('MANIFEST-' + d + 'x').encode())
        names.append(('MANIFEST' + d).encode())
    names += [b'', b'CURRENT', b'CURRENT ', b'CURREN', b'CURRENTx', b'current', b'LOCK', b'LOCKS', b'LOC', b'LOG', b'LOG.old', b'LOG.ol',
              b'LOG.oldx', b'LOG.', b'LOG.old.', b'MANIFEST', b'MANIFEST-', b'MANIFEST-5', b'MANIFEST-5.log', b'MANIFEST-000005\n',
              b'manifest-5', b'100.log\x00junk', b'CURRENT\x00x', b'\x00', b'100\x00.log', b'\xff', b'1\xff.log', b'100.lo\xe7',
              b'foo', b'foo.log', b'.log', b'..log', b'100', b'100.', b'100.sst.log', b'18446744073709551615.ldb', b'18446744073709551616.ldb']
    pool = names + [m[0] for m in made]
    for _ in range(150 if tier == 'quick' else 8000):
        base = bytearray(rng.choice(pool) if rng.chance(2, 3) else rng.bytes(rng.below(12)))
        c = rng.below(5)
        if base and c == 0: base[rng.below(len(base))] = rng.choice([0, 0x2e, 0x30, 0x39, 0x3a, 0x2f, 0x41, 0xff, rng.below(256)])
        elif c == 1: base.insert(rng.below(len(base) + 1), rng.choice([0x30, 0x31, 0x39, 0x2e, 0x2d, 0x00, rng.below(256)]))
        elif base and c == 2: del base[rng.below(len(base))]
        elif c == 3: base = bytearray(bytes(rng.choice(b'0123456789') for _ in range(rng.range(1, 24))) + rng.choice([b'.log', b'.sst', b'.ldb', b'.dbtmp', b'']))
        names.append(bytes(base))
    for (nm, kind, n) in made:
        out.append(('parse_filename %s' % hx(nm), {'kind': 'parse_made', 'name': nm, 'k': kind, 'n': n}))
    for nm in names:
        out.append(('parse_filename %s' % hx(nm), {'kind': 'parse_filename', 'name': nm}))
    return out

# ------------------------------------------------------------------ varints (commands of k1.c)
def varint_cases(rng, tier):
    out = []
    for w in (32, 64):
        vals = boundary_values(w) + [rng.below(1 << w) for _ in range(60 if tier == 'quick' else 3000)] + \
               [rng.below(1 << rng.range(1, w)) for _ in range(60 if tier == 'quick' else 3000)]
        for v in vals:
            out.append(('varint%d_write %x' % (w, v), {'kind': 'vwrite', 'w': w, 'v': v}))
            out.append(('varint%d_size %x' % (w, v), {'kind': 'vsize', 'w': w, 'v': v}))
            enc = enc_varint(v)
            tail = rng.bytes(rng.below(3))
            out.append(('varint%d_read %s' % (w, hx(enc + tail)), {'kind': 'vread', 'w': w, 'b': enc + tail, 'v': v, 'rest': tail}))
            for c in range(len(enc)):
                out.append(('varint%d_read %s' % (w, hx(enc[:c])), {'kind': 'vread_any', 'w': w, 'b': enc[:c]}))
        # over-long / overflowing encodings
        for nb in range(1, 13):
            for fill in (0x80, 0xff, 0x81):
                for last in (0, 1, 0x0f, 0x10, 0x7f):
                    b = bytes([fill] * (nb - 1) + [last]) + rng.bytes(rng.below(2))
                    out.append(('varint%d_read %s' % (w, hx(b)), {'kind': 'vread_any', 'w': w, 'b': b}))
        for _ in range(100 if tier == 'quick' else 5000):
            b = bytes((rng.below(256) | (0x80 if rng.chance(2, 3) else 0)) & 0xff for _ in range(rng.below(12))) + bytes([rng.below(128)])
            out.append(('varint%d_read %s' % (w, hx(b)), {'kind': 'vread_any', 'w': w, 'b': b}))
    for _ in range(60 if tier == 'quick' else 2000):
        s = rng.bytes(rng.choice([0, 1, 5, 127, 128, 129, rng.below(300)]))
        b = enc_slice(s) + rng.bytes(rng.below(3))
        out.append(('slice_read %s' % hx(b), {'kind': 'sread', 'b': b}))
        out.append(('slice_read %s' % hx(b[:rng.below(len(b) + 1)]), {'kind': 'sread', 'b': None}))
    return out

# ------------------------------------------------------------------ keys / comparators
def bytes_sep(a, b):
    """reference FindShortestSeparator (bytewise)"""
    m = min(len(a), len(b)); i = 0
    while i < m and a[i] == b[i]: i += 1
    if i >= m: return a
    if a[i] < 0xff and a[i] + 1 < b[i]:
        return a[:i] + bytes([a[i] + 1])
    return a

def bytes_succ(a):
    for i in range(len(a)):
        if a[i] != 0xff:
            return a[:i] + bytes([a[i] + 1])
    return a

def key_cases(rng, tier):
    out = []
    n = 400 if tier == 'quick' else 12000
    def near(k):
        """a key related to k: shares a prefix, differs by one byte, longer/shorter"""
        k = bytearray(k); c = rng.below(6)
        if c == 0: return bytes(k)
        if c == 1 and k: k[rng.below(len(k))] = rng.choice([0, 0xff, 0xfe, rng.below(256)])
        elif c == 2 and k:
            p = rng.below(len(k)); k[p] = (k[p] + rng.choice([1, 2, 3, 255, 254])) & 255
        elif c == 3: k += rng.bytes(rng.range(1, 3))
        elif c == 4 and k: del k[rng.range(max(0, len(k) - 3), len(k) - 1):]
        else: k = bytearray(rand_user_key(rng))
        return bytes(k)
    for _ in range(n):
        a = rand_user_key(rng, 10); b = near(a)
        out.append(('ucmp %s %s' % (hx(a), hx(b)), {'kind': 'ucmp', 'a': a, 'b': b}))
        out.append(('sep %s %s' % (hx(a), hx(b)), {'kind': 'sep', 'a': a, 'b': b}))
        out.append(('sep %s %s' % (hx(b), hx(a)), {'kind': 'sep', 'a': b, 'b': a}))
        out.append(('succ %s' % hx(a), {'kind': 'succ', 'a': a}))
        sa = rng.choice([0, 1, 5, MAX_SEQ, rng.below(1 << 56)]); sb = rng.choice([sa, sa + 1 if sa < MAX_SEQ else sa, 0, MAX_SEQ, rng.below(1 << 56)])
        ta = rng.below(2); tb = rng.below(2)
        ia = ikey(a, sa, ta); ib = ikey(b, sb, tb)
        out.append(('ikey_encode %s %x %x' % (hx(a), sa, ta), {'kind': 'ikey_encode', 'u': a, 's': sa, 't': ta}))
        out.append(('ikey_parse %s' % hx(ia), {'kind': 'ikey_parse_ok', 'u': a, 's': sa, 't': ta}))
        out.append(('ikey_cmp %s %s' % (hx(ia), hx(ib)), {'kind': 'ikey_cmp', 'a': ia, 'b': ib}))
        out.append(('isep %s %s' % (hx(ia), hx(ib)), {'kind': 'isep', 'a': ia, 'b': ib}))
        out.append(('isep %s %s' % (hx(ib), hx(ia)), {'kind': 'isep', 'a': ib, 'b': ia}))
        out.append(('isucc %s' % hx(ia), {'kind': 'isucc', 'a': ia}))
        out.append(('lkey %s %x' % (hx(a), sa), {'kind': 'lkey', 'u': a, 's': sa}))
        if rng.chance(1, 4):
            g = rng.bytes(rng.below(14))
            out.append(('ikey_parse %s' % hx(g), {'kind': 'ikey_parse_any', 'b': g}))
            g2 = a + bytes([rng.choice([0, 1, 2, 3, 0x80, 0xff])]) + rng.bytes(7)
            out.append(('ikey_parse %s' % hx(g2), {'kind': 'ikey_parse_any', 'b': g2}))
            out.append(('ikey_encode %s %x %x' % (hx(a), rng.next(), rng.below(256)), {'kind': 'ikey_encode_any'}))
    for ln in (0, 1, 119, 120, 121, 186, 187, 188, 189, 200, 16375, 16376, 16377):     # varint boundary of usize+8; space[200] boundary
        u = rng.bytes(ln); sq = rng.below(1 << 56)
        out.append(('lkey %s %x' % (hx(u), sq), {'kind': 'lkey', 'u': u, 's': sq}))
    return out
