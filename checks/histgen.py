"""histgen.py -- seeded generator of operation histories for the K2 harness.
Keys collide (small alphabet incl. empty key, 0xff runs, long shared prefixes), values are
patterns 0 B .. 70 KiB (so that the 64 KiB minimum write buffer fills and flushes happen
naturally) and, in the 'heavy' scenario, one user key receives > 1 MiB of versions kept alive by
snapshots so that its versions straddle two table files."""

def khex(b):
    return b.hex() if b else '-'

def key_pool(rng, n, cmpkind=0):
    alpha = [b'a', b'b', b'\xff'] if cmpkind != 2 else [b'a', b'A', b'b', b'B', b'\xff']
    pool = [b'']
    long_prefix = bytes([0x70]) * 190
    while len(pool) < n:
        c = rng.below(10)
        if c < 7:
            k = b''.join(rng.choice(alpha) for _ in range(rng.range(1, 4)))
        elif c < 9:
            k = long_prefix + bytes([rng.below(4)]) * rng.range(0, 10)
        else:
            k = bytes([rng.below(256) for _ in range(rng.range(1, 6))])
        if k not in pool:
            pool.append(k)
    if not rng.chance(1, 3):
        pool.remove(b'')          # the empty key only sometimes
    return pool

def value_tok(rng, big_ok=True, huge_ok=False):
    c = rng.below(20)
    if c == 0: return '-'
    if c < 12: n = rng.range(1, 100)
    elif c < 16 or not big_ok: n = rng.range(100, 3000)
    elif c < 19 or not huge_ok: n = rng.range(20000, 70000)
    else: n = rng.range(1000000, 1200000)
    return '@%d:%d' % (n, rng.below(256))

CONFIG_MATRIX = {
    'write_buffer': [65536, 65536, 262144],
    'block_size': [1024, 4096],
    'restart': [1, 2, 16],
    'max_file_size': [1048576],
    'compression': [0, 1],
    'bloom': [0, 10],
    'cache': [-1, 0, 8192],       # -1: library default cache
    'mmap': [0, 1],
    'reuse_logs': [0, 1],
    'comparator': [0, 0, 1, 2],
    'paranoid': [0, 1],
}

def gen_config(rng, fixed=None):
    cfg = {k: rng.choice(v) for k, v in sorted(CONFIG_MATRIX.items())}
    if fixed:
        cfg.update(fixed)
    if cfg.get('comparator') == 2:
        cfg['bloom'] = 0      # the built-in bloom filter hashes key BYTES: it is only valid with comparators whose equality is byte equality
    return cfg

PROFILES = {
    # weights: put del batch get getall snap release flush crange compact reopen scan iter layout longiter
    'c01': dict(put=30, l0burst=3, dele=8, batch=8, get=14, getall=5, snap=3, release=2, flush=5, crange=6, compact=2, reopen=3, scan=3, iter=2, layout=2, longiter=0),
    'c06': dict(put=26, l0burst=3, dele=8, batch=6, get=10, getall=8, snap=9, release=5, flush=5, crange=8, compact=2, reopen=0, scan=6, iter=2, layout=2, longiter=0),
    'c07': dict(put=24, dele=8, batch=6, get=4, getall=1, snap=4, release=2, flush=5, crange=6, compact=1, reopen=1, scan=6, iter=16, layout=1, longiter=10),
    'c13': dict(plant=3, put=26, l0burst=3, dele=6, batch=6, get=4, getall=2, snap=3, release=2, flush=8, crange=10, compact=3, reopen=4, scan=2, iter=2, layout=8, longiter=8),
    'c19': dict(put=30, l0burst=3, dele=8, batch=8, get=8, getall=8, snap=2, release=1, flush=6, crange=8, compact=2, reopen=1, scan=5, iter=2, layout=3, longiter=0, repair=5),
    # c20: the c01 mix plus the lifecycle operations (harness/k2_life.h)
    'c20': dict(put=30, dele=8, batch=8, get=14, getall=5, snap=3, release=2, flush=5, crange=6, compact=2, reopen=3, scan=3, iter=2, layout=2, longiter=0,
                backup=5, bscan=4, copydb=2, wrongcmp=2, failopen=2, lock2=3, rebackup=3, recopy=2),
    'c14': dict(put=28, l0burst=3, dele=8, batch=8, get=3, getall=2, snap=4, release=3, flush=8, crange=12, compact=3, reopen=4, scan=1, iter=1, layout=10, longiter=0),
}

def gen_script(rng, keys, n):
    ops = []
    for _ in range(n):
        c = rng.below(20)
        if c < 2: ops.append('F')
        elif c < 4: ops.append('L')
        elif c < 9: ops.append('N')
        elif c < 14: ops.append('P')
        else:
            k = rng.choice(keys) if rng.chance(3, 4) else bytes([rng.below(256) for _ in range(rng.below(4))])
            if rng.chance(1, 8): k = k + b'\x00'
            ops.append(rng.choice(['S', 'S', 'G', 'T', 'E', 'B']) + khex(k))
    return ','.join(ops)

def gen_history(rng, profile='c01', nops=80, cfg=None, heavy=None):
    """returns (cfg, ops) -- ops are k2 harness command lines"""
    if cfg is None:
        cfg = gen_config(rng)
    w = PROFILES[profile]
    names = sorted(w)
    total = sum(w.values())
    keys = key_pool(rng, rng.range(4, 18), int(cfg.get('comparator', 0)))
    ops = ['open']
    live_snaps = []; nsnaps = 0
    open_iters = []
    backups = set()       # backup slots taken so far (profile c20)
    if heavy is None:
        heavy = rng.chance(1, 8)
    heavy_key = rng.choice(keys)
    huge_left = 1
    def pick():
        r = rng.below(total)
        for n in names:
            if r < w[n]: return n
            r -= w[n]
        return names[-1]
    def rand_bound():
        if rng.chance(1, 4): return '*'
        k = rng.choice(keys) if rng.chance(3, 4) else bytes([rng.below(256)])
        return khex(k)
    while len(ops) < nops:
        o = pick()
        if heavy and rng.chance(1, 3):
            # pile versions onto one key, pinned by snapshots
            ops.append('put %s @%d:%d' % (khex(heavy_key), rng.range(50000, 70000), rng.below(256)))
            if rng.chance(1, 2) and nsnaps < 200:
                ops.append('snap'); live_snaps.append(nsnaps); nsnaps += 1
            continue
        if o == 'put':
            huge = huge_left > 0 and rng.chance(1, 200)
            if huge: huge_left -= 1
            ops.append('put %s %s%s' % (khex(rng.choice(keys)), value_tok(rng, huge_ok=huge), ' 1' if rng.chance(1, 10) else ''))
        elif o == 'dele':
            ops.append('del %s' % khex(rng.choice(keys)))
        elif o == 'batch':
            n = rng.range(1, 40) if rng.chance(1, 5) else rng.range(1, 6)
            parts = []
            for _ in range(n):
                if rng.chance(4, 5): parts.append('p%s:%s' % (khex(rng.choice(keys)), value_tok(rng, big_ok=rng.chance(1, 10))))
                else: parts.append('d%s' % khex(rng.choice(keys)))
            ops.append('batch %s' % ','.join(parts))
        elif o == 'get':
            k = rng.choice(keys) if rng.chance(9, 10) else bytes([rng.below(256)])
            sn = str(rng.choice(live_snaps)) if live_snaps and rng.chance(1, 3) else '-'
            ops.append('%s %s %s' % ('get' if rng.chance(9, 10) else 'has', khex(k), sn))
        elif o == 'getall':
            sn = str(rng.choice(live_snaps)) if live_snaps and rng.chance(1, 2) else '-'
            for k in keys:
                ops.append('get %s %s' % (khex(k), sn))
        elif o == 'snap':
            if nsnaps < 200:
                ops.append('snap'); live_snaps.append(nsnaps); nsnaps += 1
        elif o == 'release':
            if live_snaps:
                i = rng.choice(live_snaps); live_snaps.remove(i); ops.append('release %d' % i)
        elif o == 'flush':
            ops.append('flush'); ops.append('layout')
        elif o == 'crange':
            ops.append('crange %d %s %s' % (rng.below(6), rand_bound(), rand_bound())); ops.append('layout')
        elif o == 'compact':
            ops.append('compact %s %s' % (rand_bound(), rand_bound())); ops.append('layout')
        elif o == 'plant':
            # an orphan table numbered ahead of the allocator (what a crash in the middle of a flush / compaction leaves),
            # then something that runs the obsolete-file collector
            ops.append('plant %d' % rng.choice([0, 1, 2, 5, 40, 900]))
            ops.append(rng.choice(['flush', 'flush', 'crange %d * *' % rng.below(3), 'reopen' if not open_iters else 'flush']))
            if ops[-1] == 'reopen': live_snaps = []
            ops.append('layout')
        elif o == 'reopen':
            if not open_iters:
                ops.append('reopen'); live_snaps = []; ops.append('layout')
        elif o == 'repair':
            if not open_iters:
                ops.append('repair %d' % rng.below(5)); live_snaps = []
                for k in keys: ops.append('get %s -' % khex(k))
                ops.append('scan -'); ops.append('layout')
                if rng.chance(1, 2) and len(keys) >= 3:
                    # new writes must take precedence over everything repair salvaged: a flush whose range STRADDLES the
                    # level-0 tables repair registered (smallest and largest key new, a middle key overwritten)
                    ks = sorted(keys); mid = ks[len(ks) // 2]
                    ops += ['put %s @6:%d' % (khex(ks[0]), rng.below(256)), 'put %s @7:%d' % (khex(mid), rng.below(256)),
                            'put %s @8:%d' % (khex(ks[-1]), rng.below(256)), 'flush', 'layout', 'get %s -' % khex(mid), 'scan -']
        elif o == 'backup':
            n = rng.below(3); backups.add(n)
            ops.append('backup %d' % n)
        elif o == 'rebackup':
            n = rng.choice(sorted(backups)) if backups and rng.chance(3, 4) else rng.below(3)
            ops.append('rebackup %d' % n); backups.add(n)
        elif o == 'recopy':
            if not open_iters:
                ops.append('recopy %d' % rng.below(2)); live_snaps = []
        elif o == 'bscan':
            if backups:
                ops.append('bscan %d' % rng.choice(sorted(backups)))
        elif o in ('copydb', 'wrongcmp', 'failopen'):
            # close + (something) + reopen: like reopen, only without long-lived iterators; snapshots die
            if not open_iters:
                ops.append('copydb %d' % rng.below(2) if o == 'copydb' else ('wrongcmp %d' % rng.below(3) if o == 'wrongcmp' else o)); live_snaps = []
                if rng.chance(1, 2): ops.append('layout')
        elif o == 'lock2':
            ops.append('lock2')
        elif o == 'l0burst':
            # several overlapping level-0 tables (each reopen/flush writes one), then a compaction whose range
            # touches only part of them: exercises the level-0 overlap closure and boundary handling
            if not open_iters:
                ks = sorted(keys)
                for _ in range(rng.range(2, 4)):
                    lo = rng.below(len(ks)); hi = min(len(ks), lo + rng.range(2, 5))
                    for k in ks[lo:hi]:
                        ops.append('put %s %s' % (khex(k), value_tok(rng, big_ok=False)))
                    if rng.chance(1, 2): ops.append('reopen'); live_snaps = []
                    else: ops.append('flush')
                a = rng.choice(ks); b = rng.choice(ks)
                ops.append('layout')
                ops.append(rng.choice(['compact %s %s', 'crange 0 %s %s']) % (khex(min(a, b)), khex(max(a, b))))
                ops.append('layout')
                for k in ks: ops.append('get %s -' % khex(k))
        elif o == 'scan':
            sn = str(rng.choice(live_snaps)) if live_snaps and rng.chance(1, 2) else '-'
            ops.append('%s %s' % (rng.choice(['scan', 'rscan']), sn))
        elif o == 'iter':
            sn = str(rng.choice(live_snaps)) if live_snaps and rng.chance(1, 3) else '-'
            ops.append('iter %s %s' % (sn, gen_script(rng, keys, rng.range(5, 40))))
        elif o == 'layout':
            ops.append('layout')
        elif o == 'longiter':
            if open_iters and rng.chance(2, 3):
                i = rng.choice(open_iters)
                if rng.chance(1, 5):
                    open_iters.remove(i); ops.append('iclose %d' % i)
                else:
                    ops.append('istep %d %s' % (i, gen_script(rng, keys, rng.range(2, 12))))
            elif len(open_iters) < 4:
                i = rng.below(64)
                if i not in open_iters:
                    sn = str(rng.choice(live_snaps)) if live_snaps and rng.chance(1, 4) else '-'
                    open_iters.append(i); ops.append('iopen %d %s' % (i, sn))
    # closing checks: everything readable is read once more, then a clean layout
    for i in list(open_iters):
        ops.append('istep %d %s' % (i, gen_script(rng, keys, 6))); ops.append('iclose %d' % i)
    for k in keys:
        ops.append('get %s -' % khex(k))
    for sn in live_snaps[:3]:
        ops.append('scan %d' % sn)
    for n in sorted(backups):
        ops.append('bscan %d' % n)
    ops.append('scan -'); ops.append('rscan -'); ops.append('layout')
    return cfg, ops, keys


def straddle_history(nver=40, cmp=0):
    """Corpus history: one user key whose versions (pinned by snapshots) straddle several level-1
    files, then a manual compaction whose range only touches the first of them (exercises
    add_boundary_inputs), then reads at the latest sequence and at snapshots."""
    cfg = {'write_buffer': 262144, 'block_size': 4096, 'restart': 16, 'max_file_size': 1048576, 'compression': 0,
           'bloom': 10, 'cache': -1, 'mmap': 0, 'reuse_logs': 0, 'comparator': cmp, 'paranoid': 0}
    A, K, Z = '61', '6b', '7a'
    if cmp == 1: A, Z = Z, A          # reverse comparator: keep "A" before K in comparator order
    if cmp == 2: cfg['bloom'] = 0     # case-insensitive comparator: the versions of the one user key are spelled 'k' and 'K' in turn
    ops = ['open', 'put %s @10:1' % A, 'put %s @10:2' % Z]
    for i in range(nver):
        ops.append('put %s @60000:%d' % (('4b' if (cmp == 2 and i % 2) else K), i % 256)); ops.append('snap')
    ops += ['flush', 'layout', 'crange 0 * *', 'layout', 'get %s -' % K, 'get %s 3' % K, 'get %s %d' % (K, nver - 2),
            'crange 1 %s %s' % (A, A), 'layout', 'get %s -' % K, 'get %s 3' % K, 'get %s %d' % (K, nver // 2), 'scan -', 'scan 5',
            'crange 2 %s %s' % (A, A), 'layout', 'get %s -' % K, 'get %s 7' % K, 'scan -']
    for i in range(0, nver, 3): ops.append('release %d' % i)
    ops += ['crange 1 * *', 'layout', 'get %s -' % K, 'get %s 4' % K, 'scan -', 'crange 2 * *', 'crange 3 * *', 'layout', 'get %s -' % K, 'scan -', 'scan 1', 'reopen', 'get %s -' % K, 'scan -', 'layout']
    return (cfg, ops)


BASE_CFG = {'write_buffer': 65536, 'block_size': 4096, 'restart': 16, 'max_file_size': 1048576, 'compression': 0,
            'bloom': 10, 'cache': -1, 'mmap': 0, 'reuse_logs': 0, 'comparator': 0, 'paranoid': 0}

def corpus_histories():
    """Fixed histories aimed at case splits that random histories rarely reach (several come from seeded changes)."""
    hx = lambda s: s.encode().hex()
    out = []
    # (1) seek-triggered TRIVIAL MOVE (automatic compaction), then merges: obsolete files must disappear
    ops = ['open'] + ['put %s @20:%d' % (hx('k%03d' % i), i % 256) for i in range(0, 1000, 5)] + ['flush']
    ops += ['crange %d * *' % l for l in range(4)] + ['layout', 'put %s @9:1' % hx('k100'), 'put %s @9:2' % hx('k900'), 'flush', 'layout']
    ops += ['get %s -' % hx('k500')] * 130 + ['layout', 'crange 3 * *', 'layout', 'put %s @5:3' % hx('k000'), 'compact * *', 'layout']
    ops += ['get %s -' % hx('k%03d' % i) for i in (0, 100, 500, 900, 995)] + ['scan -', 'layout']
    out.append((dict(BASE_CFG), ops))
    # (2) level-0 overlap closure, upper end: F1=[p..z] older, F2=[b..q] newer, compact [a,c]
    ops = ['open', 'put %s @3:1' % hx('p'), 'put %s @3:2' % hx('z'), 'reopen', 'put %s @3:3' % hx('b'), 'put %s @3:4' % hx('p'),
           'put %s @3:5' % hx('q'), 'reopen', 'layout', 'compact %s %s' % (hx('a'), hx('c')), 'layout', 'get %s -' % hx('p'), 'scan -',
           'reopen', 'get %s -' % hx('p'), 'layout']
    out.append((dict(BASE_CFG), ops))
    # (3) level-0 overlap closure, lower end: Z=[a..c] (old b), Y=[b..f] (new b), X=[e..g], compact [e,g]
    ops = ['open', 'put %s @3:1' % hx('a'), 'put %s @3:2' % hx('b'), 'put %s @3:3' % hx('c'), 'reopen',
           'put %s @3:4' % hx('b'), 'put %s @3:5' % hx('f'), 'reopen', 'put %s @3:6' % hx('e'), 'put %s @3:7' % hx('g'), 'reopen', 'layout',
           'compact %s %s' % (hx('e'), hx('g')), 'layout', 'get %s -' % hx('b'), 'scan -', 'reopen', 'get %s -' % hx('b'), 'layout']
    out.append((dict(BASE_CFG), ops))
    # (4) data pushed down to the deepest level, then two clean reopens
    ops = ['open'] + ['put %s @30:%d' % (hx('d%02d' % i), i) for i in range(20)] + ['flush'] + ['crange %d * *' % l for l in range(6)]
    ops += ['layout', 'put %s @4:9' % hx('d05'), 'flush', 'layout', 'reopen', 'layout', 'reopen', 'layout']
    ops += ['get %s -' % hx('d%02d' % i) for i in (0, 5, 19)] + ['scan -', 'crange 2 * *', 'layout', 'reopen', 'layout', 'scan -']
    out.append((dict(BASE_CFG), ops))
    out.append((dict(BASE_CFG, reuse_logs=1), list(ops)))
    # (6) SEEK-triggered compaction of a level-0 table that overlaps an older level-0 table: F1=[a..z] (old a, m, old z),
    #     F2=[a..z] (new a, new z, no m); lookups of m miss in F2 and hit in F1 until F2's seek allowance is used up
    ops = ['open', 'put %s @3:1' % hx('a'), 'put %s @3:2' % hx('m'), 'put %s @3:3' % hx('z'), 'reopen',
           'put %s @3:4' % hx('a'), 'put %s @3:5' % hx('z'), 'reopen', 'layout']
    ops += ['get %s -' % hx('m')] * 140 + ['layout', 'get %s -' % hx('a'), 'get %s -' % hx('z'), 'scan -', 'reopen', 'get %s -' % hx('a'), 'layout']
    out.append((dict(BASE_CFG), ops))
    # (7) a user key split over two ADJACENT level-1 files X=[f..p@hi] Y=[p@lo..r] (1.2 MB value + snapshot), and a compaction
    #     that starts from a DIFFERENT level-1 file Z=[d..e]: its level-2 partner W=[c..n] makes the level-1 inputs grow over
    #     X, which must then drag Y along (boundary files of the EXPANDED input set)
    ops = ['open', 'put %s @2:1' % hx('c'), 'put %s @2:2' % hx('n'), 'flush', 'put %s @2:3' % hx('d'), 'put %s @2:4' % hx('e'), 'flush',
           'put %s @2:5' % hx('f'), 'put %s @2:6' % hx('p'), 'put %s @2:7' % hx('r'), 'flush', 'layout', 'snap',
           'put %s @2:8' % hx('m'), 'put %s @1228800:9' % hx('p'), 'snap', 'flush', 'layout', 'crange 0 %s %s' % (hx('m'), hx('p')), 'layout',
           'crange 1 %s %s' % (hx('d'), hx('e')), 'layout', 'get %s -' % hx('p'), 'get %s 0' % hx('p'), 'get %s 1' % hx('p'), 'scan -', 'scan 0', 'scan 1',
           'reopen', 'get %s -' % hx('p'), 'layout']
    out.append((dict(BASE_CFG, write_buffer=8388608), ops))
    # (8) old values in the DEEPEST level (6), then a deletion whose tombstone meets other data in merging compactions of the
    #     upper levels: the tombstone must survive them (its key still has an older value below), with and without a snapshot
    #     taken after the deletion
    ops = ['open'] + ['put %s @30:%d' % (hx('d%02d' % i), i) for i in range(20)] + ['flush'] + ['crange %d * *' % l for l in range(6)]
    ops += ['layout', 'put %s @5:1' % hx('d06'), 'put %s @5:2' % hx('d08'), 'flush', 'crange 0 * *', 'layout',
            'del %s' % hx('d07'), 'snap', 'put %s @5:3' % hx('d08'), 'flush', 'layout', 'crange 0 * *', 'layout', 'get %s -' % hx('d07'), 'get %s 0' % hx('d07'),
            'crange 1 * *', 'layout', 'get %s -' % hx('d07'), 'crange 2 * *', 'layout', 'get %s -' % hx('d07'), 'get %s 0' % hx('d07'), 'scan -', 'scan 0',
            'release 0', 'del %s' % hx('d09'), 'put %s @5:4' % hx('d10'), 'flush', 'crange 0 * *', 'crange 1 * *', 'get %s -' % hx('d09'), 'scan -',
            'reopen', 'get %s -' % hx('d07'), 'get %s -' % hx('d09'), 'scan -', 'layout']
    out.append((dict(BASE_CFG), ops))
    # (9) case-insensitive comparator, one user key under several SPELLINGS: a value pushed to a deeper level, then a
    #     deletion / an overwrite in another spelling merged into it by compactions that reach the base level for the key
    #     (the "same user key as the previous entry" test of the compaction loop must use the comparator, not the bytes)
    ops = ['open', 'put %s @6:1' % hx('date'), 'put %s @6:2' % hx('Mail'), 'put %s @6:3' % hx('zip'), 'flush', 'crange 0 * *', 'crange 1 * *', 'layout',
           'del %s' % hx('DATE'), 'put %s @6:4' % hx('MAIL'), 'put %s @6:5' % hx('apple'), 'flush', 'layout',
           'crange 0 * *', 'layout', 'crange 1 * *', 'layout', 'crange 2 * *', 'layout',
           'get %s -' % hx('date'), 'get %s -' % hx('DATE'), 'get %s -' % hx('Date'), 'get %s -' % hx('mail'), 'scan -', 'rscan -',
           'put %s @6:6' % hx('dATE'), 'snap', 'del %s' % hx('Date'), 'flush', 'compact * *', 'layout', 'get %s -' % hx('date'), 'get %s 0' % hx('DATE'), 'scan -', 'scan 0',
           'release 0', 'put %s @6:7' % hx('zIP'), 'flush', 'compact * *', 'layout', 'get %s -' % hx('date'), 'get %s -' % hx('ZIP'), 'scan -',
           'reopen', 'get %s -' % hx('date'), 'get %s -' % hx('zip'), 'scan -', 'layout']
    out.append((dict(BASE_CFG, comparator=2, bloom=0), ops))
    # (5) log / MANIFEST reuse across many version edits: the reused MANIFEST grows past a 32 KiB block boundary
    #     (big keys make each edit ~6 KiB), then clean reopens
    big = lambda i: (bytes([0x62]) * 2990 + b'%04d' % i).hex()
    ops = ['open', 'put 61 @5:1', 'reopen', 'put 61 @5:2']
    for i in range(14):
        ops += ['put %s @8:%d' % (big(i), i), 'flush']
    ops += ['layout', 'reopen', 'get 61 -', 'layout', 'put 61 @5:3', 'reopen', 'get 61 -', 'scan -', 'layout']
    out.append((dict(BASE_CFG, reuse_logs=1), ops))
    return out


def huge_value_history():
    """values above 1 MiB interleaved with small ones, scanned in both directions with direction changes
    (the DB iterator shrinks its saved-value buffer above 1 MiB)"""
    hx = lambda s_: s_.encode().hex()
    cfg = dict(BASE_CFG, write_buffer=4194304)
    ops = ['open']
    for i in range(10):
        ops.append('put %s %s' % (hx('h%02d' % i), '@%d:%d' % (1500000 + 100000 * (i % 3), i) if i % 2 == 0 else '@%d:%d' % (10 + i, i)))
    ops += ['scan -', 'rscan -', 'iter - L,P,P,P,N,P,P,N,N,P,P,P,P,F,N,L,P', 'iter - S%s,P,N,P,P,N' % hx('h05'), 'flush', 'rscan -',
            'iter - L,P,P,P,P,P,P,P,P,P,P', 'iter - E%s,P,N,B%s,N,P' % (hx('h07'), hx('h04')), 'layout']
    return (cfg, ops)
