"""C13 -- K2-tied property (see DESIGN.md section 6 C13). Theorems: coq/theories/Properties_C13.v."""
import vlib, k2check

RULES = {
 'C06': 'histories with up to dozens of simultaneously live snapshots taken/released at random points, per-level compactions while held; every get/scan at a snapshot is compared with the frozen sorted-map view',
 'C07': 'random iterator scripts (first/last/seek/seek_ge/gt/le/lt/next/prev, direction changes at every position, targets present/absent/before-first/after-last/empty) on states spread over memtable, level-0 and deeper levels, one-shot and long-lived iterators that stay open across later writes, flushes and compactions; oracle = cursor over the sorted live view',
 'C13': 'histories with long-lived iterators and snapshots across flushes/compactions/reopen; at every quiescent layout point the directory listing is compared with the live file set; every file number created must be fresh',
 'C14': 'histories with manual compaction of arbitrary levels/ranges, flushes, reopen; after every structural change the reported layout is compared with the model layout, the executable invariant inv_b is evaluated on the model state rebuilt from the observed edits and decoded tables, and recorded smallest/largest keys are compared with decoded content',
}

def run(rep, tier, seed):
    pr = vlib.coq_check('C13')
    pr2 = vlib.coq_check('C13b')      # the collector: ldb_remove_obsolete_files unlinks exactly the names nobody needs (Gc.v)
    pr['theorems'] += pr2['theorems']; pr['ok'] = pr['ok'] and pr2['ok']; pr['closed_count'] = pr.get('closed_count', 0) + pr2.get('closed_count', 0)
    pr['axioms'] = sorted(set(pr['axioms']) | set(pr2['axioms'])); pr['log'] += pr2['log']; pr['file'] += ' + coq/theories/Properties_C13b.v'
    if pr2.get('coqchk'): pr['coqchk_C13b'] = pr2['coqchk']
    rep.add_proof(pr)
    if not pr['ok']:
        rep.violation({'kind': 'proof-broken', 'log': pr['log'][-3000:], 'forbidden': pr['forbidden']}, suffix='no-failing-input-found')
    nh, nops = (32, 90) if tier == 'quick' else (1200, 300)
    import histgen
    k2check.run_k2(rep, 'C13', tier, seed, 'c13', nh, nops, extra_histories=histgen.corpus_histories())
    fault_segment(rep, tier, seed)
    rep.cov['rule'] = RULES['C13'] + '; every run of the obsolete-file collector is observed (live set, log/prev-log/manifest numbers, directory listing, unlinked names) and the unlinked set must equal the one computed by the collector model Gc.v (theorems Properties_C13b.v); plus: every MANIFEST append/fsync and directory fsync of 2 (quick) histories fails once, after which a fault-free reopen must succeed (obsolete-file removal must stop after a failed version install); crash images with orphan tables of a multi-output compaction are recovered on the PTHREAD build with delayed unlinks and must behave like the single-threaded recovery (no orphan removal may hit a file the background thread has just created); on the pthread build a copy of the directory at every log unlink of a continuously writing client must recover every write acknowledged before the unlink' + '; distinct_nontrivial = histories with >= 1 flush and >= 1 non-trivial compaction'

def fault_segment(rep, tier, seed):
    import k3check
    k3check.failed_install_segment(rep, tier, seed)
    k3check.orphan_race_segment(rep, tier, seed)
    k3check.log_gc_race_segment(rep, tier, seed)

def replay(rep, path):
    return k2check.replay_k2(rep, path)
