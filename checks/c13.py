"""C13 -- K2-tied property (see DESIGN.md section 6 C13). Theorems: coq/theories/Properties_C13.v."""
import vlib, k2check

RULES = {
 'C06': 'histories with up to dozens of simultaneously live snapshots taken/released at random points, per-level compactions while held; every get/scan at a snapshot is compared with the frozen sorted-map view',
 'C07': 'random iterator scripts (first/last/seek/seek_ge/gt/le/lt/next/prev, direction changes at every position, targets present/absent/before-first/after-last/empty) on states spread over memtable, level-0 and deeper levels, one-shot and long-lived iterators that stay open across later writes, flushes and compactions; oracle = cursor over the sorted live view',
 'C13': 'histories with long-lived iterators and snapshots across flushes/compactions/reopen; at every quiescent layout point the directory listing is compared with the live file set; every file number created must be fresh',
 'C14': 'histories with manual compaction of arbitrary levels/ranges, flushes, reopen; after every structural change the reported layout is compared with the model layout, the executable invariant inv_b is evaluated on the model state rebuilt from the observed edits and decoded tables, and recorded smallest/largest keys are compared with decoded content',
}

def run(rep, tier, seed):
    pr = vlib.coq_check('C13'); rep.add_proof(pr)
    if not pr['ok']:
        rep.violation({'kind': 'proof-broken', 'log': pr['log'][-3000:], 'forbidden': pr['forbidden']}, suffix='no-failing-input-found')
    nh, nops = (32, 90) if tier == 'quick' else (1200, 300)
    import histgen
    k2check.run_k2(rep, 'C13', tier, seed, 'c13', nh, nops, extra_histories=histgen.corpus_histories())
    fault_segment(rep, tier, seed)
    rep.cov['rule'] = RULES['C13'] + '; plus: every MANIFEST append/fsync and directory fsync of 2 (quick) histories fails once, after which a fault-free reopen must succeed (obsolete-file removal must stop after a failed version install)' + '; distinct_nontrivial = histories with >= 1 flush and >= 1 non-trivial compaction'

def fault_segment(rep, tier, seed):
    """No live file may be removed even when installing a version fails: fail every MANIFEST append / fsync and
    directory fsync once (the background error must stop obsolete-file removal), then reopen without faults:
    the open must succeed (no table named by the MANIFEST is missing)."""
    import os, shutil
    from concurrent.futures import ThreadPoolExecutor
    import k3lib, c12
    out = vlib.scratch_dir(); lib = vlib.build_lib(out, 'nothread')
    k3 = vlib.build_k3(out, 'nothread', lib=lib); k2 = vlib.build_k2(out, 'nothread', lib=lib)
    rng = vlib.Rng(seed ^ 0xC13F)
    jobs = []
    for h in range(2 if tier == 'quick' else 20):
        opts = {'write_buffer': 65536, 'reuse_logs': 0, 'paranoid': h % 2}
        ops, batches = k3lib.gen_write_history(rng, nops=30, reopen=False)
        ops += ['crange 0 * *', 'crange 1 * *', 'compact * *']
        work = os.path.join(out, 'b%d' % h); os.makedirs(work, exist_ok=True)
        rc, o, e, evs, sh = k3lib.run_traced(k3, os.path.join(work, 'db'), opts, ops, work, fail='999999999:5:0:0', logidx=True)
        shutil.rmtree(work, ignore_errors=True)
        sites = [ev['idx'] for ev in evs if ev['k'] == 'I' and ((ev['name'].startswith('MANIFEST') and ev['what'] in ('write', 'fsync')) or (ev['what'] == 'fsync' and ev['name'] == '.'))]
        if tier == 'quick' and len(sites) > 40:
            sites = sorted(rng.choice(sites) for _ in range(40))
        for k in sites:
            jobs.append((k3, k2, os.path.join(out, 'f%d_%d' % (h, len(jobs))), opts, ops, batches, '%d:5:0:%d' % (k, rng.below(2)), 'h%d' % h))
    with ThreadPoolExecutor(vlib.NCPU) as ex:
        results = list(ex.map(c12.one_fault_run, jobs))
    n = 0
    for job, r in zip(jobs, results):
        rep.evaluated(1); n += 1
        for p in r['problems']:
            if p['kind'] in ('reopen-failed', 'reopen-crash', 'scan-error-after-reopen', 'crash', 'hang'):
                rep.violation({'kind': 'K3-gc-after-failed-install-' + p['kind'], 'problem': p, 'options': job[3], 'history': job[4], 'fail': job[6]})
    rep.cov['failed_install_runs'] = n

def replay(rep, path):
    return k2check.replay_k2(rep, path)
