"""extra_cache -- K1 differential of lcdb's LRU cache (src/util/cache.c) against the
extracted model (coq/theories/Cache.v, command `lru <capacity> <script>`).
Seeded scripts over few keys that collide in shards (keys are chosen by brute force on
ldb_hash), tiny capacities (0, 1, 16, 17, 100, ...), handles held across evictions, double
inserts of one key, erase while pinned, size_t wrap of the usage counter.  The outputs
(hit values / misses, usage numbers, every deleter call in order, the release-all tail and
the destroy tail) must be identical.  On top of the differential, the transparency
property itself is evaluated on the implementation's output: every hit must carry the
value of the most recent insert of that key (no erase in between), and every inserted
value must be handed to the deleter exactly once over the whole run."""
import vlib
from k1util import hx

M32 = 0xffffffff

def ldb_hash(data, seed=0):
    m = 0xc6a4a793
    h = (seed ^ (len(data) * m)) & M32
    i = 0
    while len(data) - i >= 4:
        w = int.from_bytes(data[i:i + 4], 'little'); i += 4
        h = (h + w) & M32; h = (h * m) & M32; h ^= h >> 16
    rem = len(data) - i
    if rem == 3: h = (h + (data[i + 2] << 16)) & M32
    if rem >= 2: h = (h + (data[i + 1] << 8)) & M32
    if rem >= 1:
        h = (h + data[i]) & M32; h = (h * m) & M32; h ^= h >> 24
    return h

def shard_of(key):
    return ldb_hash(key, 0) >> 28

def colliding_keys(rng, nshards, per_shard):
    """brute force: [per_shard] keys in each of [nshards] shards"""
    want = []
    while len(want) < nshards:
        s = rng.below(16)
        if s not in want: want.append(s)
    got = {s: [] for s in want}; tries = 0
    while any(len(v) < per_shard for v in got.values()) and tries < 100000:
        tries += 1
        k = rng.bytes(rng.choice([0, 1, 1, 2, 3, 4, 5, 8, 16]))
        s = shard_of(k)
        if s in got and len(got[s]) < per_shard and k not in got[s]:
            got[s].append(k)
    return [k for s in want for k in got[s]]

CAPS = [0, 1, 16, 17, 100, 2, 15, 32, 33, 48, 0xffffffffffffffff, 0xfffffffffffffff1]

def gen_script(rng, tier):
    cap = rng.choice(CAPS[:5]) if rng.chance(3, 4) else rng.choice(CAPS)
    keys = colliding_keys(rng, rng.choice([1, 1, 2, 3]), rng.choice([2, 3, 4, 6]))
    n = rng.range(5, 120 if tier == 'quick' else 400)
    wrap = rng.chance(1, 25)
    ops = []; slots = []      # slots: True = (possibly) open
    val = 0
    for _ in range(n):
        r = rng.below(100)
        if r < 32:
            val += 1
            if wrap and rng.chance(1, 3):
                ch = rng.choice([1 << 63, (1 << 64) - 1, (1 << 63) + 1])
            else:
                ch = rng.choice([0, 1, 1, 1, 1, 2, 2, 3, 5, 7, 20])
            ops.append('i%s:%x:%x' % (hx(rng.choice(keys)), val, ch)); slots.append(True)
        elif r < 55:
            ops.append('l%s' % hx(rng.choice(keys))); slots.append(True)
        elif r < 80:
            if slots:
                opened = [i for i, o in enumerate(slots) if o]
                if opened and not rng.chance(1, 10):
                    # mostly the oldest or a random open one: handles are held across evictions
                    i = rng.choice(opened)
                else:
                    i = rng.below(len(slots) + 2)     # empty / released / nonexistent slot: no-op
                if i < len(slots): slots[i] = False
                ops.append('r%x' % i)
        elif r < 88:
            ops.append('e%s' % hx(rng.choice(keys)))
        elif r < 91:
            ops.append('p')
        elif r < 99:
            ops.append('u')
        else:
            ops.append('n')
    return cap, ops

def oracle(ops, out):
    """transparency + exactly-once deleter on the implementation's own output; returns error text or None.
    Deleter tokens are not aligned to operations (only l/u/n print something), so they are
    checked against the whole script: each names an inserted (key, value), each exactly once."""
    toks = out.split(',')
    inserted = set()
    for op in ops:
        if op[0] == 'i':
            k, v, ch = op[1:].split(':'); inserted.add((k, v))
    deleted = {}
    seps = 0
    sync = []
    for t in toks:
        if t.startswith('d'):
            k, v = t[1:].split(':')
            if (k, v) not in inserted: return 'deleter called on something never inserted: ' + t
            deleted[(k, v)] = deleted.get((k, v), 0) + 1
            if deleted[(k, v)] > 1: return 'double free of ' + t
        elif t == '|':
            seps += 1
        else:
            if seps: return 'observation after the script end: ' + t
            sync.append(t)
    if seps != 2: return 'missing separator'
    latest = {}; si = 0
    for op in ops:
        c = op[0]
        if c == 'i':
            k, v, ch = op[1:].split(':'); latest[k] = v
        elif c == 'e':
            latest.pop(op[1:], None)
        elif c in 'lun':
            if si >= len(sync): return 'missing observation for ' + op
            t = sync[si]; si += 1
            if c == 'l':
                if t == 'm': pass
                elif t.startswith('h'):
                    if latest.get(op[1:]) != t[1:]:
                        return 'lookup of %s returned %s, latest insert is %s' % (op[1:], t[1:], latest.get(op[1:]))
                else: return 'unexpected token ' + t
            elif not t.startswith(c): return 'unexpected token ' + t
    if si != len(sync): return 'trailing observations'
    for kv in inserted:
        if deleted.get(kv, 0) != 1: return 'leak: %s:%s never passed to the deleter' % kv
    return None

def run_segment(rep, tier, seed, out_dir, k1, model):
    rng = vlib.Rng(seed ^ 0xCAC4E)
    ncases = 700 if tier == 'quick' else 12000
    cases = []; metas = []
    # fixed corner cases first
    fixed = [
        (10, ['i61:1:1', 'i62:2:1', 'u', 'l61', 'l63', 'r0', 'r1', 'r2', 'u', 'e61', 'u', 'p', 'u']),
        (0, ['i61:1:5', 'l61', 'u', 'r0']),
        (10, ['i61:1:10', 'i61:2:10', 'u', 'l61', 'r0', 'r1']),
        (1, []),
        (16, ['i61:1:1', 'r0', 'i61:2:1', 'r1', 'i61:3:1', 'l61', 'e61', 'l61', 'u']),    # erase while pinned
        (16, ['i61:1:1', 'i61:2:1', 'i61:3:1', 'u', 'p', 'u', 'r2', 'p', 'u']),
        (0xffffffffffffffff, ['i61:1:1', 'l61', 'u']),                                   # (cap + 15) wraps: caching off
        (16, ['i61:1:8000000000000000', 'i62:2:8000000000000000', 'u', 'r0', 'r1', 'u', 'i63:3:1', 'u']),
    ]
    for cap, ops in fixed:
        cases.append('lru %x %s' % (cap, ','.join(ops) if ops else '.')); metas.append((cap, ops))
    while len(cases) < ncases:
        cap, ops = gen_script(rng.fork(), tier)
        cases.append('lru %x %s' % (cap, ','.join(ops) if ops else '.')); metas.append((cap, ops))
    c = vlib.run_lines(k1, cases, shards=4)
    m = vlib.run_lines(model, cases, shards=vlib.NCPU)
    rep.evaluated(len(cases))
    failing = {i for i, ((cap_, ops_), o_) in enumerate(zip(metas, c)) if not (o_.startswith('CRASH') or o_.startswith('EXC')) and oracle(ops_, o_)}
    failing |= {i for i, o_ in enumerate(c) if o_.startswith('CRASH')}
    bad = vlib.diff_cases(rep, cases, c, m, 'lru-cache', failing=failing,
                          correspondence='Cache.v (LRU shard model) vs ldb_lru_* : theorems Properties_C01c.C01_cache_*')
    nor = 0
    for line, (cap, ops), o in zip(cases, metas, c):
        if o.startswith('CRASH') or o.startswith('EXC'):
            continue
        script_toks = o.split('|')[0].split(',')
        ndel = sum(1 for t in script_toks if t.startswith('d')); nhit = sum(1 for t in script_toks if t.startswith('h'))
        rep.nontrivial(('lru', cap, min(ndel, 6), min(nhit, 6)))
        rep.count('cache_deleter_calls_in_script', ndel)
        rep.count('cache_hits', nhit)
        e = oracle(ops, o)
        if e:
            nor += 1
            if nor <= 3:
                rep.violation({'kind': 'oracle-cache', 'case': line[:20000], 'implementation': o[:20000], 'error': e})
    rep.count('cache_cases', len(cases))
    if cases:
        rep.sample(cases[len(fixed)] + ' => ' + c[len(fixed)])
    return bad + nor
