"""k2lib.py -- tie K2: run operation histories on the real lcdb (harness/k2.c), then
replay everything the engine did on the extracted Coq model (Engine.v) step by step:
  (a) every observed structural step must be a guarded step of the model and must
      produce exactly the files the model computes,
  (b) every API answer is compared with the model's exact read path AND with the
      sorted-map specification (the property oracle),
  (c) the model invariant inv_b and the reported layout are compared at quiescent points.
When (a) fails the observed edit is installed verbatim and judged semantically
(views at every readable sequence + inv_b): preserved => policy divergence (no alarm),
otherwise a violation with the history as replay."""
import os, subprocess, json, shutil
import vlib

# ------------------------------------------------------------------ model process
class Model:
    def __init__(self, exe):
        self.p = subprocess.Popen([exe], stdin=subprocess.PIPE, stdout=subprocess.PIPE, bufsize=0, preexec_fn=vlib.big_stack)
        self.n = 0
    def ask(self, cmd):
        self.p.stdin.write((cmd + '\n').encode()); self.p.stdin.flush()
        self.n += 1
        return self.p.stdout.readline().decode().rstrip('\n')
    def close(self):
        try:
            self.p.stdin.close(); self.p.wait(timeout=5)
        except Exception:
            self.p.kill()

# ------------------------------------------------------------------ trace parsing
LIFE_PREFIXES = ('BACKUP', 'BSCAN', 'COPY', 'COPYSCAN', 'LSDIR', 'WRONGCMP', 'FAILOPEN', 'LOCK2', 'REBACKUP', 'RECOPY')
LIFE_REOPEN_OPS = ('copydb', 'wrongcmp', 'failopen', 'recopy')       # close + ... + open: a `reopen` for the engine model
LDB_INVALID = 30004

def parse_trace(text):
    calls = []; cur = None
    for line in text.split('\n'):
        if line.startswith('CALL '):
            _, idx, name = line.split(' ', 2)
            cur = {'idx': int(idx), 'name': name, 'edits': [], 'ret': None, 'layout': None, 'dir': None}
            calls.append(cur)
        elif cur is None:
            continue
        elif line.startswith('EDIT '):
            kv = dict(t.split('=', 1) for t in line[5:].split(' '))
            ed = {'rc': int(kv['rc']), 'snap': int(kv['snap'], 16), 'dels': [], 'adds': [], 'tables': {},
                  'vnext': int(kv['vnext']), 'lastseq': int(kv['lastseq'], 16), 'lognum': int(kv['lognum']),
                  'manifest': int(kv['manifest']), 'raw': line}
            if kv['del'] != '.':
                ed['dels'] = [tuple(int(x) for x in t.split(':')) for t in kv['del'].split(',')]
            if kv['add'] != '.':
                for t in kv['add'].split(','):
                    f = t.split(':', 3)
                    ed['adds'].append({'level': int(f[0]), 'num': int(f[1]), 'size': int(f[2]), 'bounds': f[3]})
            cur['edits'].append(ed)
        elif line.startswith('TABLE '):
            _, num, size, rest = line.split(' ', 3)
            ents, status = rest.rsplit(' status=', 1)
            if not cur['edits']: continue        # threaded builds: a background edit split across two calls
            cur['edits'][-1]['tables'][int(num)] = {'entries': ents, 'status': int(status), 'size': int(size)}
        elif line.startswith('TABLEHEX '):
            _, num, hx_ = line.split(' ', 2)
            if not cur['edits']: continue
            cur['edits'][-1].setdefault('tablehex', {})[int(num)] = hx_.strip()
        elif line.startswith('GC live=') or (line.startswith('GC ') and 'GC live=' in line):
            seg = line.split('GC live=')[-1]           # an unterminated state line (recovery's add_files) may precede
            if ' dir=' in seg:
                kv = dict(t.split('=', 1) for t in ('live=' + seg).split(' '))
                cur.setdefault('gcs', []).append({'live': kv['live'], 'log': int(kv['log']), 'prev': int(kv['prev']), 'man': int(kv['man']),
                                                  'dir': kv['dir'], 'rm': [], 'order': kv.get('order', 'sl')})
        elif line.startswith('GCRM '):
            if cur.get('gcs'): cur['gcs'][-1]['rm'].append(line[5:].strip())
        elif line.startswith('LAYOUT '):
            cur['layout'] = line[7:]
        elif line.startswith('MANIFESTHEX '):
            _, num, hx_ = line.split(' ', 2)
            cur['manifesthex'] = (int(num), hx_.strip())
        elif line.startswith('DIR'):
            cur['dir'] = line[3:].split()
        elif line.split(' ', 1)[0] in LIFE_PREFIXES:
            cur.setdefault('life', []).append(line)      # lifecycle commands (C20, harness/k2_life.h)
        elif line.startswith('RET '):
            cur['ret'] = line[4:]
    return calls

def run_c(k2, dbdir, opts, ops, timeout=600, keep=False):
    if not keep:
        import glob
        if os.path.exists(dbdir): shutil.rmtree(dbdir)
        for d in glob.glob(dbdir + '.*'): shutil.rmtree(d, ignore_errors=True)       # stale backups / copies of an earlier run under this name
    args = [k2, dbdir] + ['%s=%s' % kv for kv in sorted(opts.items())]
    r = subprocess.run(args, input=('\n'.join(ops) + '\n').encode(), capture_output=True, timeout=timeout)
    return r.returncode, r.stdout.decode('latin1'), r.stderr.decode('latin1')

# ------------------------------------------------------------------ sorted-map cursor oracle (python)
def ci_fold(b):
    return bytes((c + 32) if 65 <= c <= 90 else c for c in b)

def cmp_bytes(a, b, rev):
    """rev: comparator kind 0 bytewise, 1 (or True) reverse bytewise, 2 ASCII case-insensitive"""
    kind = int(rev)
    if kind == 2:
        a = ci_fold(a); b = ci_fold(b)
    r = (a > b) - (a < b)
    return -r if kind == 1 else r

def script_oracle(view, script, rev, pos=None):
    """view: list of (key bytes, valtok) in comparator order. Returns (tokens, pos)."""
    out = []
    n = len(view)
    for opx in script.split(','):
        c = opx[0]; skipped = False
        if c == 'F': pos = 0 if n else None
        elif c == 'L': pos = n - 1 if n else None
        elif c == 'N':
            if pos is None: skipped = True
            else: pos = pos + 1 if pos + 1 < n else None
        elif c == 'P':
            if pos is None: skipped = True
            else: pos = pos - 1 if pos - 1 >= 0 else None
        else:
            t = bytes.fromhex(opx[1:]) if opx[1:] != '-' else b''
            ge = next((i for i, (k, _) in enumerate(view) if cmp_bytes(k, t, rev) >= 0), None)
            gt = next((i for i, (k, _) in enumerate(view) if cmp_bytes(k, t, rev) > 0), None)
            if c in ('S', 'G'): pos = ge
            elif c == 'T': pos = gt
            elif c == 'E':   # last entry <= t
                pos = (gt - 1 if gt is not None else n - 1)
                if pos < 0: pos = None
            elif c == 'B':   # last entry < t
                pos = (ge - 1 if ge is not None else n - 1)
                if pos < 0: pos = None
        if skipped: out.append('~')
        elif pos is None: out.append('!')
        else:
            k, v = view[pos]; out.append((k.hex() if k else '-') + ':' + v)
    return out, pos

def parse_view(s):
    if s == '.' or s == '':
        return []
    out = []
    for t in s.split(','):
        k, v = t.split(':', 1)
        out.append((bytes.fromhex(k) if k != '-' else b'', v))
    return out

# ------------------------------------------------------------------ validation
class K2Result:
    def __init__(self):
        self.problems = []      # dicts: kind, call, detail
        self.stats = {'calls': 0, 'edits': 0, 'flush': 0, 'compact': 0, 'move': 0, 'reopen': 0, 'reads': 0,
                      'scans': 0, 'iters': 0, 'policy_divergence': 0, 'guarded_steps': 0, 'model_cmds': 0,
                      'multi_output': 0, 'dropped_entries': 0, 'files_cmp': 0, 'inv_checks': 0,
                      'key_in_two_files': 0, 'policy_inputs_predicted': 0, 'policy_inputs_unpredicted': 0,
                      'policy_flush_predicted': 0, 'policy_flush_unpredicted': 0}
    def problem(self, kind, call, **kw):
        d = {'kind': kind, 'call': call}; d.update(kw)
        self.problems.append(d)

PROPERTY_KINDS = ('read-vs-spec', 'scan-vs-spec', 'iter-vs-spec', 'view-changed-by-step', 'inv-false-on-observed',
                  'layout-mismatch', 'table-status', 'api-error', 'harness-crash', 'meta-mismatch')

def _valtok(b):
    if len(b) == 0: return '-'
    seed = b[0]
    if all(b[i] == ((seed + i * 31 + (i // 251)) & 255) for i in range(len(b))):
        return '@%d:%d' % (len(b), seed)
    return b.hex()

def model_entries_to_dump(mr):
    """'k=v,k=v ok' (hex internal keys) -> the TABLE line format of the harness; None if the model reported an error"""
    if not mr.endswith(' ok'): return None
    body = mr[:-3]
    if body in ('.', ''): return '.'
    out = []
    for t in body.split(','):
        k, v = t.split('=')
        kb = bytes.fromhex(k) if k != '-' else b''; vb = bytes.fromhex(v) if v != '-' else b''
        if len(kb) < 8: return None
        tag = int.from_bytes(kb[-8:], 'little'); u = kb[:-8]
        out.append('%s:%x:%d:%s' % (u.hex() if u else '-', tag >> 8, tag & 255, _valtok(vb)))
    return ','.join(out)

def entries_count(s):
    return 0 if s in ('.', '') else s.count(',') + 1

def max_seq(ents):
    return max(int(t.split(':')[1], 16) for t in ents.split(','))

CMP_NAMES = {0: b'leveldb.BytewiseComparator', 1: b'verif.ReverseBytewise', 2: b'verif.CaseInsensitive'}

def layout_ikey_hex(t):
    """'userkeyhex:seqhex:type' (put_ikey of harness/k2.c) -> hex of the encoded internal key"""
    u, seq, ty = t.split(':')
    return ('' if u == '-' else u) + ((int(seq, 16) << 8) | int(ty)).to_bytes(8, 'little').hex()

def manifest_replay_compare(m, rev, call, kv, res):
    """MANIFEST bytes at a quiescent point -> extracted replica of ldb_versions_recover -> must give what is in memory.
    What must coincide (version_set.c): ldb_versions_apply writes every edit (with log number, prev log number,
    next_file_number and last_sequence filled in) to the MANIFEST before installing it, and installs
    vset->log_number / prev_log_number from the edit; so after the last edit
      - the files of every level, IN ORDER, with size and smallest/largest keys      == replay,
      - vset->log_number, vset->prev_log_number                                      == replay,
      - the MANIFEST that is current is the one named by vset->manifest_file_number,
      - replayed next_file_number (last recorded + 1) <= vset->next_file_number + 1 (numbers handed out since
        the last edit are not recorded) and every live file / the log number is below the recorded next_file,
      - replayed last_sequence <= vset->last_sequence (writes after the last edit live in the log only)."""
    num, hx_ = call['manifesthex']
    res.stats['manifest_replays'] = res.stats.get('manifest_replays', 0) + 1
    r = m.ask('manifest_replay %s %s %d' % (CMP_NAMES[rev].hex(), hx_ if hx_ != '-' else '-', rev))
    def bad(**kw):
        res.problem('manifest-replay-mismatch', call['idx'], manifest=num, **kw)
    if not r.startswith('ok '):
        bad(detail='replay of the current MANIFEST fails', model=r[:300]); return
    mkv = dict(t.split('=', 1) for t in r[3:].split(' '))
    if num != int(kv['manifest']):
        bad(detail='manifest number', implementation=kv['manifest'], printed=num)
    for L in range(7):
        cf = []
        if kv['L%d' % L] != '.':
            for t in kv['L%d' % L].split(','):
                n_, sz, bounds = t.split(':', 2); lo, hi = bounds.split('/')
                if lo.startswith('BAD') or hi.startswith('BAD'):
                    cf.append((int(n_), int(sz), lo, hi)); continue
                cf.append((int(n_), int(sz), layout_ikey_hex(lo), layout_ikey_hex(hi)))
        mf = []
        if mkv['L%d' % L] != '.':
            for t in mkv['L%d' % L].split(','):
                n_, sz, bounds = t.split(':', 2); lo, hi = bounds.split('/')
                mf.append((int(n_, 16), int(sz, 16), lo, hi))
        if cf != mf:
            bad(detail='files of level %d' % L, implementation=[str(x) for x in cf][:40], model=[str(x) for x in mf][:40])
        if any(x[0] >= int(mkv['manifest'], 16) for x in cf):
            bad(detail='live file numbered at or above the recorded next_file', level=L, recorded=int(mkv['manifest'], 16))
    res.stats['manifest_files_compared'] = res.stats.get('manifest_files_compared', 0) + sum(
        0 if kv['L%d' % L] == '.' else kv['L%d' % L].count(',') + 1 for L in range(7))
    if int(kv['lognum']) != int(mkv['log'], 16):
        bad(detail='log number', implementation=kv['lognum'], model=int(mkv['log'], 16))
    if int(kv['prevlog']) != int(mkv['prev'], 16):
        bad(detail='prev log number', implementation=kv['prevlog'], model=int(mkv['prev'], 16))
    if int(mkv['log'], 16) >= int(mkv['manifest'], 16):
        bad(detail='log number at or above the recorded next_file', model=r[:200])
    if int(mkv['next'], 16) > int(kv['nextfile']) + 1:
        bad(detail='recorded next_file ahead of the counter in memory', implementation=kv['nextfile'], model=int(mkv['next'], 16))
    if int(mkv['seq'], 16) > int(kv['lastseq'], 16):
        bad(detail='recorded last_sequence ahead of the one in memory', implementation=kv['lastseq'], model=mkv['seq'])

def split_status(ret):
    """'<body> status=<n>' -> (body, n); anything else (e.g. 'closed', 'noiter') -> (ret, 'missing')"""
    if ' status=' in ret:
        b, st = ret.rsplit(' status=', 1); return b, st
    return ret, 'missing'

def validate(calls, ops, opts, model_exe, res, keys_known, check_every_layout=True, max_problems=12):
    """Walk the trace, drive the model; fills res (K2Result)."""
    m = Model(model_exe)
    rev = int(opts.get('comparator', 0))       # comparator kind (0 bytewise, 1 reverse, 2 case-insensitive)
    snaps = {}            # idx -> seq (live)
    iters = {}            # id -> (view list, pos)
    opened = False
    repaired = False
    repair_new = set()    # tables created by repair from log files
    gc_clean = True       # the last obsolete-file removal ran while no iterator pinned an old version
    planted = False       # an orphan table was planted (`plant`) and no collector run has been observed since
    backups = {}          # C20: backup slot -> model view at the moment the backup was taken
    copies = {}           # C20: copy slot -> model view at the moment the (last successful) copy was taken
    lk_open = False       # C20: the lock model (Lifecycle.v lk_step) has a handle open on the directory
    try:
        m.ask('e_init %d' % rev)
        m.ask('l_init')
        for call, opline in zip(calls, ops):
            res.stats['calls'] += 1
            if len(res.problems) >= max_problems:
                break
            a = opline.split(' ')
            name = a[0]; ret = call['ret']
            if ret is None:
                res.problem('harness-crash', call['idx'], op=opline)
                break
            readable = sorted(set(snaps.values()))
            # every obsolete-file collection observed during this call, replayed on the collector model (Gc.v)
            for g in call.get('gcs', []):
                if g.get('order') == 'ls' and not g['rm']:
                    continue      # listing before live set and nothing unlinked: recovery's missing-file check, not a collection
                res.stats['gc_events'] = res.stats.get('gc_events', 0) + 1
                live = ','.join('%x' % int(t) for t in g['live'].split(',')) if g['live'] != '.' else '.'
                mr = m.ask('gc_case %s %x %x %x %s' % (live, g['log'], g['prev'], g['man'], g['dir']))
                mrm = mr.split(' rm=')[1] if ' rm=' in mr else '?'
                want = set() if mrm == '.' else set(mrm.split(','))
                got = set(g['rm'])
                res.stats['gc_removed'] = res.stats.get('gc_removed', 0) + len(got)
                if want != got:
                    res.problem('gc-vs-model', call['idx'], op=opline,
                                detail='the collector unlinked %s; the model of ldb_remove_obsolete_files (needed = referenced tables + pending outputs, logs >= log_number or prev_log, MANIFEST >= manifest number) unlinks %s'
                                       % (sorted(bytes.fromhex(x).decode('latin1') for x in got - want) or 'nothing extra', sorted(bytes.fromhex(x).decode('latin1') for x in want - got) or 'nothing more'),
                                state={k: g[k] for k in ('live', 'log', 'prev', 'man')}, listing=[bytes.fromhex(x).decode('latin1') for x in g['dir'].split(',')] if g['dir'] != '.' else [])

            def views():
                d = {q: m.ask('e_view %x' % q) for q in readable}
                d['last'] = m.ask('e_view -')
                return d

            man_begin = {}        # level -> begin of the rest of this call's manual compaction (m->begin = &tmp_storage)

            def policy_inputs(L, in0, in1, ed):
                """the observed inputs of a compaction must be among the selections the replica of lcdb's
                input-selection code (Policy.v, proved to satisfy the guards: Properties_C01b) predicts on
                the model state for the operation that triggered it; a miss is a policy divergence only"""
                def preds(r):
                    nl = lambda x: [int(v) for v in x.split(',')] if x != '.' else []
                    return [(nl(t.split('/')[0]), nl(t.split('/')[1])) for t in r.split('|') if '/' in t]
                obs = (sorted(in0), sorted(in1)); hit = False
                if name in ('crange', 'compact') and (name == 'compact' or int(a[1]) == L):
                    b0, e0 = (a[2], a[3]) if name == 'crange' else (a[1], a[2])
                    for p0, p1 in preds(m.ask('p_manual %d %s %s' % (L, man_begin.get(L, b0), e0))):
                        if (sorted(p0), sorted(p1)) == obs:
                            hit = True; man_begin[L] = m.ask('p_lastkey %d' % p0[-1]); break
                if not hit:       # automatic compaction (also interleaved with a manual one): any seed of in0
                    hit = any((sorted(p0), sorted(p1)) == obs for n in in0
                              for p0, p1 in preds(m.ask('p_picked %d %d' % (L, n))))
                key = 'policy_inputs_predicted' if hit else 'policy_inputs_unpredicted'
                res.stats[key] = res.stats.get(key, 0) + 1
                if not hit and res.stats[key] <= 3:
                    res.problem('policy-divergence', call['idx'], op=opline, detail='inputs not predicted by the selection replica',
                                level=L, in0=in0, in1=in1, edit=ed['raw'][:1500])

            def structural(ed):
                """apply one observed edit to the model"""
                res.stats['edits'] += 1
                if ed['rc'] != 0:
                    res.problem('api-error', call['idx'], detail='versions_apply rc=%d' % ed['rc']); return
                for num, t in ed['tables'].items():
                    if t['status'] != 0:
                        res.problem('table-status', call['idx'], table=num, status=t['status'])
                dels, adds = ed['dels'], ed['adds']
                ls = lambda l: ','.join(str(x) for x in l) if l else '.'
                m.ask('e_save')
                is_flush = not dels
                if is_flush:
                    # memtable flush (ldb_compact_memtable): the switch happened earlier in this call
                    res.stats['flush'] += 1
                    r1 = m.ask('e_switch')
                    if adds:
                        # output level vs the replica of ldb_version_pick_level_for_memtable_output (Policy.v)
                        fl = 'predicted' if str(adds[0]['level']) in m.ask('p_flushlevels').split(',') else 'unpredicted'
                        res.stats['policy_flush_' + fl] += 1
                        if fl == 'unpredicted' and res.stats['policy_flush_unpredicted'] <= 3:
                            res.problem('policy-divergence', call['idx'], op=opline, detail='flush level not predicted by the selection replica',
                                        level=adds[0]['level'], edit=ed['raw'][:1500])
                        r2 = m.ask('e_flush %d %d %d' % (adds[0]['level'], adds[0]['num'], ed['vnext']))
                    else:
                        r2 = m.ask('e_flush 0 %d %d' % (ed['vnext'] - 1, ed['vnext']))
                    ok = (r1 == 'ok' and r2 == 'ok' and len(adds) <= 1); why = 'switch=%s flush=%s' % (r1, r2)
                elif len(dels) == 1 and len(adds) == 1 and adds[0]['num'] == dels[0][1] and adds[0]['level'] == dels[0][0] + 1:
                    res.stats['move'] += 1
                    r = m.ask('e_move %d %d' % dels[0]); ok = (r == 'ok'); why = 'move=' + r
                    if ok:
                        m.ask('e_force_nf %d' % ed['vnext'])
                else:
                    res.stats['compact'] += 1
                    L = min(d[0] for d in dels)
                    in0 = [d[1] for d in dels if d[0] == L]; in1 = [d[1] for d in dels if d[0] == L + 1]
                    bad_lvls = [d for d in dels if d[0] not in (L, L + 1)] + [x for x in adds if x['level'] != L + 1]
                    outs = [x['num'] for x in adds]
                    cuts = [entries_count(ed['tables'][n]['entries']) for n in outs][:-1]
                    if bad_lvls:
                        ok = False; why = 'edit touches unexpected levels'
                    else:
                        if len(outs) > 1: res.stats['multi_output'] += 1
                        policy_inputs(L, in0, in1, ed)
                        r = m.ask('e_compact %d %s %s %s %s %d' % (L, ls(in0), ls(in1), ls(cuts), ls(outs), ed['vnext']))
                        ok = (r == 'ok'); why = 'compact=' + r
                if ok:
                    # outputs must be exactly what the model computed
                    for ad in adds:
                        res.stats['files_cmp'] += 1
                        if m.ask('e_file %d' % ad['num']) != ed['tables'][ad['num']]['entries']:
                            ok = False; why = 'file %d content differs from the model-computed output' % ad['num']
                            break
                if ok:
                    res.stats['guarded_steps'] += 1
                else:
                    # not an instance of the proved step: install the observed edit verbatim and judge it
                    # semantically (views at every readable sequence + invariant)
                    m.ask('e_restore')
                    if is_flush:
                        m.ask('e_switch')
                    before = views()
                    if is_flush:
                        m.ask('e_force_imm_none')
                    fadds = ';'.join('%d:%d:%s' % (x['level'], x['num'], ed['tables'][x['num']]['entries']) for x in adds
                                     if ed['tables'][x['num']]['entries'] not in ('.', '')) or '.'
                    m.ask('e_force %s %s' % (','.join('%d:%d' % d for d in dels) or '.', fadds))
                    m.ask('e_force_nf %d' % ed['vnext'])
                    after = views(); inv = m.ask('e_inv')
                    changed = [str(q) for q in before if before[q] != after[q]]
                    if changed:
                        res.problem('view-changed-by-step', call['idx'], op=opline, why=why, sequences=changed, edit=ed['raw'][:1500])
                    elif inv != 'true':
                        res.problem('inv-false-on-observed', call['idx'], op=opline, why=why, edit=ed['raw'][:1500])
                    else:
                        res.stats['policy_divergence'] += 1
                        res.problem('policy-divergence', call['idx'], op=opline, why=why, edit=ed['raw'][:1500])
                # independent decode: the extracted model reader (TableFormat.v) must read the same entries from the bytes
                for num, hx_ in ed.get('tablehex', {}).items():
                    if res.stats.get('tables_decoded_by_model', 0) >= 3: break
                    o = '%x,%x,%x,%x,1,1,1,0,0' % (int(opts.get('block_size', 4096)), int(opts.get('restart', 16)), int(opts.get('compression', 0)), int(opts.get('bloom', 0)))
                    mr = m.ask('table_entries %s %s' % (o, hx_))
                    res.stats['tables_decoded_by_model'] = res.stats.get('tables_decoded_by_model', 0) + 1
                    want = ed['tables'][num]['entries']
                    got = model_entries_to_dump(mr)
                    if got != want:
                        res.problem('table-bytes-vs-independent-reader', call['idx'], file=num, model=(mr[:300] if got is None else got[:300]), implementation=want[:300])
                # metadata recorded in the edit vs decoded content
                for ad in adds:
                    es_ = ed['tables'][ad['num']]['entries']
                    if es_ not in ('.', ''):
                        es_ = es_.split(',')
                        ik = lambda e: ':'.join(e.split(':')[:3])
                        if ad['bounds'] != ik(es_[0]) + '/' + ik(es_[-1]):
                            res.problem('meta-mismatch', call['idx'], file=ad['num'], recorded=ad['bounds'],
                                        actual=ik(es_[0]) + '/' + ik(es_[-1]))

            # ---- lifecycle (C20): lock model, backups, copies, refused opens
            if name in ('open', 'reopen', 'repair', 'close') + LIFE_REOPEN_OPS or name in ('backup', 'bscan', 'lock2', 'rebackup'):
                life = {}
                for l in call.get('life', []):
                    life.setdefault(l.split(' ', 1)[0], []).append(l.split(' ', 1)[1] if ' ' in l else '')
                def kvs(t):
                    return dict(x.split('=', 1) for x in t.split(' ') if '=' in x)
                def other_scan(t):
                    # "open=<rc> <entries> status=<n>" -> (rc, entries, status)
                    head, status = t.rsplit(' status=', 1); o, ents = head.split(' ', 1)
                    return int(o.split('=')[1]), ents, status
                def lock(cmd):
                    return m.ask('%s db' % cmd).split(' ')[0]
                res.stats['life_' + name] = res.stats.get('life_' + name, 0) + 1
                if name == 'close':
                    if lk_open: lock('l_close'); lk_open = False
                elif name == 'lock2' and ret != 'closed':
                    kv = kvs(life['LOCK2'][0]); pred = lock('l_open')
                    if pred != 'locked' or int(kv['rc']) == 0:
                        res.problem('lock-not-exclusive', call['idx'], op=opline, implementation=life['LOCK2'][0], model=pred)
                        if pred.startswith('opened'): lock('l_close'); lock('l_open')
                    if int(kv['held_before']) == 1 and int(kv['held_after']) != 1:
                        res.problem('lock-dropped-by-failed-open', call['idx'], op=opline, implementation=life['LOCK2'][0],
                                    detail='the failed second open released the record lock of the first handle')
                elif name == 'backup' and ret != 'closed':
                    mv = m.ask('e_view -'); kv = kvs(life['BACKUP'][0])
                    if int(kv['rc']) != 0 or 'BSCAN' not in life:
                        res.problem('backup-contents', call['idx'], op=opline, detail='ldb_backup failed: ' + life['BACKUP'][0])
                    else:
                        orc, ents, status = other_scan(life['BSCAN'][0])
                        if orc != 0 or ents != mv or status != '0':
                            res.problem('backup-contents', call['idx'], op=opline, implementation=life['BSCAN'][0][:2000], spec=mv[:2000])
                        backups[int(a[1])] = mv
                elif name == 'rebackup' and ret != 'closed':
                    kv = kvs(life['REBACKUP'][0]); slot = int(a[1]); t = life.get('BSCAN', ['none'])[0]
                    mv = m.ask('e_view -')
                    if int(kv['self']) == 0:
                        res.problem('backup-onto-source-accepted', call['idx'], op=opline, detail='ldb_backup onto the open database\'s own directory returned OK')
                    if slot in backups:
                        if t == 'none':
                            res.problem('backup-not-independent', call['idx'], op=opline, detail='a second backup onto the same target removed the earlier backup (rc=%s)' % kv['rc'])
                        else:
                            orc, ents, status = other_scan(t)
                            want = backups[slot] if int(kv['rc']) != 0 else mv       # refused: untouched; accepted: the new contents
                            if orc != 0 or ents != want or status != '0':
                                res.problem('backup-not-independent', call['idx'], op=opline, implementation=t[:2000], spec=want[:2000],
                                            detail='second backup onto an existing target (rc=%s) damaged it' % kv['rc'])
                            elif int(kv['rc']) == 0: backups[slot] = mv
                    elif int(kv['rc']) == 0 and t != 'none':
                        orc, ents, status = other_scan(t)
                        if orc != 0 or ents != mv or status != '0':
                            res.problem('backup-contents', call['idx'], op=opline, implementation=t[:2000], spec=mv[:2000])
                        else: backups[slot] = mv
                elif name == 'bscan':
                    t = life.get('BSCAN', ['none'])[0]
                    if int(a[1]) in backups:
                        if t == 'none':
                            res.problem('backup-not-independent', call['idx'], op=opline, detail='backup directory disappeared')
                        else:
                            orc, ents, status = other_scan(t)
                            if orc != 0 or ents != backups[int(a[1])] or status != '0':
                                res.problem('backup-not-independent', call['idx'], op=opline, implementation=t[:2000],
                                            spec=backups[int(a[1])][:2000])
                else:
                    # open / reopen / repair / copydb / wrongcmp / failopen: the directory is closed first
                    if lk_open: lock('l_close'); lk_open = False
                    if name == 'copydb':
                        mv = m.ask('e_view -'); kv = kvs(life['COPY'][0])
                        if int(kv['rc']) != 0 or 'COPYSCAN' not in life:
                            res.problem('copy-contents', call['idx'], op=opline, detail='ldb_copy failed: ' + life['COPY'][0])
                        else:
                            orc, ents, status = other_scan(life['COPYSCAN'][0])
                            if orc != 0 or ents != mv or status != '0':
                                res.problem('copy-contents', call['idx'], op=opline, implementation=life['COPYSCAN'][0][:2000], spec=mv[:2000])
                            copies[int(a[1])] = mv
                    elif name == 'recopy':
                        mv = m.ask('e_view -'); kv = kvs(life['RECOPY'][0])
                        if int(kv['first']) != 0:
                            res.problem('copy-contents', call['idx'], op=opline, detail='ldb_copy failed: ' + life['RECOPY'][0])
                        else:
                            if int(kv['held_after']) == 1:
                                res.problem('lock-not-released', call['idx'], op=opline, implementation=life['RECOPY'][0],
                                            detail='after ldb_copy onto an existing target (rc=%s) the source directory is still locked' % kv['rc'])
                            orc, ents, status = other_scan(life['COPYSCAN'][0]) if 'COPYSCAN' in life else (-1, '', '')
                            slot = int(a[1])
                            # refused: the target keeps what the last successful copy put there; accepted (rc 0): the new contents
                            want = mv if (slot not in copies or int(kv['rc']) == 0) else copies[slot]
                            if orc != 0 or ents != want or status != '0':
                                res.problem('copy-contents', call['idx'], op=opline, implementation=life.get('COPYSCAN', [''])[0][:2000], spec=want[:2000],
                                            detail='ldb_copy onto an existing database (rc=%s) damaged it' % kv['rc'])
                            if slot not in copies or int(kv['rc']) == 0: copies[slot] = mv
                    elif name == 'wrongcmp':
                        rc = int(kvs(life['WRONGCMP'][0])['rc'])
                        pred = int(m.ask('open_cmp %s %s' % (('reverse', 'bytewise') if rev else ('bytewise', 'reverse'))))
                        if rc != pred or pred != LDB_INVALID:
                            res.problem('wrongcmp-not-refused', call['idx'], op=opline, implementation=rc, model=pred)
                        if len(life.get('LSDIR', [])) != 2 or life['LSDIR'][0] != life['LSDIR'][1]:
                            res.problem('wrongcmp-modified-files', call['idx'], op=opline, before=life.get('LSDIR', [''])[0][:2000],
                                        after=life.get('LSDIR', ['', ''])[-1][:2000])
                        if lock('l_failed') != 'failed':
                            res.problem('lock-not-released', call['idx'], op=opline, detail='lock model')
                    elif name == 'failopen':
                        rc = int(kvs(life['FAILOPEN'][0])['rc'])
                        if rc == 0:
                            res.problem('api-error', call['idx'], op=opline, detail='ldb_open with error_if_exists=1 succeeded on an existing database')
                        if lock('l_failed') != 'failed':
                            res.problem('lock-not-released', call['idx'], op=opline, detail='lock model')
                    pred = lock('l_open'); lk_open = pred == 'opened'
                    if ret.split(' ')[0] != '0' and pred == 'opened' and name in ('wrongcmp', 'failopen', 'recopy'):
                        res.problem('lock-not-released', call['idx'], op=opline, implementation=ret,
                                    detail='open after a failed open did not succeed')

            # ---- per call
            if name in ('open', 'reopen', 'repair') + LIFE_REOPEN_OPS:
                rkv = dict(t.split('=') for t in ret.split(' ')[1:])
                if ret.split(' ')[0] != '0':
                    res.problem('api-error', call['idx'], detail=name + ' returned ' + ret); break
                edits = list(call['edits'])
                rec_ed = None
                if edits and not edits[0]['dels']:
                    rec_ed = edits.pop(0)         # the edit written by ldb_open itself
                if name == 'repair':
                    res.stats['repair'] = res.stats.get('repair', 0) + 1
                    repaired = True
                    snaps.clear(); iters.clear(); gc_clean = True
                    known = {int(x) for x in m.ask('e_nums').split(',') if x}
                    numbered = [n for n in (call['dir'] or []) if n[:6].isdigit()]
                    ondisk = {int(n.split('.')[0]) for n in numbered if n.endswith('.ldb') or n.endswith('.sst')}
                    if known - ondisk:
                        res.problem('dir-vs-live', call['idx'], detail='table lost by repair', ondisk=sorted(ondisk), live=sorted(known))
                    new = sorted(ondisk - known)
                    repair_new |= set(new)
                    nf0 = max([int(n.split('.')[0]) for n in numbered] + [0]) + 1
                    r = m.ask('e_repair %s %d' % (','.join(map(str, new)) or '.', nf0))
                    if r != 'ok':
                        res.problem('step-not-guarded', call['idx'], detail='repair ' + r, new_tables=new)
                    m.ask('e_force_nf %d' % (rec_ed['vnext'] if rec_ed else int(rkv['vnext'])))
                elif not opened:
                    opened = True
                else:
                    res.stats['reopen'] += 1
                    snaps.clear(); iters.clear(); gc_clean = True
                    # recovery: new level-0 tables from the replayed logs
                    bounds = []; nums = []
                    ed = rec_ed
                    if ed:
                        for ad in ed['adds']:
                            nums.append(ad['num']); bounds.append(max_seq(ed['tables'][ad['num']]['entries']))
                            if ad['level'] != 0:
                                res.problem('layout-mismatch', call['idx'], detail='recovery table not at level 0')
                    nf = ed['vnext'] if ed else int(rkv['vnext'])
                    r = m.ask('e_reopen %s %s %d' % (','.join('%x' % b for b in bounds) or '.', ','.join(map(str, nums)) or '.', nf))
                    if r != 'ok':
                        res.problem('step-not-guarded', call['idx'], detail='reopen ' + r, edit=ed['raw'] if ed else '')
                    elif ed:
                        for ad in ed['adds']:
                            res.stats['files_cmp'] += 1
                            if m.ask('e_file %d' % ad['num']) != ed['tables'][ad['num']]['entries']:
                                res.problem('step-output-differs', call['idx'], detail='recovery table %d' % ad['num'])
                # compactions that ran inside ldb_open
                for ed in edits:
                    structural(ed)
                m.ask('e_force_nf %d' % int(rkv['vnext']))
                continue
            if ret == 'closed' or name == 'close':
                continue

            # reads are answered from the state before any compaction they trigger
            if name == 'get' or name == 'has':
                res.stats['reads'] += 1
                k = a[1]; q = '-' if a[2] == '-' else '%x' % snaps[int(a[2])]
                mg = m.ask('e_get %s %s' % (k, q)); sp = m.ask('e_spec %s %s' % (k, q))
                cret = ret if name == 'get' else ret
                if name == 'has':
                    mg = mg.split(' ')[0]; sp = sp.split(' ')[0]
                if cret != sp:
                    # finding F1 is: after a repair the newest entry sits in a PRE-EXISTING table that is numbered below the
                    # table holding an older one; anything else (e.g. the table made from the log being the stale-losing one) is new
                    f1 = False
                    if repaired and cret == mg:
                        w = m.ask('e_where %s %s' % (k, q))
                        f1 = w.isdigit() and int(w) not in repair_new
                    res.problem('read-vs-spec-after-repair' if f1 else 'read-vs-spec',
                                call['idx'], op=opline, implementation=cret, spec=sp, model_get=mg)
                elif cret != mg:
                    res.problem('replica-divergence', call['idx'], op=opline, implementation=cret, model_get=mg)
            elif name in ('scan', 'rscan'):
                res.stats['scans'] += 1
                q = '-' if a[1] == '-' else '%x' % snaps[int(a[1])]
                mv = m.ask('e_view %s' % q)
                cv, status = split_status(ret)
                if name == 'rscan':
                    mv = ','.join(reversed(mv.split(','))) if mv != '.' else '.'
                if cv != mv or status != '0':
                    res.problem('scan-vs-spec', call['idx'], op=opline, implementation=ret[:2000], spec=mv[:2000])
            elif name == 'iter':
                res.stats['iters'] += 1
                q = '-' if a[1] == '-' else '%x' % snaps[int(a[1])]
                view = parse_view(m.ask('e_view %s' % q))
                exp, _ = script_oracle(view, a[2], rev)
                got, status = split_status(ret)
                if got.split(' ') != exp or status != '0':
                    res.problem('iter-vs-spec', call['idx'], op=opline, implementation=ret[:2000], spec=' '.join(exp)[:2000])
                # the model iterator (DbIter over Merger, Coq replica) on the same script
                mi = m.ask('e_iter %s %s' % (q, a[2]))
                if mi != got and got.split(' ') == exp:
                    res.problem('replica-divergence', call['idx'], op=opline, implementation=got[:2000], model_get=mi[:2000])
            elif name == 'iopen':
                q = '-' if a[2] == '-' else '%x' % snaps[int(a[2])]
                iters[int(a[1]) % 64] = [parse_view(m.ask('e_view %s' % q)), None]
                m.ask('e_iopen %d %s' % (int(a[1]) % 64, q))
            elif name == 'istep':
                res.stats['iters'] += 1
                it = iters.get(int(a[1]) % 64)
                if it is not None:
                    exp, pos = script_oracle(it[0], a[2], rev, it[1]); it[1] = pos
                    got, status = split_status(ret)
                    if got.split(' ') != exp or status != '0':
                        res.problem('iter-vs-spec', call['idx'], op=opline, implementation=ret[:2000], spec=' '.join(exp)[:2000])
                    mi = m.ask('e_istep %d %s' % (int(a[1]) % 64, a[2]))
                    if mi != got and got.split(' ') == exp:
                        res.problem('replica-divergence', call['idx'], op=opline, implementation=got[:2000], model_get=mi[:2000])
            elif name == 'iclose':
                iters.pop(int(a[1]) % 64, None)
                m.ask('e_iclose %d' % (int(a[1]) % 64))

            if name == 'plant': planted = True
            elif any(not (g.get('order') == 'ls' and not g['rm']) for g in call.get('gcs', [])): planted = False
            # ---- structural steps of this call
            for ed in call['edits']:
                structural(ed)
            if call['edits']:
                # a compaction triggered from inside a read runs while that read still pins the old version (like an old
                # iterator): its obsolete-file removal cannot delete the inputs yet
                gc_clean = (not iters) and name not in ('get', 'has', 'scan', 'rscan', 'iter', 'istep', 'iopen')

            # ---- effects of the call itself
            if name in ('put', 'del', 'batch'):
                if ret != '0':
                    res.problem('api-error', call['idx'], op=opline, detail='write returned ' + ret)
                else:
                    if name == 'put': w = 'p%s:%s' % (a[1], a[2])
                    elif name == 'del': w = 'd%s' % a[1]
                    else: w = a[1]
                    m.ask('e_write %s' % w)
            elif name == 'snap':
                if ret.startswith('snap '):
                    _, idx, seq = ret.split(' ')
                    r = m.ask('e_snapshot')
                    if r != 'ok ' + seq:
                        res.problem('read-vs-spec', call['idx'], op=opline, implementation=ret, spec=r, detail='snapshot sequence')
                    snaps[int(idx)] = int(seq, 16)
            elif name == 'release':
                if ret.startswith('released '):
                    seq = int(ret.split(' ')[1], 16)
                    m.ask('e_release %x' % seq); snaps.pop(int(a[1]), None)
            elif name == 'layout' and call['layout']:
                res.stats['inv_checks'] += 1
                inv = m.ask('e_inv')
                if inv != 'true':
                    res.problem('inv-false-on-observed', call['idx'], detail='model invariant false at quiescent point')
                ml = m.ask('e_layout')
                kv = dict(t.split('=', 1) for t in call['layout'].split(' '))
                mkv = dict(t.split('=', 1) for t in ml.split(' '))
                for L in range(7):
                    cn = [int(t.split(':')[0]) for t in kv['L%d' % L].split(',')] if kv['L%d' % L] != '.' else []
                    mn = [int(t) for t in mkv['L%d' % L].split(',')] if mkv['L%d' % L] != '.' else []
                    if (sorted(cn) != sorted(mn)) or (L > 0 and cn != mn):
                        res.problem('layout-mismatch', call['idx'], level=L, implementation=cn, model=mn)
                if int(kv['lastseq'], 16) != int(mkv['lastseq'], 16):
                    res.problem('layout-mismatch', call['idx'], detail='last sequence', implementation=kv['lastseq'], model=mkv['lastseq'])
                # the bytes of the current MANIFEST replayed by the replica of ldb_versions_recover (ManifestReplay.v)
                if call.get('manifesthex'):
                    manifest_replay_compare(m, rev, call, kv, res)
                # directory must hold exactly the live tables (C13 uses this too)
                live = set()
                for L in range(7):
                    if kv['L%d' % L] != '.':
                        live |= {int(t.split(':')[0]) for t in kv['L%d' % L].split(',')}
                ondisk = {int(n.split('.')[0]) for n in (call['dir'] or []) if n.endswith('.ldb') or n.endswith('.sst')}
                if not iters and gc_clean and not planted and ondisk != live:
                    res.problem('dir-vs-live', call['idx'], ondisk=sorted(ondisk), live=sorted(live))
                elif live - ondisk:
                    res.problem('dir-vs-live', call['idx'], ondisk=sorted(ondisk), live=sorted(live), detail='live file missing')
    finally:
        res.stats['model_cmds'] += m.n
        m.close()
    return res

