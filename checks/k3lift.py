"""k3lift.py -- lifting of REAL syscall traces (harness/iowrap.h) to the record-level
traces of coq/theories/FsModel.v (tie K3, model side).

  lift(evs, shadow_dir, model, calls, ops, opts) -> Lifted(text, posmap, ...)

* the bytes written to every *.log / MANIFEST-* are cut into log records: fragment
  boundaries are located here (32 KiB blocks, 7-byte headers), the record payloads are
  cross-checked against the extracted reader (`logread`, cmd_core.ml); a record is
  "appended" by the W event that completes its last fragment;
* batches are decoded with `batch_hdr` / `batch_iter`, edits with `edit_import` (cmd_meta.ml);
* a table is decoded from its complete bytes with `table_entries` (cmd_table.ml) at its fsync /
  close and counts as appended by its last write(2);
* n.dbtmp: one record naming the MANIFEST once the newline is written;
* ECall / EAck: the A/Z markers of 'batch' operations joined with the harness stdout
  (acknowledged OK iff RET is 0).
Values are abstracted to short digests (the L1 model never looks inside a value)."""
import os, re, hashlib, struct

BLOCK = 32768

def fname_of(name):
    m = re.match(r'^(\d+)\.log$', name)
    if m: return 'L%d' % int(m.group(1))
    m = re.match(r'^(\d+)\.(ldb|sst)$', name)
    if m: return 'T%d' % int(m.group(1))
    m = re.match(r'^MANIFEST-(\d+)$', name)
    if m: return 'M%d' % int(m.group(1))
    m = re.match(r'^(\d+)\.dbtmp$', name)
    if m: return 'X%d' % int(m.group(1))
    if name == 'CURRENT': return 'CUR'
    return None

def vtok(v):
    if len(v) == 0: return '-'
    if len(v) <= 6: return v.hex()
    return 'h' + hashlib.sha1(v).hexdigest()[:12]

def khex(b): return b.hex() if b else '-'

def pattern(tok):
    if tok == '-': return b''
    if tok[0] == '@':
        ln, seed = tok[1:].split(':'); ln = int(ln); seed = int(seed)
        return bytes((seed + i * 31 + (i // 251)) & 255 for i in range(ln))
    return bytes.fromhex(tok)

def call_wops(opline):
    """'batch p<k>:<valtok>,d<k> <sync>' -> (wops text, sync)"""
    a = opline.split(' ')
    out = []
    for t in ([] if a[1] in ('.', '') else a[1].split(',')):
        if t[0] == 'p':
            k, v = t[1:].split(':', 1)
            out.append('p%s:%s' % (k, vtok(pattern(v))))
        else:
            out.append('d%s' % t[1:])
    return ','.join(out) if out else '.', (len(a) > 2 and a[2] == '1')

def cut_records(data):
    """[(end_offset, payload)] of the complete records of a log-format file (no checksum test here;
    the payload list is compared with the extracted reader by the caller)."""
    recs = []; off = 0; cur = None; n = len(data)
    while True:
        left = BLOCK - (off % BLOCK)
        if left < 7:
            off += left
            continue
        if off + 7 > n: break
        ln = data[off + 4] | (data[off + 5] << 8); ty = data[off + 6]
        if off + 7 + ln > n: break
        frag = data[off + 7: off + 7 + ln]
        off += 7 + ln
        if ty == 1: recs.append((off, bytes(frag))); cur = None
        elif ty == 2: cur = bytearray(frag)
        elif ty == 3 and cur is not None: cur += frag
        elif ty == 4 and cur is not None: cur += frag; recs.append((off, bytes(cur))); cur = None
        else: break
    return recs

class LiftError(Exception):
    pass

class Lifted:
    def __init__(self):
        self.events = []        # abstract event texts
        self.posmap = [0]       # posmap[i] = abstract events produced by real events [0, i)
        self.notes = []
        self.batch_of_call = {} # call index -> (log fname, seqhex)
    @property
    def text(self):
        return ';'.join(self.events) if self.events else '.'

def decode_batch(model, rec):
    h = model.ask('batch_hdr %s' % khex(rec))
    if h == 'short': raise LiftError('log record shorter than a batch header')
    seq, cnt = h.split(' ')
    it = model.ask('batch_iter %s' % khex(rec))
    st, ops = it.split(' ', 1)
    if st != 'ok': raise LiftError('undecodable batch in log')
    out = []
    if ops != '.':
        for t in ops.split(','):
            if t[0] == 'p':
                k, v = t[1:].split(':')
                out.append('p%s:%s' % (k, vtok(bytes.fromhex(v) if v != '-' else b'')))
            else:
                out.append('d%s' % t[1:])
    if len(out) != int(cnt, 16): raise LiftError('batch count mismatch')
    return 'b%s=%s' % (seq, ','.join(out) if out else '.')

def decode_edit(model, rec):
    d = model.ask('edit_import %s' % khex(rec))
    if d == 'fail': raise LiftError('undecodable edit in MANIFEST')
    kv = dict(t.split('=', 1) for t in d.split(' '))
    items = []
    if kv['l'] != 'none': items.append('l%d' % int(kv['l'], 16))
    if kv['p'] != 'none': items.append('p%d' % int(kv['p'], 16))
    if kv['n'] != 'none': items.append('n%d' % int(kv['n'], 16))
    if kv['s'] != 'none': items.append('s%s' % kv['s'])
    if kv['new'] != '.':
        for t in kv['new'].split(','):
            f = t.split(':'); items.append('+%d.%d' % (int(f[0], 16), int(f[1], 16)))
    if kv['del'] != '.':
        for t in kv['del'].split(','):
            f = t.split(':'); items.append('-%d.%d' % (int(f[0], 16), int(f[1], 16)))
    return 'e' + ','.join(items)

def decode_table(model, data, opts):
    """entries text of a complete table, or None when the bytes are not a readable table"""
    o = '1000,10,0,%x,0,0,1' % int(opts.get('bloom', 0))
    r = model.ask('table_entries %s %s' % (o, khex(data)))
    if not r.endswith(' ok'): return None
    body = r[:-3]
    if body == '.': return '.'
    out = []
    for kvp in body.split(','):
        k, v = kvp.split('=')
        ik = bytes.fromhex(k)
        tag = struct.unpack('<Q', ik[-8:])[0]
        out.append('%s:%x:%d:%s' % (khex(ik[:-8]), tag >> 8, tag & 0xff, vtok(bytes.fromhex(v) if v != '-' else b'')))
    return ','.join(out)

class _Obj:
    __slots__ = ('fn', 'handle', 'written', 'recs', 'next', 'kind', 'last_w', 'table_done', 'data')
    def __init__(self, fn, handle, base):
        self.fn = fn; self.handle = handle; self.written = base; self.recs = None; self.next = 0
        self.kind = fn[0]; self.last_w = None; self.table_done = False; self.data = None

def lift(evs, shadow, model, calls, ops, opts, decode_tables=True):
    L = Lifted()
    # ---- pass 0: final handle of every object, table completion points
    objs = {}       # handle -> _Obj
    byname = {}     # real name -> _Obj
    order = []
    for i, e in enumerate(evs):
        k = e['k']
        if k == 'C':
            fn = fname_of(e['name'])
            if fn is None: continue
            if e['mode'] == 'a' and e['name'] in byname:
                o = byname[e['name']]; o.handle = e['id']
            else:
                o = _Obj(fn, e['id'], e['size'] if e['mode'] == 'a' else 0)
                byname[e['name']] = o; order.append(o)
            objs[e['id']] = o
        elif k == 'R':
            if e['a'] in byname: byname[e['b']] = byname.pop(e['a'])
        elif k == 'U':
            byname.pop(e['name'], None)
    def content(o):
        if o.data is None:
            try:
                with open(os.path.join(shadow, str(o.handle)), 'rb') as f: o.data = f.read()
            except OSError:
                o.data = b''
        return o.data
    # log-format files: record boundaries + cross-check with the extracted reader
    for o in order:
        if o.kind in ('L', 'M'):
            data = content(o)
            o.recs = cut_records(data)
            if data:
                r = model.ask('logread 1 %s' % khex(data))
                got = [t[1:] for t in r.split(' ') if t.startswith('R')] if r != '.' else []
                mine = [khex(p) for (_, p) in o.recs]
                if got[:len(mine)] != mine or len(got) > len(mine) + 1:
                    raise LiftError('record boundaries of %s disagree with the extracted log reader' % o.fn)
    # ---- pass 1: where is each table complete (its last write before the first fsync/close)
    objs = {}; byname = {}
    table_at = {}   # real event index of the completing W -> payload text
    tabs = {}
    for i, e in enumerate(evs):
        k = e['k']
        if k == 'C':
            fn = fname_of(e['name'])
            if fn and fn[0] == 'T':
                tabs[e['id']] = {'fn': fn, 'last_w': None, 'done': False, 'len': 0}
        elif k == 'W' and e['id'] in tabs:
            t = tabs[e['id']]
            if not t['done']: t['last_w'] = i; t['len'] += e['len']
        elif k in ('S', 'X') and e['id'] in tabs:
            t = tabs[e['id']]
            if not t['done'] and t['last_w'] is not None:
                t['done'] = True
                with open(os.path.join(shadow, str(e['id'])), 'rb') as f: data = f.read()
                ents = decode_table(model, data[:t['len']], opts) if decode_tables else '.'
                if ents is None:
                    L.notes.append('table %s is not readable at its fsync/close' % t['fn'])
                else:
                    table_at[t['last_w']] = 'W/%s/t%s' % (t['fn'], ents)
    # ---- pass 2: emit
    callops = {}
    for ci, op in enumerate(ops):
        if op.startswith('batch '): callops[ci] = call_wops(op)
    handles = {}; byname = {}
    it = iter(order)
    for i, e in enumerate(evs):
        k = e['k']
        if k == 'C':
            fn = fname_of(e['name'])
            if fn is not None:
                if e['mode'] == 'a' and e['name'] in byname:
                    handles[e['id']] = byname[e['name']]
                else:
                    o = next(it); byname[e['name']] = o; handles[e['id']] = o
                    if e['mode'] != 'a': L.events.append('C/' + fn)
                    else: L.notes.append('%s opened for append without a known creation' % fn)
        elif k == 'W':
            o = handles.get(e['id'])
            if o is not None:
                o.written += e['len']
                if o.kind in ('L', 'M'):
                    while o.next < len(o.recs) and o.recs[o.next][0] <= o.written:
                        rec = o.recs[o.next][1]; o.next += 1
                        L.events.append('W/%s/%s' % (o.fn, decode_batch(model, rec) if o.kind == 'L' else decode_edit(model, rec)))
                elif o.kind == 'T':
                    if i in table_at: L.events.append(table_at[i])
                elif o.kind == 'X':
                    data = content(o)[:o.written]
                    m = re.match(rb'^MANIFEST-(\d+)\n$', data)
                    if m and not o.table_done:
                        o.table_done = True
                        L.events.append('W/%s/c%d' % (o.fn, int(m.group(1))))
        elif k == 'S':
            o = handles.get(e['id'])
            if o is not None: L.events.append('S/' + o.fn)
        elif k == 'D':
            L.events.append('D')
        elif k == 'R':
            a, b = fname_of(e['a']), fname_of(e['b'])
            if a is not None and b is not None:
                L.events.append('R/%s/%s' % (a, b))
                if e['a'] in byname:
                    o = byname.pop(e['a']); o.fn = b; byname[e['b']] = o
        elif k == 'U':
            fn = fname_of(e['name'])
            if fn is not None:
                L.events.append('U/' + fn); byname.pop(e['name'], None)
        elif k == 'A':
            if e['call'] in callops:
                w, sy = callops[e['call']]
                L.events.append('A/%d/%d/%s' % (e['call'], 1 if sy else 0, w))
        elif k == 'Z':
            if e['call'] in callops:
                ret = calls[e['call']]['ret'] if e['call'] < len(calls) else None
                L.events.append('Z/%d/%d' % (e['call'], 1 if ret == '0' else 0))
        L.posmap.append(len(L.events))
    return L
