"""C12 -- I/O failures are reported and never cost acknowledged data.
Tie: K3 with fault injection in the libc wrappers: for each history the k-th intercepted call
fails (one-shot or persistently, ENOSPC / EIO, optionally after a partial write); oracles: no
crash/hang, reads stay plausible, and after close-or-kill + reopen with the fault cleared every
acknowledged batch is present and contents are whole batches in order."""
import os, shutil, subprocess, json
from concurrent.futures import ThreadPoolExecutor
import vlib, k3lib, k2lib

def plausible_reads(batches, info, upto_op):
    """per key: set of values a correct read may return right before op index upto_op"""
    poss = {}
    for b, x in zip(batches, info):
        if b['op_index'] >= upto_op: break
        for k, v in b['updates']:
            if x['acked']: poss[k] = {v}
            else: poss.setdefault(k, {None}).add(v)      # failed write: may or may not be visible
    return poss

def latch_case(evs, ops, calls, fail):
    """The session in which the FIRST injected fault hit an append or fsync of the write-ahead log inside a
    write call, as a case for the extracted model of the write path's error latch (WriteLatch.v):
    returns (case string, observed acknowledgement string, op indices) or None when the fault was elsewhere."""
    if int(fail.split(':')[3]) == 2: return None                 # a short but successful write is not a failure
    cur = None; hit = None
    for e in evs:
        if e['k'] == 'A': cur = e['call']
        elif e['k'] == 'Z': cur = None
        elif e['k'] == 'F': hit = (e, cur); break
    if hit is None: return None
    e, c = hit
    if c is None or c >= len(ops) or not ops[c].startswith('batch ') or not e['name'].endswith('.log'): return None
    if e['what'] not in ('write', 'fsync'): return None
    sync = lambda i: ops[i].split(' ')[-1] == '1'
    if e['what'] == 'fsync' and not sync(c): return None
    start = max(i for i in range(c + 1) if ops[i] in ('open', 'reopen'))
    end = min([i for i in range(c + 1, len(ops)) if ops[i] == 'reopen'] + [len(ops)])
    idx = [i for i in range(start + 1, end) if ops[i].startswith('batch ')]
    if any(i >= len(calls) or calls[i]['ret'] is None for i in idx): return None      # run died: reported as crash/hang
    parts = []
    for i in idx:
        if i != c: parts.append('%d:o:1' % sync(i))
        elif e['what'] == 'fsync': parts.append('1:o:0')
        else: parts.append('%d:%s:1' % (sync(i), 'p' if int(fail.split(':')[3]) == 1 else 'n'))
    return (','.join(parts), ''.join('1' if calls[i]['ret'] == '0' else '0' for i in idx), idx, idx.index(c))

def one_fault_run(args):
    k3, k2, work, opts, ops, batches, fail, tag = args
    os.makedirs(work, exist_ok=True)
    db = os.path.join(work, 'db')
    rc, out, err, evs, shadow = k3lib.run_traced(k3, db, opts, ops, work, fail=fail, timeout=30)
    calls = k2lib.parse_trace(out)
    problems = []
    injected = sum(1 for e in evs if e['k'] == 'F')
    where = {'fail': fail, 'tag': tag}
    if rc == -999:
        problems.append(dict(where, kind='hang', detail='history did not finish within 30 s'))
    elif rc != 0:
        problems.append(dict(where, kind='crash', detail='exit %d %s' % (rc, err[-300:])))
    info = k3lib.batch_positions(evs, ops, batches, calls)
    # reads during the run
    for c, opline in zip(calls, ops):
        if c['name'] == 'get' and c['ret']:
            k = bytes.fromhex(opline.split(' ')[1]) if opline.split(' ')[1] != '-' else b''
            poss = plausible_reads(batches, info, c['idx']).get(k, {None})
            r = c['ret']
            if r.startswith('err') or r == 'closed': continue
            got = r.split(' ', 1)[1] if r.startswith('found') else None
            if got not in poss:
                problems.append(dict(where, kind='wrong-read-under-fault', detail='get %s returned %s, plausible %s' % (k.hex(), r, sorted(map(str, poss)))))
    # after the fault has cleared: (a) the directory as left by the clean close, (b) a kill at the end
    acked = {i for i, x in enumerate(info) if x['acked']}
    issued = {i for i, x in enumerate(info) if x['a'] is not None}
    endp = len(evs)
    for i, e in enumerate(evs):
        if e['k'] == 'A' and e['op'] == 'exit-close': endp = i
    for variant in ('closed', 'killed'):
        dst = os.path.join(work, 'reopen')
        if variant == 'closed':
            if os.path.exists(dst): shutil.rmtree(dst)
            if not os.path.isdir(db): continue
            shutil.copytree(db, dst)
            if not os.path.exists(os.path.join(dst, 'CURRENT')): continue
            r = subprocess.run([k2, dst] + ['%s=%s' % kv for kv in sorted(opts.items())], input=b'open\nscan -\n', capture_output=True, timeout=60)
            rcalls = k2lib.parse_trace(r.stdout.decode('latin1')); shutil.rmtree(dst, ignore_errors=True)
        else:
            img = k3lib.image_at(evs, shadow, endp, 'written')
            if 'CURRENT' not in img: continue
            _, rcalls, _ = k3lib.recover_and_read(k2, img, shadow, dst, opts)
        if len(rcalls) < 2 or rcalls[0]['ret'] is None:
            problems.append(dict(where, kind='reopen-crash', variant=variant)); continue
        if rcalls[0]['ret'].split(' ')[0] != '0':
            if acked:
                problems.append(dict(where, kind='reopen-failed', variant=variant, detail=rcalls[0]['ret'], acked=len(acked)))
            continue
        content, st = k3lib.scan_to_map(rcalls[1]['ret'])
        present = {i for i, b in enumerate(batches) if b['updates'][0][0] in content}
        if st != '0':
            problems.append(dict(where, kind='scan-error-after-reopen', variant=variant))
        elif not acked <= present:
            problems.append(dict(where, kind='acked-lost', variant=variant, detail='acknowledged batches missing after reopen: %s' % sorted(acked - present)[:10]))
        elif k3lib.apply_batches(batches, present) != content or not present <= issued:
            problems.append(dict(where, kind='contents-not-whole-batches', variant=variant))
    shutil.rmtree(work, ignore_errors=True)
    try:
        latch = latch_case(evs, ops, calls, fail) if rc == 0 else None
    except Exception:
        latch = None
    return {'problems': problems, 'injected': injected, 'acked': len(acked), 'failed_writes': len(issued - acked), 'latch': latch}

def multi_output_history(rng, opts):
    """A history whose manual compactions write SEVERAL output tables each: a 4 MiB write buffer, ~2.6 MB of
    distinct 60 kB values flushed as one table, then level-by-level compaction with 1 MiB outputs."""
    opts = dict(opts, write_buffer=4 << 20, max_file_size=1 << 20)
    ops = ['open']; batches = []
    n = rng.range(40, 48)
    for bi in range(n):
        ups = [(b'm%05d' % bi, '@%d:%d' % (rng.range(1, 40), bi % 256)), (b'k%05d' % bi, '@%d:%d' % (rng.range(55000, 65000), rng.below(256)))]
        sync = rng.chance(1, 3)
        parts = ','.join('p%s:%s' % (k3lib.khex(k), v) for k, v in ups)
        ops.append('batch %s %d' % (parts, 1 if sync else 0))
        batches.append({'op_index': len(ops) - 1, 'sync': sync, 'updates': ups})
    ops += ['flush', 'layout', 'compact * *', 'layout', 'get %s -' % k3lib.khex(b'k00001'), 'get %s -' % k3lib.khex(b'k%05d' % (n - 1))]
    # a second round over the same keys so that the next compaction merges two levels
    for bi in range(n, n + 6):
        ups = [(b'm%05d' % bi, '@%d:%d' % (rng.range(1, 40), bi % 256)), (b'k%05d' % (bi - n), '@%d:%d' % (rng.range(55000, 65000), rng.below(256)))]
        parts = ','.join('p%s:%s' % (k3lib.khex(k), v) for k, v in ups)
        ops.append('batch %s 1' % parts)
        batches.append({'op_index': len(ops) - 1, 'sync': True, 'updates': ups})
    ops += ['flush', 'compact * *', 'layout', 'reopen', 'get %s -' % k3lib.khex(b'k00003')]
    return ops, batches, opts

def classify(p, opts):
    if p['kind'] == 'acked-lost' and 'write' in p.get('tag', ''):
        return 'C12:acked-lost-after-transient-log-write-failure'
    return None

def run(rep, tier, seed):
    pr = vlib.coq_check('C12'); rep.add_proof(pr)
    if not pr['ok']:
        rep.violation({'kind': 'proof-broken', 'log': pr['log'][-3000:], 'forbidden': pr['forbidden']}, suffix='no-failing-input-found')
    out = vlib.scratch_dir(); lib = vlib.build_lib(out, 'nothread')
    k3 = vlib.build_k3(out, 'nothread', lib=lib); k2 = vlib.build_k2(out, 'nothread', lib=lib)
    rng = vlib.Rng(seed ^ 0xFA17)
    nhist = 3 if tier == 'quick' else 60
    jobs = []; hist = {'one-shot': 0, 'persistent': 0, 'ENOSPC': 0, 'EIO': 0, 'partial': 0}
    sites = {}
    nmulti = 1 if tier == 'quick' else 4
    for h in range(nhist + nmulti):
        opts = {'write_buffer': 65536, 'reuse_logs': rng.below(2), 'paranoid': rng.below(2), 'mmap': h % 2, 'cache': 0 if h % 2 == 0 else -1}
        multi = h >= nhist
        if multi:
            ops, batches, opts = multi_output_history(rng, opts)
        else:
            ops, batches = k3lib.gen_write_history(rng, nops=26 if tier == 'quick' else 50, reopen=True, more_gets=True)
        ops = ops + ['get %s -' % k3lib.khex(k) for k in (b'a', b'b', b'ab', b'ba', b'\xffk', b'', b'q' * 30)]
        work = os.path.join(out, 'base%d' % h)
        os.makedirs(work, exist_ok=True)
        rc, o, e, evs, sh = k3lib.run_traced(k3, os.path.join(work, 'db'), opts, ops, work, fail='999999999:5:0:0', logidx=True)
        shutil.rmtree(work, ignore_errors=True)
        n_sites = max([int(l.split(' ')[1]) for l in o.split('\n') if l.startswith('SITES ')] + [0])
        sites['h%d' % h] = n_sites
        # fault-site map: aim at the case splits -- non-final fragments of multi-fragment log records,
        # MANIFEST appends/syncs, table reads, directory syncs -- and sample the rest
        site_list = []; cur = None; run = []
        for ev in evs:
            if ev['k'] in ('A', 'Z'):
                cur = ev['call'] if ev['k'] == 'A' else None
            elif ev['k'] == 'I':
                site_list.append((ev['idx'], ev['what'], ev['name'], cur))
        hot = set(); must = set()
        by_call = {}
        for (ix, what, name, call) in site_list:
            if what == 'write' and name.endswith('.log'): by_call.setdefault(call, []).append(ix)
            if what in ('read', 'pread', 'mmap') and name.endswith('.ldb') and len(hot) < 400 and rng.chance(1, 6): hot.add(ix)
            if what in ('read', 'pread') and name.endswith('.ldb') and call is not None and call < len(ops) and ops[call].startswith('get '): hot.add(ix)
            if (name.startswith('MANIFEST') or name.endswith('.dbtmp')) and what in ('write', 'fsync', 'open', 'close'): hot.add(ix)
            if what == 'fsync' and name == '.': hot.add(ix)
            if name.endswith('.dbtmp') and len(must) < 24: must.add(ix)      # the CURRENT switch: few sites, always tried
        for call, ixs in by_call.items():
            if len(ixs) >= 2: hot.update(ixs[:-1])
        if multi:
            # every write/fsync/close/open on an output table of the multi-output compactions: the error of a
            # NON-final output must abort the compaction just like that of the final one
            hot = set(); tw = []
            for (ix, what, name, call) in site_list:
                if name.endswith('.ldb') and what in ('write', 'fsync', 'close', 'open') and call is not None and call < len(ops) and ops[call].split(' ')[0] in ('compact', 'crange'):
                    tw.append(ix)
            must |= set(tw if len(tw) <= 60 else [tw[i * len(tw) // 60] for i in range(60)] + tw[-6:])
            # the write carrying the footer is the last write before each fsync of an .ldb
            prev = None
            for (ix, what, name, call) in site_list:
                if what == 'fsync' and name.endswith('.ldb') and prev is not None: must.add(prev)
                if what == 'write' and name.endswith('.ldb'): prev = ix
        ks = list(range(0, n_sites))
        limit = 90 if tier == 'quick' else 600
        rest = [k for k in ks if k not in hot]
        hot = sorted(hot)
        while len(hot) > limit // 2: hot.pop(rng.below(len(hot)))
        pick = sorted(set(hot) | must)
        while len(pick) < limit and rest: pick.append(rest.pop(rng.below(len(rest))))
        ks = sorted(pick)
        hist['targeted_sites'] = hist.get('targeted_sites', 0) + len(hot)
        for k in ks:
            pers = rng.chance(1, 3); en = rng.choice([28, 5]); part = rng.choice([0, 0, 0, 1, 2])      # 2 = short (successful) write
            hist['persistent' if pers else 'one-shot'] += 1; hist['ENOSPC' if en == 28 else 'EIO'] += 1; hist['partial'] += int(part == 1); hist['short_write'] = hist.get('short_write', 0) + int(part == 2)
            jobs.append((k3, k2, os.path.join(out, 'f%d_%d' % (h, len(jobs))), opts, ops, batches,
                         '%d:%d:%d:%d' % (k, en, int(pers), int(part)), 'h%d' % h))
    with ThreadPoolExecutor(vlib.NCPU) as ex:
        results = list(ex.map(one_fault_run, jobs))
    inj = 0; reported = 0
    for job, r in zip(jobs, results):
        rep.evaluated(1)
        if r['injected']:
            inj += 1; rep.nontrivial((job[6], job[7]))
        for p in r['problems']:
            sig = None
            if p['kind'] == 'acked-lost':
                sig = 'C12:acked-lost-after-io-failure'
            if reported < 3 or sig:
                if rep.violation({'kind': 'K3-fault-' + p['kind'], 'problem': p, 'options': job[3], 'history': job[4], 'fail': job[6]}, signature=None):
                    reported += 1
    # the write path's error latch: the real acknowledgements of the session in which a log append / fsync failed
    # must be those of the extracted model (Properties_C12: reported, latched, OK... up to the failing call only)
    lat = [(job, r['latch']) for job, r in zip(jobs, results) if r.get('latch')]
    if lat:
        mo = vlib.run_lines(vlib.ensure_model(), ['latch_case ' + (l[0] or '.') for _, l in lat])
        nbad = 0
        for (job, l), m in zip(lat, mo):
            want = dict(x.split('=') for x in m.split(' ') if '=' in x).get('acks')
            if want == l[1]: continue
            nbad += 1
            if nbad > 3: continue
            at = l[3]
            # the failing call itself acknowledged: an unreported I/O failure (a concrete violation); any other
            # difference is a disagreement with the proved model of ldb_write whose damage the reopen oracles decide
            concrete = l[1][at] == '1' or any(p['kind'] == 'acked-lost' for p in results[jobs.index(job)]['problems'])
            rep.violation({'kind': 'latch-vs-model', 'problem': {'kind': 'failure-not-reported' if l[1][at] == '1' else 'acks-differ-from-model',
                           'model_acks': want, 'real_acks': l[1], 'session_write_ops': l[2], 'failing_write': l[2][at], 'model_line': m},
                           'options': job[3], 'history': job[4], 'fail': job[6],
                           'theorems': ['C12_failing_write_is_reported_and_latched', 'C12_session_acks_shape']},
                          suffix='' if concrete else 'no-failing-input-found')
    rep.cov['latch_sessions_compared_with_model'] = len(lat)
    rep.cov['latch_sessions_by_fault'] = {k: sum(1 for _, l in lat if (':' + k + ':') in l[0] or (k == 'fsync' and '1:o:0' in l[0])) for k in ('p', 'n', 'fsync')}
    rep.cov['fault_runs_with_injection'] = inj
    rep.cov['input_distribution'] = hist
    rep.cov['fault_sites_per_history'] = sites
    rep.cov['traces_validated_against_impl'] = len(results)
    rep.sample({'fail_spec': jobs[0][6] if jobs else None, 'ops_head': [o[:100] for o in jobs[0][4][:6]] if jobs else None})
    rep.cov['rule'] = ('for each write/flush/compaction/reopen history, the k-th intercepted libc call (open, write, fsync, rename, unlink, close, '
                       'mkdir, link, read, pread, mmap) fails, for sampled k over the whole run x {one-shot, persistent} x {ENOSPC, EIO} x {with/without '
                       'partial write}; after clean close and after a kill, reopen without faults must show every acknowledged batch; '
                       'distinct_nontrivial = runs in which a fault was actually injected')

def replay(rep, path):
    print(open(path).read()[:3000]); return 1
